(** C06/RepoFacts.v — [addRulesTo] / [removeRulesFrom] of the repository on the
    abstract index, in terms of the represented route list. *)
From HV Require Import Base.Prelude C06.Pat C06.Model C06.DbFacts C06.ReprFacts.

(** ** equality tests *)

Lemma nat_list_eqb_eq a b : list_eqb Nat.eqb a b = true <-> a = b.
Proof. apply list_eqb_spec. apply Nat.eqb_eq. Qed.

Lemma str_list_eqb_eq a b : list_eqb str_eqb a b = true <-> a = b.
Proof. apply list_eqb_spec. apply str_eqb_eq. Qed.

Lemma rdef_eqb_eq a b : rdef_eqb a b = true <-> a = b.
Proof.
  unfold rdef_eqb. rewrite !andb_true_iff, !Nat.eqb_eq, nat_list_eqb_eq, str_list_eqb_eq, Bool.eqb_true_iff.
  destruct a, b; simpl. split.
  - intros [[[[[? ?] ?] ?] ?] ?]. congruence.
  - intro H. inversion H. tauto.
Qed.

Lemma rdef_eqb_refl a : rdef_eqb a a = true.
Proof. apply rdef_eqb_eq. reflexivity. Qed.

Lemma rule_eqb_eq a b : rule_eqb a b = true <-> a = b.
Proof.
  unfold rule_eqb. rewrite andb_true_iff, Nat.eqb_eq, rdef_eqb_eq. destruct a, b; simpl. split.
  - intros [? ?]. congruence.
  - intro H. inversion H. tauto.
Qed.

Lemma mem_rule_in r l : mem_rule r l = true <-> In r l.
Proof.
  unfold mem_rule. rewrite existsb_exists. split.
  - intros (x & Hx & E). apply rule_eqb_eq in E. subst. exact Hx.
  - intro H. exists r. split; [exact H | apply rule_eqb_eq; reflexivity].
Qed.

Lemma mem_rule_false r l : mem_rule r l = false <-> ~ In r l.
Proof.
  split.
  - intros H Hin. apply mem_rule_in in Hin. congruence.
  - intro H. destruct (mem_rule r l) eqn:E; [|reflexivity]. apply mem_rule_in in E. contradiction.
Qed.

Definition rkey (r : rule) : nat * nat := (r_src r, d_id (r_def r)).

Lemma sameas_key a b : sameas a b = true <-> rkey a = rkey b.
Proof.
  unfold sameas, rkey. rewrite andb_true_iff, !Nat.eqb_eq. split.
  - intros [? ?]. congruence.
  - intro H. inversion H. tauto.
Qed.

Lemma sameas_refl a : sameas a a = true.
Proof. apply sameas_key. reflexivity. Qed.

Lemma sameas_sym a b : sameas a b = sameas b a.
Proof. unfold sameas. rewrite (Nat.eqb_sym (d_id (r_def a))), (Nat.eqb_sym (r_src a)). reflexivity. Qed.

Lemma equalto_eq a b : equalto a b = true <-> a = b.
Proof.
  unfold equalto. rewrite andb_true_iff, rdef_eqb_eq, sameas_key. split.
  - intros [K E]. destruct a, b. unfold rkey in K. simpl in *. inversion K. congruence.
  - intro; subst. tauto.
Qed.

(** ** the routes of a list of rules *)

Definition routes (rs : list rule) : list route := flat_map routes_of rs.

Lemma routes_of_in r x : In x (routes_of r) -> rt_rule x = r /\ In (rt_path x) (d_paths (r_def r)).
Proof.
  unfold routes_of. rewrite in_map_iff. intros ([i e] & E & H). subst x. simpl. split; [reflexivity|].
  apply in_combine_r in H. exact H.
Qed.

Lemma routes_of_rule r x : In x (routes_of r) -> rt_rule x = r.
Proof. intro H. apply routes_of_in in H. tauto. Qed.

Lemma map_rt_path r : map rt_path (routes_of r) = d_paths (r_def r).
Proof.
  unfold routes_of. rewrite map_map. simpl.
  generalize 0. induction (d_paths (r_def r)) as [|e l IH]; intro n; simpl; [reflexivity|].
  f_equal. apply IH.
Qed.

Lemma routes_of_ex r e : In e (d_paths (r_def r)) -> exists x, In x (routes_of r) /\ rt_path x = e.
Proof.
  rewrite <- (map_rt_path r). rewrite in_map_iff. intros (x & E & H). exists x. tauto.
Qed.

Lemma NoDup_routes_of r : NoDup (routes_of r).
Proof.
  unfold routes_of. apply (NoDup_map_inv (fun x => rt_idx x)). rewrite map_map. simpl.
  assert (E : forall (l : list str) n, map (fun x : nat * str => fst x) (combine (seq n (length l)) l) = seq n (length l)).
  { induction l as [|e l IH]; intro n; simpl; [reflexivity|]. f_equal. apply IH. }
  rewrite E. apply seq_NoDup.
Qed.

Lemma route_eqb_eq a b : route_eqb a b = true <-> a = b.
Proof.
  unfold route_eqb. rewrite !andb_true_iff, rule_eqb_eq, Nat.eqb_eq, str_eqb_eq. destruct a, b; simpl. split.
  - intros [[? ?] ?]. congruence.
  - intro H. inversion H. tauto.
Qed.

Lemma del_matcher_self fx x : del_matcher fx (rt_rule x) x x = true.
Proof. unfold del_matcher. destruct (fix_F4 fx); [apply route_eqb_eq; reflexivity | apply sameas_refl]. Qed.

Lemma del_matcher_sameas fx r v x : rt_rule v = r -> del_matcher fx r v x = true -> sameas (rt_rule x) r = true.
Proof.
  unfold del_matcher. intros E H. destruct (fix_F4 fx); [|exact H].
  apply route_eqb_eq in H. subst x. rewrite E. apply sameas_refl.
Qed.

Lemma in_routes x rs : In x (routes rs) <-> exists r, In r rs /\ In x (routes_of r).
Proof. apply in_flat_map. Qed.

Lemma in_routes_rule x rs : In x (routes rs) -> In (rt_rule x) rs.
Proof. rewrite in_routes. intros (r & Hr & Hx). rewrite (routes_of_rule _ _ Hx). exact Hr. Qed.

Lemma routes_app a b : routes (a ++ b) = routes a ++ routes b.
Proof. apply flat_map_app. Qed.

Lemma routes_filter (P : rule -> bool) rs :
  routes (filter P rs) = filter (fun x => P (rt_rule x)) (routes rs).
Proof.
  induction rs as [|r rs IH]; simpl; [reflexivity|].
  unfold routes in *. simpl. rewrite filter_app. destruct (P r) eqn:E; simpl; rewrite IH.
  - f_equal. symmetry. apply filter_all_true. intros x Hx. rewrite (routes_of_rule _ _ Hx). exact E.
  - rewrite (filter_all_false _ (routes_of r)); [reflexivity|]. intros x Hx. rewrite (routes_of_rule _ _ Hx). exact E.
Qed.

(** ** addRulesTo *)

Notation add_routes := (add_routes db m_add1).
Notation add_rules := (add_rules db m_add1).

Lemma add_routes_app a : forall d b,
  add_routes d (a ++ b) = match add_routes d a with inl d' => add_routes d' b | inr e => inr e end.
Proof.
  induction a as [|v a IH]; intros d b; simpl; [reflexivity|].
  destruct (m_add1 d v); [apply IH | reflexivity].
Qed.

Lemma add_rules_flat rs : forall d, add_rules d rs = add_routes d (routes rs).
Proof.
  induction rs as [|r rs IH]; intro d; simpl; [reflexivity|].
  rewrite add_routes_app. destruct (Model.add_routes db m_add1 d (routes_of r)); [apply IH | reflexivity].
Qed.

Lemma srcuni_incl L1 L2 : incl L1 L2 -> srcuni L2 -> srcuni L1.
Proof. intros I U x y q Hx Hy. apply U; apply I; assumption. Qed.

Lemma btuni_incl P L1 L2 : incl L1 L2 -> btuni P L2 -> btuni P L1.
Proof. intros I U x y q Hx Hy. apply U; apply I; assumption. Qed.

(** same source and compatible key names for routes with the same pattern *)
Definition uni (L : list route) : Prop := srcuni L /\ keyuni L.

Lemma keyuni_incl L1 L2 : incl L1 L2 -> keyuni L2 -> keyuni L1.
Proof. intros I U x y Hx Hy. apply U; apply I; assumption. Qed.

Lemma uni_incl L1 L2 : incl L1 L2 -> uni L2 -> uni L1.
Proof. intros I [A B]. split; [eapply srcuni_incl | eapply keyuni_incl]; eassumption. Qed.

Lemma add_routes_spec vs : forall d L, ReprV d L -> uni L ->
  match add_routes d vs with
  | inl d' => (forall v, In v vs -> rpat v <> None) /\ ReprV d' (L ++ vs) /\ uni (L ++ vs)
  | inr _ => (exists v, In v vs /\ rpat v = None) \/ ~ uni (L ++ vs)
  end.
Proof.
  induction vs as [|v vs IH]; intros d L R U; simpl.
  - rewrite app_nil_r. split; [tauto|]. split; assumption.
  - destruct U as [U KU]. pose proof (add1_spec d L v R U) as A. destruct (m_add1 d v) as [d1|e].
    + destruct A as (V & R1 & U1 & K1).
      assert (KU1 : keyuni (L ++ [v])).
      { intros x y Hx Hy. apply in_app_iff in Hx. apply in_app_iff in Hy.
        destruct Hx as [Hx|[Hx|[]]], Hy as [Hy|[Hy|[]]]; subst.
        - apply KU; assumption.
        - apply K1. exact Hx.
        - rewrite kcompat_sym. apply K1. exact Hy.
        - apply kcompat_refl. }
      specialize (IH d1 (L ++ [v]) R1 (conj U1 KU1)).
      rewrite <- app_assoc in IH. simpl in IH.
      destruct (Model.add_routes db m_add1 d1 vs).
      * destruct IH as (Vs & R' & U'). split; [|split; assumption].
        intros x [Hx|Hx]; [subst; exact V | apply Vs; exact Hx].
      * destruct IH as [(x & Hx & E)|N]; [left; exists x; split; [right; exact Hx | exact E] | right; exact N].
    + destruct A as [E|[(x & q & Hx & Hqx & Hqv & N)|(x & Hx & N)]].
      * left. exists v. split; [left; reflexivity | exact E].
      * right. intros [U' _]. apply N. apply (U' x v q); try assumption.
        -- apply in_app_iff. left. exact Hx.
        -- apply in_app_iff. right. left. reflexivity.
      * right. intros [_ K']. rewrite K' in N; [discriminate | |].
        -- apply in_app_iff. left. exact Hx.
        -- apply in_app_iff. right. left. reflexivity.
Qed.

Lemma add_routes_flag P vs : forall d L d', ReprV d L -> uni L -> ReprF P d ->
  add_routes d vs = inl d' -> btuni P (L ++ vs) -> ReprF P d'.
Proof.
  induction vs as [|v vs IH]; intros d L d' R U F E B; simpl in E.
  - inversion E; subst. exact F.
  - pose proof (add_routes_spec [v] d L R U) as A. simpl in A.
    destruct (m_add1 d v) as [d1|e] eqn:E1; [|discriminate].
    destruct A as (V & R1 & U1).
    assert (F1 : ReprF P d1).
    { apply (add1_flag P d L v d1 R F E1). eapply btuni_incl; [|exact B].
      intros x Hx. apply in_app_iff in Hx. apply in_app_iff. destruct Hx as [Hx|[Hx|[]]]; [left; exact Hx | right; left; exact Hx]. }
    apply (IH d1 (L ++ [v]) d' R1 U1 F1 E). rewrite <- app_assoc. exact B.
Qed.

(** ** removeRulesFrom *)

Section Remove.
Variable fx : fixes.
Variable PF : nat -> bool.   (* the sources for which the node flags are claimed *)
Notation ReprF := (ReprFacts.ReprF PF).
Notation del_routes := (del_routes db (m_del1 fx)).
Notation del_rules := (del_rules db (m_del1 fx)).
Notation hit := (hit fx).

Definition hit_rule (r : rule) (x : route) : bool := existsb (fun v => hit r v x) (routes_of r).
Definition hits (rs : list rule) (x : route) : bool := existsb (fun r => hit_rule r x) rs.

Lemma del_routes_spec r vs : forall d L, ReprV d L -> ReprF d ->
  (forall v, In v vs -> In v L /\ rpat v <> None /\ rt_rule v = r) ->
  NoDup vs -> (fix_F4 fx = false -> NoDup (map rpat vs)) ->
  exists d', del_routes d r vs = inl d' /\
             ReprV d' (filter (fun x => negb (existsb (fun v => hit r v x) vs)) L) /\ ReprF d'.
Proof.
  induction vs as [|v vs IH]; intros d L R F H NDv ND; simpl.
  - exists d. split; [reflexivity|]. split; [|exact F].
    rewrite filter_all_true; [exact R | reflexivity].
  - destruct (H v (or_introl eq_refl)) as (HvL & HvP & HvS).
    destruct (rpat v) as [p|] eqn:EP; [|congruence].
    assert (Hhit : hit r v v = true).
    { unfold ReprFacts.hit. rewrite EP. rewrite (proj2 (has_pat_rpat p v) EP). rewrite <- HvS. apply del_matcher_self. }
    destruct (del1_spec PF fx d L r v R F (ex_intro _ v (conj HvL Hhit))) as (d1 & E1 & R1 & F1).
    rewrite E1. inversion NDv as [|? ? Hnotv NDv']; subst.
    destruct (IH d1 _ R1 F1) as (d' & E' & R' & F'); [|exact NDv'| |].
    + intros v' Hv'. destruct (H v' (or_intror Hv')) as (A & B & C). split; [|split; assumption].
      apply filter_In. split; [exact A|].
      unfold ReprFacts.hit. rewrite EP. destruct (has_pat p v') eqn:Hp; [|reflexivity].
      simpl. apply negb_true_iff. unfold del_matcher. destruct (fix_F4 fx) eqn:F4.
      * apply not_true_is_false. intro Heq. apply route_eqb_eq in Heq. subst v'. contradiction.
      * exfalso. specialize (ND eq_refl). inversion ND as [|? ? Hnotin ND']; subst.
        apply Hnotin. apply in_map_iff. exists v'. split; [|exact Hv'].
        rewrite EP. apply has_pat_rpat. exact Hp.
    + intro F4. specialize (ND F4). inversion ND; assumption.
    + exists d'. split; [exact E'|]. split; [|exact F'].
      rewrite filter_filter in R'.
      erewrite filter_ext; [exact R'|]. intro x. simpl. rewrite negb_orb. reflexivity.
Qed.

Lemma del_rules_gen rs : forall d L, ReprV d L -> ReprF d ->
  (forall r v, In r rs -> In v (routes_of r) -> In v L /\ rpat v <> None) ->
  (fix_F4 fx = false -> forall r, In r rs -> NoDup (map rpat (routes_of r))) ->
  NoDup (map rkey rs) ->
  exists d', del_rules d rs = inl d' /\ ReprV d' (filter (fun x => negb (hits rs x)) L) /\ ReprF d'.
Proof.
  induction rs as [|r rs IH]; intros d L R F H HP ND; simpl.
  - exists d. split; [reflexivity|]. split; [|exact F]. rewrite filter_all_true; [exact R | reflexivity].
  - destruct (del_routes_spec r (routes_of r) d L R F) as (d1 & E1 & R1 & F1).
    + intros v Hv. destruct (H r v (or_introl eq_refl) Hv) as [A B]. split; [exact A|]. split; [exact B|].
      apply (routes_of_rule _ _ Hv).
    + apply NoDup_routes_of.
    + intro F4. apply (HP F4). left. reflexivity.
    + rewrite E1. inversion ND as [|? ? Hnotin ND']; subst.
      destruct (IH d1 _ R1 F1) as (d' & E' & R' & F'); [| |exact ND'|].
      * intros r' v' Hr' Hv'. destruct (H r' v' (or_intror Hr') Hv') as [A B]. split; [|exact B].
        apply filter_In. split; [exact A|].
        apply negb_true_iff. apply not_true_is_false. intro Hex. apply existsb_exists in Hex as (v & Hv & Hh).
        unfold ReprFacts.hit in Hh. destruct (rpat v); [|discriminate]. apply andb_true_iff in Hh as [_ Hs].
        apply (del_matcher_sameas fx r v v' (routes_of_rule _ _ Hv)) in Hs.
        rewrite (routes_of_rule _ _ Hv') in Hs. apply sameas_key in Hs.
        apply Hnotin. apply in_map_iff. exists r'. split; [exact Hs | exact Hr'].
      * intros F4 r' Hr'. apply (HP F4). right. exact Hr'.
      * exists d'. split; [exact E'|]. split; [|exact F'].
        rewrite filter_filter in R'. erewrite filter_ext; [exact R'|].
        intro x. simpl. rewrite negb_orb. reflexivity.
Qed.

(** *** invariants of the known rules *)

Record KInv (K : list rule) : Prop := {
  k_keys : NoDup (map rkey K);
  k_valid : forall x, In x (routes K) -> rpat x <> None;
  k_pats : fix_F4 fx = false -> forall r, In r K -> NoDup (map rpat (routes_of r));
  k_uni : uni (routes K) }.

Lemma NoDup_map_incl_filter {A B} (f : A -> B) (P : A -> bool) l : NoDup (map f l) -> NoDup (map f (filter P l)).
Proof.
  induction l as [|a l IH]; simpl; intro H; [constructor|].
  inversion H as [|? ? Hn Hd]; subst. destruct (P a); simpl; [|apply IH; exact Hd].
  constructor; [|apply IH; exact Hd].
  intro Hin. apply Hn. apply in_map_iff in Hin as (x & E & Hx). apply filter_In in Hx.
  apply in_map_iff. exists x. tauto.
Qed.

Lemma NoDup_key_eq K a b : NoDup (map rkey K) -> In a K -> In b K -> rkey a = rkey b -> a = b.
Proof.
  induction K as [|r K IH]; simpl; intros ND Ha Hb E; [destruct Ha|].
  inversion ND as [|? ? Hn Hd]; subst.
  destruct Ha as [Ha|Ha], Hb as [Hb|Hb]; subst.
  - reflexivity.
  - exfalso. apply Hn. rewrite E. apply in_map. exact Hb.
  - exfalso. apply Hn. rewrite <- E. apply in_map. exact Ha.
  - apply IH; assumption.
Qed.

(** deleting the rules [filter P K] leaves exactly the routes of the other rules *)
Lemma del_rules_spec K (P : rule -> bool) d : KInv K -> ReprV d (routes K) -> ReprF d ->
  exists d', del_rules d (filter P K) = inl d' /\
             ReprV d' (routes (filter (fun r => negb (P r)) K)) /\ ReprF d'.
Proof.
  intros I R F.
  destruct (del_rules_gen (filter P K) d (routes K) R F) as (d' & E & R' & F').
  - intros r v Hr Hv. apply filter_In in Hr as [Hr _]. split.
    + apply in_routes. exists r. split; assumption.
    + apply (k_valid _ I). apply in_routes. exists r. split; assumption.
  - intros F4 r Hr. apply filter_In in Hr as [Hr _]. apply (k_pats _ I F4 r Hr).
  - apply NoDup_map_incl_filter. apply (k_keys _ I).
  - exists d'. split; [exact E|]. split; [|exact F'].
    rewrite routes_filter. erewrite filter_ext_in; [exact R'|].
    intros x Hx. simpl. f_equal. symmetry.
    (* hits (filter P K) x = P (rt_rule x) *)
    assert (Hr : In (rt_rule x) K) by (apply in_routes_rule; exact Hx).
    destruct (P (rt_rule x)) eqn:EP.
    + unfold hits. apply existsb_exists. exists (rt_rule x). split; [apply filter_In; split; assumption|].
      unfold hit_rule. apply existsb_exists. exists x. split.
      * apply in_routes in Hx as (r & _ & Hx). rewrite (routes_of_rule _ _ Hx). exact Hx.
      * unfold ReprFacts.hit. destruct (rpat x) as [p|] eqn:Ex.
        -- rewrite (proj2 (has_pat_rpat p x) Ex). apply del_matcher_self.
        -- exfalso. apply (k_valid _ I x Hx). exact Ex.
    + apply not_true_is_false. intro Hex. unfold hits in Hex. apply existsb_exists in Hex as (r & Hr' & Hh).
      apply filter_In in Hr' as [HrK HrP].
      unfold hit_rule in Hh. apply existsb_exists in Hh as (v & Hv & Hh).
      unfold ReprFacts.hit in Hh. destruct (rpat v); [|discriminate]. apply andb_true_iff in Hh as [_ Hs].
      apply (del_matcher_sameas fx r v x (routes_of_rule _ _ Hv)) in Hs.
      apply sameas_key in Hs.
      rewrite (NoDup_key_eq K _ _ (k_keys _ I) Hr HrK Hs) in EP. congruence.
Qed.

End Remove.
