(** C06/TreeTheorems.v — the C06 theorems carried down to the transcribed compressed radix
    tree of C06/Tree.v (the model the implementation is compared with on every run), for the
    code as it is now ([all_fix]):

      [t_run_sim]                   after EVERY history the repository over the tree and the
                                    repository over the abstract index are related: same known
                                    rules, tree well-formed ([flags_ok], [wfd] of the embedded
                                    tree), same values / flag per pattern, node key names = those
                                    of the node's values
      [tree_refines_index]          hence same outcome of every further operation and the same
                                    rule found by every lookup
      [tree_history_equals_fresh]   hence, under the hypotheses of the main theorem, lookups in
                                    the tree after the history = lookups in a freshly loaded tree
      [tree_never_panics]           no operation of any history ends in a Go run-time panic

    Proof route: C06/Tree.v  --TreeBridge-->  Radix/Tree.v + C06/TreeDel.v
                 --TreeAddProofs / TreeDelProofs / TreeProofs-->  pattern-map machine entries
                 --TreeRefine-->  abstract index of C06/Model.v;  the repository layer by
                 C06/RepoSim.v. *)
From HV Require Import Base.Prelude C06.Pat C06.Model C06.Spec C06.Tree C06.Witness C06.Proofs
  C06.RepoSim C06.TreeRepo C06.TreeBridge.
From HV Require Radix.Spec Radix.Tree Radix.TreeProofs C06.TreeDel C06.TreeDelFacts C06.TreeAddShape C06.TreeRefine.

Module TR := C06.TreeRefine.

(** the relation between the transcribed tree and the abstract index *)
Definition t_rel (t : tree) (d : db) : Prop := flags_ok t = true /\ TR.trel (emb t) d.

Lemma t_rel_empty : t_rel t_empty [].
Proof. split; [reflexivity | exact TR.trel_empty]. Qed.

Definition conv_add (y : Radix.Tree.tres route) : rtree + err :=
  match y with
  | Radix.Tree.TOk t' => inl t'
  | Radix.Tree.TInvalid => inr EInvalidPath
  | Radix.Tree.TConstraint => inr EConstraint
  | Radix.Tree.TFuel => inr EPanic
  end.

Lemma compose_add t (x : tree + err) (y : Radix.Tree.tres route) (z : db + err) :
  add_rel t x y -> osim TR.trel (conv_add y) z -> osim t_rel x z.
Proof.
  unfold add_rel, osim, conv_add. intros HA HB.
  destruct x as [t'|e], y as [m'| | |], z as [d'|e']; try contradiction; try (destruct e; contradiction).
  - destruct HA as (E & F & _). subst m'. split; assumption.
  - destruct e; try contradiction. exact HB.
  - destruct e; try contradiction. exact HB.
  - destruct e; try contradiction. exact HB.
Qed.

Lemma t_add1_sim t d v : t_rel t d -> osim t_rel (t_add1 t v) (m_add1 d v).
Proof.
  intros [Hf Ht].
  pose proof (add_bridge v (rt_bt v) (S (length (rt_path v))) t (rt_path v) [] false Hf) as HA.
  pose proof (r_add1_sim (emb t) d v Ht) as HB.
  exact (compose_add t _ _ _ HA HB).
Qed.

Definition conv_del (y : option rtree) : rtree + err :=
  match y with Some t' => inl t' | None => inr EDelete end.

Lemma compose_del t (x : option tree + err) (y : option rtree) (z : db + err) :
  del_rel t x y -> osim TR.trel (conv_del y) z ->
  osim t_rel (match x with inl (Some t') => inl t' | inl None => inr EDelete | inr e => inr e end) z.
Proof.
  unfold del_rel, osim, conv_del. intros HA HB.
  destruct x as [[t'|]|e], y as [m'|], z as [d'|e']; try contradiction.
  - destruct HA as (E & F & _). subst m'. split; assumption.
  - exact HB.
Qed.

Lemma t_del1_sim t d r v : t_rel t d -> valid v -> osim t_rel (t_del1 all_fix t r v) (m_del1 all_fix d r v).
Proof.
  intros [Hf Ht] Hv. pose proof Ht as [Hwd _].
  pose proof (del_bridge (del_matcher all_fix r v) (S (length (rt_path v))) t (rt_path v) false Hf Hwd ltac:(lia)) as HA.
  pose proof (r_del1_sim (emb t) d r v Ht Hv) as HB.
  exact (compose_del t _ _ _ HA HB).
Qed.

Definition tm_rel : trepo -> repo -> Prop := srel tree db t_rel.

Lemma t_run_fx_grun fx ops : t_run_fx fx ops = grun_from tree t_add1 (t_del1 fx) t_empty_repo ops.
Proof. reflexivity. Qed.

(** one operation: same outcome, relation kept *)
Theorem t_step_sim (s1 : trepo) (s2 : repo) o : tm_rel s1 s2 ->
  snd (t_step all_fix s1 o) = snd (step all_fix s2 o) /\ tm_rel (fst (t_step all_fix s1 o)) (fst (step all_fix s2 o)).
Proof.
  apply (gstep_sim tree db t_add1 (t_del1 all_fix) m_add1 (m_del1 all_fix) t_rel).
  - exact t_add1_sim.
  - exact t_del1_sim.
  - exact m_add1_valid.
Qed.

(** every history *)
Theorem t_run_sim ops : tm_rel (t_run_fx all_fix ops) (run all_fix ops).
Proof.
  rewrite t_run_fx_grun.
  apply (grun_sim tree db t_add1 (t_del1 all_fix) m_add1 (m_del1 all_fix) t_rel t_add1_sim t_del1_sim m_add1_valid).
  split; [reflexivity|]. split; [exact t_rel_empty | intros r []].
Qed.

(** related indexes answer every lookup alike *)
Theorem t_rel_find t d path (m : route -> bool) : t_rel t d ->
  t_find_rule false t path m = find_rule false d path m.
Proof.
  intros [Hf Ht]. rewrite <- (TR.sim_find (emb t) d path m Ht). pose proof Ht as [Hwd _].
  pose proof (find_bridge m (S (length path)) t path [] (C06.TreeDelFacts.wfd_leaf_or route (emb t) Hwd) ltac:(lia)) as HF.
  unfold t_find_rule, Radix.Tree.tree_find. unfold find_rel in HF.
  destruct (Radix.Tree.find_node true true true (fun v _ _ => m v) (emb t) path []) as [v ks cs|cs b]; rewrite HF; reflexivity.
Qed.

(** ** the theorems *)

(** the tree after any history is well-formed: kind flags agree with the slots, and the
    embedded tree satisfies the invariant of Find/Add ([wfb]) and of Delete ([shape]) *)
Theorem tree_invariant ops :
  flags_ok (index (t_run_fx all_fix ops)) = true /\
  C06.TreeDel.wfd (emb (index (t_run_fx all_fix ops))) = true.
Proof. destruct (t_run_sim ops) as (_ & [Hf [Hw _]] & _). split; assumption. Qed.

(** the repository over the transcribed tree and the repository over the abstract index:
    same known rules, same rule found by every lookup, same outcome of every operation *)
Theorem tree_refines_index ops :
  known (t_run_fx all_fix ops) = known (run all_fix ops) /\
  (forall path (conditions : route -> bool),
     t_find_rule false (index (t_run_fx all_fix ops)) path conditions =
     find_rule false (index (run all_fix ops)) path conditions) /\
  (forall o, snd (t_step all_fix (t_run_fx all_fix ops) o) = snd (step all_fix (run all_fix ops) o)).
Proof.
  pose proof (t_run_sim ops) as H. split; [apply H|]. split.
  - intros path m. apply t_rel_find. apply H.
  - intro o. apply (t_step_sim _ _ o H).
Qed.

(** the main theorem on the tree: lookups after the history = lookups in a freshly loaded tree *)
Theorem tree_history_equals_fresh ops :
  wf_history ops = true -> guard_dupid ops = false -> dirty ops = [] ->
  forall path (conditions : route -> bool),
    t_find_rule false (index (t_run_fx all_fix ops)) path conditions =
    t_find_rule false (index (t_run_fx all_fix (fresh_ops (current ops)))) path conditions.
Proof.
  intros W G D path m.
  destruct (tree_refines_index ops) as (_ & H1 & _). destruct (tree_refines_index (fresh_ops (current ops))) as (_ & H2 & _).
  rewrite H1, H2. apply (now_lookups_equal_fresh ops W G D false path m).
Qed.

(** the abstract repository never reports a panic *)
Lemma m_add_routes_err vs : forall d e, add_routes db m_add1 d vs = inr e -> e <> EPanic.
Proof.
  induction vs as [|v vs IH]; intros d e; cbn [add_routes]; [discriminate|].
  destruct (m_add1 d v) as [d'|e'] eqn:E; [apply IH|]. intro H. inversion H; subst e'. unfold m_add1 in E.
  destruct (pat_of (rt_path v)); [|inversion E; discriminate].
  destruct (keys_fit _ _); [|inversion E; discriminate]. destruct (add d p v (rt_bt v)); inversion E. discriminate.
Qed.

Lemma m_add_rules_err rs : forall d e, add_rules db m_add1 d rs = inr e -> e <> EPanic.
Proof.
  induction rs as [|r rs IH]; intros d e; cbn [add_rules]; [discriminate|].
  destruct (add_routes db m_add1 d (routes_of r)) as [d'|e'] eqn:E; [apply IH|]. intro H. inversion H; subst e'.
  eapply m_add_routes_err. exact E.
Qed.

Lemma m_del_routes_err fx r vs : forall d e, del_routes db (m_del1 fx) d r vs = inr e -> e <> EPanic.
Proof.
  induction vs as [|v vs IH]; intros d e; cbn [del_routes]; [discriminate|].
  destruct (m_del1 fx d r v) as [d'|e'] eqn:E; [apply IH|]. intro H. inversion H; subst e'. unfold m_del1 in E.
  destruct (pat_of (rt_path v)); [|inversion E; discriminate]. destruct (delete d p _); inversion E. discriminate.
Qed.

Lemma m_del_rules_err fx rs : forall d e, del_rules db (m_del1 fx) d rs = inr e -> e <> EPanic.
Proof.
  induction rs as [|r rs IH]; intros d e; cbn [del_rules]; [discriminate|].
  destruct (del_routes db (m_del1 fx) d r (routes_of r)) as [d'|e'] eqn:E; [apply IH|]. intro H. inversion H; subst e'.
  eapply m_del_routes_err. exact E.
Qed.

Lemma m_step_no_panic fx st o : snd (step fx st o) <> Some EPanic.
Proof.
  unfold step. destruct o as [s ds|s ds|s|s]; cbn [gstep].
  - destruct (add_rules db m_add1 (index st) (stamp s ds)) as [d|e] eqn:E; cbn [snd]; [discriminate|].
    intro H. inversion H. subst e. eapply m_add_rules_err; [exact E | reflexivity].
  - destruct (del_rules db (m_del1 fx) (index st) _) as [d1|e] eqn:E; cbn [snd].
    + destruct (add_rules db m_add1 d1 _) as [d2|e] eqn:E2; cbn [snd]; [discriminate|].
      intro H. inversion H. subst e. eapply m_add_rules_err; [exact E2 | reflexivity].
    + intro H. inversion H. subst e. eapply m_del_rules_err; [exact E | reflexivity].
  - destruct (del_rules db (m_del1 fx) (index st) _) as [d1|e] eqn:E; cbn [snd]; [discriminate|].
    intro H. inversion H. subst e. eapply m_del_rules_err; [exact E | reflexivity].
  - cbn [snd]. discriminate.
Qed.

(** no operation of any history makes the tree code panic (the slice expression in delNode
    stays in range since fix: commit 003095f; the recursion never runs out of fuel) *)
Theorem tree_never_panics ops o : snd (t_step all_fix (t_run_fx all_fix ops) o) <> Some EPanic.
Proof. destruct (tree_refines_index ops) as (_ & _ & H). rewrite H. apply m_step_no_panic. Qed.

(** ** key names and captures.  C06/Tree.v's [find_node] does not collect captures (the
    conditions of the C06 streams do not read them).  Radix/Tree.v's [find_node] is findNode
    with the wildcard key names of the node found and the captured path values, handed to
    conditions that may read them (path_params conditions).  On the embedded tree it gives,
    after a history, the same answer - rule, key names AND captures - as on a freshly loaded
    tree: the two trees hold the same entries, key names included. *)

Lemma trel_same_entries (t1 t2 : rtree) (d : db) : TR.trel t1 d -> TR.trel t2 d ->
  Radix.TreeAddProofs.same_entries route (Radix.Tree.abs t1) (Radix.Tree.abs t2).
Proof.
  intros [_ [_ H1]] [_ [_ H2]] p. specialize (H1 p). specialize (H2 p).
  destruct (Radix.Load.assoc p (Radix.Tree.abs t1)) as [N1|], (Radix.Load.assoc p (Radix.Tree.abs t2)) as [N2|].
  - destruct H1 as [G1 [Hne1 F1]], H2 as [G2 [_ F2]]. rewrite G1 in G2. inversion G2 as [[Hv Hfl]].
    destruct N1 as [v1 f1 k1], N2 as [v2 f2 k2]. cbn in *. subst v2 f2.
    destruct v1 as [|x0 r]; [congruence|]. inversion F1 as [|? ? P1 _]; inversion F2 as [|? ? P2 _]; subst.
    rewrite P1 in P2. inversion P2. reflexivity.
  - destruct H1 as [G1 _]. congruence.
  - destruct H2 as [G2 _]. congruence.
  - reflexivity.
Qed.

Theorem t_rel_find_full (t1 t2 : tree) (d : db) (m : Radix.Spec.matcher route) path : t_rel t1 d -> t_rel t2 d ->
  Radix.Tree.tree_find true true true m (emb t1) path = Radix.Tree.tree_find true true true m (emb t2) path.
Proof.
  intros [_ H1] [_ H2]. pose proof H1 as [W1 _]. pose proof H2 as [W2 _].
  apply C06.TreeDelFacts.wfd_leaf_or in W1. apply C06.TreeDelFacts.wfd_leaf_or in W2.
  rewrite (Radix.TreeProofs.tree_find_refines route m true _ path W1), (Radix.TreeProofs.tree_find_refines route m true _ path W2).
  apply Radix.LoadProofs.find_in_perm; [|apply Radix.TreeProofs.abs_NoDup; exact W1].
  apply Radix.LoadProofs.same_assoc_perm; [apply Radix.TreeProofs.abs_NoDup; exact W1 | apply Radix.TreeProofs.abs_NoDup; exact W2 |].
  exact (trel_same_entries _ _ d H1 H2).
Qed.

Theorem tree_captures_equal_fresh ops :
  wf_history ops = true -> guard_dupid ops = false -> dirty ops = [] ->
  forall path (conditions : Radix.Spec.matcher route),
    Radix.Tree.tree_find true true true conditions (emb (index (t_run_fx all_fix ops))) path =
    Radix.Tree.tree_find true true true conditions (emb (index (t_run_fx all_fix (fresh_ops (current ops))))) path.
Proof.
  intros W G D path m.
  destruct (t_run_sim ops) as (_ & R1 & _). destruct (t_run_sim (fresh_ops (current ops))) as (_ & R2 & _).
  rewrite (now_history_equals_fresh ops W G D) in R1. exact (t_rel_find_full _ _ _ m path R1 R2).
Qed.

(** the lookup of C06/Tree.v is the rule part of that answer *)
Theorem t_find_rule_is_radix_find (t : tree) path (m : route -> bool) :
  flags_ok t = true -> Radix.Tree.wfb (emb t) = true ->
  t_find_rule false t path m =
  match Radix.Tree.tree_find true true true (fun v _ _ => m v) (emb t) path with
  | Radix.Spec.Found v _ _ => Some (rt_rule v)
  | Radix.Spec.NoMatch => None
  end.
Proof.
  intros _ Hw. pose proof (find_bridge m (S (length path)) t path [] Hw ltac:(lia)) as HF.
  unfold t_find_rule, Radix.Tree.tree_find. unfold find_rel in HF.
  destruct (Radix.Tree.find_node true true true (fun v _ _ => m v) (emb t) path []) as [v ks cs|cs b]; rewrite HF; reflexivity.
Qed.
