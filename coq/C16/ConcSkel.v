(** C16 — the shape of jwtFinalizer.Execute that the concurrent machine of C16/Conc.v assumes, as a check on
    what the driver extracts from jwt_finalizer.go (go/ast, calls into other methods of the finalizer
    inlined) on every run:

      [XCall h]   a method of the signer is called (in source / evaluation order)
      [XGet ms]   cch.Get(.., key): [ms] = the signer methods whose results flow into [key]
      [XSet ms]   cch.Set(.., key, ..), likewise
      [XHdr]      AddHeaderForUpstream
      [XRet]      a return statement;  [XOther what] anything the model has no step for (a goroutine started,
                  a loop around signer/cache calls, a guarded field of the signer touched directly)

    The machine's call is  Hash-section; Get(key of Hash); Sign-section; Set(key of Sign); header/return
    (with the repair of C16-F2; before it: Set(key of Hash)) where the Hash-section is ONE read section that
    reads jwk and the Sign-section is ONE read section that reads jwk and key — judged on the lock skeleton
    of jwt_signer.go (C16/Locks.v), by role, not by name. *)
From HV Require Import Base.Prelude C16.Locks.
Open Scope string_scope.

Inductive xev :=
| XCall (m : string) | XGet (from : list string) | XSet (from : list string) | XHdr | XRet | XOther (what : string).

Definition is_ret (e : xev) : bool := match e with XRet => true | _ => false end.

Definition strs_eqb := list_eqb String.eqb.

(** method [m] of the skeleton is exactly one read section (RLock, reads, RUnlock — nothing outside it) that
    reads every field of [need] *)
Definition one_read_section (sk : skeleton) (m : string) (need : list field) : bool :=
  let raw := find_method m sk in
  wf_method raw && match norm raw with ERLock :: _ => true | _ => false end && forallb (fun f => reads f raw) need.

Definition xev_eqb (a b : xev) : bool :=
  match a, b with
  | XCall x, XCall y | XOther x, XOther y => String.eqb x y
  | XGet x, XGet y | XSet x, XSet y => strs_eqb x y
  | XHdr, XHdr | XRet, XRet => true
  | _, _ => false
  end.

(** a path without its return statements *)
Definition rel (p : list xev) : list xev := filter (fun e => negb (is_ret e)) p.

(** the full path of a miss: Hash-call, Get(key of Hash), Sign-call, Set(key from ks), header *)
Definition full_of (p : list xev) : option (string * string * list string) :=
  match rel p with
  | [XCall h; XGet kg; XCall s; XSet ks; XHdr] => if strs_eqb kg [h] then Some (h, s, ks) else None
  | _ => None
  end.

Fixpoint find_full (ps : list (list xev)) : option (string * string * list string) :=
  match ps with
  | [] => None
  | p :: r => match full_of p with Some x => Some x | None => find_full r end
  end.

(** every other path through Execute is that path cut short by a return (an error, a hit: header right after
    the lookup, no store) *)
Definition allowed (h s : string) (ks : list string) (p : list xev) : bool :=
  let H := XCall h in let G := XGet [h] in let S := XCall s in let St := XSet ks in
  existsb (list_eqb xev_eqb (rel p))
    [ []; [H]; [H; G]; [H; G; XHdr]; [H; G; S]; [H; G; S; XHdr]; [H; G; S; St]; [H; G; S; St; XHdr] ].

(** [Some b]: Execute has the shape of the machine with [fx_F2 = b]; [None]: it has another shape.
    [ps] = one event list per path through Execute. *)
Definition exec_shape (sk : skeleton) (ps : list (list xev)) : option bool :=
  match find_full ps with
  | Some (h, s, ks) =>
      if one_read_section sk h [FJwk] && one_read_section sk s [FJwk; FKey] && negb (String.eqb h s)
         && forallb (allowed h s ks) ps
      then (if strs_eqb ks [s] then Some true else if strs_eqb ks [h] then Some false else None)
      else None
  | None => None
  end.

(** the shapes of the tree as it is and of the tree before 186d696 *)
Definition xs_fixed : list (list xev) :=
  [ [XRet];
    [XCall "Hash"; XGet ["Hash"]; XCall "signWithHash"; XRet];
    [XCall "Hash"; XGet ["Hash"]; XCall "signWithHash"; XSet ["signWithHash"]; XHdr; XRet] ].
Definition xs_pinned : list (list xev) :=
  [ [XRet];
    [XCall "Hash"; XGet ["Hash"]; XCall "Sign"; XRet];
    [XCall "Hash"; XGet ["Hash"]; XCall "Sign"; XSet ["Hash"]; XHdr; XRet] ].

(** the lock skeleton of jwt_signer.go as of the tree with 186d696 (the driver re-extracts it on every run;
    this copy documents what was read) and, for the shape before that commit, the one of LocksProofs.v *)
Definition skeleton_now : skeleton :=
  [ ("load", [ERet; ERet; ERet; ELock; EDeferUnlock; EWrite FJwk; EWrite FKey; EWrite FPub; ERet]);
    ("Hash", [ERLock; ERead FJwk; ERUnlock; ERet]);
    ("signWithHash", [ERLock; ERead FJwk; ERead FKey; ERUnlock; ERet; ERet; ERet]);
    ("Keys", [ERLock; EDeferRUnlock; ERead FPub; ERet]);
    ("activeCertificateChain", [ERLock; EDeferRUnlock; ERead FJwk; ERet]) ].

Definition skeleton_before : skeleton :=
  [ ("load", [ERet; ERet; ERet; ELock; EDeferUnlock; EWrite FJwk; EWrite FKey; EWrite FPub; ERet]);
    ("Hash", [ERLock; ERead FJwk; ERUnlock; ERet]);
    ("Sign", [ERLock; ERead FJwk; ERead FKey; ERUnlock; ERet; ERet; ERet]);
    ("Keys", [ERLock; EDeferRUnlock; ERead FPub; ERet]) ].

Example shape_now : exec_shape skeleton_now xs_fixed = Some true.
Proof. vm_compute. reflexivity. Qed.

Example shape_before : exec_shape skeleton_before xs_pinned = Some false.
Proof. vm_compute. reflexivity. Qed.

(** shapes the machine does not describe: a second lookup; signing in two sections; the key of Set from
    nowhere; a goroutine started; a path that stores without having signed; an early return on a hit and a
    helper for the miss are fine *)
Example shape_other :
  exec_shape skeleton_now [[XCall "Hash"; XGet ["Hash"]; XCall "Hash"; XGet ["Hash"]; XCall "signWithHash"; XSet ["signWithHash"]; XHdr]] = None /\
  exec_shape [("Hash", [ERLock; ERead FJwk; ERUnlock]);
              ("signWithHash", [ERLock; ERead FJwk; ERUnlock; ERLock; ERead FKey; ERUnlock])] xs_fixed = None /\
  exec_shape skeleton_now [[XCall "Hash"; XGet ["Hash"]; XCall "signWithHash"; XSet []; XHdr]] = None /\
  exec_shape skeleton_now (xs_fixed ++ [[XOther "go statement"]]) = None /\
  exec_shape skeleton_now (xs_fixed ++ [[XCall "Hash"; XGet ["Hash"]; XSet ["signWithHash"]; XHdr]]) = None /\
  exec_shape skeleton_now
    [ [XRet]; [XCall "Hash"; XGet ["Hash"]; XHdr; XRet]; [XCall "Hash"; XGet ["Hash"]; XCall "signWithHash"; XSet ["signWithHash"]; XRet];
      [XCall "Hash"; XGet ["Hash"]; XCall "signWithHash"; XSet ["signWithHash"]; XHdr; XRet] ] = Some true.
Proof. vm_compute. repeat split. Qed.
