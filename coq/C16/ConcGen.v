(** C16 — the same system as C16/Conc.v one level down, FOR ANY PROGRAMS OF THE CRITICAL SECTIONS: the lock
    operations and the single field accesses of the signer's methods are steps of their own, sync.RWMutex
    blocks, a reload is a thread.  The programs — which guarded fields Hash(), signWithHash() and Keys() read
    inside their read section, in which order, and which fields load assigns inside its write section — are a
    parameter [progs]; the driver reads them off the lock skeleton it extracts from jwt_signer.go on every run
    ([programs] below) and the evaluator checks [progs_ok]: the Hash section reads jwk, the Sign section jwk and
    key, the Keys section pubKeys, the write section assigns all three.

      Execute    RLock | reads of p_hash | RUnlock, cache key | cch.Get | RLock | reads of p_sign |
                 RUnlock, sign | cch.Set | header, return
      load       parse+validate, Lock | assignments of p_load | Unlock        (a refused file: no lock at all)
      JWKS       RLock | reads of p_keys | RUnlock, answer

    A thread whose next step is a lock operation that the mutex refuses stays where it is.
    ConcGenProofs.v: for all programs with [progs_ok], every schedule of this machine is — step for step, by an
    abstraction function — a schedule of the machine of C16/Conc.v, in which every critical section is one
    atomic step (taken where a reader releases, the writer acquires the lock). *)
From HV Require Import Base.Prelude C16.Model C16.Locks C16.Conc C16.ConcSkel.
Open Scope string_scope.
Open Scope list_scope.

Record progs := { p_hash : list field; p_sign : list field; p_keys : list field; p_load : list field }.

Definition mem (f : field) (l : list field) : bool := existsb (field_eqb f) l.

Definition progs_ok (P : progs) : bool :=
  mem FJwk (p_hash P) && mem FJwk (p_sign P) && mem FKey (p_sign P) && mem FPub (p_keys P)
  && forallb (fun f => mem f (p_load P)) all_fields.

(** what a thread has copied out of the signer inside its read section *)
Record copies := { cp_jwk : option jwk; cp_key : option keymat; cp_pub : option (list jwk) }.
Definition no_copies : copies := {| cp_jwk := None; cp_key := None; cp_pub := None |}.

Definition copy (f : field) (sh : state) (cp : copies) : copies :=
  match f with
  | FJwk => {| cp_jwk := Some (s_jwk sh); cp_key := cp_key cp; cp_pub := cp_pub cp |}
  | FKey => {| cp_jwk := cp_jwk cp; cp_key := Some (s_key sh); cp_pub := cp_pub cp |}
  | FPub => {| cp_jwk := cp_jwk cp; cp_key := cp_key cp; cp_pub := Some (s_pub sh) |}
  end.

(** s.f = the new value *)
Definition assign (f : field) (st sh : state) : state :=
  match f with
  | FJwk => {| s_jwk := s_jwk st; s_key := s_key sh; s_pub := s_pub sh |}
  | FKey => {| s_jwk := s_jwk sh; s_key := s_key st; s_pub := s_pub sh |}
  | FPub => {| s_jwk := s_jwk sh; s_key := s_key sh; s_pub := s_pub st |}
  end.

(** where a call stands *)
Inductive gpc :=
| GInit
| GHash (rest : list field) (cp : copies)                 (* inside Hash()'s read section: reads still to do *)
| GKeyed (k0 : ckey)
| GMiss (k0 : ckey)
| GSign (k0 : ckey) (rest : list field) (cp : copies)     (* inside signWithHash()'s read section *)
| GSigned (k : ckey) (t : token)
| GRetp (t : token)
| GDone (r : res token).

Record gthread := { gt_call : call; gt_pc : gpc; gt_st0 : option state; gt_st1 : option state }.

Inductive grpc := GRInit | GRHold (st : state) (rest : list field) | GRDone.
Record grthread := { grt_file : pem_file; grt_pc : grpc }.

Inductive gjpc := GJInit | GJHold (rest : list field) (cp : copies) | GJDone.

Record gconf := {
  h_sh : state;                      (* the three fields, each as last assigned *)
  h_cache : cache; h_minted : nat; h_clock : Z;
  h_exs : list gthread; h_rls : list grthread; h_jws : list gjpc;
  h_jwks : list (list jwk); h_made : list made_entry }.

Inductive gev := GEx (i : nat) | GRl (r : nat) | GJw (k : nat) | GWait (d : Z).

Definition g_reading (p : gpc) : bool := match p with GHash _ _ | GSign _ _ _ => true | _ => false end.
Definition gj_reading (p : gjpc) : bool := match p with GJHold _ _ => true | _ => false end.
Definition g_writing (p : grpc) : bool := match p with GRHold _ _ => true | _ => false end.

Definition greaders (g : gconf) : bool :=
  existsb (fun th => g_reading (gt_pc th)) (h_exs g) || existsb gj_reading (h_jws g).
Definition gwriters (g : gconf) : bool := existsb (fun th => g_writing (grt_pc th)) (h_rls g).

Definition st_of (j : jwk) (k : keymat) : state := {| s_jwk := j; s_key := k; s_pub := [] |}.
Definition pub_of (c : config) (ks : list jwk) : list jwk := others_pub (c_before c) ++ ks ++ others_pub (c_after c).

Record gupd := { gu_th : gthread; gu_cache : cache; gu_minted : nat; gu_made : list made_entry }.

(** a section that ends without the copy it needs dereferences nothing sensible: [GDone Panic]; unreachable
    for programs with [progs_ok] (ConcGenProofs.v) *)
Definition gexec (fx : fixes) (P : progs) (g : gconf) (th : gthread) : gupd :=
  let cl := gt_call th in
  let c := cl_cfg cl in
  let q := cl_req cl in
  let keep p :=
    {| gu_th := {| gt_call := cl; gt_pc := p; gt_st0 := gt_st0 th; gt_st1 := gt_st1 th |};
       gu_cache := h_cache g; gu_minted := h_minted g; gu_made := h_made g |} in
  match gt_pc th with
  | GInit => if gwriters g then keep GInit else keep (GHash (p_hash P) no_copies)          (* s.mut.RLock() *)
  | GHash (f :: r) cp => keep (GHash r (copy f (h_sh g) cp))                                (* x := s.f *)
  | GHash [] cp =>                                                                          (* s.mut.RUnlock(); the cache key *)
      match cp_jwk cp with
      | Some j =>
          {| gu_th := {| gt_call := cl; gt_pc := GKeyed (key_of fx c (st_of j (j_key j)) q);
                         gt_st0 := Some (h_sh g); gt_st1 := gt_st1 th |};
             gu_cache := h_cache g; gu_minted := h_minted g; gu_made := h_made g |}
      | None => keep (GDone Panic)
      end
  | GKeyed k0 =>
      match (if c_cache c then cache_get k0 (h_clock g) (h_cache g) else None) with
      | Some t => keep (GRetp t)
      | None => keep (GMiss k0)
      end
  | GMiss k0 => if gwriters g then keep (GMiss k0) else keep (GSign k0 (p_sign P) no_copies)
  | GSign k0 (f :: r) cp => keep (GSign k0 r (copy f (h_sh g) cp))
  | GSign k0 [] cp =>                                                                       (* s.mut.RUnlock(); sign *)
      match cp_jwk cp, cp_key cp with
      | Some j, Some k =>
          match sign (st_of j k) (issuer c) (q_sub q) (ttl_of c) (cl_now cl) (VJti (h_minted g)) (claims_of c q) with
          | Ok t =>
              let key := if fx_F2 fx then key_of fx c (st_of j (j_key j)) q else k0 in
              {| gu_th := {| gt_call := cl; gt_pc := GSigned key t; gt_st0 := gt_st0 th; gt_st1 := Some (h_sh g) |};
                 gu_cache := h_cache g; gu_minted := S (h_minted g); gu_made := (h_sh g, cl, key, t) :: h_made g |}
          | Err => keep (GDone Err)
          | Panic => keep (GDone Panic)
          end
      | _, _ => keep (GDone Panic)
      end
  | GSigned k t =>
      {| gu_th := {| gt_call := cl; gt_pc := GRetp t; gt_st0 := gt_st0 th; gt_st1 := gt_st1 th |};
         gu_cache := if c_cache c && (cache_leeway <? ttl_of c)%Z
                     then (k, t, h_clock g + (ttl_of c - cache_leeway))%Z :: h_cache g else h_cache g;
         gu_minted := h_minted g; gu_made := h_made g |}
  | GRetp t => keep (GDone (Ok t))
  | GDone r => keep (GDone r)
  end.

Definition grl (P : progs) (c : config) (g : gconf) (th : grthread) : state * grpc :=
  let sh := h_sh g in
  match grt_pc th with
  | GRInit =>
      match load (c_keyid c) (grt_file th) with
      | Ok st => if gwriters g || greaders g then (sh, GRInit) else (sh, GRHold st (p_load P))   (* s.mut.Lock() *)
      | _ => (sh, GRDone)
      end
  | GRHold st (f :: r) => (assign f st sh, GRHold st r)                                          (* s.f = .. *)
  | GRHold st [] => (sh, GRDone)                                                                 (* Unlock *)
  | GRDone => (sh, GRDone)
  end.

Definition gjw (P : progs) (c : config) (g : gconf) (p : gjpc) : gjpc * list (list jwk) :=
  match p with
  | GJInit => if gwriters g then (GJInit, h_jwks g) else (GJHold (p_keys P) no_copies, h_jwks g)
  | GJHold (f :: r) cp => (GJHold r (copy f (h_sh g) cp), h_jwks g)
  | GJHold [] cp => (GJDone, pub_of c (match cp_pub cp with Some ks => ks | None => [] end) :: h_jwks g)
  | GJDone => (GJDone, h_jwks g)
  end.

Definition gstep (fx : fixes) (P : progs) (c : config) (g : gconf) (e : gev) : gconf :=
  match e with
  | GEx i =>
      match nth_error (h_exs g) i with
      | None => g
      | Some th =>
          let u := gexec fx P g th in
          {| h_sh := h_sh g; h_cache := gu_cache u; h_minted := gu_minted u; h_clock := h_clock g;
             h_exs := set_nth i (gu_th u) (h_exs g); h_rls := h_rls g; h_jws := h_jws g;
             h_jwks := h_jwks g; h_made := gu_made u |}
      end
  | GRl r =>
      match nth_error (h_rls g) r with
      | None => g
      | Some th =>
          let '(sh, p) := grl P c g th in
          {| h_sh := sh; h_cache := h_cache g; h_minted := h_minted g; h_clock := h_clock g;
             h_exs := h_exs g; h_rls := set_nth r {| grt_file := grt_file th; grt_pc := p |} (h_rls g); h_jws := h_jws g;
             h_jwks := h_jwks g; h_made := h_made g |}
      end
  | GJw k =>
      match nth_error (h_jws g) k with
      | None => g
      | Some p =>
          let '(p', log) := gjw P c g p in
          {| h_sh := h_sh g; h_cache := h_cache g; h_minted := h_minted g; h_clock := h_clock g;
             h_exs := h_exs g; h_rls := h_rls g; h_jws := set_nth k p' (h_jws g);
             h_jwks := log; h_made := h_made g |}
      end
  | GWait d =>
      {| h_sh := h_sh g; h_cache := h_cache g; h_minted := h_minted g; h_clock := (h_clock g + d)%Z;
         h_exs := h_exs g; h_rls := h_rls g; h_jws := h_jws g; h_jwks := h_jwks g; h_made := h_made g |}
  end.

Definition grun (fx : fixes) (P : progs) (c : config) (s : list gev) (g : gconf) : gconf := fold_left (gstep fx P c) s g.

Definition ginit (st : state) (calls : list call) (files : list pem_file) (njwks : nat) : gconf :=
  {| h_sh := st; h_cache := []; h_minted := 0; h_clock := 0;
     h_exs := map (fun cl => {| gt_call := cl; gt_pc := GInit; gt_st0 := None; gt_st1 := None |}) calls;
     h_rls := map (fun f => {| grt_file := f; grt_pc := GRInit |}) files;
     h_jws := repeat GJInit njwks; h_jwks := []; h_made := [] |}.

(* ------------------------------------------------------------------ abstraction to the machine of Conc.v *)

Definition gtarget (p : grpc) : option state := match p with GRHold st _ => Some st | _ => None end.

Definition gpending (rls : list grthread) : option state :=
  match find (fun th => g_writing (grt_pc th)) rls with Some th => gtarget (grt_pc th) | None => None end.

Definition gabs_st (g : gconf) : state := match gpending (h_rls g) with Some st => st | None => h_sh g end.

Definition gabs_pc (p : gpc) : pc :=
  match p with
  | GInit | GHash _ _ => PInit
  | GKeyed k0 => PKeyed k0
  | GMiss k0 | GSign k0 _ _ => PMiss k0
  | GSigned k t => PSigned k t
  | GRetp t => PRet t
  | GDone r => PDone r
  end.

Definition gabs_th (th : gthread) : thread :=
  {| th_call := gt_call th; th_pc := gabs_pc (gt_pc th); th_st0 := gt_st0 th; th_st1 := gt_st1 th |}.

Definition gabs (g : gconf) : conf :=
  {| g_st := gabs_st g; g_cache := h_cache g; g_minted := h_minted g; g_clock := h_clock g;
     g_ths := map gabs_th (h_exs g); g_jwks := h_jwks g; g_made := h_made g |}.

Definition gcommits (p : gpc) : bool :=
  match p with GHash [] _ | GKeyed _ | GSign _ [] _ | GSigned _ _ | GRetp _ => true | _ => false end.

(** the event of the atomic machine a step amounts to, if any *)
Definition gtr (c : config) (g : gconf) (e : gev) : list sev :=
  match e with
  | GEx i =>
      match nth_error (h_exs g) i with
      | Some th => if gcommits (gt_pc th) then [SThread i] else []
      | None => []
      end
  | GRl r =>
      match nth_error (h_rls g) r with
      | Some th =>
          match grt_pc th with
          | GRInit =>
              match load (c_keyid c) (grt_file th) with
              | Ok _ => if gwriters g || greaders g then [] else [SReload (grt_file th)]
              | _ => [SReload (grt_file th)]
              end
          | _ => []
          end
      | None => []
      end
  | GJw k =>
      match nth_error (h_jws g) k with
      | Some (GJHold [] _) => [SJwks]
      | _ => []
      end
  | GWait d => [SWait d]
  end.

Fixpoint gtr_sched (fx : fixes) (P : progs) (c : config) (g : gconf) (s : list gev) : list sev :=
  match s with
  | [] => []
  | e :: r => gtr c g e ++ gtr_sched fx P c (gstep fx P c g e) r
  end.

(* ------------------------------------------------------------------ the programs of an extracted skeleton *)

(** the accesses of a method that is one read section / one write section, in order *)
Fixpoint section_reads (l : list ev) : option (list field) :=
  match l with
  | [ERUnlock] => Some []
  | ERead f :: r => option_map (cons f) (section_reads r)
  | _ => None
  end.

Fixpoint section_writes (l : list ev) : option (list field) :=
  match l with
  | [EUnlock] => Some []
  | EWrite f :: r => option_map (cons f) (section_writes r)
  | _ => None
  end.

Definition reads_of (raw : list ev) : option (list field) :=
  if rets_ok false false raw then match norm raw with ERLock :: r => section_reads r | _ => None end else None.

Definition writes_of (raw : list ev) : option (list field) :=
  if rets_ok false false raw then match norm raw with ELock :: r => section_writes r | _ => None end else None.

(** from the lock skeleton and the paths of Execute: the sections of the two signer methods Execute calls, of
    the method that reads the published set, and of the method that replaces the fields (by role) *)
Definition programs (sk : skeleton) (ps : list (list xev)) : option progs :=
  match find_full ps with
  | Some (h, s, _) =>
      match reads_of (find_method h sk), reads_of (find_method s sk),
            reads_of (pick is_pub_reader sk), writes_of (pick is_writer sk) with
      | Some a, Some b, Some k, Some w => Some {| p_hash := a; p_sign := b; p_keys := k; p_load := w |}
      | _, _, _, _ => None
      end
  | None => None
  end.

(** the programs of the tree as it is *)
Definition progs_now : progs :=
  {| p_hash := [FJwk]; p_sign := [FJwk; FKey]; p_keys := [FPub]; p_load := [FJwk; FKey; FPub] |}.

Example programs_now : programs skeleton_now xs_fixed = Some progs_now /\ progs_ok progs_now = true.
Proof. vm_compute. split; reflexivity. Qed.
