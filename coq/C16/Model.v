(** C16 — model of
      internal/keystore/key_store.go   createKeyStore / verifyAndBuildKeyStore / GetKey / Entries
      internal/keystore/entry.go       Entry.JWK / JOSEAlgorithm
      internal/rules/mechanisms/finalizers/jwt_signer.go   load / OnChanged / signWithHash (Sign is its lock-free wrapper) / Keys / Hash
      internal/rules/mechanisms/finalizers/jwt_finalizer.go  newJWTFinalizer / Execute / calculateCacheKey
      internal/keyholder/registry.go + internal/handler/management/handler.go  (JWKS = the signer's Keys())
    as they are.  Go panics are explicit ([Panic]).

    Trusted / data in the case: PEM, PKCS#1/#8, X.509 parsing and certificate
    validation (a key-store file arrives here as the list of its parsed private-key
    blocks, each with the certificate chain [FindChain] finds for it and the answers
    of the two certificate validations), the generated key id (hex of the subject
    key identifier), JSON and template rendering, and the cryptography itself: a key
    is the index of a key pair in the driver's pool, "signed by [Priv k]" verifies
    exactly under [Pub k]. *)
From HV Require Import Base.Prelude.
Open Scope string_scope.

Inductive res (A : Type) := Ok (a : A) | Err | Panic.
Arguments Ok {A} a. Arguments Err {A}. Arguments Panic {A}.

(* ------------------------------------------------------------------ keys *)

Inductive keykind := KRsa | KEcdsa | KOther.   (* KOther: e.g. ed25519 in a PKCS#8 block *)

Definition keykind_eqb (a b : keykind) : bool :=
  match a, b with KRsa, KRsa | KEcdsa, KEcdsa | KOther, KOther => true | _, _ => false end.

(** a key pair of the pool: index, type, size in bits (RSA: modulus size, ECDSA: curve size) *)
Record keyref := { k_id : nat; k_kind : keykind; k_size : Z }.

Definition keyref_eqb (a b : keyref) : bool :=
  Nat.eqb (k_id a) (k_id b) && keykind_eqb (k_kind a) (k_kind b) && Z.eqb (k_size a) (k_size b).

(** key material as it sits in a [jose.JSONWebKey.Key] / [crypto.Signer]:
    the private key (which includes the public half) or the public half only *)
Inductive keymat := Priv (k : keyref) | Pub (k : keyref).

Definition keymat_eqb (a b : keymat) : bool :=
  match a, b with
  | Priv x, Priv y | Pub x, Pub y => keyref_eqb x y
  | _, _ => false
  end.

(** [PrivateKey.Public()] *)
Definition public_of (m : keymat) : keymat := match m with Priv k | Pub k => Pub k end.
Definition is_private (m : keymat) : bool := match m with Priv _ => true | Pub _ => false end.
Definition keyref_of (m : keymat) : keyref := match m with Priv k | Pub k => k end.

(* ------------------------------------------------------------------ key store *)

(** one private-key block of the PEM file after parsing *)
Record raw_entry := {
  r_key : keyref;
  r_xkid : string;          (* the block's X-Key-ID header, "" if absent *)
  r_genkid : string;        (* what generateKeyID yields for it (SKI of the leaf certificate or of the key) *)
  r_chain : list nat;       (* FindChain: ids of the certificates, leaf first; [] if none *)
  r_chain_ok : bool;        (* ValidateChain (signatures, validity period) *)
  r_usage_ok : bool }.      (* pkix.ValidateCertificate with KeyUsageDigitalSignature at load time *)

(** the file: unreadable / undecodable / unsupported block  |  its key blocks in file order
    (a file of white space only is [PemOk []]; since the fix for C19-F10 any other undecodable
    rest after the last complete entry — a file cut inside an entry, trailing text — makes the
    file [PemBad] instead of a store of the entries before it) *)
Inductive pem_file := PemBad | PemOk (es : list raw_entry).

Record entry := {
  e_kid : string; e_key : keyref; e_chain : list nat; e_usage_ok : bool }.

Definition str_in (s : string) (l : list string) : bool := existsb (String.eqb s) l.

(** createEntry: only RSA and ECDSA keys, and (since the fix for C19-F2) only of the
    sizes Entry.JWK knows an algorithm for *)
Definition create_entry_ok (r : raw_entry) : bool :=
  let k := r_key r in
  match k_kind k with
  | KOther => false
  | KRsa => Z.eqb (k_size k) 2048 || Z.eqb (k_size k) 3072 || Z.eqb (k_size k) 4096
  | KEcdsa => Z.eqb (k_size k) 256 || Z.eqb (k_size k) 384 || Z.eqb (k_size k) 521
  end.

(** verifyAndBuildKeyStore *)
Fixpoint verify_build (known : list string) (rs : list raw_entry) : res (list entry) :=
  match rs with
  | [] => Ok []
  | r :: rest =>
    if negb (is_nil (r_chain r)) && negb (r_chain_ok r) then Err else
    let kid := if String.eqb (r_xkid r) "" then r_genkid r else r_xkid r in
    if str_in kid known then Err else
    match verify_build (kid :: known) rest with
    | Ok es => Ok ({| e_kid := kid; e_key := r_key r; e_chain := r_chain r; e_usage_ok := r_usage_ok r |} :: es)
    | Err => Err
    | Panic => Panic
    end
  end.

(** NewKeyStoreFromPEMFile; a file without any private key is an error (since the fix
    for C19-F1; before it was an empty store) *)
Definition keystore_of (f : pem_file) : res (list entry) :=
  match f with
  | PemBad => Err
  | PemOk rs => if forallb create_entry_ok rs then (if is_nil rs then Err else verify_build [] rs) else Err
  end.

(** keyStore.GetKey: the first entry with that id *)
Definition get_key (id : string) (es : list entry) : option entry :=
  find (fun e => String.eqb (e_kid e) id) es.

(* ------------------------------------------------------------------ Entry.JWK *)

(** Entry.JOSEAlgorithm: [None] = panic("unsupported ... key size"); unreachable for
    entries of a store that createKeyStore accepted *)
Definition jose_alg (k : keyref) : option string :=
  match k_kind k with
  | KRsa => if Z.eqb (k_size k) 2048 then Some "PS256"
            else if Z.eqb (k_size k) 3072 then Some "PS384"
            else if Z.eqb (k_size k) 4096 then Some "PS512" else None
  | KEcdsa => if Z.eqb (k_size k) 256 then Some "ES256"
              else if Z.eqb (k_size k) 384 then Some "ES384"
              else if Z.eqb (k_size k) 521 then Some "ES512" else None
  | KOther => None
  end.

Record jwk := { j_kid : string; j_alg : string; j_key : keymat; j_use : string; j_certs : list nat }.

Definition list_nat_eqb := list_eqb Nat.eqb.

Definition jwk_eqb (a b : jwk) : bool :=
  String.eqb (j_kid a) (j_kid b) && String.eqb (j_alg a) (j_alg b) && keymat_eqb (j_key a) (j_key b)
  && String.eqb (j_use a) (j_use b) && list_nat_eqb (j_certs a) (j_certs b).

Definition entry_jwk (e : entry) : res jwk :=
  match jose_alg (e_key e) with
  | None => Panic
  | Some a => Ok {| j_kid := e_kid e; j_alg := a; j_key := public_of (Priv (e_key e));
                    j_use := "sig"; j_certs := e_chain e |}
  end.

Fixpoint entries_jwks (es : list entry) : res (list jwk) :=
  match es with
  | [] => Ok []
  | e :: rest =>
    match entry_jwk e with
    | Ok j => match entries_jwks rest with Ok js => Ok (j :: js) | Err => Err | Panic => Panic end
    | Err => Err
    | Panic => Panic
    end
  end.

(* ------------------------------------------------------------------ jwtSigner *)

(** the three fields guarded by jwtSigner.mut *)
Record state := { s_jwk : jwk; s_key : keymat; s_pub : list jwk }.

(** jwtSigner.load up to the swap: the new field values, an error (state kept), or a panic *)
Definition load (cfg_kid : string) (f : pem_file) : res state :=
  match keystore_of f with
  | Err => Err
  | Panic => Panic
  | Ok es =>
    let active :=
      if String.eqb cfg_kid "" then match es with [] => Panic | e :: _ => Ok e end   (* ks.Entries()[0] *)
      else match get_key cfg_kid es with Some e => Ok e | None => Err end in
    match active with
    | Err => Err
    | Panic => Panic
    | Ok e =>
      if negb (is_nil (e_chain e)) && negb (e_usage_ok e) then Err else
      match entries_jwks es with                     (* keys[idx] = entry.JWK() *)
      | Err => Err
      | Panic => Panic
      | Ok keys =>
        match entry_jwk e with                        (* s.jwk = kse.JWK() *)
        | Ok j => Ok {| s_jwk := j; s_key := Priv (e_key e); s_pub := keys |}
        | Err => Err
        | Panic => Panic
        end
      end
    end
  end.

(* ------------------------------------------------------------------ claims *)

(** claim values: strings and integers as such, any other JSON value by its canonical
    text; [VSubj], [VOut], [VAttr] (templates only) are the subject's id, the value of
    .Outputs.x and of .Subject.Attributes.x of the request; [VJti n] is the n-th distinct
    freshly generated UUID of a run *)
Inductive cval := VStr (s : string) | VInt (z : Z) | VRaw (json : string) | VSubj | VOut | VAttr | VJti (n : nat).

Definition cval_eqb (a b : cval) : bool :=
  match a, b with
  | VStr x, VStr y | VRaw x, VRaw y => String.eqb x y
  | VInt x, VInt y => Z.eqb x y
  | VSubj, VSubj | VOut, VOut | VAttr, VAttr => true
  | VJti x, VJti y => Nat.eqb x y
  | _, _ => false
  end.

(** a Go map[string]any as an association list without duplicate names *)
Definition cmap := list (string * cval).

Fixpoint mget (k : string) (m : cmap) : option cval :=
  match m with
  | [] => None
  | (k', v) :: r => if String.eqb k k' then Some v else mget k r
  end.

Fixpoint mset (k : string) (v : cval) (m : cmap) : cmap :=
  match m with
  | [] => [(k, v)]
  | (k', v') :: r => if String.eqb k k' then (k, v) :: r else (k', v') :: mset k v r
  end.

(** json.Unmarshal of an object into a map: a repeated member name keeps the last value.
    Also koanf maps.Merge(src, dst) for a [dst] that has no map under a name of [src]
    (in Sign [dst] is the empty map). *)
Definition merge (src : list (string * cval)) (dst : cmap) : cmap :=
  fold_left (fun d kv => mset (fst kv) (snd kv) d) src dst.

(** what a request brings along: the subject's id, one pipeline output and one subject
    attribute (the ones templates may refer to) *)
Record req := { q_sub : string; q_out : string; q_attr : string }.

Definition resolve (q : req) (v : cval) : cval :=
  match v with VSubj => VStr (q_sub q) | VOut => VStr (q_out q) | VAttr => VStr (q_attr q) | _ => v end.

(** the rendered claims template, unmarshalled *)
Definition render (q : req) (tmpl : list (string * cval)) : cmap :=
  merge (map (fun kv => (fst kv, resolve q (snd kv))) tmpl) [].

(* ------------------------------------------------------------------ Sign *)

Definition second : Z := 1000000000.
(** time.Time.Unix() of an instant given in nanoseconds since the epoch *)
Definition unix (ns : Z) : Z := ns / second.

(** [t_hdr]: "" if the token arrived in the upstream header the catalogue finalizer is configured with
    (name and scheme), else what it arrived in — an observable of the driver, always "" in the model *)
Record token := { t_alg : string; t_kid : string; t_typ : string; t_key : keymat; t_claims : cmap; t_hdr : string }.

(** jose.NewSigner / Serialize succeed iff the key fits the algorithm: RSA keys sign
    with any PS*, an ECDSA key only with the ES* of its curve; public halves cannot sign *)
Definition can_sign (alg : string) (m : keymat) : bool :=
  match m with
  | Pub _ => false
  | Priv k =>
    match k_kind k with
    | KRsa => str_in alg ["PS256"; "PS384"; "PS512"]
    | KEcdsa => match jose_alg k with Some a => String.eqb a alg | None => false end
    | KOther => false
    end
  end.

(** jwtSigner.Sign on the field values it read; times in nanoseconds *)
Definition sign (st : state) (iss sub : string) (ttl now : Z) (jti : cval) (custom : cmap) : res token :=
  let jwk := s_jwk st in
  let key := s_key st in
  if negb (can_sign (j_alg jwk) key) then Err else
  let c := merge custom [] in
  let c := mset "exp" (VInt (unix (now + ttl))) c in
  let c := mset "jti" jti c in
  let c := mset "iat" (VInt (unix now)) c in
  let c := mset "iss" (VStr iss) c in
  let c := mset "nbf" (VInt (unix now)) c in
  let c := mset "sub" (VStr sub) c in
  Ok {| t_alg := j_alg jwk; t_kid := j_kid jwk; t_typ := "JWT"; t_key := key; t_claims := c; t_hdr := "" |}.

(* ------------------------------------------------------------------ finalizer + cache *)

Record config := {
  c_keyid : string;                (* signer.key_id *)
  c_name : string;                 (* signer.name, "" if not configured *)
  c_ttl : option Z;                (* ttl in ns *)
  c_claims : option (list (string * cval));   (* claims template, as the member list it renders *)
  c_cache : bool;                  (* is there a cache in the request context *)
  c_twin : option string;          (* a second catalogue finalizer over the same key-store file and with the same
                                      configuration except for signer.name, sharing the cache (its keys are not published) *)
  c_before : list pem_file;        (* key stores of other key holders registered before this finalizer ... *)
  c_after : list pem_file }.       (* ... and after it (each a jwt signer of its own, no key_id) *)

Definition issuer (c : config) : string := if String.eqb (c_name c) "" then "heimdall" else c_name c.
Definition ttl_of (c : config) : Z := match c_ttl c with Some t => t | None => 300 * second end.
Definition cache_leeway : Z := 5 * second.

(** a rule-level override handed to jwtFinalizer.WithConfig: only ttl and claims may be
    given; any other member (header, signer, ...) is a decoding error ([o_unknown]) *)
Record override := { o_ttl : option Z; o_claims : option (list (string * cval)); o_unknown : bool }.

(** WithConfig: decode + validate (ttl > 1s), then every given member replaces the
    prototype's, every member not given keeps the prototype's value; signer (key id, name,
    key store), header and the registry are the prototype's.  An empty override returns
    the prototype itself, which is the same overlay. *)
Definition with_config (c : config) (o : override) : res config :=
  if o_unknown o then Err else
  if match o_ttl o with Some t => (t <=? second)%Z | None => false end then Err else
  Ok {| c_keyid := c_keyid c; c_name := c_name c;
        c_ttl := match o_ttl o with Some t => Some t | None => c_ttl c end;
        c_claims := match o_claims o with Some t => Some t | None => c_claims c end;
        c_cache := c_cache c; c_twin := c_twin c; c_before := c_before c; c_after := c_after c |}.

(** the twin: the same configuration under another signer name *)
Definition with_name (c : config) (n : string) : config :=
  {| c_keyid := c_keyid c; c_name := n; c_ttl := c_ttl c; c_claims := c_claims c; c_cache := c_cache c;
     c_twin := c_twin c; c_before := c_before c; c_after := c_after c |}.

(** calculateCacheKey: signer hash (kid, alg, iss, and — since the repair of C16-F1, fix: commit
    d9caf75 — the thumbprint of the public key), template hash, ttl, subject hash (id and
    attributes), outputs.  Template and ttl differ between a prototype and its rule-level
    variants, the issuer between a finalizer and its twin. *)
Record ckey := { ck_kid : string; ck_alg : string; ck_iss : string; ck_sub : string; ck_out : string; ck_attr : string;
                 ck_key : option keyref; ck_ttl : Z; ck_claims : option (list (string * cval)) }.

Definition tmpl_eqb (a b : list (string * cval)) : bool :=
  list_eqb (fun x y => String.eqb (fst x) (fst y) && cval_eqb (snd x) (snd y)) a b.

Definition ckey_eqb (a b : ckey) : bool :=
  String.eqb (ck_kid a) (ck_kid b) && String.eqb (ck_alg a) (ck_alg b) && String.eqb (ck_iss a) (ck_iss b)
  && String.eqb (ck_sub a) (ck_sub b) && String.eqb (ck_out a) (ck_out b) && String.eqb (ck_attr a) (ck_attr b)
  && option_eqb keyref_eqb (ck_key a) (ck_key b)
  && Z.eqb (ck_ttl a) (ck_ttl b) && option_eqb tmpl_eqb (ck_claims a) (ck_claims b).

(** the cache of the request context: entries expire; the clock is the cache's own
    (the driver's cache stub runs on a virtual clock that [OWait] advances) *)
Definition cache := list (ckey * token * Z).        (* key, value, expires at *)
Fixpoint cache_get (k : ckey) (clock : Z) (c : cache) : option token :=
  match c with
  | [] => None
  | (k', t, e) :: r => if ckey_eqb k k' then (if (clock <? e)%Z then Some t else None) else cache_get k clock r
  end.

Record world := { w_st : state; w_cache : cache; w_minted : nat; w_clock : Z }.

(** which repairs are in the tree: C16-F1 (cache key covers the key itself), C16-F2 (the
    token is cached under the key of the JWK it was actually signed with) *)
Record fixes := { fx_F1 : bool; fx_F2 : bool }.

(** OnChanged: load, swap on success, keep the state otherwise *)
Definition reload (c : config) (w : world) (f : pem_file) : world * res unit :=
  match load (c_keyid c) f with
  | Ok st => ({| w_st := st; w_cache := w_cache w; w_minted := w_minted w; w_clock := w_clock w |}, Ok tt)
  | Err => (w, Err)
  | Panic => (w, Panic)
  end.

Definition reloads (c : config) (w : world) (fs : list pem_file) : world :=
  fold_left (fun w f => fst (reload c w f)) fs w.

(** jwtSigner.Hash() + the rest of calculateCacheKey, on the JWK read in Hash's critical section *)
Definition key_of (fx : fixes) (c : config) (st : state) (q : req) : ckey :=
  {| ck_kid := j_kid (s_jwk st); ck_alg := j_alg (s_jwk st); ck_iss := issuer c;
     ck_sub := q_sub q; ck_out := q_out q; ck_attr := q_attr q;
     ck_key := if fx_F1 fx then Some (keyref_of (j_key (s_jwk st))) else None;
     ck_ttl := ttl_of c; ck_claims := c_claims c |}.

(** jwtFinalizer.Execute for a non-nil subject at time [now], on the prototype, the twin
    or a variant ([c] = its effective configuration).  Execute enters the signer's read
    lock twice: in Hash() for the cache key, and — after the cache lookup — in signWithHash().
    [mids] are the key-store reloads that land between the two (none in a quiet system).
    Before 186d696 (fx_F2 = false, C16-F2) the fresh token was stored under the key computed
    *before* them; the code as it is (fx_F2 = true) files it under the key of the JWK
    signWithHash used. *)
Definition exec (fx : fixes) (c : config) (w : world) (q : req) (now : Z) (mids : list pem_file)
  : world * res token :=
  let key0 := key_of fx c (w_st w) q in
  match (if c_cache c then cache_get key0 (w_clock w) (w_cache w) else None) with
  | Some t => (reloads c w mids, Ok t)
  | None =>
    let w1 := reloads c w mids in
    let custom := match c_claims c with Some t => render q t | None => [] end in
    match sign (w_st w1) (issuer c) (q_sub q) (ttl_of c) now (VJti (w_minted w1)) custom with
    | Ok t =>
      let key1 := if fx_F2 fx then key_of fx c (w_st w1) q else key0 in
      let cch := if c_cache c && (cache_leeway <? ttl_of c)%Z
                 then (key1, t, w_clock w1 + (ttl_of c - cache_leeway))%Z :: w_cache w1 else w_cache w1 in
      ({| w_st := w_st w1; w_cache := cch; w_minted := S (w_minted w1); w_clock := w_clock w1 |}, Ok t)
    | Err => (w1, Err)
    | Panic => (w1, Panic)
    end
  end.

(** what another key holder publishes (a holder whose creation fails is never registered) *)
Definition others_pub (fs : list pem_file) : list jwk :=
  flat_map (fun f => match load "" f with Ok st => s_pub st | _ => [] end) fs.

(** registry.Keys() as served by the management endpoint: every holder's Keys() in
    registration order *)
Definition jwks (c : config) (w : world) : list jwk :=
  others_pub (c_before c) ++ s_pub (w_st w) ++ others_pub (c_after c).

(** a token verifies against a key set if the set has a key with the token's key id
    whose public key is the public half of the signing key (cryptography trusted) *)
Definition verifies (t : token) (ks : list jwk) : bool :=
  existsb (fun j => String.eqb (j_kid j) (t_kid t) && keymat_eqb (j_key j) (public_of (t_key t))) ks.

(* ------------------------------------------------------------------ histories *)

Inductive op :=
| OExec (twin : bool) (ov : option override) (q : req) (now : Z) (mids : list pem_file)
     (* Execute on the catalogue finalizer or its twin, or on a rule-level variant
        (WithConfig(override)) of it; [now] = the instant Sign reads if it mints;
        [mids] = files the key store is replaced by (each followed by OnChanged) between
        Execute's cache lookup and its call of Sign *)
| OReload (f : pem_file)              (* the key-store file is replaced, OnChanged runs *)
| OJwks                               (* GET /.well-known/jwks *)
| OWait (d : Z).                      (* the cache's clock advances by d ns *)

Inductive oobs :=
| XToken (t : token) (verified : bool)   (* verified: against the key set served right after *)
| XErr | XPanic | XDone
| XJwks (ks : list jwk).

(** which finalizer a rule step runs *)
Definition target (c : config) (twin : bool) (ov : option override) : res config :=
  match (if twin then match c_twin c with Some n => Ok (with_name c n) | None => Err end else Ok c) with
  | Ok b => match ov with None => Ok b | Some o => with_config b o end
  | Err => Err
  | Panic => Panic
  end.

Definition step (fx : fixes) (c : config) (w : world) (o : op) : world * oobs :=
  match o with
  | OExec twin ov q now mids =>
    match target c twin ov with
    | Ok ce =>
      match exec fx ce w q now mids with
      | (w', Ok t) => (w', XToken t (verifies t (jwks c w')))
      | (w', Err) => (w', XErr)
      | (w', Panic) => (w', XPanic)
      end
    | Err => (w, XErr)
    | Panic => (w, XPanic)
    end
  | OReload f =>
    match reload c w f with
    | (w', Ok _) => (w', XDone)
    | (w', Err) => (w', XErr)
    | (w', Panic) => (w', XPanic)
    end
  | OJwks => (w, XJwks (jwks c w))
  | OWait d => ({| w_st := w_st w; w_cache := w_cache w; w_minted := w_minted w; w_clock := (w_clock w + d)%Z |}, XDone)
  end.

Fixpoint steps (fx : fixes) (c : config) (w : world) (ops : list op) : list oobs :=
  match ops with
  | [] => []
  | o :: r => let '(w', x) := step fx c w o in x :: steps fx c w' r
  end.

Definition world0 (st : state) : world := {| w_st := st; w_cache := []; w_minted := 0; w_clock := 0 |}.

(** newJWTFinalizer: decode (ttl must exceed 1s), newJWTSigner = first load *)
Definition create (c : config) (f : pem_file) : res world :=
  match c_ttl c with
  | Some t => if (t <=? second)%Z then Err else
              match load (c_keyid c) f with Ok st => Ok (world0 st) | Err => Err | Panic => Panic end
  | None => match load (c_keyid c) f with Ok st => Ok (world0 st) | Err => Err | Panic => Panic end
  end.

(** a whole run: creation outcome, then one observation per operation *)
Definition run (fx : fixes) (c : config) (f : pem_file) (ops : list op) : res unit * list oobs :=
  match create c f with
  | Ok w => (Ok tt, steps fx c w ops)
  | Err => (Err, [])
  | Panic => (Panic, [])
  end.
