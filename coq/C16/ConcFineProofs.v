(** C16 — every schedule of the fine machine (C16/ConcFine.v: lock operations and single field accesses as
    steps, a blocking RWMutex, reloads as threads) is, through the abstraction [abs], the schedule [tr_sched]
    of the machine of C16/Conc.v: critical sections may be taken as atomic.  Invariant [finv]: a writer
    excludes readers and other writers; what a reader has copied so far are the current field values; the
    writer has assigned the fields it has passed. *)
From HV Require Import Base.Prelude C16.Model C16.Spec C16.Proofs C16.Conc C16.ConcProofs C16.ConcFine.
Open Scope string_scope.
Open Scope list_scope.

(* ------------------------------------------------------------------ lists *)

Lemma existsb_nth {A} (P : A -> bool) l :
  existsb P l = true <-> exists i x, nth_error l i = Some x /\ P x = true.
Proof.
  split.
  - intro H. apply existsb_exists in H as [x [Hin Hx]]. apply In_nth_error in Hin as [i Hi]. eauto.
  - intros (i & x & Hi & Hx). apply existsb_exists. exists x. split; [eapply nth_error_In; exact Hi | exact Hx].
Qed.

Lemma existsb_false_nth {A} (P : A -> bool) l i x :
  existsb P l = false -> nth_error l i = Some x -> P x = false.
Proof.
  intros H Hi. destruct (P x) eqn:E; [|reflexivity].
  assert (existsb P l = true) by (apply existsb_nth; eauto). congruence.
Qed.

Lemma existsb_false_all {A} (P : A -> bool) l :
  (forall i x, nth_error l i = Some x -> P x = false) -> existsb P l = false.
Proof.
  intro H. destruct (existsb P l) eqn:E; [|reflexivity].
  apply existsb_nth in E as (i & x & Hi & Hx). rewrite (H _ _ Hi) in Hx. discriminate.
Qed.

Lemma nth_set_nth_inv {A} (x : A) l i j y :
  nth_error (set_nth i x l) j = Some y -> (j = i /\ y = x) \/ (j <> i /\ nth_error l j = Some y).
Proof.
  destruct (Nat.eq_dec j i) as [->|Hne].
  - intro H. left. split; [reflexivity|].
    destruct (nth_error l i) as [z|] eqn:N.
    + rewrite (nth_set_nth_eq _ _ _ _ N) in H. inversion H. reflexivity.
    + exfalso. apply nth_error_None in N. assert (nth_error (set_nth i x l) i = None) as E.
      { apply nth_error_None. rewrite set_nth_length. exact N. }
      rewrite E in H. discriminate.
  - rewrite nth_set_nth_neq by (intro; apply Hne; symmetry; assumption). auto.
Qed.

Lemma existsb_set_nth_false {A} (P : A -> bool) x l i :
  (forall j y, j <> i -> nth_error l j = Some y -> P y = false) -> P x = false -> existsb P (set_nth i x l) = false.
Proof.
  intros H Hx. apply existsb_false_all. intros j y Hj.
  apply nth_set_nth_inv in Hj as [[_ ->]|[Hne Hj]]; [exact Hx | eapply H; eassumption].
Qed.

Lemma set_nth_same {A} (x : A) l : forall i, nth_error l i = Some x -> set_nth i x l = l.
Proof.
  induction l as [|y r IH]; intros [|i] H; simpl in *; try discriminate.
  - inversion H. reflexivity.
  - f_equal. apply IH. exact H.
Qed.

Lemma map_set_nth {A B} (f : A -> B) (x : A) l : forall i, map f (set_nth i x l) = set_nth i (f x) (map f l).
Proof. induction l as [|y r IH]; intros [|i]; simpl; try reflexivity. f_equal. apply IH. Qed.

Lemma find_none {A} (P : A -> bool) l : existsb P l = false -> find P l = None.
Proof.
  induction l as [|y r IH]; simpl; [reflexivity|]. destruct (P y); simpl; [discriminate | exact IH].
Qed.

(** position i is the only one that may satisfy P *)
Definition only_at {A} (P : A -> bool) (i : nat) (l : list A) : Prop :=
  forall j y, j <> i -> nth_error l j = Some y -> P y = false.

Lemma only_at_tail {A} (P : A -> bool) i y r : only_at P (S i) (y :: r) -> only_at P i r.
Proof. intros H j z Hne Hj. apply (H (S j) z); [intro E; apply Hne; inversion E; reflexivity | exact Hj]. Qed.

Lemma find_set_nth_hit {A} (P : A -> bool) x l : forall i old,
  only_at P i l -> nth_error l i = Some old -> P x = true -> find P (set_nth i x l) = Some x.
Proof.
  induction l as [|y r IH]; intros [|i] old H N Hx; simpl in *; try discriminate.
  - rewrite Hx. reflexivity.
  - rewrite (H 0 y (Nat.neq_0_succ i) eq_refl). eapply IH; [eapply only_at_tail; exact H | exact N | exact Hx].
Qed.

Lemma find_only_at {A} (P : A -> bool) l : forall i x,
  only_at P i l -> nth_error l i = Some x -> P x = true -> find P l = Some x.
Proof.
  intros i x H N Hx. rewrite <- (set_nth_same x l i N). eapply find_set_nth_hit; eassumption.
Qed.

Lemma find_set_nth_skip {A} (P : A -> bool) x l : forall i old,
  nth_error l i = Some old -> P old = false -> P x = false -> find P (set_nth i x l) = find P l.
Proof.
  induction l as [|y r IH]; intros [|i] old N Ho Hx; simpl in *; try discriminate.
  - inversion N; subst. rewrite Ho, Hx. reflexivity.
  - destruct (P y); [reflexivity | eapply IH; eassumption].
Qed.

Lemma find_set_nth_miss {A} (P : A -> bool) x l i :
  only_at P i l -> P x = false -> find P (set_nth i x l) = None.
Proof. intros H Hx. apply find_none. apply existsb_set_nth_false; assumption. Qed.

Lemma frun_cons fx c e s g : frun fx c (e :: s) g = frun fx c s (fstep fx c g e).
Proof. reflexivity. Qed.

(* ------------------------------------------------------------------ the copies *)

Lemma key_of_jwk fx c st q x : key_of fx c (st_of (s_jwk st) x) q = key_of fx c st q.
Proof. reflexivity. Qed.

Lemma sign_copies st iss sub ttl now jti custom :
  sign (st_of (s_jwk st) (s_key st)) iss sub ttl now jti custom = sign st iss sub ttl now jti custom.
Proof. reflexivity. Qed.

Lemma published_pub_of c st : published c st = pub_of c (s_pub st).
Proof. reflexivity. Qed.

(* ------------------------------------------------------------------ invariant *)

Section Fine.
  Variable fx : fixes.
  Variable c : config.

  Definition ex_ok (sh : state) (p : epc) : Prop :=
    match p with
    | EHRead j | ESRead1 _ j => j = s_jwk sh
    | ESRead2 _ j k => j = s_jwk sh /\ k = s_key sh
    | _ => True
    end.

  Definition jw_ok (sh : state) (p : jpc) : Prop := match p with JRead ks => ks = s_pub sh | _ => True end.

  Definition wr_ok (sh : state) (p : rpc) : Prop :=
    match p with
    | RW1 st => s_jwk sh = s_jwk st
    | RW2 st => s_jwk sh = s_jwk st /\ s_key sh = s_key st
    | RW3 st => sh = st
    | _ => True
    end.

  Definition wP (th : rthread) : bool := r_writing (rt_pc th).
  Definition rP (th : ethread) : bool := e_reading (et_pc th).

  Record finv (g : fconf) : Prop := {
    fi_excl : writers g = true -> readers g = false;
    fi_uniq : forall r r' th th', nth_error (f_rls g) r = Some th -> nth_error (f_rls g) r' = Some th' ->
                                  wP th = true -> wP th' = true -> r = r';
    fi_wr : forall r th, nth_error (f_rls g) r = Some th -> wr_ok (f_sh g) (rt_pc th);
    fi_ex : forall i th, nth_error (f_exs g) i = Some th -> ex_ok (f_sh g) (et_pc th);
    fi_jw : forall k p, nth_error (f_jws g) k = Some p -> jw_ok (f_sh g) p }.

  Lemma ex_ok_idle sh p : e_reading p = false -> ex_ok sh p.
  Proof. destruct p; simpl; intro H; try exact I; discriminate. Qed.

  Lemma jw_ok_idle sh p : j_reading p = false -> jw_ok sh p.
  Proof. destruct p; simpl; intro H; try exact I; discriminate. Qed.

  Lemma wr_ok_idle sh p : r_writing p = false -> wr_ok sh p.
  Proof. destruct p; simpl; intro H; try exact I; discriminate. Qed.

  Lemma readers_split g : readers g = false <->
    existsb rP (f_exs g) = false /\ existsb j_reading (f_jws g) = false.
  Proof. unfold readers. fold rP. apply orb_false_iff. Qed.

  Lemma ex_reading_readers g i th : nth_error (f_exs g) i = Some th -> rP th = true -> readers g = true.
  Proof.
    intros N R. unfold readers. fold rP. apply orb_true_iff. left. apply existsb_nth. eauto.
  Qed.

  Lemma jw_reading_readers g k p : nth_error (f_jws g) k = Some p -> j_reading p = true -> readers g = true.
  Proof.
    intros N R. unfold readers. apply orb_true_iff. right. apply existsb_nth. eauto.
  Qed.

  Lemma reading_no_writer g : finv g -> readers g = true -> writers g = false.
  Proof. intros FI R. destruct (writers g) eqn:W; [|reflexivity]. apply (fi_excl g FI) in W. congruence. Qed.

  Lemma no_writer_abs g : writers g = false -> abs_st g = f_sh g.
  Proof. intro W. unfold abs_st, pending. unfold writers in W. rewrite (find_none _ _ W). reflexivity. Qed.

  Lemma no_writer_only g r : writers g = false -> only_at wP r (f_rls g).
  Proof. intros W j y _ Hj. eapply existsb_false_nth; [exact W | exact Hj]. Qed.

  Lemma writer_only g r th : finv g -> nth_error (f_rls g) r = Some th -> wP th = true -> only_at wP r (f_rls g).
  Proof.
    intros FI N Hw j y Hne Hj. destruct (wP y) eqn:E; [|reflexivity]. exfalso. apply Hne.
    eapply (fi_uniq g FI); eassumption.
  Qed.

  Lemma writer_abs g r th st : finv g -> nth_error (f_rls g) r = Some th -> wP th = true ->
    target (rt_pc th) = Some st -> abs_st g = st.
  Proof.
    intros FI N Hw T. unfold abs_st, pending. fold wP.
    rewrite (find_only_at wP _ r th (writer_only g r th FI N Hw) N Hw), T. reflexivity.
  Qed.

  Lemma writer_writers g r th : nth_error (f_rls g) r = Some th -> wP th = true -> writers g = true.
  Proof. intros N Hw. unfold writers. fold wP. apply existsb_nth. eauto. Qed.

  (* ------------------------------------------------------------------ a step of a call *)

  Definition commits (p : epc) : bool :=
    match p with EHRead _ | EKeyed _ | ESRead2 _ _ _ | ESigned _ _ | ERetp _ => true | _ => false end.

  Definition abs_upd (u : eupd) : upd :=
    {| u_th := abs_th (eu_th u); u_cache := eu_cache u; u_minted := eu_minted u; u_made := eu_made u |}.

  Lemma fexec_commit g i th : finv g -> nth_error (f_exs g) i = Some th -> commits (et_pc th) = true ->
    exec_step fx (abs g) (abs_th th) = abs_upd (fexec fx g th).
  Proof.
    intros FI N Hc. pose proof (fi_ex g FI i th N) as OK.
    unfold exec_step, fexec, abs_upd, abs_th. cbn [th_call th_pc th_st0 th_st1].
    destruct (et_pc th) as [| |j|k0|k0|k0|k0 j|k0 j k|k t|t|r] eqn:PC; try discriminate; cbn [abs_pc].
    - (* RUnlock of Hash() *)
      assert (A : abs_st g = f_sh g).
      { apply no_writer_abs, (reading_no_writer g FI). eapply ex_reading_readers; [exact N|]. unfold rP. rewrite PC. reflexivity. }
      simpl in OK. subst j. cbn [g_st g_cache g_minted g_made abs]. rewrite A. reflexivity.
    - (* cch.Get *)
      cbn [g_clock g_cache g_minted g_made abs].
      destruct (if c_cache (cl_cfg (et_call th)) then cache_get k0 (f_clock g) (f_cache g) else None); reflexivity.
    - (* RUnlock of signWithHash(), signing *)
      assert (A : abs_st g = f_sh g).
      { apply no_writer_abs, (reading_no_writer g FI). eapply ex_reading_readers; [exact N|]. unfold rP. rewrite PC. reflexivity. }
      simpl in OK. destruct OK as [-> ->]. cbn [g_st g_cache g_minted g_made abs]. rewrite A.
      change (sign (st_of (s_jwk (f_sh g)) (s_key (f_sh g)))) with (sign (f_sh g)).
      destruct (sign (f_sh g) _ _ _ _ _ _); reflexivity.
    - (* cch.Set *) reflexivity.
    - (* return *) reflexivity.
  Qed.

  Lemma fexec_stutter g th : commits (et_pc th) = false ->
    abs_upd (fexec fx g th) =
    {| u_th := abs_th th; u_cache := f_cache g; u_minted := f_minted g; u_made := f_made g |}.
  Proof.
    intro Hc. unfold fexec, abs_upd, abs_th.
    destruct (et_pc th) as [| |j|k0|k0|k0|k0 j|k0 j k|k t|t|r] eqn:PC; try discriminate; cbn.
    - destruct (writers g); reflexivity.
    - reflexivity.
    - destruct (writers g); reflexivity.
    - reflexivity.
    - reflexivity.
    - reflexivity.
  Qed.

  Lemma tr_ex g i th : nth_error (f_exs g) i = Some th ->
    tr c g (FEx i) = if commits (et_pc th) then [SThread i] else [].
  Proof. intro N. unfold tr. rewrite N. destruct (et_pc th); reflexivity. Qed.

  Lemma abs_ex_step g i th : finv g -> nth_error (f_exs g) i = Some th ->
    abs (fstep fx c g (FEx i)) = crun fx c (tr c g (FEx i)) (abs g).
  Proof.
    intros FI N. rewrite (tr_ex g i th N). unfold fstep. rewrite N.
    assert (NA : nth_error (g_ths (abs g)) i = Some (abs_th th)) by (cbn; apply map_nth_error; exact N).
    destruct (commits (et_pc th)) eqn:Hc.
    - unfold crun. cbn [fold_left cstep]. rewrite NA, (fexec_commit g i th FI N Hc).
      unfold abs at 1. unfold abs_st, abs_upd.
      cbn [f_sh f_cache f_minted f_clock f_exs f_rls f_jws f_jwks f_made u_th u_cache u_minted u_made].
      rewrite map_set_nth. reflexivity.
    - pose proof (fexec_stutter g th Hc) as S. unfold abs_upd in S.
      pose proof (f_equal u_th S) as S1. pose proof (f_equal u_cache S) as S2.
      pose proof (f_equal u_minted S) as S3. pose proof (f_equal u_made S) as S4. cbn in S1, S2, S3, S4.
      unfold crun. cbn [fold_left]. unfold abs, abs_st.
      cbn [f_sh f_cache f_minted f_clock f_exs f_rls f_jws f_jwks f_made].
      rewrite map_set_nth, S1, S2, S3, S4.
      rewrite (set_nth_same (abs_th th) (map abs_th (f_exs g)) i (map_nth_error abs_th i (f_exs g) N)). reflexivity.
  Qed.
  Lemma fexec_idle g th : writers g = true -> rP th = false ->
    e_reading (et_pc (eu_th (fexec fx g th))) = false.
  Proof.
    unfold fexec, rP. destruct (et_pc th); cbn; intros W R; try discriminate; try rewrite W; try reflexivity.
    - destruct (if c_cache _ then _ else _); reflexivity.
  Qed.

  Lemma fexec_ok g th : ex_ok (f_sh g) (et_pc th) -> ex_ok (f_sh g) (et_pc (eu_th (fexec fx g th))).
  Proof.
    unfold fexec. destruct (et_pc th); cbn; intro OK; auto.
    - destruct (writers g); exact I.
    - destruct (if c_cache _ then _ else _); exact I.
    - destruct (writers g); exact I.
    - destruct (sign _ _ _ _ _ _ _); exact I.
  Qed.

  Lemma inv_ex_step g i : finv g -> finv (fstep fx c g (FEx i)).
  Proof.
    intro FI. unfold fstep. destruct (nth_error (f_exs g) i) as [th|] eqn:N; [|exact FI].
    constructor; cbn [f_sh f_exs f_rls f_jws].
    - unfold writers, readers. cbn [f_rls f_exs f_jws]. intro W. fold (writers g) in W.
      pose proof (fi_excl g FI W) as R. apply readers_split in R as [R1 R2].
      apply orb_false_iff. split; [|exact R2]. fold rP. apply existsb_set_nth_false.
      + intros j y _ Hj. eapply existsb_false_nth; [exact R1 | exact Hj].
      + apply (fexec_idle g th W). eapply existsb_false_nth; [exact R1 | exact N].
    - exact (fi_uniq g FI).
    - exact (fi_wr g FI).
    - intros j y Hj. apply nth_set_nth_inv in Hj as [[_ ->]|[_ Hj]].
      + apply fexec_ok. exact (fi_ex g FI i th N).
      + exact (fi_ex g FI j y Hj).
    - exact (fi_jw g FI).
  Qed.

  (* ------------------------------------------------------------------ a step of a JWKS request *)

  Lemma abs_jw_step g k : finv g -> abs (fstep fx c g (FJw k)) = crun fx c (tr c g (FJw k)) (abs g).
  Proof.
    intro FI. unfold fstep, tr. destruct (nth_error (f_jws g) k) as [p|] eqn:N; [|reflexivity].
    destruct p as [| |ks|]; cbn [fjw].
    - destruct (writers g); reflexivity.
    - reflexivity.
    - assert (A : abs_st g = f_sh g).
      { apply no_writer_abs, (reading_no_writer g FI). eapply jw_reading_readers; [exact N | reflexivity]. }
      pose proof (fi_jw g FI k _ N) as OK. simpl in OK. subst ks.
      unfold crun. cbn [fold_left cstep]. unfold abs at 1. unfold abs_st.
      cbn [f_sh f_cache f_minted f_clock f_exs f_rls f_jws f_jwks f_made].
      fold (abs_st g). cbn [abs g_st g_cache g_minted g_clock g_ths g_jwks g_made]. rewrite A, published_pub_of. reflexivity.
    - reflexivity.
  Qed.

  Lemma inv_jw_step g k : finv g -> finv (fstep fx c g (FJw k)).
  Proof.
    intro FI. unfold fstep. destruct (nth_error (f_jws g) k) as [p|] eqn:N; [|exact FI].
    destruct (fjw c g p) as [p' lg] eqn:J.
    constructor; cbn [f_sh f_exs f_rls f_jws].
    - unfold writers, readers. cbn [f_rls f_exs f_jws]. intro W. fold (writers g) in W.
      pose proof (fi_excl g FI W) as R. apply readers_split in R as [R1 R2].
      apply orb_false_iff. split; [exact R1|]. apply existsb_set_nth_false.
      + intros j y _ Hj. eapply existsb_false_nth; [exact R2 | exact Hj].
      + pose proof (existsb_false_nth _ _ _ _ R2 N) as Rp. unfold fjw in J.
        destruct p; try discriminate; [rewrite W in J|]; inversion J; reflexivity.
    - exact (fi_uniq g FI).
    - exact (fi_wr g FI).
    - exact (fi_ex g FI).
    - intros j y Hj. apply nth_set_nth_inv in Hj as [[_ ->]|[_ Hj]]; [|exact (fi_jw g FI j y Hj)].
      unfold fjw in J. destruct p; [destruct (writers g)| | |]; inversion J; simpl; auto.
  Qed.
  (* ------------------------------------------------------------------ a step of a reload *)

  Ltac proj := cbn [f_sh f_cache f_minted f_clock f_exs f_rls f_jws f_jwks f_made
                    g_st g_cache g_minted g_clock g_ths g_jwks g_made rt_pc rt_file].

  Lemma abs_rl_step g r : finv g -> abs (fstep fx c g (FRl r)) = crun fx c (tr c g (FRl r)) (abs g).
  Proof.
    intro FI. unfold fstep, tr. destruct (nth_error (f_rls g) r) as [th|] eqn:N; [|reflexivity].
    unfold frl. destruct (rt_pc th) as [|st|st|st|st|] eqn:PC.
    - (* parse, validate, Lock *)
      assert (Hw : wP th = false) by (unfold wP; rewrite PC; reflexivity).
      destruct (load (c_keyid c) (rt_file th)) as [st| |] eqn:L.
      + destruct (writers g || readers g) eqn:B.
        * unfold crun, abs, abs_st, pending. proj. fold wP.
          rewrite (find_set_nth_skip wP) with (old := th); [reflexivity | exact N | exact Hw | reflexivity].
        * apply orb_false_iff in B as [W _].
          unfold crun. cbn [fold_left cstep]. rewrite L. unfold abs, abs_st, pending. proj. fold wP.
          rewrite (find_set_nth_hit wP) with (old := th); [reflexivity | exact (no_writer_only g r W) | exact N | reflexivity].
      + unfold crun. cbn [fold_left cstep]. rewrite L. unfold abs, abs_st, pending. proj. fold wP.
        rewrite (find_set_nth_skip wP) with (old := th); [reflexivity | exact N | exact Hw | reflexivity].
      + unfold crun. cbn [fold_left cstep]. rewrite L. unfold abs, abs_st, pending. proj. fold wP.
        rewrite (find_set_nth_skip wP) with (old := th); [reflexivity | exact N | exact Hw | reflexivity].
    - (* s.jwk = *)
      assert (Hw : wP th = true) by (unfold wP; rewrite PC; reflexivity).
      assert (A : abs_st g = st) by (eapply writer_abs; [exact FI | exact N | exact Hw | rewrite PC; reflexivity]).
      unfold crun, abs. cbn [fold_left]. rewrite A. unfold abs_st, pending. proj. fold wP.
      rewrite (find_set_nth_hit wP) with (old := th); [reflexivity | exact (writer_only g r th FI N Hw) | exact N | reflexivity].
    - assert (Hw : wP th = true) by (unfold wP; rewrite PC; reflexivity).
      assert (A : abs_st g = st) by (eapply writer_abs; [exact FI | exact N | exact Hw | rewrite PC; reflexivity]).
      unfold crun, abs. cbn [fold_left]. rewrite A. unfold abs_st, pending. proj. fold wP.
      rewrite (find_set_nth_hit wP) with (old := th); [reflexivity | exact (writer_only g r th FI N Hw) | exact N | reflexivity].
    - assert (Hw : wP th = true) by (unfold wP; rewrite PC; reflexivity).
      assert (A : abs_st g = st) by (eapply writer_abs; [exact FI | exact N | exact Hw | rewrite PC; reflexivity]).
      unfold crun, abs. cbn [fold_left]. rewrite A. unfold abs_st, pending. proj. fold wP.
      rewrite (find_set_nth_hit wP) with (old := th); [reflexivity | exact (writer_only g r th FI N Hw) | exact N | reflexivity].
    - (* Unlock: all three fields are the new ones *)
      assert (Hw : wP th = true) by (unfold wP; rewrite PC; reflexivity).
      assert (A : abs_st g = st) by (eapply writer_abs; [exact FI | exact N | exact Hw | rewrite PC; reflexivity]).
      pose proof (fi_wr g FI r th N) as OK. rewrite PC in OK. simpl in OK.
      unfold crun, abs. cbn [fold_left]. rewrite A. unfold abs_st, pending. proj. fold wP.
      rewrite (find_set_nth_miss wP); [rewrite OK; reflexivity | exact (writer_only g r th FI N Hw) | reflexivity].
    - assert (Hw : wP th = false) by (unfold wP; rewrite PC; reflexivity).
      unfold crun, abs, abs_st, pending. proj. fold wP.
      rewrite (find_set_nth_skip wP) with (old := th); [reflexivity | exact N | exact Hw | reflexivity].
  Qed.
  Lemma readers_false_ex g i th : readers g = false -> nth_error (f_exs g) i = Some th -> e_reading (et_pc th) = false.
  Proof. intros R N. apply readers_split in R as [R _]. exact (existsb_false_nth rP _ _ _ R N). Qed.

  Lemma readers_false_jw g k p : readers g = false -> nth_error (f_jws g) k = Some p -> j_reading p = false.
  Proof. intros R N. apply readers_split in R as [_ R]. exact (existsb_false_nth _ _ _ _ R N). Qed.

  Lemma inv_rl_step g r : finv g -> finv (fstep fx c g (FRl r)).
  Proof.
    intro FI. unfold fstep. destruct (nth_error (f_rls g) r) as [th|] eqn:N; [|exact FI].
    destruct (frl c g th) as [sh p] eqn:J.
    set (th' := {| rt_file := rt_file th; rt_pc := p |}).
    (* what the step does to the lock *)
    assert (Hacq : wP th' = true -> wP th = true \/ (writers g = false /\ readers g = false)).
    { unfold wP, th'. cbn. unfold frl in J. destruct (rt_pc th) eqn:PC; try (intros _; left; reflexivity).
      - destruct (load (c_keyid c) (rt_file th)); [destruct (writers g || readers g) eqn:B|..]; inversion J; subst; cbn; try discriminate.
        intros _. right. apply orb_false_iff. exact B.
      - inversion J; subst. discriminate. }
    (* the fields change only under the write lock *)
    assert (Hsh : sh = f_sh g \/ wP th = true).
    { unfold wP. unfold frl in J. destruct (rt_pc th) eqn:PC; try (right; reflexivity).
      - left. destruct (load (c_keyid c) (rt_file th)); [destruct (writers g || readers g)|..]; inversion J; reflexivity.
      - left. inversion J; reflexivity. }
    assert (Hothers : wP th = true -> forall j y, j <> r -> nth_error (f_rls g) j = Some y -> wP y = false)
      by (intro Hw; exact (writer_only g r th FI N Hw)).
    constructor; cbn [f_sh f_exs f_rls f_jws].
    - (* a writer excludes readers *)
      unfold writers, readers. cbn [f_rls f_exs f_jws]. fold (readers g). fold wP. intro W.
      apply existsb_nth in W as (j & y & Hj & Hy). apply nth_set_nth_inv in Hj as [[_ ->]|[_ Hj]].
      + destruct (Hacq Hy) as [Hw|[_ R]]; [|exact R]. apply (fi_excl g FI). eapply writer_writers; eassumption.
      + apply (fi_excl g FI). eapply writer_writers; eassumption.
    - (* at most one writer *)
      intros r1 r2 y1 y2 H1 H2 W1 W2.
      apply nth_set_nth_inv in H1 as [[-> ->]|[Hn1 H1]]; apply nth_set_nth_inv in H2 as [[-> ->]|[Hn2 H2]].
      + reflexivity.
      + exfalso. destruct (Hacq W1) as [Hw|[W _]].
        * rewrite (Hothers Hw _ _ Hn2 H2) in W2. discriminate.
        * rewrite (existsb_false_nth wP _ _ _ W H2) in W2. discriminate.
      + exfalso. destruct (Hacq W2) as [Hw|[W _]].
        * rewrite (Hothers Hw _ _ Hn1 H1) in W1. discriminate.
        * rewrite (existsb_false_nth wP _ _ _ W H1) in W1. discriminate.
      + exact (fi_uniq g FI _ _ _ _ H1 H2 W1 W2).
    - (* the writer has assigned the fields it has passed *)
      intros j y Hj. apply nth_set_nth_inv in Hj as [[_ ->]|[Hne Hj]].
      + cbn [rt_pc th']. pose proof (fi_wr g FI r th N) as OK. unfold frl in J.
        destruct (rt_pc th) eqn:PC.
        * destruct (load (c_keyid c) (rt_file th)); [destruct (writers g || readers g)|..]; inversion J; exact I.
        * inversion J; subst. reflexivity.
        * inversion J; subst. simpl in *. auto.
        * inversion J; subst. simpl in *. destruct OK as [A B]. destruct st. simpl in *. subst. reflexivity.
        * inversion J; subst. exact I.
        * inversion J; subst. exact I.
      + destruct Hsh as [->|Hw]; [exact (fi_wr g FI j y Hj)|].
        apply wr_ok_idle. exact (Hothers Hw j y Hne Hj).
    - (* nobody is reading while the fields change *)
      intros i y Hi. destruct Hsh as [->|Hw]; [exact (fi_ex g FI i y Hi)|].
      apply ex_ok_idle. eapply readers_false_ex; [|exact Hi]. apply (fi_excl g FI). eapply writer_writers; eassumption.
    - intros k y Hk. destruct Hsh as [->|Hw]; [exact (fi_jw g FI k y Hk)|].
      apply jw_ok_idle. eapply readers_false_jw; [|exact Hk]. apply (fi_excl g FI). eapply writer_writers; eassumption.
  Qed.

  (* ------------------------------------------------------------------ the refinement *)

  Lemma fstep_refines g e : finv g ->
    abs (fstep fx c g e) = crun fx c (tr c g e) (abs g) /\ finv (fstep fx c g e).
  Proof.
    intro FI. destruct e as [i|r|k|d].
    - split; [|apply inv_ex_step; exact FI].
      destruct (nth_error (f_exs g) i) as [th|] eqn:N; [eapply abs_ex_step; eassumption|].
      unfold fstep, tr. rewrite N. reflexivity.
    - split; [apply abs_rl_step | apply inv_rl_step]; exact FI.
    - split; [apply abs_jw_step | apply inv_jw_step]; exact FI.
    - split; [reflexivity|]. destruct FI as [A B C D E]. constructor; assumption.
  Qed.

  (** EVERY FINE SCHEDULE IS A SCHEDULE OF THE MACHINE WITH ATOMIC SECTIONS *)
  Theorem fine_refines s : forall g, finv g ->
    abs (frun fx c s g) = crun fx c (tr_sched fx c g s) (abs g) /\ finv (frun fx c s g).
  Proof.
    induction s as [|e r IH]; intros g FI; [split; [reflexivity | exact FI]|].
    destruct (fstep_refines g e FI) as [A FI']. destruct (IH _ FI') as [B FI''].
    rewrite frun_cons. split; [|exact FI'']. cbn [tr_sched]. rewrite crun_app, <- A. exact B.
  Qed.

  Lemma finit_inv st calls files n : finv (finit st calls files n).
  Proof.
    assert (W : writers (finit st calls files n) = false).
    { unfold writers, finit. cbn. apply existsb_false_all. intros i x Hi.
      apply nth_error_In, in_map_iff in Hi as [f [<- _]]. reflexivity. }
    assert (R : readers (finit st calls files n) = false).
    { unfold readers, finit. cbn. apply orb_false_iff. split; apply existsb_false_all; intros i x Hi.
      - apply nth_error_In, in_map_iff in Hi as [f [<- _]]. reflexivity.
      - apply nth_error_In, repeat_spec in Hi. subst. reflexivity. }
    constructor.
    - intros _. exact R.
    - intros r r' th th' H _ Hw. rewrite (existsb_false_nth wP _ _ _ W H) in Hw. discriminate.
    - intros r th H. apply wr_ok_idle. exact (existsb_false_nth wP _ _ _ W H).
    - intros i th H. apply ex_ok_idle. eapply readers_false_ex; eassumption.
    - intros k p H. apply jw_ok_idle. eapply readers_false_jw; eassumption.
  Qed.

  Lemma abs_finit st calls files n : abs (finit st calls files n) = cinit st calls.
  Proof.
    unfold abs, cinit. rewrite no_writer_abs.
    - cbn. rewrite map_map. reflexivity.
    - unfold writers, finit. cbn. apply existsb_false_all. intros i x Hi.
      apply nth_error_In, in_map_iff in Hi as [f [<- _]]. reflexivity.
  Qed.
End Fine.

(* ------------------------------------------------------------------ what the theorems about the atomic machine say about fine schedules *)

Section FineCor.
  Variable fx : fixes.
  Hypothesis F1 : fx_F1 fx = true.
  Hypothesis F2 : fx_F2 fx = true.
  Variable c : config.

  Lemma tr_short g e : tr c g e = [] \/ exists x, tr c g e = [x].
  Proof.
    destruct e as [i|r|k|d]; cbn.
    - destruct (nth_error (f_exs g) i) as [th|]; [|auto]. destruct (et_pc th); eauto.
    - destruct (nth_error (f_rls g) r) as [th|]; [|auto]. destruct (rt_pc th); auto.
      destruct (load (c_keyid c) (rt_file th)); [destruct (writers g || readers g)|..]; eauto.
    - destruct (nth_error (f_jws g) k) as [[]|]; eauto.
    - eauto.
  Qed.

  (** an event of the atomic schedule comes from one step of the fine schedule *)
  Lemma tr_sched_split fs : forall g a1 x a2,
    tr_sched fx c g fs = a1 ++ x :: a2 ->
    exists fs1 e fs2, fs = fs1 ++ e :: fs2 /\ a1 = tr_sched fx c g fs1 /\
                      tr c (frun fx c fs1 g) e = [x] /\ a2 = tr_sched fx c (frun fx c (fs1 ++ [e]) g) fs2.
  Proof.
    induction fs as [|e r IH]; intros g a1 x a2 H; [destruct a1; discriminate|].
    cbn [tr_sched] in H. destruct (tr_short g e) as [E|[y E]]; rewrite E in H.
    - cbn in H. destruct (IH _ _ _ _ H) as (fs1 & e' & fs2 & -> & -> & T & ->).
      exists (e :: fs1), e', fs2. cbn [tr_sched app]. rewrite E. repeat split; assumption.
    - destruct a1 as [|z a1]; cbn in H; inversion H; subst.
      + exists [], e, r. repeat split; [exact E].
      + destruct (IH _ _ _ _ H2) as (fs1 & e' & fs2 & -> & -> & T & ->).
        exists (e :: fs1), e', fs2. cbn [tr_sched app]. rewrite E. repeat split; assumption.
  Qed.

  Lemma tr_thread g e i : tr c g e = [SThread i] ->
    e = FEx i /\ exists th, nth_error (f_exs g) i = Some th /\ commits (et_pc th) = true.
  Proof.
    destruct e as [j|r|k|d]; cbn.
    - destruct (nth_error (f_exs g) j) as [th|] eqn:N; [|discriminate].
      destruct (et_pc th) eqn:PC; intro H; inversion H; subst; (split; [reflexivity|]); exists th; rewrite PC; auto.
    - destruct (nth_error (f_rls g) r) as [th|]; [|discriminate]. destruct (rt_pc th); try discriminate.
      destruct (load (c_keyid c) (rt_file th)); [destruct (writers g || readers g)|..]; discriminate.
    - destruct (nth_error (f_jws g) k) as [[]|]; discriminate.
    - discriminate.
  Qed.

  (** ALL INTERLEAVINGS AT THE LEVEL OF LOCK OPERATIONS AND FIELD ACCESSES.  Any calls, any reloads (threads:
      parse, Lock, three assignments, Unlock), any JWKS requests, any fine schedule: if call i has returned the
      token t, the schedule contains a step of call i itself — the RUnlock that ends its Hash() section or the
      RUnlock that ends its signWithHash() section — such that, with [lin] = the three fields of the signer at
      that moment, t is what Sign makes from [lin] for the request of call i: signed with the key then active,
      naming its key id and algorithm, verifying against the key set then published; [lin] is what one file
      loaded (never a mixture of two loads). *)
  Theorem fine_token_of_own_section st0 calls files n fs i th t :
    loaded c st0 ->
    nth_error (f_exs (frun fx c fs (finit st0 calls files n))) i = Some th -> et_pc th = EDone (Ok t) ->
    exists fs1 fs2 cl thm,
      fs = fs1 ++ FEx i :: fs2 /\ nth_error calls i = Some cl /\
      let gm := frun fx c fs1 (finit st0 calls files n) in
      nth_error (f_exs gm) i = Some thm /\
      ((exists j, et_pc thm = EHRead j) \/ (exists k0 j k, et_pc thm = ESRead2 k0 j k)) /\
      let lin := f_sh gm in
      loaded c lin /\ made lin cl t /\
      t_key t = s_key lin /\ t_kid t = j_kid (s_jwk lin) /\ t_alg t = j_alg (s_jwk lin) /\
      verifies t (published c lin) = true.
  Proof.
    intros L0 N PC. set (g0 := finit st0 calls files n) in *.
    destruct (fine_refines fx c fs g0 (finit_inv st0 calls files n)) as [A _].
    unfold g0 in A at 3. rewrite abs_finit in A. fold g0 in A.
    assert (R : result i (crun fx c (tr_sched fx c g0 fs) (cinit st0 calls)) = Some (Ok t)).
    { rewrite <- A. unfold result, pc_of, abs. cbn [g_ths]. rewrite (map_nth_error abs_th i _ N). cbn. rewrite PC. reflexivity. }
    destruct (returned_token_linearizes fx F1 F2 c st0 calls _ i t L0 R)
      as (s1 & s2 & cl & p & E & Hcl & Hp & Hk & Hl & Hm & K1 & K2 & K3 & K4 & _).
    destruct (tr_sched_split fs g0 s1 (SThread i) s2 E) as (fs1 & e & fs2 & -> & -> & T & _).
    destruct (tr_thread _ _ _ T) as (-> & thm & Nm & Hc).
    destruct (fine_refines fx c fs1 g0 (finit_inv st0 calls files n)) as [A1 FI1].
    unfold g0 in A1 at 3. rewrite abs_finit in A1. fold g0 in A1.
    rewrite <- A1 in Hp, Hl, Hm, K1, K2, K3, K4.
    unfold pc_of, abs in Hp. cbn [g_ths] in Hp. rewrite (map_nth_error abs_th i _ Nm) in Hp. cbn in Hp. inversion Hp as [Hp'].
    assert (Hread : (exists j, et_pc thm = EHRead j) \/ (exists k0 j k, et_pc thm = ESRead2 k0 j k)).
    { destruct (et_pc thm) eqn:PCm; try discriminate; cbn in Hp'; subst p.
      - left. eauto.
      - destruct Hk as [Hk|[k0' Hk]]; discriminate.
      - right. eauto.
      - destruct Hk as [Hk|[k0' Hk]]; discriminate.
      - destruct Hk as [Hk|[k0' Hk]]; discriminate. }
    assert (Ast : abs_st (frun fx c fs1 g0) = f_sh (frun fx c fs1 g0)).
    { apply no_writer_abs, (reading_no_writer _ FI1). eapply ex_reading_readers; [exact Nm|].
      unfold rP. destruct Hread as [[j ->]|(k0 & j & k & ->)]; reflexivity. }
    cbn [abs g_st] in Hl, Hm, K1, K2, K3, K4. rewrite Ast in Hl, Hm, K1, K2, K3, K4.
    exists fs1, fs2, cl, thm. cbv zeta. auto 12.
  Qed.
End FineCor.

(** from the start: the fine machine started with any calls, reload files and JWKS requests, under any fine
    schedule, is in a configuration whose abstraction is the atomic machine's after the translated schedule *)
Theorem fine_is_atomic fx c st calls files n fs :
  abs (frun fx c fs (finit st calls files n)) =
  crun fx c (tr_sched fx c (finit st calls files n) fs) (cinit st calls).
Proof.
  destruct (fine_refines fx c fs _ (finit_inv st calls files n)) as [A _].
  rewrite abs_finit in A. exact A.
Qed.
