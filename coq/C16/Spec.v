(** C16 — specification vocabulary, transcribed from the property text and the
    documentation of the jwt finalizer / key store, NOT from the model functions:

    - which key-store files are usable and which entry is then the active one
      (by configured key id, else the first), with which JOSE algorithm;
    - what a token handed out by the finalizer must look like (header names the
      active key, signed by it, verifies against the published set, system claims
      sub/iss/iat/nbf/exp/jti, custom claims only under other names);
    - what the JWKS endpoint serves (public halves and certificates of all entries
      of the current store, never private material).

    Everything here is executable so that the correspondence evaluator can apply it
    to the implementation's observations. *)
From HV Require Import Base.Prelude C16.Model.
Open Scope string_scope.

(** claim names owned by the signer *)
Definition reserved : list string := ["exp"; "jti"; "iat"; "iss"; "nbf"; "sub"].

(** supported key types/sizes and their JOSE algorithms (docs: "Key store", RFC 7518) *)
Definition alg_table : list (keykind * Z * string) :=
  [ (KRsa, 2048%Z, "PS256"); (KRsa, 3072%Z, "PS384"); (KRsa, 4096%Z, "PS512");
    (KEcdsa, 256%Z, "ES256"); (KEcdsa, 384%Z, "ES384"); (KEcdsa, 521%Z, "ES512") ].

Definition spec_alg (k : keyref) : option string :=
  match find (fun row => keykind_eqb (fst (fst row)) (k_kind k) && Z.eqb (snd (fst row)) (k_size k)) alg_table with
  | Some row => Some (snd row)
  | None => None
  end.

(** the key id of a key block: its X-Key-ID, else the generated one *)
Definition kid_of (r : raw_entry) : string :=
  if String.eqb (r_xkid r) "" then r_genkid r else r_xkid r.

Fixpoint distinct (l : list string) : bool :=
  match l with
  | [] => true
  | x :: r => negb (str_in x r) && distinct r
  end.

Definition some {A} (o : option A) : bool := match o with Some _ => true | None => false end.

(** a store is usable: every key of a supported type and size, every certificate
    chain present is valid, key ids pairwise distinct *)
Definition store_usable (rs : list raw_entry) : bool :=
  forallb (fun r => some (spec_alg (r_key r)) && (is_nil (r_chain r) || r_chain_ok r)) rs
  && distinct (map kid_of rs).

(** the active entry: the one with the configured key id, else the first *)
Definition spec_active (cfg_kid : string) (rs : list raw_entry) : option raw_entry :=
  if String.eqb cfg_kid "" then hd_error rs
  else find (fun r => String.eqb (kid_of r) cfg_kid) rs.

(** a file is accepted (at start-up or on reload) iff its store is usable, an active
    entry exists and, if it has a certificate, that certificate may be used for signing *)
Definition spec_accept (cfg_kid : string) (f : pem_file) : option (raw_entry * list raw_entry) :=
  match f with
  | PemBad => None
  | PemOk rs =>
    if store_usable rs then
      match spec_active cfg_kid rs with
      | Some a => if is_nil (r_chain a) || r_usage_ok a then Some (a, rs) else None
      | None => None
      end
    else None
  end.

(** what the JWKS endpoint must show for a key block *)
Definition spec_jwk (r : raw_entry) : jwk :=
  {| j_kid := kid_of r;
     j_alg := match spec_alg (r_key r) with Some a => a | None => "" end;
     j_key := Pub (r_key r); j_use := "sig"; j_certs := r_chain r |}.

Definition spec_jwks (rs : list raw_entry) : list jwk := map spec_jwk rs.

(** other key holders publish their (usable) stores; the endpoint serves all holders'
    keys in registration order *)
Definition spec_others (fs : list pem_file) : list jwk :=
  flat_map (fun f => match spec_accept "" f with Some cur => spec_jwks (snd cur) | None => [] end) fs.

Definition spec_published (before after : list pem_file) (rs : list raw_entry) : list jwk :=
  spec_others before ++ spec_jwks rs ++ spec_others after.

(* ------------------------------------------------------------------ tokens *)

Definition claim_is (k : string) (v : cval) (m : cmap) : bool :=
  match mget k m with Some v' => cval_eqb v v' | None => false end.

Definition claim_int (k : string) (m : cmap) : option Z :=
  match mget k m with Some (VInt z) => Some z | _ => None end.

(** the value a custom claim template gives to a name (the last member of that name) *)
Fixpoint tmpl_get (k : string) (t : list (string * cval)) : option cval :=
  match t with
  | [] => None
  | (k', v) :: r => match tmpl_get k r with
                    | Some v' => Some v'
                    | None => if String.eqb k k' then Some v else None
                    end
  end.

Definition spec_ttl (c : config) : Z := match c_ttl c with Some t => t | None => (300 * 1000000000)%Z end.
Definition spec_iss (c : config) : string := if String.eqb (c_name c) "" then "heimdall" else c_name c.
Definition tmpl_of (c : config) : list (string * cval) := match c_claims c with Some t => t | None => [] end.

(** system claims: sub = subject id, iss = signer name, iat = nbf, exp the ttl later
    (in whole seconds: between floor(ttl) and ceil(ttl) seconds after iat), jti a fresh id *)
Definition claims_sys (c : config) (q : req) (m : cmap) : bool :=
  claim_is "sub" (VStr (q_sub q)) m && claim_is "iss" (VStr (spec_iss c)) m &&
  match claim_int "iat" m, claim_int "nbf" m, claim_int "exp" m with
  | Some iat, Some nbf, Some exp =>
      Z.eqb iat nbf && (spec_ttl c / 1000000000 <=? exp - iat)%Z
      && (exp - iat <=? (spec_ttl c + 999999999) / 1000000000)%Z
  | _, _, _ => false
  end &&
  match mget "jti" m with Some (VJti _) => true | _ => false end.

(** what a template member stands for in a request *)
Definition spec_value (q : req) (v : cval) : cval :=
  match v with VSubj => VStr (q_sub q) | VOut => VStr (q_out q) | VAttr => VStr (q_attr q) | _ => v end.

(** custom claims: exactly under the non-reserved names of the template, with the
    values the template gives them for this request *)
Definition claims_custom (c : config) (q : req) (m : cmap) : bool :=
  forallb (fun kv => str_in (fst kv) reserved ||
                     match tmpl_get (fst kv) (tmpl_of c) with
                     | Some v => cval_eqb (snd kv) (spec_value q v)
                     | None => false
                     end) m &&
  forallb (fun kv => str_in (fst kv) reserved || some (mget (fst kv) m)) (tmpl_of c).

Definition claims_ok (c : config) (q : req) (m : cmap) : bool := claims_sys c q m && claims_custom c q m.

(** issued at [now]: iat = nbf = now, exp = now + ttl (as Unix seconds) *)
Definition times_exact (c : config) (now : Z) (m : cmap) : bool :=
  claim_is "iat" (VInt (now / 1000000000)) m && claim_is "nbf" (VInt (now / 1000000000)) m &&
  claim_is "exp" (VInt ((now + spec_ttl c) / 1000000000)) m.

(** header and signature: names the active key's id and algorithm and is signed with the
    active private key *)
Definition header_ok (a : raw_entry) (t : token) : bool :=
  String.eqb (t_kid t) (kid_of a) &&
  match spec_alg (r_key a) with Some alg => String.eqb (t_alg t) alg | None => false end &&
  keymat_eqb (t_key t) (Priv (r_key a)).

Definition jti_of (t : token) : option cval := mget "jti" (t_claims t).

Definition same_jti (t u : token) : bool :=
  match jti_of t, jti_of u with Some a, Some b => cval_eqb a b | _, _ => false end.

Definition cmap_eqb (a b : cmap) : bool :=
  forallb (fun k => option_eqb cval_eqb (mget k a) (mget k b)) (map fst a ++ map fst b).

Definition token_eqb (a b : token) : bool :=
  String.eqb (t_alg a) (t_alg b) && String.eqb (t_kid a) (t_kid b) && String.eqb (t_typ a) (t_typ b)
  && keymat_eqb (t_key a) (t_key b) && cmap_eqb (t_claims a) (t_claims b) && String.eqb (t_hdr a) (t_hdr b).

(** a rule-level variant of a catalogue finalizer: what the rule gives overlays the
    catalogue configuration, member by member; only ttl (> 1s) and claims can be given *)
Definition overlay {A} (own proto : option A) : option A := match own with Some x => Some x | None => proto end.

Definition spec_variant (c : config) (o : override) : option config :=
  if o_unknown o || match o_ttl o with Some t => negb (1000000000 <? t)%Z | None => false end then None
  else Some {| c_keyid := c_keyid c; c_name := c_name c; c_ttl := overlay (o_ttl o) (c_ttl c);
               c_claims := overlay (o_claims o) (c_claims c); c_cache := c_cache c; c_twin := c_twin c;
               c_before := c_before c; c_after := c_after c |}.

(** the finalizer a rule step runs: the catalogue one or its twin (same configuration,
    other signer name), possibly overlaid by the rule *)
Definition spec_target (c : config) (twin : bool) (ov : option override) : option config :=
  match (if twin then match c_twin c with
                      | Some n => Some {| c_keyid := c_keyid c; c_name := n; c_ttl := c_ttl c; c_claims := c_claims c;
                                          c_cache := c_cache c; c_twin := c_twin c;
                                          c_before := c_before c; c_after := c_after c |}
                      | None => None end
         else Some c) with
  | Some b => match ov with None => Some b | Some o => spec_variant b o end
  | None => None
  end.

(** may tokens be reused from the cache at all *)
Definition reuse_allowed (c : config) : bool := c_cache c && (5 * 1000000000 <? spec_ttl c)%Z.

(** tokens handed out so far, with the (cache clock) time of their issue *)
Definition seen_t := list (token * Z).
Definition known (t : token) (seen : seen_t) : bool := existsb (fun e => same_jti t (fst e)) seen.
Definition note (t : token) (clock : Z) (seen : seen_t) : seen_t :=
  if known t seen then seen else (t, clock) :: seen.

(** WHAT THE PROPERTY STATEMENT FIXES about one token handed out for request [q] at [now]
    while (a, rs) = [cur] is the current store: it verifies against the published set
    ([verified]: go-jose against the served body; [verifies]: the signing key's public half
    is published under the token's key id), names the active key's id and algorithm and is
    signed by it, carries the system claims; a token seen before must be one handed out
    before and still within its ttl; a new one carries the issue time *)
Definition token_prop (c : config) (cur : raw_entry * list raw_entry) (seen : seen_t) (clock : Z)
           (q : req) (now : Z) (t : token) (verified : bool) : bool :=
  verified && verifies t (spec_published (c_before c) (c_after c) (snd cur)) && header_ok (fst cur) t
  && claims_sys c q (t_claims t) &&
  (if known t seen
   then existsb (fun e => token_eqb t (fst e) && (clock - snd e <? spec_ttl c)%Z) seen
   else times_exact c now (t_claims t)).

(** the full specification of the finalizer adds what its documentation says beyond the
    property: typ JWT, custom claims, reuse only with a cache and a ttl above 5 s *)
Definition token_ok (c : config) (cur : raw_entry * list raw_entry) (seen : seen_t) (clock : Z)
           (q : req) (now : Z) (t : token) (verified : bool) : bool :=
  token_prop c cur seen clock q now t verified && String.eqb (t_typ t) "JWT" && String.eqb (t_hdr t) ""
  && claims_custom c q (t_claims t) && (if known t seen then reuse_allowed c else true).

(** the JWKS answer — property: no private material, and every key of the current store
    (and of the other holders) is there under its key id *)
Definition jwks_prop (c : config) (cur : raw_entry * list raw_entry) (ks : list jwk) : bool :=
  forallb (fun j => negb (is_private (j_key j))) ks &&
  forallb (fun e => existsb (fun j => String.eqb (j_kid j) (j_kid e) && keymat_eqb (j_key j) (j_key e)) ks)
          (spec_published (c_before c) (c_after c) (snd cur)).

(** full: exactly the public JWKs (kid, alg, use, certificates) in registration / file order *)
Definition jwks_ok (c : config) (cur : raw_entry * list raw_entry) (ks : list jwk) : bool :=
  list_eqb jwk_eqb ks (spec_published (c_before c) (c_after c) (snd cur))
  && forallb (fun j => negb (is_private (j_key j))) ks.

(** the current store after the files [fs] were presented one after the other *)
Definition spec_reloads (cfg_kid : string) (cur : raw_entry * list raw_entry) (fs : list pem_file) :=
  fold_left (fun cur f => match spec_accept cfg_kid f with Some c' => c' | None => cur end) fs cur.

(** a token of an Execute during which reloads landed must be right for the store at its
    beginning or for the store at its end (against whose key set [verified] was observed) *)
Definition exec_judged (P : raw_entry * list raw_entry -> bool -> bool)
           (cur cur' : raw_entry * list raw_entry) (mids : list pem_file) (verified : bool) : bool :=
  if is_nil mids then P cur verified else P cur true || P cur' verified.

(** the whole run, observation by observation, against the FULL specification; the
    current store changes only when a reload presents an acceptable file *)
Fixpoint obs_ok (c : config) (cur : raw_entry * list raw_entry) (seen : seen_t) (clock : Z)
         (ops : list op) (obs : list oobs) : bool :=
  match ops, obs with
  | [], [] => true
  | OExec twin ov q now mids :: ops', x :: obs' =>
      match spec_target c twin ov, x with
      | Some ce, XToken t v =>
          let cur' := spec_reloads (c_keyid c) cur mids in
          exec_judged (fun k b => token_ok ce k seen clock q now t b) cur cur' mids v
          && obs_ok c cur' (note t clock seen) clock ops' obs'
      | None, XErr => obs_ok c cur seen clock ops' obs'     (* an invalid override yields no finalizer *)
      | _, _ => false
      end
  | OReload f :: ops', x :: obs' =>
      match spec_accept (c_keyid c) f, x with
      | Some cur', XDone => obs_ok c cur' seen clock ops' obs'
      | None, (XErr | XPanic) => obs_ok c cur seen clock ops' obs'
      | _, _ => false
      end
  | OJwks :: ops', XJwks ks :: obs' => jwks_ok c cur ks && obs_ok c cur seen clock ops' obs'
  | OWait d :: ops', XDone :: obs' => obs_ok c cur seen (clock + d) ops' obs'
  | _, _ => false
  end.

(** the same against what the PROPERTY STATEMENT fixes.  Which files and overrides are
    accepted is not the property's business: where the observation disagrees with the
    specification about that, the rest of the run is not judged. *)
Fixpoint obs_prop (c : config) (cur : raw_entry * list raw_entry) (seen : seen_t) (clock : Z)
         (ops : list op) (obs : list oobs) : bool :=
  match ops, obs with
  | [], _ => true
  | OExec twin ov q now mids :: ops', x :: obs' =>
      match spec_target c twin ov, x with
      | Some ce, XToken t v =>
          let cur' := spec_reloads (c_keyid c) cur mids in
          exec_judged (fun k b => token_prop ce k seen clock q now t b) cur cur' mids v
          && obs_prop c cur' (note t clock seen) clock ops' obs'
      | None, XErr => obs_prop c cur seen clock ops' obs'
      | _, _ => true
      end
  | OReload f :: ops', x :: obs' =>
      match spec_accept (c_keyid c) f, x with
      | Some cur', XDone => obs_prop c cur' seen clock ops' obs'
      | None, (XErr | XPanic) => obs_prop c cur seen clock ops' obs'
      | _, _ => true
      end
  | OJwks :: ops', XJwks ks :: obs' => jwks_prop c cur ks && obs_prop c cur seen clock ops' obs'
  | OWait d :: ops', XDone :: obs' => obs_prop c cur seen (clock + d) ops' obs'
  | _, _ => false
  end.

Definition ttl_valid (c : config) : bool :=
  match c_ttl c with Some t => (1000000000 <? t)%Z | None => true end.

(** a finalizer exists iff its configuration is valid and the initial file is accepted;
    then every observation of the run is as above *)
Definition run_ok (c : config) (f : pem_file) (ops : list op) (created : res unit) (obs : list oobs) : bool :=
  match (if ttl_valid c then spec_accept (c_keyid c) f else None), created with
  | Some cur, Ok _ => obs_ok c cur [] 0 ops obs
  | None, (Err | Panic) => is_nil obs
  | _, _ => false
  end.

Definition run_prop (c : config) (f : pem_file) (ops : list op) (created : res unit) (obs : list oobs) : bool :=
  match (if ttl_valid c then spec_accept (c_keyid c) f else None), created with
  | Some cur, Ok _ => obs_prop c cur [] 0 ops obs
  | _, _ => true
  end.

(* ------------------------------------------------------------------ findings C16-F1, C16-F2 (both repaired) *)

(** files of a run that are accepted, in order *)
Fixpoint accepted_of (cfg_kid : string) (fs : list pem_file) : list raw_entry :=
  match fs with
  | [] => []
  | f :: r => match spec_accept cfg_kid f with
              | Some (a, _) => a :: accepted_of cfg_kid r
              | None => accepted_of cfg_kid r
              end
  end.

Definition files_of (ops : list op) : list pem_file :=
  flat_map (fun o => match o with OReload f => [f] | OExec _ _ _ _ mids => mids | _ => [] end) ops.

(** two active entries that a cached token cannot tell apart (same key id, same
    algorithm) although their keys differ *)
Definition clash (a b : raw_entry) : bool :=
  String.eqb (kid_of a) (kid_of b) && option_eqb String.eqb (spec_alg (r_key a)) (spec_alg (r_key b))
  && negb (keyref_eqb (r_key a) (r_key b)).

(** C16-F1: a token cache is in use and the run activates, at different times, two
    different keys under one (key id, algorithm) *)
Definition guard_F1 (c : config) (f : pem_file) (ops : list op) : bool :=
  c_cache c &&
  let acts := accepted_of (c_keyid c) (f :: files_of ops) in
  existsb (fun a => existsb (clash a) acts) acts.

(** C16-F2: a token cache is in use and an acceptable key store is loaded between the
    cache lookup and the signing of some Execute *)
Definition guard_F2 (c : config) (ops : list op) : bool :=
  c_cache c &&
  existsb (fun o => match o with
                    | OExec _ _ _ _ mids => negb (is_nil (accepted_of (c_keyid c) mids))
                    | _ => false
                    end) ops.
