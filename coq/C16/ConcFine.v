(** C16 — the same system as C16/Conc.v one level down: the lock operations and the single field accesses of
    jwtSigner.Hash / signWithHash / Keys / load are steps of their own, sync.RWMutex blocks, and a reload is a
    thread (parse outside the lock; Lock; s.jwk = ..; s.key = ..; s.pubKeys = ..; Unlock).

      Execute    RLock | jwk := s.jwk | RUnlock, cache key | cch.Get | RLock | jwk := s.jwk | key := s.key |
                 RUnlock, sign | cch.Set | header, return
      load       parse+validate, Lock | s.jwk = | s.key = | s.pubKeys = | Unlock        (a refused file: no lock at all)
      JWKS       RLock | keys := s.pubKeys | RUnlock, answer

    A fine schedule picks which thread (a call, a reload, a JWKS request) performs its next such step; a thread
    whose next step is a lock operation that the mutex does not admit stays where it is.  ConcFineProofs.v shows
    that every fine schedule is — step for step, by an abstraction function — a schedule of the machine of
    C16/Conc.v in which every critical section is one atomic step, taken at the moment the section's lock is
    released (readers) or acquired (the writer).  So what is proved about that machine holds for all
    interleavings at the level of lock operations and field accesses. *)
From HV Require Import Base.Prelude C16.Model C16.Conc.
Open Scope string_scope.
Open Scope list_scope.

(** where a call stands *)
Inductive epc :=
| EInit
| EHLocked                                        (* Hash(): RLock taken *)
| EHRead (j : jwk)                                (* jwk := s.jwk *)
| EKeyed (k0 : ckey)                              (* RUnlock; signerHash(jwk, iss); rest of calculateCacheKey *)
| EMiss (k0 : ckey)                               (* cch.Get found nothing *)
| ESLocked (k0 : ckey)                            (* signWithHash(): RLock taken *)
| ESRead1 (k0 : ckey) (j : jwk)                   (* jwk := s.jwk *)
| ESRead2 (k0 : ckey) (j : jwk) (k : keymat)      (* key := s.key *)
| ESigned (k : ckey) (t : token)                  (* RUnlock; token made from the copies *)
| ERetp (t : token)
| EDone (r : res token).

Record ethread := { et_call : call; et_pc : epc; et_st0 : option state; et_st1 : option state }.

Inductive rpc := RInit | RLocked (st : state) | RW1 (st : state) | RW2 (st : state) | RW3 (st : state) | RDone.
Record rthread := { rt_file : pem_file; rt_pc : rpc }.

Inductive jpc := JInit | JLocked | JRead (ks : list jwk) | JDone.

Record fconf := {
  f_sh : state;                      (* the three fields, each as last assigned *)
  f_cache : cache; f_minted : nat; f_clock : Z;
  f_exs : list ethread; f_rls : list rthread; f_jws : list jpc;
  f_jwks : list (list jwk); f_made : list made_entry }.

Inductive fev := FEx (i : nat) | FRl (r : nat) | FJw (k : nat) | FWait (d : Z).

(** who holds the mutex *)
Definition e_reading (p : epc) : bool :=
  match p with EHLocked | EHRead _ | ESLocked _ | ESRead1 _ _ | ESRead2 _ _ _ => true | _ => false end.
Definition j_reading (p : jpc) : bool := match p with JLocked | JRead _ => true | _ => false end.
Definition r_writing (p : rpc) : bool := match p with RLocked _ | RW1 _ | RW2 _ | RW3 _ => true | _ => false end.

Definition readers (g : fconf) : bool :=
  existsb (fun th => e_reading (et_pc th)) (f_exs g) || existsb j_reading (f_jws g).
Definition writers (g : fconf) : bool := existsb (fun th => r_writing (rt_pc th)) (f_rls g).

(** the copies a call works on *)
Definition st_of (j : jwk) (k : keymat) : state := {| s_jwk := j; s_key := k; s_pub := [] |}.

Definition pub_of (c : config) (ks : list jwk) : list jwk := others_pub (c_before c) ++ ks ++ others_pub (c_after c).

Record eupd := { eu_th : ethread; eu_cache : cache; eu_minted : nat; eu_made : list made_entry }.

Definition fexec (fx : fixes) (g : fconf) (th : ethread) : eupd :=
  let cl := et_call th in
  let c := cl_cfg cl in
  let q := cl_req cl in
  let keep p :=
    {| eu_th := {| et_call := cl; et_pc := p; et_st0 := et_st0 th; et_st1 := et_st1 th |};
       eu_cache := f_cache g; eu_minted := f_minted g; eu_made := f_made g |} in
  match et_pc th with
  | EInit => if writers g then keep EInit else keep EHLocked                  (* s.mut.RLock() *)
  | EHLocked => keep (EHRead (s_jwk (f_sh g)))                                 (* jwk := s.jwk *)
  | EHRead j =>                                                                (* s.mut.RUnlock(); the cache key *)
      {| eu_th := {| et_call := cl; et_pc := EKeyed (key_of fx c (st_of j (j_key j)) q);
                     et_st0 := Some (f_sh g); et_st1 := et_st1 th |};
         eu_cache := f_cache g; eu_minted := f_minted g; eu_made := f_made g |}
  | EKeyed k0 =>
      match (if c_cache c then cache_get k0 (f_clock g) (f_cache g) else None) with
      | Some t => keep (ERetp t)
      | None => keep (EMiss k0)
      end
  | EMiss k0 => if writers g then keep (EMiss k0) else keep (ESLocked k0)      (* s.mut.RLock() *)
  | ESLocked k0 => keep (ESRead1 k0 (s_jwk (f_sh g)))                          (* jwk := s.jwk *)
  | ESRead1 k0 j => keep (ESRead2 k0 j (s_key (f_sh g)))                       (* key := s.key *)
  | ESRead2 k0 j k =>                                                          (* s.mut.RUnlock(); sign *)
      match sign (st_of j k) (issuer c) (q_sub q) (ttl_of c) (cl_now cl) (VJti (f_minted g)) (claims_of c q) with
      | Ok t =>
          let key := if fx_F2 fx then key_of fx c (st_of j (j_key j)) q else k0 in
          {| eu_th := {| et_call := cl; et_pc := ESigned key t; et_st0 := et_st0 th; et_st1 := Some (f_sh g) |};
             eu_cache := f_cache g; eu_minted := S (f_minted g); eu_made := (f_sh g, cl, key, t) :: f_made g |}
      | Err => keep (EDone Err)
      | Panic => keep (EDone Panic)
      end
  | ESigned k t =>
      {| eu_th := {| et_call := cl; et_pc := ERetp t; et_st0 := et_st0 th; et_st1 := et_st1 th |};
         eu_cache := if c_cache c && (cache_leeway <? ttl_of c)%Z
                     then (k, t, f_clock g + (ttl_of c - cache_leeway))%Z :: f_cache g else f_cache g;
         eu_minted := f_minted g; eu_made := f_made g |}
  | ERetp t => keep (EDone (Ok t))
  | EDone r => keep (EDone r)
  end.

(** one step of a reload: the new field values and where the reload then stands *)
Definition frl (c : config) (g : fconf) (th : rthread) : state * rpc :=
  let sh := f_sh g in
  match rt_pc th with
  | RInit =>
      match load (c_keyid c) (rt_file th) with
      | Ok st => if writers g || readers g then (sh, RInit) else (sh, RLocked st)     (* s.mut.Lock() *)
      | _ => (sh, RDone)                                                               (* refused: return err *)
      end
  | RLocked st => ({| s_jwk := s_jwk st; s_key := s_key sh; s_pub := s_pub sh |}, RW1 st)
  | RW1 st => ({| s_jwk := s_jwk sh; s_key := s_key st; s_pub := s_pub sh |}, RW2 st)
  | RW2 st => ({| s_jwk := s_jwk sh; s_key := s_key sh; s_pub := s_pub st |}, RW3 st)
  | RW3 st => (sh, RDone)                                                              (* Unlock (deferred) *)
  | RDone => (sh, RDone)
  end.

Definition fjw (c : config) (g : fconf) (p : jpc) : jpc * list (list jwk) :=
  match p with
  | JInit => if writers g then (JInit, f_jwks g) else (JLocked, f_jwks g)
  | JLocked => (JRead (s_pub (f_sh g)), f_jwks g)
  | JRead ks => (JDone, pub_of c ks :: f_jwks g)
  | JDone => (JDone, f_jwks g)
  end.

Definition fstep (fx : fixes) (c : config) (g : fconf) (e : fev) : fconf :=
  match e with
  | FEx i =>
      match nth_error (f_exs g) i with
      | None => g
      | Some th =>
          let u := fexec fx g th in
          {| f_sh := f_sh g; f_cache := eu_cache u; f_minted := eu_minted u; f_clock := f_clock g;
             f_exs := set_nth i (eu_th u) (f_exs g); f_rls := f_rls g; f_jws := f_jws g;
             f_jwks := f_jwks g; f_made := eu_made u |}
      end
  | FRl r =>
      match nth_error (f_rls g) r with
      | None => g
      | Some th =>
          let '(sh, p) := frl c g th in
          {| f_sh := sh; f_cache := f_cache g; f_minted := f_minted g; f_clock := f_clock g;
             f_exs := f_exs g; f_rls := set_nth r {| rt_file := rt_file th; rt_pc := p |} (f_rls g); f_jws := f_jws g;
             f_jwks := f_jwks g; f_made := f_made g |}
      end
  | FJw k =>
      match nth_error (f_jws g) k with
      | None => g
      | Some p =>
          let '(p', log) := fjw c g p in
          {| f_sh := f_sh g; f_cache := f_cache g; f_minted := f_minted g; f_clock := f_clock g;
             f_exs := f_exs g; f_rls := f_rls g; f_jws := set_nth k p' (f_jws g);
             f_jwks := log; f_made := f_made g |}
      end
  | FWait d =>
      {| f_sh := f_sh g; f_cache := f_cache g; f_minted := f_minted g; f_clock := (f_clock g + d)%Z;
         f_exs := f_exs g; f_rls := f_rls g; f_jws := f_jws g; f_jwks := f_jwks g; f_made := f_made g |}
  end.

Definition frun (fx : fixes) (c : config) (s : list fev) (g : fconf) : fconf := fold_left (fstep fx c) s g.

Definition finit (st : state) (calls : list call) (files : list pem_file) (njwks : nat) : fconf :=
  {| f_sh := st; f_cache := []; f_minted := 0; f_clock := 0;
     f_exs := map (fun cl => {| et_call := cl; et_pc := EInit; et_st0 := None; et_st1 := None |}) calls;
     f_rls := map (fun f => {| rt_file := f; rt_pc := RInit |}) files;
     f_jws := repeat JInit njwks; f_jwks := []; f_made := [] |}.

(* ------------------------------------------------------------------ abstraction to the machine of Conc.v *)

Definition target (p : rpc) : option state :=
  match p with RLocked st | RW1 st | RW2 st | RW3 st => Some st | _ => None end.

(** the state the reload holding the lock is installing, if any *)
Definition pending (rls : list rthread) : option state :=
  match find (fun th => r_writing (rt_pc th)) rls with Some th => target (rt_pc th) | None => None end.

Definition abs_st (g : fconf) : state := match pending (f_rls g) with Some st => st | None => f_sh g end.

Definition abs_pc (p : epc) : pc :=
  match p with
  | EInit | EHLocked | EHRead _ => PInit
  | EKeyed k0 => PKeyed k0
  | EMiss k0 | ESLocked k0 | ESRead1 k0 _ | ESRead2 k0 _ _ => PMiss k0
  | ESigned k t => PSigned k t
  | ERetp t => PRet t
  | EDone r => PDone r
  end.

Definition abs_th (th : ethread) : thread :=
  {| th_call := et_call th; th_pc := abs_pc (et_pc th); th_st0 := et_st0 th; th_st1 := et_st1 th |}.

Definition abs (g : fconf) : conf :=
  {| g_st := abs_st g; g_cache := f_cache g; g_minted := f_minted g; g_clock := f_clock g;
     g_ths := map abs_th (f_exs g); g_jwks := f_jwks g; g_made := f_made g |}.

(** the events of the atomic machine a fine step amounts to: the step that releases a read lock is the
    section's atomic step, the step that acquires the write lock is the reload (a refused file: the step
    that finds it refused), cache operations and the return are themselves; everything else is internal *)
Definition tr (c : config) (g : fconf) (e : fev) : list sev :=
  match e with
  | FEx i =>
      match nth_error (f_exs g) i with
      | Some th =>
          match et_pc th with
          | EHRead _ | EKeyed _ | ESRead2 _ _ _ | ESigned _ _ | ERetp _ => [SThread i]
          | _ => []
          end
      | None => []
      end
  | FRl r =>
      match nth_error (f_rls g) r with
      | Some th =>
          match rt_pc th with
          | RInit =>
              match load (c_keyid c) (rt_file th) with
              | Ok _ => if writers g || readers g then [] else [SReload (rt_file th)]
              | _ => [SReload (rt_file th)]
              end
          | _ => []
          end
      | None => []
      end
  | FJw k =>
      match nth_error (f_jws g) k with
      | Some (JRead _) => [SJwks]
      | _ => []
      end
  | FWait d => [SWait d]
  end.

(** the schedule of the atomic machine that a fine schedule amounts to *)
Fixpoint tr_sched (fx : fixes) (c : config) (g : fconf) (s : list fev) : list sev :=
  match s with
  | [] => []
  | e :: r => tr c g e ++ tr_sched fx c (fstep fx c g e) r
  end.
