(** C16 — concrete schedules of the concurrent machine (C16/Conc.v): non-vacuity of the theorems of
    ConcProofs.v, the pinned behaviour of C16-F2 with two calls, and why the theorem speaks about a moment
    of the call and "until the next successful reload" rather than about the moment of return. *)
From HV Require Import Base.Prelude C16.Model C16.Spec C16.Proofs C16.Conc C16.ConcProofs.
Open Scope string_scope.
Open Scope list_scope.

Definition ex_A : pem_file := PemOk [f2_entry 7 "key-a"].
Definition ex_B : pem_file := PemOk [f2_entry 8 "key-b"].
Definition ex_bad : pem_file := PemOk [f2_entry 9 "key-c"; f2_entry 9 "key-c"].   (* duplicate key id: rejected *)
Definition ex_st (f : pem_file) : state := match load "" f with Ok st => st | _ => state_of (f2_entry 0 "", []) end.
Definition ex_call (sub : string) (now : Z) : call := {| cl_cfg := f2_cfg; cl_req := q_of sub; cl_now := now |}.

(** four calls: 0 = alice, overtaken by a reload to B between its cache lookup and Sign and by the roll-back
    to A before it returns; 1 = alice under A again; 2 = alice once more (reuse); 3 = alice after a reload to B *)
Definition ex_calls : list call :=
  [ex_call "alice" 1000000000000; ex_call "alice" 1001000000000; ex_call "alice" 1002000000000;
   ex_call "alice" 1003000000000].

Definition ex_sched : list sev :=
  [SThread 0; SThread 0;            (* call 0: Hash() under A, cache miss *)
   SReload ex_B;
   SThread 0; SThread 0;            (* call 0: signs with B's key, files the token *)
   SReload ex_A; SReload ex_bad; SJwks;
   SThread 1; SThread 1;            (* call 1: Hash() under A, cache lookup *)
   SThread 0;                       (* call 0 returns *)
   SThread 1; SThread 1; SThread 1; (* call 1 *)
   SThread 2; SThread 2; SThread 2; (* call 2: reuse *)
   SReload ex_B; SJwks;
   SThread 3; SThread 3; SThread 3]. (* call 3: under B, reuse of call 0's token *)

(** the tree as it is: call 0's token (made under B, returned under A) is B's; call 1 does NOT get it from
    the cache but makes one with A's key; call 2 reuses call 1's token; call 3 — B is active again — reuses
    call 0's token, filed under B's key; the rejected reload changes nothing *)
Lemma conc_nonvacuous :
  exists t0 t1,
    map (fun i => result i (crun fx_all f2_cfg ex_sched (cinit (ex_st ex_A) ex_calls))) [0; 1; 2; 3] =
      [Some (Ok t0); Some (Ok t1); Some (Ok t1); Some (Ok t0)] /\
    t_kid t0 = "key-b" /\ t_key t0 = Priv (r_key (f2_entry 8 "key-b")) /\
    t_kid t1 = "key-a" /\ t_key t1 = Priv (r_key (f2_entry 7 "key-a")) /\
    rev (g_jwks (crun fx_all f2_cfg ex_sched (cinit (ex_st ex_A) ex_calls))) =
      [[spec_jwk (f2_entry 7 "key-a")]; [spec_jwk (f2_entry 8 "key-b")]] /\
    loaded f2_cfg (ex_st ex_A) /\ rejected f2_cfg ex_bad = true.
Proof.
  do 2 eexists. split; [vm_compute; reflexivity|].
  split; [reflexivity|]. split; [reflexivity|]. split; [reflexivity|]. split; [reflexivity|].
  split; [vm_compute; reflexivity|]. split; [exists ex_A; vm_compute; reflexivity | vm_compute; reflexivity].
Qed.

(** C16-F2 as it was (tree with the repair of F1 only), with two calls: call 0's token, signed with B's key,
    is filed under the key computed under A; call 1 — which starts after the roll-back to A and during which
    A is the signer's state at every moment — is handed that token: key id "key-b", not published *)
Lemma conc_F2_pinned_refuted :
  exists t0,
    let g := crun fx_F1_only f2_cfg ex_sched (cinit (ex_st ex_A) ex_calls) in
    result 0 g = Some (Ok t0) /\ result 1 g = Some (Ok t0) /\ t_kid t0 = "key-b" /\
    verifies t0 (published f2_cfg (ex_st ex_A)) = false /\
    (* from call 1's first step to its last the signer's state is A's *)
    forallb (fun n => jwk_eqb (s_jwk (g_st (crun fx_F1_only f2_cfg (firstn n ex_sched) (cinit (ex_st ex_A) ex_calls))))
                              (s_jwk (ex_st ex_A))) (seq 8 7) = true.
Proof. eexists. cbv zeta. split; [vm_compute; reflexivity|]. vm_compute. repeat split. Qed.

(** why "a moment of the call": a reload that lands between a call's Sign section and its return makes the
    token it returns one that does not verify against the key set published at the moment of return (nothing
    a lock inside the signer could prevent; the statement "also while key stores are being reloaded" can
    only mean a moment of the call) *)
Lemma conc_return_after_reload :
  exists t,
    let sched := [SThread 0; SThread 0; SThread 0; SReload ex_B; SThread 0; SThread 0] in
    let g := crun fx_all f2_cfg sched (cinit (ex_st ex_A) [ex_call "alice" 1000000000000]) in
    result 0 g = Some (Ok t) /\ t_kid t = "key-a" /\
    verifies t (published f2_cfg (g_st g)) = false /\
    verifies t (published f2_cfg (g_st (crun fx_all f2_cfg (firstn 3 sched) (cinit (ex_st ex_A) [ex_call "alice" 1000000000000])))) = true.
Proof. eexists. cbv zeta. split; [vm_compute; reflexivity|]. vm_compute. repeat split. Qed.

(** C16-F1 as it was (cache key without the key itself; the repair of F2 alone does not help): the store is
    replaced by one with the same key id and algorithm but another key; a call that starts afterwards is handed
    the token of the replaced key from the cache.  With both repairs the same schedule makes it sign afresh *)
Definition ex_A2 : pem_file := PemOk [f2_entry 9 "key-a"].
Definition ex_sched_F1 : list sev :=
  [SThread 0; SThread 0; SThread 0; SThread 0; SThread 0; SReload ex_A2;
   SThread 1; SThread 1; SThread 1; SThread 1; SThread 1].
Definition ex_calls_F1 : list call := [ex_call "alice" 1000000000000; ex_call "alice" 1001000000000].

Lemma conc_F1_pinned_refuted :
  exists t0 t1,
    let g := crun {| fx_F1 := false; fx_F2 := true |} f2_cfg ex_sched_F1 (cinit (ex_st ex_A) ex_calls_F1) in
    result 0 g = Some (Ok t0) /\ result 1 g = Some (Ok t0) /\
    t_key t0 = Priv (r_key (f2_entry 7 "key-a")) /\ s_key (g_st g) = Priv (r_key (f2_entry 9 "key-a")) /\
    verifies t0 (published f2_cfg (g_st g)) = false /\
    result 1 (crun fx_all f2_cfg ex_sched_F1 (cinit (ex_st ex_A) ex_calls_F1)) = Some (Ok t1) /\
    t_key t1 = Priv (r_key (f2_entry 9 "key-a")).
Proof. do 2 eexists. cbv zeta. split; [vm_compute; reflexivity|]. vm_compute. repeat split. Qed.

(* ------------------------------------------------------------------ the fine machine (C16/ConcGen.v) *)
From HV Require Import C16.Locks C16.ConcSkel C16.ConcGen.

(** two calls, one reload to B, one JWKS request, with the section programs of the tree as it is ([progs_now]).
    Call 0 is inside its Hash() section when the reload wants the lock: the reload waits (its step changes
    nothing); once call 0 has released the lock the reload takes it, and call 1's RLock and the JWKS request
    wait while it assigns the three fields one by one; call 0 signs after the reload (with B's key), call 1
    reuses that token; the JWKS answer is B's set *)
Definition fx_sched : list gev :=
  [GEx 0; GEx 0;            (* call 0: RLock, jwk := s.jwk *)
   GRl 0;                   (* reload: parse ok, Lock refused (a reader holds the mutex) *)
   GEx 0;                   (* call 0: RUnlock, cache key (under A) *)
   GRl 0; GRl 0;            (* reload: Lock, s.jwk = *)
   GEx 1; GJw 0;            (* call 1 and the JWKS request: RLock refused (the writer holds the mutex) *)
   GEx 0;                   (* call 0: cache lookup (miss) *)
   GEx 0;                   (* call 0: RLock refused *)
   GRl 0; GRl 0; GRl 0;     (* reload: s.key =, s.pubKeys =, Unlock *)
   GEx 0; GEx 0; GEx 0; GEx 0; GEx 0; GEx 0;   (* call 0: RLock, reads, RUnlock+sign, Set, return *)
   GJw 0; GJw 0; GJw 0;
   GEx 1; GEx 1; GEx 1; GEx 1; GEx 1].         (* call 1: Hash() section, lookup: hit *)

Lemma fine_nonvacuous :
  let g0 := ginit (ex_st ex_A) [ex_call "alice" 1000000000000; ex_call "alice" 1001000000000] [ex_B] 1 in
  let at_ n := grun fx_all progs_now f2_cfg (firstn n fx_sched) g0 in
  exists t,
    map gt_pc (h_exs (at_ 27)) = [GDone (Ok t); GDone (Ok t)] /\ t_kid t = "key-b" /\
    map grt_pc (h_rls (at_ 3)) = [GRInit] /\ gwriters (at_ 5) = true /\
    map gt_pc (h_exs (at_ 8)) = [GKeyed (key_of fx_all f2_cfg (ex_st ex_A) (q_of "alice")); GInit] /\ h_jws (at_ 8) = [GJInit] /\
    (* torn in the middle of the write section, but nobody can look *)
    s_jwk (h_sh (at_ 8)) = s_jwk (ex_st ex_B) /\ s_key (h_sh (at_ 8)) = s_key (ex_st ex_A) /\
    h_sh (at_ 13) = ex_st ex_B /\ gwriters (at_ 13) = false /\
    h_jwks (at_ 27) = [[spec_jwk (f2_entry 8 "key-b")]] /\
    gtr_sched fx_all progs_now f2_cfg g0 fx_sched =
      [SThread 0; SReload ex_B; SThread 0; SThread 0; SThread 0; SThread 0; SJwks; SThread 1; SThread 1; SThread 1].
Proof. cbv zeta. eexists. vm_compute. repeat split. Qed.

(** other programs the theorems cover as well: Hash reads jwk twice, Sign reads the key before the JWK, load
    assigns the published set first; and programs they do not: a Sign section that never reads the key *)
Definition progs_alt : progs :=
  {| p_hash := [FJwk; FJwk]; p_sign := [FKey; FJwk]; p_keys := [FPub]; p_load := [FPub; FKey; FJwk; FPub] |}.

Lemma progs_examples :
  progs_ok progs_now = true /\ progs_ok progs_alt = true /\
  progs_ok {| p_hash := [FJwk]; p_sign := [FJwk]; p_keys := [FPub]; p_load := [FJwk; FKey; FPub] |} = false /\
  progs_ok {| p_hash := [FJwk]; p_sign := [FJwk; FKey]; p_keys := [FPub]; p_load := [FJwk; FKey] |} = false /\
  programs skeleton_now xs_fixed = Some progs_now /\
  (* the hypothesis of C16_consistent_pair holds of the lock skeleton of the tree as it is *)
  wf_skeleton skeleton_now = true /\ has_roles skeleton_now = true /\
  (* a Sign that takes the read lock once per field is not one section: no programs *)
  programs [("load", [ELock; EDeferUnlock; EWrite FJwk; EWrite FKey; EWrite FPub; ERet]); ("Hash", [ERLock; ERead FJwk; ERUnlock]);
            ("signWithHash", [ERLock; ERead FJwk; ERUnlock; ERLock; ERead FKey; ERUnlock; ERet]);
            ("Keys", [ERLock; EDeferRUnlock; ERead FPub; ERet])] xs_fixed = None.
Proof. vm_compute. repeat split. Qed.
