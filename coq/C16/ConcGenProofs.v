(** C16 — for all section programs with [progs_ok], every schedule of the fine machine (C16/ConcGen.v: lock
    operations and single field accesses as steps, a blocking RWMutex, reloads and JWKS requests as threads)
    is, through the abstraction [gabs], the schedule [gtr_sched] of the machine of C16/Conc.v: critical
    sections may be taken as atomic.  Invariant [ginv]: a writer excludes readers and other writers; what a
    reader has copied so far are the current field values, and it has copied every field of its program that it
    has passed; every field is the new one or still to be assigned by the writer. *)
From HV Require Import Base.Prelude C16.Model C16.Spec C16.Proofs C16.Locks C16.Conc C16.ConcProofs C16.ConcSkel
  C16.ConcLists C16.ConcGen.
Open Scope string_scope.
Open Scope list_scope.

Lemma grun_cons fx P c e s g : grun fx P c (e :: s) g = grun fx P c s (gstep fx P c g e).
Proof. reflexivity. Qed.

Lemma feqb_eq a b : field_eqb a b = true <-> a = b.
Proof. destruct a, b; simpl; split; intro H; try reflexivity; discriminate. Qed.

Lemma mem_In f l : mem f l = true <-> In f l.
Proof.
  unfold mem. rewrite existsb_exists. split.
  - intros [x [Hin E]]. apply feqb_eq in E. subst. exact Hin.
  - intro H. exists f. split; [exact H | apply feqb_eq; reflexivity].
Qed.

Lemma published_pub_of c st : published c st = pub_of c (s_pub st).
Proof. reflexivity. Qed.

(* ------------------------------------------------------------------ copies and assignments *)

Definition is_some {A} (o : option A) : bool := match o with Some _ => true | None => false end.

Definition has (f : field) (cp : copies) : bool :=
  match f with FJwk => is_some (cp_jwk cp) | FKey => is_some (cp_key cp) | FPub => is_some (cp_pub cp) end.

(** what has been copied are the current values *)
Definition cp_ok (sh : state) (cp : copies) : Prop :=
  (forall j, cp_jwk cp = Some j -> j = s_jwk sh) /\ (forall k, cp_key cp = Some k -> k = s_key sh) /\
  (forall p, cp_pub cp = Some p -> p = s_pub sh).

(** every field of the program has been copied or is still to be read *)
Definition covered (prog rest : list field) (cp : copies) : Prop :=
  forall f, In f prog -> In f rest \/ has f cp = true.

Lemma cp_ok_none sh : cp_ok sh no_copies.
Proof. repeat split; intros x H; discriminate. Qed.

Lemma covered_start prog : covered prog prog no_copies.
Proof. intros f H. left. exact H. Qed.

Lemma cp_ok_copy f sh cp : cp_ok sh cp -> cp_ok sh (copy f sh cp).
Proof.
  intros (A & B & C). destruct f; cbn; repeat split; intros x H; cbn in H; auto; inversion H; reflexivity.
Qed.

Lemma has_copy_mono f f' sh cp : has f' cp = true -> has f' (copy f sh cp) = true.
Proof. destruct f, f'; cbn; auto. Qed.

Lemma has_copy_same f sh cp : has f (copy f sh cp) = true.
Proof. destruct f; reflexivity. Qed.

Lemma covered_copy prog f r sh cp : covered prog (f :: r) cp -> covered prog r (copy f sh cp).
Proof.
  intros H f' Hin. destruct (H f' Hin) as [[<-|Hr]|Hh].
  - right. apply has_copy_same.
  - left. exact Hr.
  - right. apply has_copy_mono. exact Hh.
Qed.

Definition feq (f : field) (sh st : state) : Prop :=
  match f with FJwk => s_jwk sh = s_jwk st | FKey => s_key sh = s_key st | FPub => s_pub sh = s_pub st end.

Lemma feq_assign_same f st sh : feq f (assign f st sh) st.
Proof. destruct f; reflexivity. Qed.

Lemma feq_assign_other f f' st sh : f' <> f -> feq f' sh st -> feq f' (assign f st sh) st.
Proof. destruct f, f'; cbn; intros N H; try exact H; exfalso; apply N; reflexivity. Qed.

Lemma feq_all sh st : (forall f, feq f sh st) -> sh = st.
Proof.
  intro H. pose proof (H FJwk) as A. pose proof (H FKey) as B. pose proof (H FPub) as C.
  destruct sh, st. cbn in *. subst. reflexivity.
Qed.

(* ------------------------------------------------------------------ invariant *)

Section Gen.
  Variable fx : fixes.
  Variable P : progs.
  Hypothesis POK : progs_ok P = true.
  Variable c : config.

  Lemma pok : In FJwk (p_hash P) /\ In FJwk (p_sign P) /\ In FKey (p_sign P) /\ In FPub (p_keys P) /\
              (forall f, In f (p_load P)).
  Proof.
    unfold progs_ok in POK. rewrite !andb_true_iff in POK. destruct POK as [[[[A B] C] D] E].
    rewrite !mem_In in *. repeat split; try assumption.
    intro f. rewrite forallb_forall in E. apply mem_In, E. destruct f; simpl; auto.
  Qed.

  Definition ex_ok (sh : state) (p : gpc) : Prop :=
    match p with
    | GHash rest cp => cp_ok sh cp /\ covered (p_hash P) rest cp
    | GSign _ rest cp => cp_ok sh cp /\ covered (p_sign P) rest cp
    | _ => True
    end.

  Definition jw_ok (sh : state) (p : gjpc) : Prop :=
    match p with GJHold rest cp => cp_ok sh cp /\ covered (p_keys P) rest cp | _ => True end.

  Definition wr_ok (sh : state) (p : grpc) : Prop :=
    match p with GRHold st rest => forall f, feq f sh st \/ In f rest | _ => True end.

  Definition wP (th : grthread) : bool := g_writing (grt_pc th).
  Definition rP (th : gthread) : bool := g_reading (gt_pc th).

  Record ginv (g : gconf) : Prop := {
    gi_excl : gwriters g = true -> greaders g = false;
    gi_uniq : forall r r' th th', nth_error (h_rls g) r = Some th -> nth_error (h_rls g) r' = Some th' ->
                                  wP th = true -> wP th' = true -> r = r';
    gi_wr : forall r th, nth_error (h_rls g) r = Some th -> wr_ok (h_sh g) (grt_pc th);
    gi_ex : forall i th, nth_error (h_exs g) i = Some th -> ex_ok (h_sh g) (gt_pc th);
    gi_jw : forall k p, nth_error (h_jws g) k = Some p -> jw_ok (h_sh g) p }.

  Lemma ex_ok_idle sh p : g_reading p = false -> ex_ok sh p.
  Proof. destruct p; simpl; intro H; try exact I; discriminate. Qed.

  Lemma jw_ok_idle sh p : gj_reading p = false -> jw_ok sh p.
  Proof. destruct p; simpl; intro H; try exact I; discriminate. Qed.

  Lemma wr_ok_idle sh p : g_writing p = false -> wr_ok sh p.
  Proof. destruct p; simpl; intro H; try exact I; discriminate. Qed.

  Lemma readers_split g : greaders g = false <->
    existsb rP (h_exs g) = false /\ existsb gj_reading (h_jws g) = false.
  Proof. unfold greaders. fold rP. apply orb_false_iff. Qed.

  Lemma ex_reading_readers g i th : nth_error (h_exs g) i = Some th -> rP th = true -> greaders g = true.
  Proof. intros N R. unfold greaders. fold rP. apply orb_true_iff. left. apply existsb_nth. eauto. Qed.

  Lemma jw_reading_readers g k p : nth_error (h_jws g) k = Some p -> gj_reading p = true -> greaders g = true.
  Proof. intros N R. unfold greaders. apply orb_true_iff. right. apply existsb_nth. eauto. Qed.

  Lemma reading_no_writer g : ginv g -> greaders g = true -> gwriters g = false.
  Proof. intros GI R. destruct (gwriters g) eqn:W; [|reflexivity]. apply (gi_excl g GI) in W. congruence. Qed.

  Lemma no_writer_abs g : gwriters g = false -> gabs_st g = h_sh g.
  Proof. intro W. unfold gabs_st, gpending. unfold gwriters in W. rewrite (find_none _ _ W). reflexivity. Qed.

  Lemma no_writer_only g r : gwriters g = false -> only_at wP r (h_rls g).
  Proof. intros W j y _ Hj. eapply existsb_false_nth; [exact W | exact Hj]. Qed.

  Lemma writer_only g r th : ginv g -> nth_error (h_rls g) r = Some th -> wP th = true -> only_at wP r (h_rls g).
  Proof.
    intros GI N Hw j y Hne Hj. destruct (wP y) eqn:E; [|reflexivity]. exfalso. apply Hne.
    eapply (gi_uniq g GI); eassumption.
  Qed.

  Lemma writer_abs g r th st : ginv g -> nth_error (h_rls g) r = Some th -> wP th = true ->
    gtarget (grt_pc th) = Some st -> gabs_st g = st.
  Proof.
    intros GI N Hw T. unfold gabs_st, gpending. fold wP.
    rewrite (find_only_at wP _ r th (writer_only g r th GI N Hw) N Hw), T. reflexivity.
  Qed.

  Lemma writer_writers g r th : nth_error (h_rls g) r = Some th -> wP th = true -> gwriters g = true.
  Proof. intros N Hw. unfold gwriters. fold wP. apply existsb_nth. eauto. Qed.

  Lemma readers_false_ex g i th : greaders g = false -> nth_error (h_exs g) i = Some th -> g_reading (gt_pc th) = false.
  Proof. intros R N. apply readers_split in R as [R _]. exact (existsb_false_nth rP _ _ _ R N). Qed.

  Lemma readers_false_jw g k p : greaders g = false -> nth_error (h_jws g) k = Some p -> gj_reading p = false.
  Proof. intros R N. apply readers_split in R as [_ R]. exact (existsb_false_nth _ _ _ _ R N). Qed.

  (* ------------------------------------------------------------------ a step of a call *)

  Definition abs_upd (u : gupd) : upd :=
    {| u_th := gabs_th (gu_th u); u_cache := gu_cache u; u_minted := gu_minted u; u_made := gu_made u |}.

  Lemma gexec_commit g i th : ginv g -> nth_error (h_exs g) i = Some th -> gcommits (gt_pc th) = true ->
    exec_step fx (gabs g) (gabs_th th) = abs_upd (gexec fx P g th).
  Proof.
    intros GI N Hc. pose proof (gi_ex g GI i th N) as OK. destruct pok as (PH & PS1 & PS2 & _ & _).
    unfold exec_step, gexec, abs_upd, gabs_th. cbn [th_call th_pc th_st0 th_st1].
    destruct (gt_pc th) as [|rest cp|k0|k0|k0 rest cp|k t|t|r] eqn:PC; try discriminate; cbn [gabs_pc].
    - (* RUnlock of the Hash section *)
      destruct rest; [|discriminate].
      assert (A : gabs_st g = h_sh g).
      { apply no_writer_abs, (reading_no_writer g GI). eapply ex_reading_readers; [exact N|]. unfold rP. rewrite PC. reflexivity. }
      simpl in OK. destruct OK as [(Cj & _ & _) Cov].
      destruct (Cov FJwk PH) as [[]|Hh]. cbn in Hh. destruct (cp_jwk cp) as [j|] eqn:Ej; [|discriminate].
      rewrite (Cj j eq_refl). cbn [g_st g_cache g_minted g_made gabs]. rewrite A. reflexivity.
    - (* cch.Get *)
      cbn [g_clock g_cache g_minted g_made gabs].
      destruct (if c_cache (cl_cfg (gt_call th)) then cache_get k0 (h_clock g) (h_cache g) else None); reflexivity.
    - (* RUnlock of the Sign section, signing *)
      destruct rest; [|discriminate].
      assert (A : gabs_st g = h_sh g).
      { apply no_writer_abs, (reading_no_writer g GI). eapply ex_reading_readers; [exact N|]. unfold rP. rewrite PC. reflexivity. }
      simpl in OK. destruct OK as [(Cj & Ck & _) Cov].
      destruct (Cov FJwk PS1) as [[]|Hj]. destruct (Cov FKey PS2) as [[]|Hk]. cbn in Hj, Hk.
      destruct (cp_jwk cp) as [j|] eqn:Ej; [|discriminate]. destruct (cp_key cp) as [k|] eqn:Ek; [|discriminate].
      rewrite (Cj j eq_refl), (Ck k eq_refl). cbn [g_st g_cache g_minted g_made gabs]. rewrite A.
      change (sign (st_of (s_jwk (h_sh g)) (s_key (h_sh g)))) with (sign (h_sh g)).
      destruct (sign (h_sh g) _ _ _ _ _ _); reflexivity.
    - reflexivity.
    - reflexivity.
  Qed.

  Lemma gexec_stutter g th : gcommits (gt_pc th) = false ->
    abs_upd (gexec fx P g th) =
    {| u_th := gabs_th th; u_cache := h_cache g; u_minted := h_minted g; u_made := h_made g |}.
  Proof.
    intro Hc. unfold gexec, abs_upd, gabs_th.
    destruct (gt_pc th) as [|rest cp|k0|k0|k0 rest cp|k t|t|r] eqn:PC; try discriminate; cbn.
    - destruct (gwriters g); reflexivity.
    - destruct rest; [discriminate | reflexivity].
    - destruct (gwriters g); reflexivity.
    - destruct rest; [discriminate | reflexivity].
    - reflexivity.
  Qed.

  Ltac proj := cbn [h_sh h_cache h_minted h_clock h_exs h_rls h_jws h_jwks h_made
                    g_st g_cache g_minted g_clock g_ths g_jwks g_made grt_pc grt_file
                    u_th u_cache u_minted u_made].

  Lemma abs_ex_step g i th : ginv g -> nth_error (h_exs g) i = Some th ->
    gabs (gstep fx P c g (GEx i)) = crun fx c (gtr c g (GEx i)) (gabs g).
  Proof.
    intros GI N. unfold gtr, gstep. rewrite N.
    assert (NA : nth_error (g_ths (gabs g)) i = Some (gabs_th th)) by (cbn; apply map_nth_error; exact N).
    destruct (gcommits (gt_pc th)) eqn:Hc.
    - unfold crun. cbn [fold_left cstep]. rewrite NA, (gexec_commit g i th GI N Hc).
      unfold gabs at 1. unfold gabs_st, abs_upd. proj. rewrite map_set_nth. reflexivity.
    - pose proof (gexec_stutter g th Hc) as S. unfold abs_upd in S.
      pose proof (f_equal u_th S) as S1. pose proof (f_equal u_cache S) as S2.
      pose proof (f_equal u_minted S) as S3. pose proof (f_equal u_made S) as S4. cbn in S1, S2, S3, S4.
      unfold crun. cbn [fold_left]. unfold gabs, gabs_st. proj.
      rewrite map_set_nth, S1, S2, S3, S4.
      rewrite (set_nth_same (gabs_th th) (map gabs_th (h_exs g)) i (map_nth_error gabs_th i (h_exs g) N)). reflexivity.
  Qed.

  Lemma gexec_idle g th : gwriters g = true -> rP th = false ->
    g_reading (gt_pc (gu_th (gexec fx P g th))) = false.
  Proof.
    unfold gexec, rP. destruct (gt_pc th); cbn; intros W R; try discriminate; try rewrite W; try reflexivity.
    - destruct (if c_cache _ then _ else _); reflexivity.
  Qed.

  Lemma gexec_ok g th : ex_ok (h_sh g) (gt_pc th) -> ex_ok (h_sh g) (gt_pc (gu_th (gexec fx P g th))).
  Proof.
    unfold gexec. destruct (gt_pc th) as [|rest cp|k0|k0|k0 rest cp|k t|t|r]; cbn; intro OK; auto.
    - destruct (gwriters g); cbn; [exact I|]. split; [apply cp_ok_none | apply covered_start].
    - destruct rest as [|f rest]; cbn.
      + destruct (cp_jwk cp); exact I.
      + destruct OK as [A B]. split; [apply cp_ok_copy; exact A | apply covered_copy; exact B].
    - destruct (if c_cache _ then _ else _); exact I.
    - destruct (gwriters g); cbn; [exact I|]. split; [apply cp_ok_none | apply covered_start].
    - destruct rest as [|f rest]; cbn.
      + destruct (cp_jwk cp); [destruct (cp_key cp); [destruct (sign _ _ _ _ _ _ _)|]|]; exact I.
      + destruct OK as [A B]. split; [apply cp_ok_copy; exact A | apply covered_copy; exact B].
  Qed.

  Lemma inv_ex_step g i : ginv g -> ginv (gstep fx P c g (GEx i)).
  Proof.
    intro GI. unfold gstep. destruct (nth_error (h_exs g) i) as [th|] eqn:N; [|exact GI].
    constructor; cbn [h_sh h_exs h_rls h_jws].
    - unfold gwriters, greaders. cbn [h_rls h_exs h_jws]. intro W. fold (gwriters g) in W.
      pose proof (gi_excl g GI W) as R. apply readers_split in R as [R1 R2].
      apply orb_false_iff. split; [|exact R2]. fold rP. apply existsb_set_nth_false.
      + intros j y _ Hj. eapply existsb_false_nth; [exact R1 | exact Hj].
      + apply (gexec_idle g th W). eapply existsb_false_nth; [exact R1 | exact N].
    - exact (gi_uniq g GI).
    - exact (gi_wr g GI).
    - intros j y Hj. apply nth_set_nth_inv in Hj as [[_ ->]|[_ Hj]].
      + apply gexec_ok. exact (gi_ex g GI i th N).
      + exact (gi_ex g GI j y Hj).
    - exact (gi_jw g GI).
  Qed.

  (* ------------------------------------------------------------------ a step of a JWKS request *)

  Lemma abs_jw_step g k : ginv g -> gabs (gstep fx P c g (GJw k)) = crun fx c (gtr c g (GJw k)) (gabs g).
  Proof.
    intro GI. destruct pok as (_ & _ & _ & PK & _).
    unfold gstep, gtr. destruct (nth_error (h_jws g) k) as [p|] eqn:N; [|reflexivity].
    destruct p as [|rest cp|]; cbn [gjw].
    - destruct (gwriters g); reflexivity.
    - destruct rest as [|f rest]; [|reflexivity].
      assert (A : gabs_st g = h_sh g).
      { apply no_writer_abs, (reading_no_writer g GI). eapply jw_reading_readers; [exact N | reflexivity]. }
      pose proof (gi_jw g GI k _ N) as OK. simpl in OK. destruct OK as [(_ & _ & Cp) Cov].
      destruct (Cov FPub PK) as [[]|Hp]. cbn in Hp. destruct (cp_pub cp) as [ks|] eqn:Ep; [|discriminate].
      rewrite (Cp ks eq_refl).
      unfold crun. cbn [fold_left cstep]. unfold gabs at 1. unfold gabs_st. proj.
      fold (gabs_st g). cbn [gabs g_st g_cache g_minted g_clock g_ths g_jwks g_made]. rewrite A, published_pub_of. reflexivity.
    - reflexivity.
  Qed.

  Lemma inv_jw_step g k : ginv g -> ginv (gstep fx P c g (GJw k)).
  Proof.
    intro GI. unfold gstep. destruct (nth_error (h_jws g) k) as [p|] eqn:N; [|exact GI].
    destruct (gjw P c g p) as [p' lg] eqn:J.
    constructor; cbn [h_sh h_exs h_rls h_jws].
    - unfold gwriters, greaders. cbn [h_rls h_exs h_jws]. intro W. fold (gwriters g) in W.
      pose proof (gi_excl g GI W) as R. apply readers_split in R as [R1 R2].
      apply orb_false_iff. split; [exact R1|]. apply existsb_set_nth_false.
      + intros j y _ Hj. eapply existsb_false_nth; [exact R2 | exact Hj].
      + pose proof (existsb_false_nth _ _ _ _ R2 N) as Rp. unfold gjw in J.
        destruct p; try discriminate; [rewrite W in J|]; inversion J; reflexivity.
    - exact (gi_uniq g GI).
    - exact (gi_wr g GI).
    - exact (gi_ex g GI).
    - intros j y Hj. apply nth_set_nth_inv in Hj as [[_ ->]|[_ Hj]]; [|exact (gi_jw g GI j y Hj)].
      pose proof (gi_jw g GI k p N) as OK. unfold gjw in J.
      destruct p as [|rest cp|]; [destruct (gwriters g)|destruct rest as [|f rest]|]; inversion J; simpl; auto.
      + split; [apply cp_ok_none | apply covered_start].
      + destruct OK as [A B]. split; [apply cp_ok_copy; exact A | apply covered_copy; exact B].
  Qed.

  (* ------------------------------------------------------------------ a step of a reload *)

  Lemma abs_rl_step g r : ginv g -> gabs (gstep fx P c g (GRl r)) = crun fx c (gtr c g (GRl r)) (gabs g).
  Proof.
    intro GI. unfold gstep, gtr. destruct (nth_error (h_rls g) r) as [th|] eqn:N; [|reflexivity].
    unfold grl. destruct (grt_pc th) as [|st rest|] eqn:PC.
    - (* parse, validate, Lock *)
      assert (Hw : wP th = false) by (unfold wP; rewrite PC; reflexivity).
      destruct (load (c_keyid c) (grt_file th)) as [st| |] eqn:L.
      + destruct (gwriters g || greaders g) eqn:B.
        * unfold crun, gabs, gabs_st, gpending. proj. fold wP.
          rewrite (find_set_nth_skip wP) with (old := th); [reflexivity | exact N | exact Hw | reflexivity].
        * apply orb_false_iff in B as [W _].
          unfold crun. cbn [fold_left cstep]. rewrite L. unfold gabs, gabs_st, gpending. proj. fold wP.
          rewrite (find_set_nth_hit wP) with (old := th); [reflexivity | exact (no_writer_only g r W) | exact N | reflexivity].
      + unfold crun. cbn [fold_left cstep]. rewrite L. unfold gabs, gabs_st, gpending. proj. fold wP.
        rewrite (find_set_nth_skip wP) with (old := th); [reflexivity | exact N | exact Hw | reflexivity].
      + unfold crun. cbn [fold_left cstep]. rewrite L. unfold gabs, gabs_st, gpending. proj. fold wP.
        rewrite (find_set_nth_skip wP) with (old := th); [reflexivity | exact N | exact Hw | reflexivity].
    - assert (Hw : wP th = true) by (unfold wP; rewrite PC; reflexivity).
      assert (A : gabs_st g = st) by (eapply writer_abs; [exact GI | exact N | exact Hw | rewrite PC; reflexivity]).
      destruct rest as [|f rest].
      + (* Unlock: every field is the new one *)
        pose proof (gi_wr g GI r th N) as OK. rewrite PC in OK. simpl in OK.
        assert (E : h_sh g = st) by (apply feq_all; intro f; destruct (OK f) as [H|[]]; exact H).
        unfold crun, gabs. cbn [fold_left]. rewrite A. unfold gabs_st, gpending. proj. fold wP.
        rewrite (find_set_nth_miss wP); [rewrite E; reflexivity | exact (writer_only g r th GI N Hw) | reflexivity].
      + (* an assignment *)
        unfold crun, gabs. cbn [fold_left]. rewrite A. unfold gabs_st, gpending. proj. fold wP.
        rewrite (find_set_nth_hit wP) with (old := th); [reflexivity | exact (writer_only g r th GI N Hw) | exact N | reflexivity].
    - assert (Hw : wP th = false) by (unfold wP; rewrite PC; reflexivity).
      unfold crun, gabs, gabs_st, gpending. proj. fold wP.
      rewrite (find_set_nth_skip wP) with (old := th); [reflexivity | exact N | exact Hw | reflexivity].
  Qed.

  Lemma inv_rl_step g r : ginv g -> ginv (gstep fx P c g (GRl r)).
  Proof.
    intro GI. destruct pok as (_ & _ & _ & _ & PL).
    unfold gstep. destruct (nth_error (h_rls g) r) as [th|] eqn:N; [|exact GI].
    destruct (grl P c g th) as [sh p] eqn:J.
    set (th' := {| grt_file := grt_file th; grt_pc := p |}).
    assert (Hacq : wP th' = true -> wP th = true \/ (gwriters g = false /\ greaders g = false)).
    { unfold wP, th'. cbn. unfold grl in J. destruct (grt_pc th) as [|st rest|] eqn:PC; try (intros _; left; reflexivity).
      - destruct (load (c_keyid c) (grt_file th)); [destruct (gwriters g || greaders g) eqn:B|..]; inversion J; subst; cbn; try discriminate.
        intros _. right. apply orb_false_iff. exact B.
      - inversion J; subst. discriminate. }
    assert (Hsh : sh = h_sh g \/ wP th = true).
    { unfold wP. unfold grl in J. destruct (grt_pc th) as [|st rest|] eqn:PC; try (right; reflexivity).
      - left. destruct (load (c_keyid c) (grt_file th)); [destruct (gwriters g || greaders g)|..]; inversion J; reflexivity.
      - left. inversion J; reflexivity. }
    assert (Hothers : wP th = true -> forall j y, j <> r -> nth_error (h_rls g) j = Some y -> wP y = false)
      by (intro Hw; exact (writer_only g r th GI N Hw)).
    constructor; cbn [h_sh h_exs h_rls h_jws].
    - unfold gwriters, greaders. cbn [h_rls h_exs h_jws]. fold (greaders g). fold wP. intro W.
      apply existsb_nth in W as (j & y & Hj & Hy). apply nth_set_nth_inv in Hj as [[_ ->]|[_ Hj]].
      + destruct (Hacq Hy) as [Hw|[_ R]]; [|exact R]. apply (gi_excl g GI). eapply writer_writers; eassumption.
      + apply (gi_excl g GI). eapply writer_writers; eassumption.
    - intros r1 r2 y1 y2 H1 H2 W1 W2.
      apply nth_set_nth_inv in H1 as [[-> ->]|[Hn1 H1]]; apply nth_set_nth_inv in H2 as [[-> ->]|[Hn2 H2]].
      + reflexivity.
      + exfalso. destruct (Hacq W1) as [Hw|[W _]].
        * rewrite (Hothers Hw _ _ Hn2 H2) in W2. discriminate.
        * rewrite (existsb_false_nth wP _ _ _ W H2) in W2. discriminate.
      + exfalso. destruct (Hacq W2) as [Hw|[W _]].
        * rewrite (Hothers Hw _ _ Hn1 H1) in W1. discriminate.
        * rewrite (existsb_false_nth wP _ _ _ W H1) in W1. discriminate.
      + exact (gi_uniq g GI _ _ _ _ H1 H2 W1 W2).
    - intros j y Hj. apply nth_set_nth_inv in Hj as [[_ ->]|[Hne Hj]].
      + cbn [grt_pc th']. pose proof (gi_wr g GI r th N) as OK. unfold grl in J.
        destruct (grt_pc th) as [|st rest|] eqn:PC.
        * destruct (load (c_keyid c) (grt_file th)); [destruct (gwriters g || greaders g)|..]; inversion J; try exact I.
          simpl. intro f. right. apply PL.
        * destruct rest as [|f rest]; inversion J; subst; [exact I|].
          simpl in *. intro f'. destruct (field_eqb f' f) eqn:E.
          -- apply feqb_eq in E. subst f'. left. apply feq_assign_same.
          -- assert (f' <> f) by (intro X; subst; rewrite (proj2 (feqb_eq f f) eq_refl) in E; discriminate).
             destruct (OK f') as [A|[X|A]]; [left; apply feq_assign_other; assumption | exfalso; auto | right; exact A].
        * inversion J; subst. exact I.
      + destruct Hsh as [->|Hw]; [exact (gi_wr g GI j y Hj)|].
        apply wr_ok_idle. exact (Hothers Hw j y Hne Hj).
    - intros i y Hi. destruct Hsh as [->|Hw]; [exact (gi_ex g GI i y Hi)|].
      apply ex_ok_idle. eapply readers_false_ex; [|exact Hi]. apply (gi_excl g GI). eapply writer_writers; eassumption.
    - intros k y Hk. destruct Hsh as [->|Hw]; [exact (gi_jw g GI k y Hk)|].
      apply jw_ok_idle. eapply readers_false_jw; [|exact Hk]. apply (gi_excl g GI). eapply writer_writers; eassumption.
  Qed.

  (* ------------------------------------------------------------------ the refinement *)

  Lemma gstep_refines g e : ginv g ->
    gabs (gstep fx P c g e) = crun fx c (gtr c g e) (gabs g) /\ ginv (gstep fx P c g e).
  Proof.
    intro GI. destruct e as [i|r|k|d].
    - split; [|apply inv_ex_step; exact GI].
      destruct (nth_error (h_exs g) i) as [th|] eqn:N; [eapply abs_ex_step; eassumption|].
      unfold gstep, gtr. rewrite N. reflexivity.
    - split; [apply abs_rl_step | apply inv_rl_step]; exact GI.
    - split; [apply abs_jw_step | apply inv_jw_step]; exact GI.
    - split; [reflexivity|]. destruct GI as [A B C D E]. constructor; assumption.
  Qed.

  (** EVERY FINE SCHEDULE IS A SCHEDULE OF THE MACHINE WITH ATOMIC SECTIONS *)
  Theorem gen_refines s : forall g, ginv g ->
    gabs (grun fx P c s g) = crun fx c (gtr_sched fx P c g s) (gabs g) /\ ginv (grun fx P c s g).
  Proof.
    induction s as [|e r IH]; intros g GI; [split; [reflexivity | exact GI]|].
    destruct (gstep_refines g e GI) as [A GI']. destruct (IH _ GI') as [B GI''].
    rewrite grun_cons. split; [|exact GI'']. cbn [gtr_sched]. rewrite crun_app, <- A. exact B.
  Qed.

  Lemma ginit_inv st calls files n : ginv (ginit st calls files n).
  Proof.
    assert (W : gwriters (ginit st calls files n) = false).
    { unfold gwriters, ginit. cbn. apply existsb_false_all. intros i x Hi.
      apply nth_error_In, in_map_iff in Hi as [f [<- _]]. reflexivity. }
    assert (R : greaders (ginit st calls files n) = false).
    { unfold greaders, ginit. cbn. apply orb_false_iff. split; apply existsb_false_all; intros i x Hi.
      - apply nth_error_In, in_map_iff in Hi as [f [<- _]]. reflexivity.
      - apply nth_error_In, repeat_spec in Hi. subst. reflexivity. }
    constructor.
    - intros _. exact R.
    - intros r r' th th' H _ Hw. rewrite (existsb_false_nth wP _ _ _ W H) in Hw. discriminate.
    - intros r th H. apply wr_ok_idle. exact (existsb_false_nth wP _ _ _ W H).
    - intros i th H. apply ex_ok_idle. eapply readers_false_ex; eassumption.
    - intros k p H. apply jw_ok_idle. eapply readers_false_jw; eassumption.
  Qed.

  Lemma gabs_ginit st calls files n : gabs (ginit st calls files n) = cinit st calls.
  Proof.
    unfold gabs, cinit. rewrite no_writer_abs.
    - cbn. rewrite map_map. reflexivity.
    - unfold gwriters, ginit. cbn. apply existsb_false_all. intros i x Hi.
      apply nth_error_In, in_map_iff in Hi as [f [<- _]]. reflexivity.
  Qed.

  Theorem gen_is_atomic st calls files n s :
    gabs (grun fx P c s (ginit st calls files n)) =
    crun fx c (gtr_sched fx P c (ginit st calls files n) s) (cinit st calls).
  Proof.
    destruct (gen_refines s _ (ginit_inv st calls files n)) as [A _]. rewrite gabs_ginit in A. exact A.
  Qed.
End Gen.

(* ------------------------------------------------------------------ what the theorems about the atomic machine say about fine schedules *)

Section GenCor.
  Variable fx : fixes.
  Hypothesis F1 : fx_F1 fx = true.
  Hypothesis F2 : fx_F2 fx = true.
  Variable P : progs.
  Hypothesis POK : progs_ok P = true.
  Variable c : config.

  Lemma gtr_short g e : gtr c g e = [] \/ exists x, gtr c g e = [x].
  Proof.
    destruct e as [i|r|k|d]; cbn.
    - destruct (nth_error (h_exs g) i) as [th|]; [|auto]. destruct (gcommits (gt_pc th)); eauto.
    - destruct (nth_error (h_rls g) r) as [th|]; [|auto]. destruct (grt_pc th); auto.
      destruct (load (c_keyid c) (grt_file th)); [destruct (gwriters g || greaders g)|..]; eauto.
    - destruct (nth_error (h_jws g) k) as [[|[|f rest] cp|]|]; eauto.
    - eauto.
  Qed.

  (** an event of the atomic schedule comes from one step of the fine schedule *)
  Lemma gtr_sched_split fs : forall g a1 x a2,
    gtr_sched fx P c g fs = a1 ++ x :: a2 ->
    exists fs1 e fs2, fs = fs1 ++ e :: fs2 /\ a1 = gtr_sched fx P c g fs1 /\
                      gtr c (grun fx P c fs1 g) e = [x] /\ a2 = gtr_sched fx P c (grun fx P c (fs1 ++ [e]) g) fs2.
  Proof.
    induction fs as [|e r IH]; intros g a1 x a2 H; [destruct a1; discriminate|].
    cbn [gtr_sched] in H. destruct (gtr_short g e) as [E|[y E]]; rewrite E in H.
    - cbn in H. destruct (IH _ _ _ _ H) as (fs1 & e' & fs2 & -> & -> & T & ->).
      exists (e :: fs1), e', fs2. cbn [gtr_sched app]. rewrite E. repeat split; assumption.
    - destruct a1 as [|z a1]; cbn in H; inversion H; subst.
      + exists [], e, r. repeat split; [exact E].
      + destruct (IH _ _ _ _ H2) as (fs1 & e' & fs2 & -> & -> & T & ->).
        exists (e :: fs1), e', fs2. cbn [gtr_sched app]. rewrite E. repeat split; assumption.
  Qed.

  Lemma gtr_thread g e i : gtr c g e = [SThread i] ->
    e = GEx i /\ exists th, nth_error (h_exs g) i = Some th /\ gcommits (gt_pc th) = true.
  Proof.
    destruct e as [j|r|k|d]; cbn.
    - destruct (nth_error (h_exs g) j) as [th|] eqn:N; [|discriminate].
      destruct (gcommits (gt_pc th)) eqn:Hc; intro H; inversion H; subst. split; [reflexivity|]. eauto.
    - destruct (nth_error (h_rls g) r) as [th|]; [|discriminate]. destruct (grt_pc th); try discriminate.
      destruct (load (c_keyid c) (grt_file th)); [destruct (gwriters g || greaders g)|..]; discriminate.
    - destruct (nth_error (h_jws g) k) as [[|[|f rest] cp|]|]; discriminate.
    - discriminate.
  Qed.

  (** ALL INTERLEAVINGS AT THE LEVEL OF LOCK OPERATIONS AND FIELD ACCESSES, for all section programs with
      [progs_ok]: if call i has returned the token t, the schedule contains a step of call i itself — the RUnlock
      that ends its Hash section or the RUnlock that ends its Sign section — such that, with [lin] = the three
      fields of the signer at that moment, t is what Sign makes from [lin] for the request of call i; [lin] is
      what one file loaded (never a mixture of two loads) *)
  Theorem gen_token_of_own_section st0 calls files n fs i th t :
    loaded c st0 ->
    nth_error (h_exs (grun fx P c fs (ginit st0 calls files n))) i = Some th -> gt_pc th = GDone (Ok t) ->
    exists fs1 fs2 cl thm,
      fs = fs1 ++ GEx i :: fs2 /\ nth_error calls i = Some cl /\
      let gm := grun fx P c fs1 (ginit st0 calls files n) in
      nth_error (h_exs gm) i = Some thm /\
      ((exists cp, gt_pc thm = GHash [] cp) \/ (exists k0 cp, gt_pc thm = GSign k0 [] cp)) /\
      let lin := h_sh gm in
      loaded c lin /\ made lin cl t /\
      t_key t = s_key lin /\ t_kid t = j_kid (s_jwk lin) /\ t_alg t = j_alg (s_jwk lin) /\
      verifies t (published c lin) = true.
  Proof.
    intros L0 N PC. set (g0 := ginit st0 calls files n) in *.
    pose proof (gen_is_atomic fx P POK c st0 calls files n fs) as A. fold g0 in A.
    assert (R : result i (crun fx c (gtr_sched fx P c g0 fs) (cinit st0 calls)) = Some (Ok t)).
    { rewrite <- A. unfold result, pc_of, gabs. cbn [g_ths]. rewrite (map_nth_error gabs_th i _ N). cbn. rewrite PC. reflexivity. }
    destruct (returned_token_linearizes fx F1 F2 c st0 calls _ i t L0 R)
      as (s1 & s2 & cl & p & E & Hcl & Hp & Hk & Hl & Hm & K1 & K2 & K3 & K4 & _).
    destruct (gtr_sched_split fs g0 s1 (SThread i) s2 E) as (fs1 & e & fs2 & -> & -> & T & _).
    destruct (gtr_thread _ _ _ T) as (-> & thm & Nm & Hc).
    pose proof (gen_is_atomic fx P POK c st0 calls files n fs1) as A1. fold g0 in A1.
    destruct (gen_refines fx P POK c fs1 g0 (ginit_inv P st0 calls files n)) as [_ GI1].
    rewrite <- A1 in Hp, Hl, Hm, K1, K2, K3, K4.
    unfold pc_of, gabs in Hp. cbn [g_ths] in Hp. rewrite (map_nth_error gabs_th i _ Nm) in Hp. cbn in Hp. inversion Hp as [Hp'].
    assert (Hread : (exists cp, gt_pc thm = GHash [] cp) \/ (exists k0 cp, gt_pc thm = GSign k0 [] cp)).
    { destruct (gt_pc thm) as [|rest cp|k0|k0|k0 rest cp|k t'|t'|r] eqn:PCm; try discriminate; cbn in Hp'; subst p.
      - destruct rest; [|discriminate]. left. eauto.
      - destruct Hk as [Hk|[k0' Hk]]; discriminate.
      - destruct rest; [|discriminate]. right. eauto.
      - destruct Hk as [Hk|[k0' Hk]]; discriminate.
      - destruct Hk as [Hk|[k0' Hk]]; discriminate. }
    assert (Ast : gabs_st (grun fx P c fs1 g0) = h_sh (grun fx P c fs1 g0)).
    { apply no_writer_abs, (reading_no_writer P _ GI1). eapply ex_reading_readers; [exact Nm|].
      unfold rP. destruct Hread as [[cp ->]|(k0 & cp & ->)]; reflexivity. }
    cbn [gabs g_st] in Hl, Hm, K1, K2, K3, K4. rewrite Ast in Hl, Hm, K1, K2, K3, K4.
    exists fs1, fs2, cl, thm. cbv zeta. auto 12.
  Qed.
End GenCor.
