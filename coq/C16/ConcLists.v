(** C16 — list facts used by the refinement proof of C16/ConcGenProofs.v ([set_nth], [existsb], [find]). *)
From HV Require Import Base.Prelude C16.Conc C16.ConcProofs.
Open Scope list_scope.

(* ------------------------------------------------------------------ lists *)

Lemma existsb_nth {A} (P : A -> bool) l :
  existsb P l = true <-> exists i x, nth_error l i = Some x /\ P x = true.
Proof.
  split.
  - intro H. apply existsb_exists in H as [x [Hin Hx]]. apply In_nth_error in Hin as [i Hi]. eauto.
  - intros (i & x & Hi & Hx). apply existsb_exists. exists x. split; [eapply nth_error_In; exact Hi | exact Hx].
Qed.

Lemma existsb_false_nth {A} (P : A -> bool) l i x :
  existsb P l = false -> nth_error l i = Some x -> P x = false.
Proof.
  intros H Hi. destruct (P x) eqn:E; [|reflexivity].
  assert (existsb P l = true) by (apply existsb_nth; eauto). congruence.
Qed.

Lemma existsb_false_all {A} (P : A -> bool) l :
  (forall i x, nth_error l i = Some x -> P x = false) -> existsb P l = false.
Proof.
  intro H. destruct (existsb P l) eqn:E; [|reflexivity].
  apply existsb_nth in E as (i & x & Hi & Hx). rewrite (H _ _ Hi) in Hx. discriminate.
Qed.

Lemma nth_set_nth_inv {A} (x : A) l i j y :
  nth_error (set_nth i x l) j = Some y -> (j = i /\ y = x) \/ (j <> i /\ nth_error l j = Some y).
Proof.
  destruct (Nat.eq_dec j i) as [->|Hne].
  - intro H. left. split; [reflexivity|].
    destruct (nth_error l i) as [z|] eqn:N.
    + rewrite (nth_set_nth_eq _ _ _ _ N) in H. inversion H. reflexivity.
    + exfalso. apply nth_error_None in N. assert (nth_error (set_nth i x l) i = None) as E.
      { apply nth_error_None. rewrite set_nth_length. exact N. }
      rewrite E in H. discriminate.
  - rewrite nth_set_nth_neq by (intro; apply Hne; symmetry; assumption). auto.
Qed.

Lemma existsb_set_nth_false {A} (P : A -> bool) x l i :
  (forall j y, j <> i -> nth_error l j = Some y -> P y = false) -> P x = false -> existsb P (set_nth i x l) = false.
Proof.
  intros H Hx. apply existsb_false_all. intros j y Hj.
  apply nth_set_nth_inv in Hj as [[_ ->]|[Hne Hj]]; [exact Hx | eapply H; eassumption].
Qed.

Lemma set_nth_same {A} (x : A) l : forall i, nth_error l i = Some x -> set_nth i x l = l.
Proof.
  induction l as [|y r IH]; intros [|i] H; simpl in *; try discriminate.
  - inversion H. reflexivity.
  - f_equal. apply IH. exact H.
Qed.

Lemma map_set_nth {A B} (f : A -> B) (x : A) l : forall i, map f (set_nth i x l) = set_nth i (f x) (map f l).
Proof. induction l as [|y r IH]; intros [|i]; simpl; try reflexivity. f_equal. apply IH. Qed.

Lemma find_none {A} (P : A -> bool) l : existsb P l = false -> find P l = None.
Proof.
  induction l as [|y r IH]; simpl; [reflexivity|]. destruct (P y); simpl; [discriminate | exact IH].
Qed.

(** position i is the only one that may satisfy P *)
Definition only_at {A} (P : A -> bool) (i : nat) (l : list A) : Prop :=
  forall j y, j <> i -> nth_error l j = Some y -> P y = false.

Lemma only_at_tail {A} (P : A -> bool) i y r : only_at P (S i) (y :: r) -> only_at P i r.
Proof. intros H j z Hne Hj. apply (H (S j) z); [intro E; apply Hne; inversion E; reflexivity | exact Hj]. Qed.

Lemma find_set_nth_hit {A} (P : A -> bool) x l : forall i old,
  only_at P i l -> nth_error l i = Some old -> P x = true -> find P (set_nth i x l) = Some x.
Proof.
  induction l as [|y r IH]; intros [|i] old H N Hx; simpl in *; try discriminate.
  - rewrite Hx. reflexivity.
  - rewrite (H 0 y (Nat.neq_0_succ i) eq_refl). eapply IH; [eapply only_at_tail; exact H | exact N | exact Hx].
Qed.

Lemma find_only_at {A} (P : A -> bool) l : forall i x,
  only_at P i l -> nth_error l i = Some x -> P x = true -> find P l = Some x.
Proof.
  intros i x H N Hx. rewrite <- (set_nth_same x l i N). eapply find_set_nth_hit; eassumption.
Qed.

Lemma find_set_nth_skip {A} (P : A -> bool) x l : forall i old,
  nth_error l i = Some old -> P old = false -> P x = false -> find P (set_nth i x l) = find P l.
Proof.
  induction l as [|y r IH]; intros [|i] old N Ho Hx; simpl in *; try discriminate.
  - inversion N; subst. rewrite Ho, Hx. reflexivity.
  - destruct (P y); [reflexivity | eapply IH; eassumption].
Qed.

Lemma find_set_nth_miss {A} (P : A -> bool) x l i :
  only_at P i l -> P x = false -> find P (set_nth i x l) = None.
Proof. intros H Hx. apply find_none. apply existsb_set_nth_false; assumption. Qed.

