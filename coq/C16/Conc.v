(** C16 — N concurrent calls of jwtFinalizer.Execute interleaved with key-store reloads,
    JWKS reads and the passing of (cache) time, at the granularity of critical sections.

    One Execute is, in the code as it is (jwt_finalizer.go Execute, jwt_signer.go Hash /
    signWithHash; the driver re-extracts this shape on every run, see C16/ConcSkel.v):

      1. cacheKey := calculateCacheKey(..)   jwtSigner.Hash(): ONE read section (RLock; jwk := s.jwk; RUnlock)
      2. cch.Get(cacheKey)                   an atomic operation of the cache; a hit goes to 5
      3. generateToken -> signWithHash       ONE read section (RLock; jwk := s.jwk; key := s.key; RUnlock), then
                                             the signing itself on the copies, outside the lock
      4. cacheKey = cacheKeyFor(signerHash)  the key of the JWK the token was signed with (repair of C16-F2,
         cch.Set(cacheKey, token, ttl-5s)    fix 186d696; before it: the key computed in 1), an atomic cache operation
      5. AddHeaderForUpstream; return

    and a reload (jwtSigner.load via OnChanged) parses and validates the file outside the lock and then
    replaces jwk, key and pubKeys in ONE write section; a rejected file changes nothing.  The sections are
    taken as atomic here: that every read section sees the three fields of one single load is theorem
    C16_consistent_pair about the lock skeleton (C16/Locks.v), which is re-extracted and checked on every run.

    A thread is one Execute call; a schedule is any list of events (which thread performs its next step, a
    reload with any file, a JWKS read, the cache clock advancing): all interleavings of any number of calls
    with any number of reloads.  Everything is built from the functions of the sequential model
    (C16/Model.v: [load], [sign], [key_of], [cache_get]), and the sequential [exec] is the special case of one
    thread (ConcProofs.v, [conc_sequential_is_exec]).

    Ghost parts (never read by the machine, only by the theorems): [th_st0]/[th_st1] = the signer state a
    thread's Hash() / signWithHash() section read, [g_made] = the log of all tokens made so far with the
    state, call and cache key they were made under. *)
From HV Require Import Base.Prelude C16.Model.
Open Scope string_scope.

(** one call of Execute: the finalizer it runs on (the effective configuration of the catalogue finalizer
    or of a rule-level variant: issuer, ttl, claims template, cache), the request, and the instant Sign
    reads if the call gets that far *)
Record call := { cl_cfg : config; cl_req : req; cl_now : Z }.

(** where a call stands *)
Inductive pc :=
| PInit                              (* not started *)
| PKeyed (k0 : ckey)                 (* 1 done: the cache key of the JWK read in Hash() *)
| PMiss (k0 : ckey)                  (* 2 done: nothing (valid) in the cache under k0 *)
| PSigned (k : ckey) (t : token)     (* 3 done: token made; k = the key it is going to be filed under *)
| PRet (t : token)                   (* token in hand (from the cache in 2, or after 4) *)
| PDone (r : res token).             (* 5 done: returned *)

Record thread := { th_call : call; th_pc : pc;
                   th_st0 : option state;      (* ghost: the state read by its Hash() section *)
                   th_st1 : option state }.    (* ghost: the state read by its signWithHash() section *)

Definition made_entry := (state * call * ckey * token)%type.

Record conf := {
  g_st : state;                      (* jwk, key, pubKeys of the signer *)
  g_cache : cache;                   (* the token cache *)
  g_minted : nat;                    (* number of tokens made (numbers the jtis) *)
  g_clock : Z;                       (* the cache's clock *)
  g_ths : list thread;
  g_jwks : list (list jwk);          (* answers of the JWKS endpoint so far, newest first *)
  g_made : list made_entry }.        (* ghost: every token made so far: state read, call, cache key, token *)

Inductive sev :=
| SThread (i : nat)                  (* call number i performs its next step (nothing if it has returned) *)
| SReload (f : pem_file)             (* the key-store file is replaced by f and OnChanged runs *)
| SJwks                              (* GET /.well-known/jwks *)
| SWait (d : Z).                     (* the cache's clock advances by d ns *)

(** registry.Keys(): the other holders' keys around this signer's pubKeys *)
Definition published (c : config) (st : state) : list jwk :=
  others_pub (c_before c) ++ s_pub st ++ others_pub (c_after c).

Fixpoint set_nth {A} (i : nat) (x : A) (l : list A) : list A :=
  match l with
  | [] => []
  | y :: r => match i with O => x :: r | S j => y :: set_nth j x r end
  end.

(** what one step of a call changes *)
Record upd := { u_th : thread; u_cache : cache; u_minted : nat; u_made : list made_entry }.

Definition claims_of (c : config) (q : req) : cmap :=
  match c_claims c with Some t => render q t | None => [] end.

Definition exec_step (fx : fixes) (g : conf) (th : thread) : upd :=
  let cl := th_call th in
  let c := cl_cfg cl in
  let q := cl_req cl in
  let keep p s0 s1 :=
    {| u_th := {| th_call := cl; th_pc := p; th_st0 := s0; th_st1 := s1 |};
       u_cache := g_cache g; u_minted := g_minted g; u_made := g_made g |} in
  match th_pc th with
  | PInit =>                                       (* Hash() *)
      keep (PKeyed (key_of fx c (g_st g) q)) (Some (g_st g)) (th_st1 th)
  | PKeyed k0 =>                                   (* cch.Get *)
      match (if c_cache c then cache_get k0 (g_clock g) (g_cache g) else None) with
      | Some t => keep (PRet t) (th_st0 th) (th_st1 th)
      | None => keep (PMiss k0) (th_st0 th) (th_st1 th)
      end
  | PMiss k0 =>                                    (* signWithHash *)
      match sign (g_st g) (issuer c) (q_sub q) (ttl_of c) (cl_now cl) (VJti (g_minted g)) (claims_of c q) with
      | Ok t =>
          let k := if fx_F2 fx then key_of fx c (g_st g) q else k0 in
          {| u_th := {| th_call := cl; th_pc := PSigned k t; th_st0 := th_st0 th; th_st1 := Some (g_st g) |};
             u_cache := g_cache g; u_minted := S (g_minted g);
             u_made := (g_st g, cl, k, t) :: g_made g |}
      | Err => keep (PDone Err) (th_st0 th) (th_st1 th)
      | Panic => keep (PDone Panic) (th_st0 th) (th_st1 th)
      end
  | PSigned k t =>                                 (* cch.Set, only with a cache and a ttl above the 5 s leeway *)
      {| u_th := {| th_call := cl; th_pc := PRet t; th_st0 := th_st0 th; th_st1 := th_st1 th |};
         u_cache := if c_cache c && (cache_leeway <? ttl_of c)%Z
                    then (k, t, g_clock g + (ttl_of c - cache_leeway))%Z :: g_cache g else g_cache g;
         u_minted := g_minted g; u_made := g_made g |}
  | PRet t => keep (PDone (Ok t)) (th_st0 th) (th_st1 th)      (* AddHeaderForUpstream; return *)
  | PDone r => keep (PDone r) (th_st0 th) (th_st1 th)
  end.

(** one event; [c] is the catalogue configuration (key id for reloads, the registry's other holders) *)
Definition cstep (fx : fixes) (c : config) (g : conf) (e : sev) : conf :=
  match e with
  | SThread i =>
      match nth_error (g_ths g) i with
      | None => g
      | Some th =>
          let u := exec_step fx g th in
          {| g_st := g_st g; g_cache := u_cache u; g_minted := u_minted u; g_clock := g_clock g;
             g_ths := set_nth i (u_th u) (g_ths g); g_jwks := g_jwks g; g_made := u_made u |}
      end
  | SReload f =>
      match load (c_keyid c) f with
      | Ok st => {| g_st := st; g_cache := g_cache g; g_minted := g_minted g; g_clock := g_clock g;
                    g_ths := g_ths g; g_jwks := g_jwks g; g_made := g_made g |}
      | _ => g                                     (* a rejected file: nothing changes *)
      end
  | SJwks => {| g_st := g_st g; g_cache := g_cache g; g_minted := g_minted g; g_clock := g_clock g;
                g_ths := g_ths g; g_jwks := published c (g_st g) :: g_jwks g; g_made := g_made g |}
  | SWait d => {| g_st := g_st g; g_cache := g_cache g; g_minted := g_minted g; g_clock := (g_clock g + d)%Z;
                  g_ths := g_ths g; g_jwks := g_jwks g; g_made := g_made g |}
  end.

(** a schedule is any list of events: all interleavings *)
Definition crun (fx : fixes) (c : config) (sched : list sev) (g : conf) : conf :=
  fold_left (cstep fx c) sched g.

Definition new_thread (cl : call) : thread :=
  {| th_call := cl; th_pc := PInit; th_st0 := None; th_st1 := None |}.

(** the signer has loaded [st]; nothing is cached; no call has started *)
Definition cinit (st : state) (calls : list call) : conf :=
  {| g_st := st; g_cache := []; g_minted := 0; g_clock := 0; g_ths := map new_thread calls;
     g_jwks := []; g_made := [] |}.

Definition pc_of (i : nat) (g : conf) : option pc := option_map th_pc (nth_error (g_ths g) i).

(** what call number i has returned, if it has *)
Definition result (i : nat) (g : conf) : option (res token) :=
  match pc_of i g with Some (PDone r) => Some r | _ => None end.

(** a reload of this file is rejected (load fails: state kept) *)
Definition rejected (c : config) (f : pem_file) : bool :=
  match load (c_keyid c) f with Ok _ => false | _ => true end.

(** no event of the list is a successful reload *)
Definition quiet (c : config) (s : list sev) : bool :=
  forallb (fun e => match e with SReload f => rejected c f | _ => true end) s.

(** the schedule without its rejected reloads *)
Definition effective (c : config) (s : list sev) : list sev :=
  filter (fun e => match e with SReload f => negb (rejected c f) | _ => true end) s.

(** a whole concurrent run from a key-store file, as the correspondence stream evaluates it:
    creation (first load), then the schedule; the outcome of every call and the JWKS answers in order *)
Definition conc_run (fx : fixes) (c : config) (f : pem_file) (calls : list call) (sched : list sev)
  : option (list pc * list (list jwk)) :=
  match load (c_keyid c) f with
  | Ok st => let g := crun fx c sched (cinit st calls) in Some (map th_pc (g_ths g), rev (g_jwks g))
  | _ => None
  end.
