(** C16 — concurrent machine, the reuse window: a token handed out from the cache was filed there (the Set
    step of the call that made it) less than ttl − 5 s of cache time before the lookup.  (Time between a call's
    Sign section and its Set step is not counted by the code: the window starts at the store.) *)
From HV Require Import Base.Prelude C16.Model C16.Spec C16.Proofs C16.Conc C16.ConcProofs.
Open Scope string_scope.
Open Scope list_scope.

Section Window.
  Variable fx : fixes.
  Hypothesis F1 : fx_F1 fx = true.
  Hypothesis F2 : fx_F2 fx = true.
  Variable c : config.

  (** the cache only grows by the Set step of a call standing at PSigned, with the clock of that moment *)
  Lemma cstep_cache g e x :
    In x (g_cache (cstep fx c g e)) ->
    In x (g_cache g) \/
    exists j thj k t, e = SThread j /\ nth_error (g_ths g) j = Some thj /\ th_pc thj = PSigned k t /\
                      x = (k, t, g_clock g + (ttl_of (cl_cfg (th_call thj)) - cache_leeway))%Z.
  Proof.
    destruct e as [j|f| |d]; cbn; auto.
    - destruct (nth_error (g_ths g) j) as [thj|] eqn:N; [|auto]. cbn.
      unfold exec_step. destruct (th_pc thj) as [|k0|k0|k t|t|r] eqn:PC; cbn -[cache_leeway]; auto.
      + destruct (if c_cache _ then _ else _); auto.
      + destruct (sign _ _ _ _ _ _ _); auto.
      + match goal with |- context [if ?b then _ else _] => destruct b end; [|auto].
        intros [<-|H]; [|auto]. right. exists j, thj, k, t. auto.
    - destruct (load (c_keyid c) f); auto.
  Qed.

  Lemma cache_history g0 : g_cache g0 = [] ->
    forall s x, In x (g_cache (crun fx c s g0)) ->
    exists j sa sb thj k t,
      s = sa ++ SThread j :: sb /\ nth_error (g_ths (crun fx c sa g0)) j = Some thj /\ th_pc thj = PSigned k t /\
      x = (k, t, g_clock (crun fx c sa g0) + (ttl_of (cl_cfg (th_call thj)) - cache_leeway))%Z.
  Proof.
    intros H0 s. induction s as [|e s IH] using rev_ind; intros x Hin.
    - cbn in Hin. rewrite H0 in Hin. contradiction.
    - rewrite crun_snoc in Hin. apply cstep_cache in Hin as [Hin|(j & thj & k & t & -> & N & PC & ->)].
      + destruct (IH _ Hin) as (j & sa & sb & R). exists j, sa, (sb ++ [e]).
        destruct R as (thj & k & t & -> & R). exists thj, k, t. split; [rewrite <- app_assoc; reflexivity | exact R].
      + exists j, s, [], thj, k, t. auto.
  Qed.

  (** THE REUSE WINDOW under any interleaving: if call i finds t in the cache at its lookup, then some call j
      filed t under the same key at an earlier moment of the schedule, and less than (ttl of call i) − 5 s of
      cache time lie between that moment and the lookup *)
  Theorem hit_within_window st0 calls s i k0 t :
    loaded c st0 ->
    let G x := crun fx c x (cinit st0 calls) in
    pc_of i (G s) = Some (PKeyed k0) -> pc_of i (G (s ++ [SThread i])) = Some (PRet t) ->
    exists j sa sb cl,
      s = sa ++ SThread j :: sb /\ pc_of j (G sa) = Some (PSigned k0 t) /\ nth_error calls i = Some cl /\
      (g_clock (G s) < g_clock (G sa) + (ttl_of (cl_cfg cl) - cache_leeway))%Z.
  Proof.
    intros L0 G P1 P2. unfold pc_of in P1.
    destruct (nth_error (g_ths (G s)) i) as [th|] eqn:N; [|discriminate]. cbn in P1. inversion P1 as [PC]. clear P1.
    pose proof (crun_inv fx F1 F2 c s _ (cinit_inv fx c st0 calls L0)) as [_ _ _ HT]. fold (G s) in HT.
    pose proof (Forall_nth _ _ _ _ HT N) as Hth. unfold th_ok in Hth. rewrite PC in Hth.
    destruct Hth as (_ & st & H0 & Lst & Kst).
    unfold G in P2. rewrite crun_snoc in P2. fold (G s) in P2. unfold pc_of in P2.
    rewrite (cstep_thread_own fx c _ _ _ N) in P2. cbn in P2. unfold exec_step in P2. rewrite PC in P2.
    destruct (if c_cache (cl_cfg (th_call th)) then cache_get k0 (g_clock (G s)) (g_cache (G s)) else None) as [t'|] eqn:Hit;
      cbn in P2; [|discriminate]. inversion P2; subst t'. clear P2.
    destruct (c_cache (cl_cfg (th_call th))); [|discriminate].
    apply cache_get_in in Hit as [x [Hin Hlt]].
    destruct (cache_history (cinit st0 calls) eq_refl s _ Hin) as (j & sa & sb & thj & k & t' & Es & Nj & PCj & Ex).
    inversion Ex; subst k t' x. clear Ex. fold (G sa) in *.
    (* the filing call's ttl is call i's: both keys are k0 *)
    pose proof (crun_inv fx F1 F2 c sa _ (cinit_inv fx c st0 calls L0)) as [_ HMa _ HTa]. fold (G sa) in HMa, HTa.
    pose proof (Forall_nth _ _ _ _ HTa Nj) as Hj. unfold th_ok in Hj. rewrite PCj in Hj.
    destruct Hj as (st1 & _ & Hmade). rewrite Forall_forall in HMa. destruct (HMa _ Hmade) as (L1 & K1 & _).
    destruct (key_of_inj fx F1 c _ _ _ _ _ _ L1 Lst (eq_trans (eq_sym K1) Kst)) as (_ & _ & _ & Ht & _).
    exists j, sa, sb, (th_call th).
    split; [exact Es|]. split; [unfold pc_of; rewrite Nj; cbn; rewrite PCj; reflexivity|].
    split; [eapply call_of; exact N|]. rewrite <- Ht. exact Hlt.
  Qed.
End Window.
