(** C16 — proofs about the sequential model: claims, activation, published set,
    whole histories against the specification of C16/Spec.v. *)
From HV Require Import Base.Prelude C16.Model C16.Spec.
Open Scope string_scope.

(* ------------------------------------------------------------------ small facts *)

Lemma eqb_refl_s s : String.eqb s s = true.
Proof. apply String.eqb_refl. Qed.

Lemma str_in_In s l : str_in s l = true <-> In s l.
Proof.
  unfold str_in. rewrite existsb_exists. split.
  - intros [x [Hin He]]. apply String.eqb_eq in He. subst. exact Hin.
  - intro H. exists s. split; [exact H | apply String.eqb_refl].
Qed.

Lemma str_in_false s l : str_in s l = false <-> ~ In s l.
Proof.
  pose proof (str_in_In s l) as H. destruct (str_in s l); split; intro G.
  - discriminate.
  - exfalso. apply G. apply H. reflexivity.
  - intro I. apply H in I. discriminate.
  - reflexivity.
Qed.

Lemma keykind_eqb_eq a b : keykind_eqb a b = true <-> a = b.
Proof. destruct a, b; simpl; split; intro H; try reflexivity; discriminate. Qed.

Lemma keyref_eqb_eq a b : keyref_eqb a b = true <-> a = b.
Proof.
  destruct a as [i k s], b as [i' k' s']. unfold keyref_eqb. simpl.
  rewrite !andb_true_iff, Nat.eqb_eq, keykind_eqb_eq, Z.eqb_eq. split.
  - intros [[H1 H2] H3]. subst. reflexivity.
  - intro H. inversion H. auto.
Qed.

Lemma keyref_eqb_refl a : keyref_eqb a a = true.
Proof. apply keyref_eqb_eq. reflexivity. Qed.

Lemma keymat_eqb_refl a : keymat_eqb a a = true.
Proof. destruct a; simpl; apply keyref_eqb_refl. Qed.

Lemma cval_eqb_refl v : cval_eqb v v = true.
Proof. destruct v; simpl; try reflexivity; try apply String.eqb_refl; try apply Z.eqb_refl; apply Nat.eqb_refl. Qed.

Lemma cval_eqb_eq a b : cval_eqb a b = true <-> a = b.
Proof.
  destruct a, b; simpl; split; intro H; try discriminate; try reflexivity;
    try (apply String.eqb_eq in H; subst; reflexivity);
    try (apply Z.eqb_eq in H; subst; reflexivity);
    try (apply Nat.eqb_eq in H; subst; reflexivity);
    inversion H; subst; try apply String.eqb_refl; try apply Z.eqb_refl; apply Nat.eqb_refl.
Qed.

(* ------------------------------------------------------------------ maps *)

Lemma mget_mset_same k v m : mget k (mset k v m) = Some v.
Proof.
  induction m as [|[k' v'] r IH]; simpl.
  - rewrite String.eqb_refl. reflexivity.
  - destruct (String.eqb k k') eqn:E; simpl.
    + rewrite String.eqb_refl. reflexivity.
    + rewrite E. exact IH.
Qed.

Lemma mget_mset_other k k' v m : k <> k' -> mget k (mset k' v m) = mget k m.
Proof.
  intro Hne. induction m as [|[k2 v2] r IH]; simpl.
  - apply String.eqb_neq in Hne. rewrite Hne. reflexivity.
  - destruct (String.eqb k' k2) eqn:E; simpl.
    + apply String.eqb_eq in E. subst k2. apply String.eqb_neq in Hne. rewrite Hne. reflexivity.
    + destruct (String.eqb k k2); [reflexivity | exact IH].
Qed.

Lemma mget_mset k k' v m : mget k (mset k' v m) = if String.eqb k k' then Some v else mget k m.
Proof.
  destruct (String.eqb k k') eqn:E.
  - apply String.eqb_eq in E. subst. apply mget_mset_same.
  - apply String.eqb_neq in E. apply mget_mset_other. exact E.
Qed.

Lemma mset_keys k v m x : In x (map fst (mset k v m)) <-> x = k \/ In x (map fst m).
Proof.
  induction m as [|[k' v'] r IH]; simpl.
  - intuition congruence.
  - destruct (String.eqb k k') eqn:E; simpl.
    + apply String.eqb_eq in E. subst k'. intuition congruence.
    + rewrite IH. intuition congruence.
Qed.

Lemma mset_nodup k v m : NoDup (map fst m) -> NoDup (map fst (mset k v m)).
Proof.
  induction m as [|[k' v'] r IH]; simpl; intro H.
  - constructor; [intros [] | constructor].
  - inversion H as [|? ? Hn Hr]; subst. destruct (String.eqb k k') eqn:E; simpl.
    + apply String.eqb_eq in E. subst. constructor; assumption.
    + constructor; [| apply IH; exact Hr]. rewrite mset_keys. intros [Hx|Hx].
      * subst. rewrite String.eqb_refl in E. discriminate.
      * apply Hn. exact Hx.
Qed.

Lemma mget_in k v m : NoDup (map fst m) -> In (k, v) m -> mget k m = Some v.
Proof.
  induction m as [|[k' v'] r IH]; simpl; intros Hn Hin; [contradiction|].
  inversion Hn as [|? ? Hnot Hr]; subst. destruct Hin as [Hin|Hin].
  - inversion Hin; subst. rewrite String.eqb_refl. reflexivity.
  - destruct (String.eqb k k') eqn:E.
    + apply String.eqb_eq in E. subst. exfalso. apply Hnot. apply in_map_iff. exists (k', v). auto.
    + apply IH; assumption.
Qed.

Lemma mget_some_in k v m : mget k m = Some v -> In (k, v) m.
Proof.
  induction m as [|[k' v'] r IH]; simpl; intro H; [discriminate|].
  destruct (String.eqb k k') eqn:E.
  - apply String.eqb_eq in E. inversion H; subst. left. reflexivity.
  - right. apply IH. exact H.
Qed.

Lemma merge_nodup src : forall dst, NoDup (map fst dst) -> NoDup (map fst (merge src dst)).
Proof.
  unfold merge. induction src as [|[k v] r IH]; simpl; intros dst H; [exact H|].
  apply IH. apply mset_nodup. exact H.
Qed.

(** the merged map gives a name the value of its last member in [src], else [dst]'s *)
Lemma mget_merge k src : forall dst,
  mget k (merge src dst) = match tmpl_get k src with Some v => Some v | None => mget k dst end.
Proof.
  unfold merge. induction src as [|[k' v'] r IH]; simpl; intro dst; [reflexivity|].
  rewrite IH. destruct (tmpl_get k r); [reflexivity|]. rewrite mget_mset.
  destruct (String.eqb k k'); reflexivity.
Qed.

Lemma merge_keys src : forall dst x,
  In x (map fst (merge src dst)) <-> In x (map fst src) \/ In x (map fst dst).
Proof.
  unfold merge. induction src as [|[k v] r IH]; simpl; intros dst x.
  - split; [auto | intros [[]|H]; exact H].
  - rewrite IH, mset_keys. split.
    + intros [H|[H|H]]; auto.
    + intros [[H|H]|H]; auto.
Qed.

Lemma tmpl_get_map k f t :
  tmpl_get k (map (fun kv : string * cval => (fst kv, f (snd kv))) t) = option_map f (tmpl_get k t).
Proof.
  induction t as [|[k' v'] r IH]; simpl; [reflexivity|].
  rewrite IH. destruct (tmpl_get k r); simpl; [reflexivity|].
  destruct (String.eqb k k'); reflexivity.
Qed.

Lemma tmpl_get_in k t : In k (map fst t) -> exists v, tmpl_get k t = Some v.
Proof.
  induction t as [|[k' v'] r IH]; simpl; intro H; [contradiction|].
  destruct (tmpl_get k r) eqn:E; [eexists; reflexivity|].
  destruct H as [H|H].
  - subst. rewrite String.eqb_refl. eexists; reflexivity.
  - destruct (IH H) as [v Hv]. discriminate.
Qed.

Lemma mget_render k q t : mget k (render q t) = option_map (resolve q) (tmpl_get k t).
Proof.
  unfold render. rewrite mget_merge, tmpl_get_map. destruct (tmpl_get k t); reflexivity.
Qed.

Lemma render_nodup q t : NoDup (map fst (render q t)).
Proof. unfold render. apply merge_nodup. constructor. Qed.

(* ------------------------------------------------------------------ Sign: system claims win *)

Definition sys_claims (iss sub : string) (ttl now : Z) (jti : cval) (c : cmap) : cmap :=
  mset "sub" (VStr sub) (mset "nbf" (VInt (unix now)) (mset "iss" (VStr iss) (mset "iat" (VInt (unix now))
    (mset "jti" jti (mset "exp" (VInt (unix (now + ttl))) c))))).

Lemma sign_ok_inv st iss sub ttl now jti custom t :
  sign st iss sub ttl now jti custom = Ok t ->
  can_sign (j_alg (s_jwk st)) (s_key st) = true /\
  t = {| t_alg := j_alg (s_jwk st); t_kid := j_kid (s_jwk st); t_typ := "JWT"; t_key := s_key st;
         t_claims := sys_claims iss sub ttl now jti (merge custom []); t_hdr := "" |}.
Proof.
  unfold sign. destruct (can_sign (j_alg (s_jwk st)) (s_key st)); simpl; intro H; [|discriminate].
  inversion H. split; reflexivity.
Qed.

Lemma sign_can st iss sub ttl now jti custom :
  can_sign (j_alg (s_jwk st)) (s_key st) = true ->
  exists t, sign st iss sub ttl now jti custom = Ok t.
Proof. intro H. unfold sign. rewrite H. simpl. eexists; reflexivity. Qed.

Ltac neq_str := let H := fresh in intro H; discriminate H.

Lemma sys_claims_get iss sub ttl now jti c :
  let m := sys_claims iss sub ttl now jti c in
  mget "sub" m = Some (VStr sub) /\ mget "iss" m = Some (VStr iss) /\
  mget "iat" m = Some (VInt (unix now)) /\ mget "nbf" m = Some (VInt (unix now)) /\
  mget "exp" m = Some (VInt (unix (now + ttl))) /\ mget "jti" m = Some jti.
Proof.
  unfold sys_claims. cbv zeta.
  repeat split;
    repeat (first [ rewrite mget_mset_same; reflexivity
                  | rewrite mget_mset_other by neq_str ]).
Qed.

Lemma sys_claims_other iss sub ttl now jti c k :
  ~ In k reserved -> mget k (sys_claims iss sub ttl now jti c) = mget k c.
Proof.
  intro H. unfold sys_claims.
  repeat (rewrite mget_mset_other; [| intro E; apply H; subst k; simpl; tauto]).
  reflexivity.
Qed.

Lemma sys_claims_keys iss sub ttl now jti c x :
  In x (map fst (sys_claims iss sub ttl now jti c)) <-> In x reserved \/ In x (map fst c).
Proof.
  unfold sys_claims. rewrite !mset_keys. simpl. split.
  - intros H. repeat (destruct H as [H|H]; [subst; tauto|]). tauto.
  - intros [H|H]; [|tauto]. repeat (destruct H as [H|H]; [subst; tauto|]). contradiction.
Qed.

Lemma sys_claims_nodup iss sub ttl now jti c :
  NoDup (map fst c) -> NoDup (map fst (sys_claims iss sub ttl now jti c)).
Proof. intro H. unfold sys_claims. repeat apply mset_nodup. exact H. Qed.

(** system claims: whatever the custom claims are *)
Lemma system_claims_win st iss sub ttl now jti custom t :
  sign st iss sub ttl now jti custom = Ok t ->
  mget "sub" (t_claims t) = Some (VStr sub) /\
  mget "iss" (t_claims t) = Some (VStr iss) /\
  mget "iat" (t_claims t) = Some (VInt (unix now)) /\
  mget "nbf" (t_claims t) = Some (VInt (unix now)) /\
  mget "exp" (t_claims t) = Some (VInt (unix (now + ttl))) /\
  mget "jti" (t_claims t) = Some jti /\
  (forall k, ~ In k reserved ->
     mget k (t_claims t) = match tmpl_get k custom with Some v => Some v | None => None end).
Proof.
  intro H. apply sign_ok_inv in H as [_ ->]. simpl.
  pose proof (sys_claims_get iss sub ttl now jti (merge custom [])) as G. cbv zeta in G.
  destruct G as (G1 & G2 & G3 & G4 & G5 & G6). repeat (split; [assumption|]).
  intros k Hk. rewrite sys_claims_other by exact Hk. rewrite mget_merge. reflexivity.
Qed.

(** exp is the ttl later: exactly for whole-second ttls, else within the second *)
Lemma exp_minus_iat now ttl :
  (ttl / second <= unix (now + ttl) - unix now <= (ttl + 999999999) / second)%Z.
Proof. unfold unix, second. Z.div_mod_to_equations. lia. Qed.

Lemma exp_minus_iat_whole now s : (unix (now + s * second) - unix now = s)%Z.
Proof. unfold unix, second. Z.div_mod_to_equations. lia. Qed.

(* ------------------------------------------------------------------ key store and load against the specification *)

Definition entry_of (r : raw_entry) : entry :=
  {| e_kid := kid_of r; e_key := r_key r; e_chain := r_chain r; e_usage_ok := r_usage_ok r |}.

(** the signer's fields when [cur] = (active entry, all entries) is the current store *)
Definition state_of (cur : raw_entry * list raw_entry) : state :=
  {| s_jwk := spec_jwk (fst cur); s_key := Priv (r_key (fst cur)); s_pub := spec_jwks (snd cur) |}.

Lemma jose_alg_spec k : jose_alg k = spec_alg k.
Proof.
  destruct k as [i kind size]. unfold jose_alg, spec_alg, alg_table. cbn [k_kind k_size].
  destruct kind; cbn [find fst snd keykind_eqb andb];
    repeat rewrite (Z.eqb_sym size);
    repeat match goal with |- context [Z.eqb ?c size] => destruct (Z.eqb c size); cbn [snd] end;
    reflexivity.
Qed.

Definition chain_fine (r : raw_entry) : bool := is_nil (r_chain r) || r_chain_ok r.

Lemma forallb_notin_cons x known l :
  forallb (fun k => negb (str_in k (x :: known))) l =
  negb (str_in x l) && forallb (fun k => negb (str_in k known)) l.
Proof.
  induction l as [|y r IH]; [reflexivity|]. cbn [forallb]. rewrite IH.
  change (str_in y (x :: known)) with (String.eqb y x || str_in y known).
  change (str_in x (y :: r)) with (String.eqb x y || str_in x r).
  rewrite (String.eqb_sym y x).
  destruct (String.eqb x y), (str_in y known), (str_in x r); reflexivity.
Qed.

Lemma verify_build_char rs : forall known,
  verify_build known rs =
  if forallb chain_fine rs && distinct (map kid_of rs) && forallb (fun k => negb (str_in k known)) (map kid_of rs)
  then Ok (map entry_of rs) else Err.
Proof.
  induction rs as [|r rest IH]; intro known; simpl; [reflexivity|].
  fold (kid_of r). unfold chain_fine at 1.
  rewrite <- negb_orb. destruct (is_nil (r_chain r) || r_chain_ok r); simpl; [|reflexivity].
  destruct (str_in (kid_of r) known) eqn:K; simpl.
  - rewrite !andb_false_r. reflexivity.
  - rewrite IH, forallb_notin_cons.
    destruct (forallb chain_fine rest), (str_in (kid_of r) (map kid_of rest)), (distinct (map kid_of rest)),
      (forallb (fun k => negb (str_in k known)) (map kid_of rest)); reflexivity.
Qed.

Lemma forallb_andb {A} (f g : A -> bool) l :
  forallb (fun x => f x && g x) l = forallb f l && forallb g l.
Proof.
  induction l as [|x r IH]; simpl; [reflexivity|]. rewrite IH.
  destruct (f x), (g x), (forallb f r), (forallb g r); reflexivity.
Qed.

Lemma forallb_true {A} (l : list A) : forallb (fun _ => true) l = true.
Proof. induction l; simpl; auto. Qed.

Lemma entry_jwk_char r :
  entry_jwk (entry_of r) = match spec_alg (r_key r) with Some _ => Ok (spec_jwk r) | None => Panic end.
Proof.
  unfold entry_jwk, spec_jwk. simpl. rewrite jose_alg_spec. destruct (spec_alg (r_key r)); reflexivity.
Qed.

Lemma entries_jwks_char rs :
  entries_jwks (map entry_of rs) =
  if forallb (fun r => some (spec_alg (r_key r))) rs then Ok (spec_jwks rs) else Panic.
Proof.
  induction rs as [|r rest IH]; simpl; [reflexivity|].
  rewrite entry_jwk_char. destruct (spec_alg (r_key r)); simpl; [|reflexivity].
  rewrite IH. destruct (forallb (fun r0 => some (spec_alg (r_key r0))) rest); reflexivity.
Qed.

Lemma get_key_char id rs :
  get_key id (map entry_of rs) = option_map entry_of (find (fun r => String.eqb (kid_of r) id) rs).
Proof.
  unfold get_key. induction rs as [|r rest IH]; simpl; [reflexivity|].
  destruct (String.eqb (kid_of r) id); [reflexivity | exact IH].
Qed.

Lemma create_entry_ok_spec r : create_entry_ok r = some (spec_alg (r_key r)).
Proof.
  unfold create_entry_ok, spec_alg, alg_table. destruct (r_key r) as [i kind size]. cbn [k_kind k_size].
  destruct kind; cbn [find fst snd keykind_eqb andb];
    repeat rewrite (Z.eqb_sym size);
    repeat match goal with |- context [Z.eqb ?c size] => destruct (Z.eqb c size); cbn [snd orb some] end;
    reflexivity.
Qed.

Lemma supported_not_other rs :
  forallb (fun r => some (spec_alg (r_key r))) rs = true -> forallb create_entry_ok rs = true.
Proof.
  intro H. rewrite forallb_forall in *. intros r Hr. rewrite create_entry_ok_spec. apply H. exact Hr.
Qed.

Lemma spec_active_in cfg rs a : spec_active cfg rs = Some a -> In a rs.
Proof.
  unfold spec_active. destruct (String.eqb cfg "").
  - destruct rs; simpl; intro H; inversion H. left. reflexivity.
  - intro H. apply find_some in H. apply H.
Qed.

Lemma spec_active_kid cfg rs a :
  spec_active cfg rs = Some a -> cfg <> "" -> kid_of a = cfg.
Proof.
  unfold spec_active. intros H Hne. apply String.eqb_neq in Hne. rewrite Hne in H.
  apply find_some in H. apply String.eqb_eq. apply H.
Qed.

Lemma store_usable_split rs :
  store_usable rs = forallb (fun r => some (spec_alg (r_key r))) rs && forallb chain_fine rs && distinct (map kid_of rs).
Proof. unfold store_usable. rewrite (forallb_andb (fun r => some (spec_alg (r_key r))) chain_fine). reflexivity. Qed.

(** every file the specification accepts is loaded, into exactly the specified fields *)
Lemma load_complete cfg f cur :
  spec_accept cfg f = Some cur -> load cfg f = Ok (state_of cur).
Proof.
  unfold spec_accept, load, keystore_of. destruct f as [|rs]; [discriminate|].
  rewrite store_usable_split.
  destruct (forallb (fun r => some (spec_alg (r_key r))) rs) eqn:A; simpl; [|discriminate].
  destruct (forallb chain_fine rs) eqn:B; simpl; [|discriminate].
  destruct (distinct (map kid_of rs)) eqn:C; simpl; [|discriminate].
  destruct (spec_active cfg rs) as [a|] eqn:Act; [|discriminate].
  destruct (is_nil (r_chain a) || r_usage_ok a) eqn:U; [|discriminate].
  intro H. inversion H; subst cur. clear H.
  assert (Ha : In a rs) by (eapply spec_active_in; exact Act).
  assert (Hne : is_nil rs = false) by (destruct rs; [contradiction | reflexivity]).
  rewrite (supported_not_other rs A), Hne, verify_build_char, B, C. simpl.
  rewrite forallb_true.
  assert (Hal : exists alg, spec_alg (r_key a) = Some alg).
  { rewrite forallb_forall in A. specialize (A a Ha). destruct (spec_alg (r_key a)); [eexists; reflexivity | discriminate]. }
  destruct Hal as [alg Hal].
  unfold spec_active in Act.
  assert (Fin : forall e, e = entry_of a ->
    (if negb (is_nil (e_chain e)) && negb (e_usage_ok e) then @Err state else
     match entries_jwks (map entry_of rs) with
     | Ok keys => match entry_jwk e with
                  | Ok j => Ok {| s_jwk := j; s_key := Priv (e_key e); s_pub := keys |}
                  | Err => Err | Panic => Panic end
     | Err => Err | Panic => Panic end) = Ok (state_of (a, rs))).
  { intros e ->. simpl. rewrite <- negb_orb, U. simpl.
    rewrite entries_jwks_char, A, entry_jwk_char, Hal. reflexivity. }
  destruct (String.eqb cfg "").
  - destruct rs as [|r rest]; simpl in Act; [discriminate|]. inversion Act; subst r. simpl map.
    exact (Fin (entry_of a) eq_refl).
  - rewrite get_key_char, Act. simpl. exact (Fin (entry_of a) eq_refl).
Qed.

(** and nothing else is *)
Lemma load_sound cfg f st :
  load cfg f = Ok st -> exists cur, spec_accept cfg f = Some cur /\ st = state_of cur.
Proof.
  unfold load, keystore_of. destruct f as [|rs]; [discriminate|].
  destruct (forallb create_entry_ok rs) eqn:CE; [|discriminate].
  destruct (is_nil rs) eqn:Hne; [discriminate|].
  rewrite verify_build_char, forallb_true, andb_true_r.
  destruct (forallb chain_fine rs) eqn:B; simpl; [|discriminate].
  destruct (distinct (map kid_of rs)) eqn:C; simpl; [|discriminate].
  assert (Fin : forall a, spec_active cfg rs = Some a ->
    (if negb (is_nil (e_chain (entry_of a))) && negb (e_usage_ok (entry_of a)) then @Err state else
     match entries_jwks (map entry_of rs) with
     | Ok keys => match entry_jwk (entry_of a) with
                  | Ok j => Ok {| s_jwk := j; s_key := Priv (e_key (entry_of a)); s_pub := keys |}
                  | Err => Err | Panic => Panic end
     | Err => Err | Panic => Panic end) = Ok st ->
    exists cur, spec_accept cfg (PemOk rs) = Some cur /\ st = state_of cur).
  { intros a Act. simpl. rewrite <- negb_orb.
    destruct (is_nil (r_chain a) || r_usage_ok a) eqn:U; simpl; [|discriminate].
    rewrite entries_jwks_char.
    destruct (forallb (fun r => some (spec_alg (r_key r))) rs) eqn:A; [|discriminate].
    rewrite entry_jwk_char. destruct (spec_alg (r_key a)) eqn:Hal; [|discriminate].
    intro H. inversion H; subst st. exists (a, rs). split; [|reflexivity].
    unfold spec_accept. rewrite store_usable_split, A, B, C, Act, U. reflexivity. }
  unfold spec_active in Fin.
  destruct (String.eqb cfg "").
  - destruct rs as [|r rest]; [discriminate|]. simpl map. exact (Fin r eq_refl).
  - rewrite get_key_char. destruct (find (fun r => String.eqb (kid_of r) cfg) rs) as [a|] eqn:F; simpl; [|discriminate].
    exact (Fin a eq_refl).
Qed.

Lemma load_not_ok cfg f : spec_accept cfg f = None -> forall st, load cfg f <> Ok st.
Proof.
  intros H st L. apply load_sound in L as [cur [Hc _]]. rewrite H in Hc. discriminate.
Qed.

(* ------------------------------------------------------------------ a freshly signed token meets the claims specification *)

Lemma tmpl_get_nodup k m : NoDup (map fst m) -> tmpl_get k m = mget k m.
Proof.
  induction m as [|[k' v'] r IH]; simpl; intro H; [reflexivity|].
  inversion H as [|? ? Hn Hr]; subst. rewrite (IH Hr).
  destruct (mget k r) eqn:G.
  - destruct (String.eqb k k') eqn:E; [|reflexivity].
    apply String.eqb_eq in E. subst. exfalso. apply Hn. apply mget_some_in in G.
    apply in_map_iff. exists (k', c). auto.
  - reflexivity.
Qed.

Definition custom_of (c : config) (q : req) : cmap :=
  match c_claims c with Some t => render q t | None => [] end.

Lemma custom_of_nodup c q : NoDup (map fst (custom_of c q)).
Proof. unfold custom_of. destruct (c_claims c); [apply render_nodup | constructor]. Qed.

Lemma mget_custom c q k :
  mget k (merge (custom_of c q) []) = option_map (resolve q) (tmpl_get k (tmpl_of c)).
Proof.
  rewrite mget_merge, (tmpl_get_nodup k _ (custom_of_nodup c q)). simpl.
  unfold custom_of, tmpl_of. destruct (c_claims c) as [t|].
  - rewrite mget_render. destruct (tmpl_get k t); reflexivity.
  - reflexivity.
Qed.

Lemma ttl_eq c : spec_ttl c = ttl_of c.
Proof. unfold spec_ttl, ttl_of. destruct (c_ttl c); reflexivity. Qed.

Lemma reuse_eq c : (c_cache c && (cache_leeway <? ttl_of c)%Z) = reuse_allowed c.
Proof. unfold reuse_allowed. rewrite <- (ttl_eq c). reflexivity. Qed.

Lemma resolve_spec q v : resolve q v = spec_value q v.
Proof. destruct v; reflexivity. Qed.

Definition fresh_claims (c : config) (q : req) (now : Z) (n : nat) : cmap :=
  sys_claims (issuer c) (q_sub q) (ttl_of c) now (VJti n) (merge (custom_of c q) []).

Lemma fresh_claims_nodup c q now n : NoDup (map fst (fresh_claims c q now n)).
Proof. apply sys_claims_nodup, merge_nodup. constructor. Qed.

Lemma claim_is_get k v m : mget k m = Some v -> claim_is k v m = true.
Proof. unfold claim_is. intros ->. apply cval_eqb_refl. Qed.

Lemma fresh_claims_ok c q now n :
  claims_sys c q (fresh_claims c q now n) = true /\ claims_custom c q (fresh_claims c q now n) = true /\
  times_exact c now (fresh_claims c q now n) = true.
Proof.
  set (m := fresh_claims c q now n).
  pose proof (sys_claims_get (issuer c) (q_sub q) (ttl_of c) now (VJti n) (merge (custom_of c q) [])) as G.
  cbv zeta in G. fold (fresh_claims c q now n) in G. fold m in G.
  destruct G as (G1 & G2 & G3 & G4 & G5 & G6).
  split; [|split].
  - unfold claims_sys. rewrite !andb_true_iff. repeat split.
    + apply claim_is_get. exact G1.
    + apply claim_is_get. exact G2.
    + unfold claim_int. rewrite G3, G4, G5, ttl_eq. rewrite !andb_true_iff.
      pose proof (exp_minus_iat now (ttl_of c)) as B. unfold second in B.
      repeat split; [apply Z.eqb_refl | apply Z.leb_le; apply B | apply Z.leb_le; apply B].
    + rewrite G6. reflexivity.
  - unfold claims_custom. rewrite andb_true_iff. split.
    + apply forallb_forall. intros [k v] Hin. cbn [fst snd].
      destruct (str_in k reserved) eqn:R; [reflexivity|]. cbn [orb].
      apply str_in_false in R.
      pose proof (mget_in k v m (fresh_claims_nodup c q now n) Hin) as Hg.
      unfold m, fresh_claims in Hg. rewrite sys_claims_other in Hg by exact R.
      rewrite mget_custom in Hg. destruct (tmpl_get k (tmpl_of c)) as [v0|]; simpl in Hg; [|discriminate].
      inversion Hg; subst v. rewrite resolve_spec. apply cval_eqb_refl.
    + apply forallb_forall. intros [k v0] Hin. cbn [fst snd].
      destruct (str_in k reserved) eqn:R; [reflexivity|]. cbn [orb].
      apply str_in_false in R. unfold m, fresh_claims. rewrite sys_claims_other by exact R.
      rewrite mget_custom.
      destruct (tmpl_get_in k (tmpl_of c)) as [v1 Hv1].
      { apply in_map_iff. exists (k, v0). auto. }
      rewrite Hv1. reflexivity.
  - unfold times_exact. rewrite !andb_true_iff. rewrite ttl_eq. repeat split; apply claim_is_get; assumption.
Qed.

(* ------------------------------------------------------------------ whole histories *)

Lemma tmpl_eqb_eq a b : tmpl_eqb a b = true <-> a = b.
Proof.
  unfold tmpl_eqb. apply list_eqb_spec. intros [k1 v1] [k2 v2]. simpl.
  rewrite andb_true_iff, String.eqb_eq, cval_eqb_eq. split.
  - intros [-> ->]. reflexivity.
  - intro H. inversion H. auto.
Qed.

Lemma ckey_eqb_eq a b : ckey_eqb a b = true -> a = b.
Proof.
  destruct a as [a1 a2 a3 a4 a5 a6 a7 a8 a9], b as [b1 b2 b3 b4 b5 b6 b7 b8 b9]. unfold ckey_eqb. simpl.
  rewrite !andb_true_iff. intros [[[[[[[[H1 H2] H3] H4] H5] H6] H7] H8] H9].
  apply String.eqb_eq in H1, H2, H3, H4, H5, H6. apply Z.eqb_eq in H8. subst.
  assert (a7 = b7).
  { destruct a7 as [x|], b7 as [y|]; simpl in H7; try discriminate; [|reflexivity].
    apply keyref_eqb_eq in H7. subst. reflexivity. }
  assert (a9 = b9).
  { destruct a9 as [x|], b9 as [y|]; simpl in H9; try discriminate; [|reflexivity].
    apply tmpl_eqb_eq in H9. subst. reflexivity. }
  subst. reflexivity.
Qed.

Lemma cache_get_in k clock c t : cache_get k clock c = Some t -> exists e, In (k, t, e) c /\ (clock < e)%Z.
Proof.
  induction c as [|[[k' t'] e'] r IH]; simpl; intro H; [discriminate|].
  destruct (ckey_eqb k k') eqn:E.
  - apply ckey_eqb_eq in E. subst k'. destruct (clock <? e')%Z eqn:L; [|discriminate].
    inversion H; subst. exists e'. split; [left; reflexivity | apply Z.ltb_lt; exact L].
  - destruct (IH H) as [e [Hin Hl]]. exists e. split; [right; exact Hin | exact Hl].
Qed.

Lemma cmap_eqb_refl m : cmap_eqb m m = true.
Proof.
  unfold cmap_eqb. apply forallb_forall. intros k _.
  destruct (mget k m); simpl; [apply cval_eqb_refl | reflexivity].
Qed.

Lemma token_eqb_refl t : token_eqb t t = true.
Proof.
  unfold token_eqb. rewrite !String.eqb_refl, keymat_eqb_refl, cmap_eqb_refl. reflexivity.
Qed.

Lemma spec_accept_good cfg f a rs :
  spec_accept cfg f = Some (a, rs) -> In a rs /\ exists alg, spec_alg (r_key a) = Some alg.
Proof.
  unfold spec_accept. destruct f as [|rs']; [discriminate|].
  rewrite store_usable_split.
  destruct (forallb (fun r => some (spec_alg (r_key r))) rs') eqn:Al; simpl; [|discriminate].
  destruct (forallb chain_fine rs' && distinct (map kid_of rs')); [|discriminate].
  destruct (spec_active cfg rs') as [a'|] eqn:Act; [|discriminate].
  destruct (is_nil (r_chain a') || r_usage_ok a'); [|discriminate].
  intro H. inversion H; subst. pose proof (spec_active_in _ _ _ Act) as Hin. split; [exact Hin|].
  rewrite forallb_forall in Al. specialize (Al a Hin).
  destruct (spec_alg (r_key a)); [eexists; reflexivity | discriminate].
Qed.

Lemma can_sign_active a alg : spec_alg (r_key a) = Some alg -> can_sign alg (Priv (r_key a)) = true.
Proof.
  intro H. unfold can_sign. rewrite jose_alg_spec, H.
  destruct (r_key a) as [i kind size]. simpl. destruct kind.
  - unfold spec_alg, alg_table in H. cbn [k_kind k_size find fst snd keykind_eqb andb] in H.
    repeat match type of H with context [Z.eqb ?c size] => destruct (Z.eqb c size); cbn [snd] in H end;
      inversion H; reflexivity.
  - apply String.eqb_refl.
  - unfold spec_alg in H. simpl in H. discriminate.
Qed.

Lemma verifies_active a rs t :
  In a rs -> t_kid t = kid_of a -> t_key t = Priv (r_key a) -> verifies t (spec_jwks rs) = true.
Proof.
  intros Hin Hk Hkey. unfold verifies. apply existsb_exists. exists (spec_jwk a). split.
  - unfold spec_jwks. apply in_map. exact Hin.
  - simpl. rewrite Hk, Hkey, String.eqb_refl. simpl. apply keyref_eqb_refl.
Qed.

Lemma verifies_app t l1 l2 l3 : verifies t l2 = true -> verifies t (l1 ++ l2 ++ l3) = true.
Proof.
  unfold verifies. intro H. rewrite !existsb_app, H. rewrite orb_true_r. reflexivity.
Qed.

Lemma others_pub_spec fs : others_pub fs = spec_others fs.
Proof.
  unfold others_pub, spec_others. induction fs as [|f r IH]; simpl; [reflexivity|]. rewrite IH. f_equal.
  destruct (load "" f) as [st| |] eqn:L.
  - apply load_sound in L as [cur [Hacc ->]]. rewrite Hacc. reflexivity.
  - destruct (spec_accept "" f) eqn:Hacc; [|reflexivity].
    apply load_complete in Hacc. rewrite Hacc in L. discriminate.
  - destruct (spec_accept "" f) eqn:Hacc; [|reflexivity].
    apply load_complete in Hacc. rewrite Hacc in L. discriminate.
Qed.

Lemma spec_others_public fs j : In j (spec_others fs) -> is_private (j_key j) = false.
Proof.
  unfold spec_others. intro H. apply in_flat_map in H as [f [_ Hj]].
  destruct (spec_accept "" f) as [cur|]; [|contradiction].
  unfold spec_jwks in Hj. apply in_map_iff in Hj as [r [<- _]]. reflexivity.
Qed.

Lemma jwks_spec c w cur : w_st w = state_of cur -> jwks c w = spec_published (c_before c) (c_after c) (snd cur).
Proof. intro H. unfold jwks, spec_published. rewrite H, !others_pub_spec. reflexivity. Qed.

Lemma keymat_eqb_eq a b : keymat_eqb a b = true <-> a = b.
Proof.
  destruct a as [x|x], b as [y|y]; simpl; split; intro H; try discriminate;
    try (apply keyref_eqb_eq in H; subst; reflexivity); inversion H; apply keyref_eqb_refl.
Qed.

Lemma jwk_eqb_eq x y : jwk_eqb x y = true <-> x = y.
Proof.
  destruct x as [k1 a1 m1 u1 c1], y as [k2 a2 m2 u2 c2]. unfold jwk_eqb. simpl.
  rewrite !andb_true_iff, !String.eqb_eq, keymat_eqb_eq.
  unfold list_nat_eqb. rewrite (list_eqb_spec Nat.eqb Nat.eqb_eq). split.
  - intros [[[[H1 H2] H3] H4] H5]. subst. reflexivity.
  - intro H. inversion H. auto.
Qed.

Lemma sign_active c a rs alg q now n :
  spec_alg (r_key a) = Some alg ->
  sign (state_of (a, rs)) (issuer c) (q_sub q) (ttl_of c) now (VJti n) (custom_of c q) =
  Ok {| t_alg := alg; t_kid := kid_of a; t_typ := "JWT"; t_key := Priv (r_key a);
        t_claims := fresh_claims c q now n; t_hdr := "" |}.
Proof.
  intro H. unfold sign, state_of, spec_jwk. cbn [fst snd s_jwk s_key j_alg j_kid]. rewrite H.
  rewrite (can_sign_active a alg H). reflexivity.
Qed.

(** the claims specification depends on a configuration only through issuer, ttl and template *)
Lemma claims_ext c1 c2 q m :
  issuer c1 = issuer c2 -> ttl_of c1 = ttl_of c2 -> c_claims c1 = c_claims c2 ->
  claims_sys c1 q m = claims_sys c2 q m /\ claims_custom c1 q m = claims_custom c2 q m.
Proof.
  intros Hi Ht Hc. unfold claims_sys, claims_custom, tmpl_of. rewrite !ttl_eq.
  change (spec_iss c1) with (issuer c1). change (spec_iss c2) with (issuer c2).
  rewrite Hi, Ht, Hc. split; reflexivity.
Qed.

Lemma with_config_spec c o :
  with_config c o = match spec_variant c o with Some ce => Ok ce | None => Err end.
Proof.
  unfold with_config, spec_variant, overlay. destruct (o_unknown o); simpl; [reflexivity|].
  destruct (o_ttl o) as [t|]; [|reflexivity].
  rewrite (Z.leb_antisym second t). unfold second. destruct (1000000000 <? t)%Z; reflexivity.
Qed.

Lemma target_spec c twin ov :
  target c twin ov = match spec_target c twin ov with Some ce => Ok ce | None => Err end.
Proof.
  unfold target, spec_target, with_name. destruct twin.
  - destruct (c_twin c) as [n|]; [|reflexivity]. destruct ov as [o|]; [apply with_config_spec | reflexivity].
  - destruct ov as [o|]; [apply with_config_spec | reflexivity].
Qed.

Lemma token_flag c cur seen clock q now t v :
  token_ok c cur seen clock q now t v = v && token_ok c cur seen clock q now t true.
Proof. unfold token_ok, token_prop. destruct v; reflexivity. Qed.

Section Histories.
  Variable fx : fixes.             (* which repairs are in place *)
  Variable c : config.             (* the catalogue (prototype) configuration *)
  Variable A : list raw_entry.     (* the active entries of all accepted files of the run *)
  Hypothesis no_clash :
    fx_F1 fx = false -> c_cache c = true -> forall a b, In a A -> In b A -> clash a b = false.

  (** prototype, twin and variants share key id, cache and registry *)
  Definition same_base (ce : config) : Prop :=
    c_cache ce = c_cache c /\ c_keyid ce = c_keyid c /\ c_before ce = c_before c /\ c_after ce = c_after c.

  Definition cached_ok (seen : seen_t) (e : ckey * token * Z) : Prop :=
    let '(key, t, expires) := e in
    exists issued ce q b,
      In (t, issued) seen /\ expires = (issued + (ttl_of ce - cache_leeway))%Z /\
      same_base ce /\ reuse_allowed ce = true /\
      key = {| ck_kid := t_kid t; ck_alg := t_alg t; ck_iss := issuer ce;
               ck_sub := q_sub q; ck_out := q_out q; ck_attr := q_attr q;
               ck_key := if fx_F1 fx then Some (r_key b) else None; ck_ttl := ttl_of ce; ck_claims := c_claims ce |} /\
      claims_sys ce q (t_claims t) = true /\ claims_custom ce q (t_claims t) = true /\
      In b A /\ kid_of b = t_kid t /\ spec_alg (r_key b) = Some (t_alg t) /\
      t_key t = Priv (r_key b) /\ t_typ t = "JWT" /\ t_hdr t = "".

  Record winv (cur : raw_entry * list raw_entry) (seen : seen_t) (w : world) : Prop := {
    wi_state : w_st w = state_of cur;
    wi_in : In (fst cur) (snd cur);
    wi_alg : exists alg, spec_alg (r_key (fst cur)) = Some alg;
    wi_A : In (fst cur) A;
    wi_jti : forall t i, In (t, i) seen -> exists n, jti_of t = Some (VJti n) /\ n < w_minted w;
    wi_cache : forall e, In e (w_cache w) -> cached_ok seen e }.

  Lemma same_jti_self t n : jti_of t = Some (VJti n) -> same_jti t t = true.
  Proof. unfold same_jti. intros ->. simpl. apply Nat.eqb_refl. Qed.

  Lemma cached_mono seen x e : cached_ok seen e -> cached_ok (x :: seen) e.
  Proof.
    destruct e as [[k u] ex]. simpl. intros (i & ce & q & b & H1 & H2). exists i, ce, q, b.
    split; [right; exact H1 | exact H2].
  Qed.

  (** a reload keeps the invariant, for the store the specification says is then current *)
  Lemma reload_winv ce cur seen w f :
    c_keyid ce = c_keyid c ->
    winv cur seen w ->
    incl (accepted_of (c_keyid c) [f]) A ->
    winv (match spec_accept (c_keyid c) f with Some c' => c' | None => cur end) seen (fst (reload ce w f)) /\
    w_cache (fst (reload ce w f)) = w_cache w /\ w_minted (fst (reload ce w f)) = w_minted w /\
    w_clock (fst (reload ce w f)) = w_clock w.
  Proof.
    intros Hk Hw Hincl. unfold reload. rewrite Hk.
    destruct (load (c_keyid c) f) as [st| |] eqn:L.
    - apply load_sound in L as [cur' [Hacc ->]]. rewrite Hacc. simpl.
      split; [|split; [|split]]; try reflexivity.
      destruct cur' as [a' rs']. simpl in Hincl. rewrite Hacc in Hincl.
      destruct (spec_accept_good _ _ _ _ Hacc) as [Hin' Halg'].
      destruct Hw. constructor; simpl; try assumption; try reflexivity. apply Hincl. left. reflexivity.
    - destruct (spec_accept (c_keyid c) f) as [cur'|] eqn:Hacc.
      + apply load_complete in Hacc. rewrite Hacc in L. discriminate.
      + simpl. split; [exact Hw|]. split; [|split]; reflexivity.
    - destruct (spec_accept (c_keyid c) f) as [cur'|] eqn:Hacc.
      + apply load_complete in Hacc. rewrite Hacc in L. discriminate.
      + simpl. split; [exact Hw|]. split; [|split]; reflexivity.
  Qed.

  Lemma accepted_app kid l1 l2 : accepted_of kid (l1 ++ l2)%list = (accepted_of kid l1 ++ accepted_of kid l2)%list.
  Proof.
    induction l1 as [|f r IH]; simpl; [reflexivity|].
    destruct (spec_accept kid f) as [[a rs]|]; simpl; rewrite IH; reflexivity.
  Qed.

  Lemma reloads_winv ce mids : forall cur seen w,
    c_keyid ce = c_keyid c ->
    winv cur seen w ->
    incl (accepted_of (c_keyid c) mids) A ->
    winv (spec_reloads (c_keyid c) cur mids) seen (reloads ce w mids) /\
    w_cache (reloads ce w mids) = w_cache w /\ w_minted (reloads ce w mids) = w_minted w /\
    w_clock (reloads ce w mids) = w_clock w.
  Proof.
    induction mids as [|f r IH]; intros cur seen w Hk Hw Hincl; [simpl; split; [exact Hw|]; split; [|split]; reflexivity|].
    unfold reloads, spec_reloads. cbn [fold_left].
    fold (reloads ce (fst (reload ce w f)) r).
    fold (spec_reloads (c_keyid c) (match spec_accept (c_keyid c) f with Some c' => c' | None => cur end) r).
    change (f :: r) with ([f] ++ r)%list in Hincl. rewrite accepted_app in Hincl.
    destruct (reload_winv ce cur seen w f Hk Hw) as (Hw1 & Hc1 & Hm1 & Hk1).
    { intros x Hx. apply Hincl. apply in_or_app. left. exact Hx. }
    destruct (IH _ seen _ Hk Hw1) as (Hw2 & Hc2 & Hm2 & Hk2).
    { intros x Hx. apply Hincl. apply in_or_app. right. exact Hx. }
    split; [exact Hw2|]. rewrite Hc2, Hm2, Hk2. auto.
  Qed.

  (** if none of the files is acceptable nothing changes *)
  Lemma reloads_none ce mids : forall cur w,
    c_keyid ce = c_keyid c ->
    accepted_of (c_keyid c) mids = [] ->
    reloads ce w mids = w /\ spec_reloads (c_keyid c) cur mids = cur.
  Proof.
    induction mids as [|f r IH]; intros cur w Hk Hacc; [split; reflexivity|].
    simpl in Hacc. destruct (spec_accept (c_keyid c) f) as [[a rs]|] eqn:E; [discriminate|].
    unfold reloads, spec_reloads. cbn [fold_left]. rewrite E.
    assert (Hr : fst (reload ce w f) = w).
    { unfold reload. rewrite Hk. destruct (load (c_keyid c) f) as [st| |] eqn:L; try reflexivity.
      exfalso. eapply load_not_ok; eassumption. }
    rewrite Hr. apply IH; assumption.
  Qed.

  (** Execute on the prototype, the twin or a variant with effective configuration [ce],
      with the reloads [mids] landing between its cache lookup and its signing *)
  Lemma exec_ok ce cur seen w q now mids :
    same_base ce ->
    winv cur seen w ->
    incl (accepted_of (c_keyid c) mids) A ->
    (fx_F2 fx = false -> c_cache c = true -> accepted_of (c_keyid c) mids = []) ->
    let cur' := spec_reloads (c_keyid c) cur mids in
    exists w' t, exec fx ce w q now mids = (w', Ok t) /\
                 exec_judged (fun k b => token_ok ce k seen (w_clock w) q now t b) cur cur' mids
                             (verifies t (jwks c w')) = true /\
                 winv cur' (note t (w_clock w) seen) w' /\ w_clock w' = w_clock w.
  Proof.
    intros Hbase Hw Hincl Hnomid cur'.
    assert (Hkid : c_keyid ce = c_keyid c) by apply Hbase.
    assert (Hpub : forall rs, spec_published (c_before ce) (c_after ce) rs = spec_published (c_before c) (c_after c) rs).
    { intro rs. destruct Hbase as (_ & _ & Hb & Ha). rewrite Hb, Ha. reflexivity. }
    destruct (reloads_winv ce mids cur seen w Hkid Hw Hincl) as (Hw1 & Hc1 & Hm1 & Hk1).
    fold cur' in Hw1.
    pose proof Hw as [Hst Hin [alg Halg] HA Hjti Hcache]. destruct cur as [a rs]. simpl in Hst, Hin, Halg, HA.
    unfold exec.
    set (key0 := key_of fx ce (w_st w) q).
    assert (Hkey0 : key0 = {| ck_kid := kid_of a; ck_alg := alg; ck_iss := issuer ce;
                              ck_sub := q_sub q; ck_out := q_out q; ck_attr := q_attr q;
                              ck_key := if fx_F1 fx then Some (r_key a) else None;
                              ck_ttl := ttl_of ce; ck_claims := c_claims ce |}).
    { unfold key0, key_of. rewrite Hst. simpl. rewrite Halg. reflexivity. }
    destruct (if c_cache ce then cache_get key0 (w_clock w) (w_cache w) else None) as [t|] eqn:Hit.
    - (* reuse: the token is right for the store at the beginning *)
      assert (Hcc : c_cache ce = true) by (destruct (c_cache ce); [reflexivity | discriminate]).
      rewrite Hcc in Hit. apply cache_get_in in Hit as [ex [Hg Hlt]].
      pose proof (Hcache _ Hg) as Hc. simpl in Hc.
      destruct Hc as (issued & ce0 & q0 & b & Hseen & Hex & Hb0 & Hre0 & Hkey & Hcs0 & Hcc0 & HbA & Hbk & Hbalg & Hbkey & Htyp & Hhdr).
      rewrite Hkey0 in Hkey. inversion Hkey as [[K1 K2 K3 K4 K5 K6 K7 K8 K9]].
      assert (Hq : q0 = q) by (destruct q0, q; simpl in *; congruence). subst q0.
      destruct (claims_ext ce ce0 q (t_claims t) K3 K8 K9) as [Hes Hec].
      assert (Hre : reuse_allowed ce = true).
      { unfold reuse_allowed in *. rewrite ttl_eq in *. rewrite K8.
        destruct Hbase as (Hc1' & _). destruct Hb0 as (Hc0 & _). rewrite Hc1', <- Hc0. exact Hre0. }
      assert (Hsame : r_key b = r_key a).
      { destruct (fx_F1 fx) eqn:Hfx; [inversion K7; reflexivity|].
        assert (Hcp : c_cache c = true) by (destruct Hbase as (Hc1' & _); rewrite <- Hc1'; exact Hcc).
        pose proof (no_clash eq_refl Hcp a b HA HbA) as Hn. unfold clash in Hn.
        rewrite Hbk, <- K1, String.eqb_refl, Hbalg, Halg, <- K2 in Hn. simpl in Hn. rewrite String.eqb_refl in Hn.
        simpl in Hn. apply negb_false_iff in Hn. apply keyref_eqb_eq in Hn. symmetry. exact Hn. }
      exists (reloads ce w mids), t. split; [reflexivity|].
      destruct (Hjti t issued Hseen) as [n [Hn _]].
      assert (Hknown : known t seen = true).
      { unfold known. apply existsb_exists. exists (t, issued). split; [exact Hseen | eapply same_jti_self; exact Hn]. }
      assert (Htok : token_ok ce (a, rs) seen (w_clock w) q now t true = true).
      { unfold token_ok, token_prop. rewrite Hknown. cbn [fst snd andb].
        rewrite Hpub.
        assert (Hv : verifies t (spec_published (c_before c) (c_after c) rs) = true).
        { apply verifies_app.
          apply verifies_active with (a := a); [exact Hin | symmetry; exact K1 | rewrite Hbkey, Hsame; reflexivity]. }
        assert (Hh : header_ok a t = true).
        { unfold header_ok. rewrite <- K1, String.eqb_refl, Halg, <- K2, String.eqb_refl, Hbkey, Hsame. simpl.
          apply keyref_eqb_refl. }
        rewrite Hv, Hh, Hes, Hcs0, Hec, Hcc0, Htyp, Hhdr, Hre. simpl.
        rewrite !andb_true_r. apply existsb_exists. exists (t, issued). split; [exact Hseen|]. cbn [fst snd].
        rewrite token_eqb_refl. simpl. apply Z.ltb_lt. rewrite ttl_eq. rewrite K8.
        subst ex. unfold cache_leeway, second in Hlt. lia. }
      split; [|split].
      + unfold exec_judged. destruct (is_nil mids) eqn:Hnil.
        * destruct mids; [|discriminate]. simpl. rewrite token_flag, Htok, andb_true_r.
          rewrite (jwks_spec c w (a, rs) Hst). cbn [snd]. rewrite <- Hpub.
          unfold token_ok, token_prop in Htok. rewrite !andb_true_iff in Htok. apply Htok.
        * rewrite Htok. reflexivity.
      + unfold note. rewrite Hknown. exact Hw1.
      + exact Hk1.
    - (* mint: the token is right for the store at the end *)
      set (w1 := reloads ce w mids) in *.
      destruct Hw1 as [Hst1 Hin1 [alg1 Halg1] HA1 Hjti1 Hcache1].
      destruct cur' as [a1 rs1] eqn:Ecur'. simpl in Hst1, Hin1, Halg1, HA1.
      fold (custom_of ce q). rewrite Hst1.
      rewrite (sign_active ce a1 rs1 alg1 q now (w_minted w1) Halg1).
      set (t := {| t_alg := alg1; t_kid := kid_of a1; t_typ := "JWT"; t_key := Priv (r_key a1);
                   t_claims := fresh_claims ce q now (w_minted w1); t_hdr := "" |}).
      eexists. exists t. split; [reflexivity|].
      destruct (fresh_claims_ok ce q now (w_minted w1)) as (Hcs & Hcc & Hte).
      assert (Hjt : jti_of t = Some (VJti (w_minted w1))).
      { unfold jti_of, t. simpl.
        pose proof (sys_claims_get (issuer ce) (q_sub q) (ttl_of ce) now (VJti (w_minted w1)) (merge (custom_of ce q) [])) as G.
        cbv zeta in G. apply G. }
      assert (Hknown : known t seen = false).
      { unfold known. apply not_true_is_false. intro E. apply existsb_exists in E as [[u i] [Hu Hs]].
        destruct (Hjti u i Hu) as [n [Hn Hlt]]. cbn [fst] in Hs. unfold same_jti in Hs. rewrite Hjt, Hn in Hs. simpl in Hs.
        apply Nat.eqb_eq in Hs. rewrite Hm1 in Hs. lia. }
      assert (Hver : verifies t (spec_published (c_before c) (c_after c) rs1) = true)
        by (apply verifies_app; apply verifies_active with (a := a1); [exact Hin1 | reflexivity | reflexivity]).
      assert (Htok : token_ok ce (a1, rs1) seen (w_clock w) q now t true = true).
      { assert (Hh : header_ok a1 t = true).
        { unfold header_ok, t. simpl. rewrite String.eqb_refl, Halg1, String.eqb_refl. simpl. apply keyref_eqb_refl. }
        unfold token_ok, token_prop. rewrite Hknown. cbn [fst snd]. rewrite Hpub.
        rewrite !andb_true_iff. repeat split; first [exact Hver | exact Hh | exact Hcs | exact Hcc | exact Hte | reflexivity]. }
      split; [|split].
      + match goal with
        | |- exec_judged _ _ _ _ (verifies t (jwks c ?W)) = true =>
            assert (Hjw : verifies t (jwks c W) = true)
              by (erewrite (jwks_spec c W (a1, rs1)) by reflexivity; exact Hver)
        end.
        rewrite Hjw. unfold exec_judged. destruct (is_nil mids) eqn:Hnil.
        * destruct mids; [|discriminate]. simpl in Ecur'. inversion Ecur'; subst a1 rs1. exact Htok.
        * rewrite Htok. apply orb_true_r.
      + unfold note. rewrite Hknown.
        constructor; cbn [w_st w_cache w_minted fst snd]; try assumption; try reflexivity.
        * eexists; exact Halg1.
        * intros t' i [Heq|Ht'].
          -- inversion Heq; subst t' i. exists (w_minted w1). split; [exact Hjt | lia].
          -- destruct (Hjti t' i Ht') as [n [Hn Hlt]]. exists n. split; [exact Hn | rewrite Hm1; lia].
        * intros e He. rewrite reuse_eq in He.
          destruct (reuse_allowed ce) eqn:Hre; [| apply cached_mono; apply Hcache1; exact He].
          destruct He as [<-|He]; [| apply cached_mono; apply Hcache1; exact He].
          assert (Hkey1 : (if fx_F2 fx then key_of fx ce (state_of (a1, rs1)) q else key0) =
                          {| ck_kid := kid_of a1; ck_alg := alg1; ck_iss := issuer ce;
                             ck_sub := q_sub q; ck_out := q_out q; ck_attr := q_attr q;
                             ck_key := if fx_F1 fx then Some (r_key a1) else None;
                             ck_ttl := ttl_of ce; ck_claims := c_claims ce |}).
          { destruct (fx_F2 fx) eqn:F2.
            - unfold key_of. simpl. rewrite Halg1. reflexivity.
            - assert (Hcp : c_cache c = true).
              { destruct Hbase as (Hc1' & _). rewrite <- Hc1'. unfold reuse_allowed in Hre.
                apply andb_true_iff in Hre. apply Hre. }
              destruct (reloads_none ce mids (a, rs) w Hkid (Hnomid eq_refl Hcp)) as [Hw_eq Hcur_eq].
              fold cur' in Hcur_eq. rewrite Ecur' in Hcur_eq. inversion Hcur_eq; subst a1 rs1.
              rewrite Hkey0. rewrite Halg in Halg1. inversion Halg1; subst alg1. reflexivity. }
          rewrite Hkey1. simpl.
          exists (w_clock w), ce, q, a1. rewrite Hk1. unfold t. simpl.
          repeat split; try reflexivity; try assumption; try apply Hbase. left. reflexivity.
      + simpl. exact Hk1.
  Qed.

  Definition no_mid_accept (ops : list op) : bool :=
    forallb (fun o => match o with
                      | OExec _ _ _ _ mids => is_nil (accepted_of (c_keyid c) mids)
                      | _ => true
                      end) ops.

  Lemma target_base twin ov ce : spec_target c twin ov = Some ce -> same_base ce.
  Proof.
    unfold spec_target, same_base.
    assert (V : forall b o ce', spec_variant b o = Some ce' ->
              c_cache ce' = c_cache b /\ c_keyid ce' = c_keyid b /\ c_before ce' = c_before b /\ c_after ce' = c_after b).
    { intros b o ce' H. unfold spec_variant in H.
      destruct (o_unknown o || match o_ttl o with Some t => negb (1000000000 <? t)%Z | None => false end); [discriminate|].
      inversion H. simpl. repeat split. }
    destruct twin.
    - destruct (c_twin c) as [n|]; [|discriminate]. destruct ov as [o|]; intro H.
      + apply V in H. simpl in H. exact H.
      + inversion H. simpl. repeat split.
    - destruct ov as [o|]; intro H; [apply V in H; exact H | inversion H; repeat split].
  Qed.

  Lemma steps_ok ops : forall cur seen w clock,
    clock = w_clock w ->
    winv cur seen w ->
    incl (accepted_of (c_keyid c) (files_of ops)) A ->
    (fx_F2 fx = false -> c_cache c = true -> no_mid_accept ops = true) ->
    obs_ok c cur seen clock ops (steps fx c w ops) = true.
  Proof.
    induction ops as [|o ops IH]; intros cur seen w clock Hclock Hw Hincl Hnm; [reflexivity|]. subst clock.
    assert (Hnm' : fx_F2 fx = false -> c_cache c = true -> no_mid_accept ops = true).
    { intros H1 H2. specialize (Hnm H1 H2). simpl in Hnm. apply andb_true_iff in Hnm. apply Hnm. }
    destruct o as [twin ov q now mids | f | | d].
    - (* Execute *)
      cbn [steps step obs_ok]. rewrite target_spec.
      cbn [files_of flat_map] in Hincl. fold (files_of ops) in Hincl. rewrite accepted_app in Hincl.
      destruct (spec_target c twin ov) as [ce|] eqn:Hce.
      + pose proof (target_base twin ov ce Hce) as Hbase.
        destruct (exec_ok ce cur seen w q now mids Hbase Hw) as (w' & t & He & Hok & Hw' & Hclk).
        { intros x Hx. apply Hincl. apply in_or_app. left. exact Hx. }
        { intros H1 H2. specialize (Hnm H1 H2). simpl in Hnm. apply andb_true_iff in Hnm.
          destruct Hnm as [Hnm0 _]. destruct (accepted_of (c_keyid c) mids); [reflexivity | discriminate]. }
        rewrite He. rewrite Hok. simpl. apply IH; [symmetry; exact Hclk | exact Hw' | | exact Hnm'].
        intros x Hx. apply Hincl. apply in_or_app. right. exact Hx.
      + apply IH; [reflexivity | exact Hw | | exact Hnm'].
        intros x Hx. apply Hincl. apply in_or_app. right. exact Hx.
    - (* reload *)
      cbn [steps step]. cbn [files_of flat_map] in Hincl. fold (files_of ops) in Hincl.
      change (f :: files_of ops) with ([f] ++ files_of ops)%list in Hincl. rewrite accepted_app in Hincl.
      assert (Hk : c_keyid c = c_keyid c) by reflexivity.
      destruct (reload_winv c cur seen w f Hk Hw) as (Hw1 & _ & _ & Hclk).
      { intros x Hx. apply Hincl. apply in_or_app. left. exact Hx. }
      assert (Hrest : incl (accepted_of (c_keyid c) (files_of ops)) A).
      { intros x Hx. apply Hincl. apply in_or_app. right. exact Hx. }
      unfold reload in *. destruct (load (c_keyid c) f) as [st| |] eqn:L.
      + apply load_sound in L as [cur' [Hacc ->]]. cbn [obs_ok]. rewrite Hacc in *. simpl in Hw1, Hclk.
        apply IH; try assumption; try reflexivity.
      + destruct (spec_accept (c_keyid c) f) as [cur'|] eqn:Hacc.
        * apply load_complete in Hacc. rewrite Hacc in L. discriminate.
        * cbn [obs_ok]. rewrite Hacc. apply IH; try assumption; try reflexivity.
      + destruct (spec_accept (c_keyid c) f) as [cur'|] eqn:Hacc.
        * apply load_complete in Hacc. rewrite Hacc in L. discriminate.
        * cbn [obs_ok]. rewrite Hacc. apply IH; try assumption; try reflexivity.
    - (* JWKS *)
      cbn [steps step obs_ok]. pose proof Hw as [Hst]. rewrite (jwks_spec c w cur Hst).
      assert (Hj : jwks_ok c cur (spec_published (c_before c) (c_after c) (snd cur)) = true).
      { unfold jwks_ok. apply andb_true_iff. split.
        - apply (list_eqb_spec jwk_eqb jwk_eqb_eq). reflexivity.
        - unfold spec_published. apply forallb_forall. intros j Hj.
          apply in_app_or in Hj as [Hj|Hj]; [rewrite (spec_others_public _ _ Hj); reflexivity|].
          apply in_app_or in Hj as [Hj|Hj]; [|rewrite (spec_others_public _ _ Hj); reflexivity].
          unfold spec_jwks in Hj. apply in_map_iff in Hj as [r [<- _]]. reflexivity. }
      rewrite Hj. simpl. apply IH; try assumption; try reflexivity.
    - (* the cache's clock advances *)
      cbn [steps step obs_ok].
      apply IH; [reflexivity | | exact Hincl | exact Hnm'].
      destruct Hw. constructor; assumption.
  Qed.
End Histories.

Lemma guard_no_clash c f ops :
  guard_F1 c f ops = false ->
  c_cache c = true ->
  forall a b, In a (accepted_of (c_keyid c) (f :: files_of ops)) ->
              In b (accepted_of (c_keyid c) (f :: files_of ops)) -> clash a b = false.
Proof.
  unfold guard_F1. intros G Hre a b Ha Hb. rewrite Hre in G. simpl andb in G.
  apply not_true_is_false. intro Hc. apply not_true_iff_false in G. apply G.
  apply existsb_exists. exists a. split; [exact Ha|]. apply existsb_exists. exists b. split; assumption.
Qed.

Lemma create_char c f :
  create c f = if ttl_valid c
               then match load (c_keyid c) f with
                    | Ok st => Ok (world0 st)
                    | Err => Err | Panic => Panic end
               else Err.
Proof.
  unfold create, ttl_valid. destruct (c_ttl c) as [t|]; [|reflexivity].
  rewrite (Z.leb_antisym second t). unfold second. destruct (1000000000 <? t)%Z; reflexivity.
Qed.

(** every run outside the guards of the (repaired) findings meets the full specification;
    with both repairs, every run *)
Theorem run_meets_spec_gen fx c f ops :
  (fx_F1 fx = false -> guard_F1 c f ops = false) ->
  (fx_F2 fx = false -> guard_F2 c ops = false) ->
  run_ok c f ops (fst (run fx c f ops)) (snd (run fx c f ops)) = true.
Proof.
  intros G1 G2. unfold run, run_ok. rewrite create_char. destruct (ttl_valid c); [|reflexivity].
  destruct (load (c_keyid c) f) as [st| |] eqn:L.
  - apply load_sound in L as [cur [Hacc ->]]. rewrite Hacc. cbn [fst snd].
    destruct cur as [a rs]. destruct (spec_accept_good _ _ _ _ Hacc) as [Hin Halg].
    apply steps_ok with (A := accepted_of (c_keyid c) (f :: files_of ops)); [ | reflexivity | | | ].
    + intros Hfx Hre a0 b0 Ha0 Hb0. exact (guard_no_clash c f ops (G1 Hfx) Hre a0 b0 Ha0 Hb0).
    + constructor; simpl; try assumption.
      * reflexivity.
      * rewrite Hacc. left. reflexivity.
      * intros t i [].
      * intros e [].
    + simpl. rewrite Hacc. intros x Hx. right. exact Hx.
    + intros H2 Hc. specialize (G2 H2). unfold guard_F2 in G2. rewrite Hc in G2. simpl in G2.
      unfold no_mid_accept. apply forallb_forall. intros o Ho.
      destruct o as [tw ov q now mids| | |]; try reflexivity.
      destruct (is_nil (accepted_of (c_keyid c) mids)) eqn:E; [reflexivity|].
      exfalso. apply not_true_iff_false in G2. apply G2. apply existsb_exists. exists (OExec tw ov q now mids).
      split; [exact Ho | rewrite E; reflexivity].
  - destruct (spec_accept (c_keyid c) f) eqn:Hacc; [|reflexivity].
    apply load_complete in Hacc. rewrite Hacc in L. discriminate.
  - destruct (spec_accept (c_keyid c) f) eqn:Hacc; [|reflexivity].
    apply load_complete in Hacc. rewrite Hacc in L. discriminate.
Qed.

Definition fx_pinned : fixes := {| fx_F1 := false; fx_F2 := false |}.
Definition fx_F1_only : fixes := {| fx_F1 := true; fx_F2 := false |}.
Definition fx_all : fixes := {| fx_F1 := true; fx_F2 := true |}.

Theorem run_meets_spec_fixed c f ops :
  run_ok c f ops (fst (run fx_all c f ops)) (snd (run fx_all c f ops)) = true.
Proof. apply run_meets_spec_gen; discriminate. Qed.

(* ------------------------------------------------------------------ the full specification implies what the property statement fixes *)

Lemma token_ok_prop c cur seen clock q now t v : token_ok c cur seen clock q now t v = true -> token_prop c cur seen clock q now t v = true.
Proof. unfold token_ok. rewrite !andb_true_iff. tauto. Qed.

Lemma jwks_ok_prop c cur ks : jwks_ok c cur ks = true -> jwks_prop c cur ks = true.
Proof.
  unfold jwks_ok, jwks_prop. rewrite !andb_true_iff. intros [He Hp]. split; [exact Hp|].
  apply (list_eqb_spec jwk_eqb jwk_eqb_eq) in He. subst ks.
  apply forallb_forall. intros e Hin. apply existsb_exists. exists e. split; [exact Hin|].
  rewrite String.eqb_refl, keymat_eqb_refl. reflexivity.
Qed.

Lemma obs_ok_prop c ops : forall cur seen clock obs,
  obs_ok c cur seen clock ops obs = true -> obs_prop c cur seen clock ops obs = true.
Proof.
  induction ops as [|o ops IH]; intros cur seen clock obs H; [reflexivity|].
  destruct o as [twin ov q now mids | f | | d]; destruct obs as [|x obs]; simpl in *; try discriminate.
  - destruct (spec_target c twin ov) as [ce|]; destruct x; try discriminate; try reflexivity.
    + apply andb_true_iff in H as [H1 H2]. apply andb_true_iff. split; [|apply IH; exact H2].
      unfold exec_judged in *. destruct (is_nil mids).
      * apply token_ok_prop. exact H1.
      * apply orb_true_iff in H1 as [H1|H1]; apply orb_true_iff; [left | right]; apply token_ok_prop; exact H1.
    + apply IH. exact H.
  - destruct (spec_accept (c_keyid c) f) as [cur'|]; destruct x; try discriminate; try reflexivity; apply IH; exact H.
  - destruct x; try discriminate. apply andb_true_iff in H as [H1 H2]. apply andb_true_iff.
    split; [apply jwks_ok_prop; exact H1 | apply IH; exact H2].
  - destruct x; try discriminate. apply IH. exact H.
Qed.

Lemma run_ok_prop c f ops cr obs : run_ok c f ops cr obs = true -> run_prop c f ops cr obs = true.
Proof.
  unfold run_ok, run_prop. destruct (if ttl_valid c then spec_accept (c_keyid c) f else None) as [cur|]; [|reflexivity].
  destruct cr; try reflexivity. apply obs_ok_prop.
Qed.

Theorem run_meets_property c f ops :
  run_prop c f ops (fst (run fx_all c f ops)) (snd (run fx_all c f ops)) = true.
Proof. apply run_ok_prop, run_meets_spec_fixed. Qed.

(* ------------------------------------------------------------------ readable corollaries *)

Lemma spec_accept_active cfg f a rs :
  spec_accept cfg f = Some (a, rs) -> f = PemOk rs /\ store_usable rs = true /\ spec_active cfg rs = Some a.
Proof.
  unfold spec_accept. destruct f as [|rs']; [discriminate|].
  destruct (store_usable rs') eqn:U; [|discriminate].
  destruct (spec_active cfg rs') as [a'|] eqn:Act; [|discriminate].
  destruct (is_nil (r_chain a') || r_usage_ok a'); [|discriminate].
  intro H. inversion H; subst. auto.
Qed.

Lemma load_iff cfg f st :
  load cfg f = Ok st <-> exists cur, spec_accept cfg f = Some cur /\ st = state_of cur.
Proof.
  split; [apply load_sound|]. intros [cur [H ->]]. apply load_complete. exact H.
Qed.

Lemma header_names_active_key cfg f st iss sub ttl now jti custom t :
  load cfg f = Ok st -> sign st iss sub ttl now jti custom = Ok t ->
  exists a rs, f = PemOk rs /\ spec_active cfg rs = Some a /\
    t_kid t = kid_of a /\ spec_alg (r_key a) = Some (t_alg t) /\ t_typ t = "JWT" /\ t_key t = Priv (r_key a).
Proof.
  intros L S. apply load_sound in L as [[a rs] [Hacc ->]].
  destruct (spec_accept_active _ _ _ _ Hacc) as (Hf & _ & Hact).
  destruct (spec_accept_good _ _ _ _ Hacc) as [_ [alg Halg]].
  apply sign_ok_inv in S as [_ ->]. exists a, rs. simpl. rewrite Halg. repeat split; assumption.
Qed.

Lemma token_verifies_against_published cfg f st iss sub ttl now jti custom t :
  load cfg f = Ok st -> sign st iss sub ttl now jti custom = Ok t -> verifies t (s_pub st) = true.
Proof.
  intros L S. apply load_sound in L as [[a rs] [Hacc ->]].
  destruct (spec_accept_good _ _ _ _ Hacc) as [Hin _].
  apply sign_ok_inv in S as [_ ->]. simpl.
  apply verifies_active with (a := a); [exact Hin | reflexivity | reflexivity].
Qed.

Lemma sign_never_fails cfg f st iss sub ttl now jti custom :
  load cfg f = Ok st -> exists t, sign st iss sub ttl now jti custom = Ok t.
Proof.
  intro L. apply load_sound in L as [[a rs] [Hacc ->]].
  destruct (spec_accept_good _ _ _ _ Hacc) as [_ [alg Halg]].
  apply sign_can. simpl. rewrite Halg. apply can_sign_active. exact Halg.
Qed.

Lemma jwks_public_only cfg f st :
  load cfg f = Ok st ->
  exists rs, f = PemOk rs /\ s_pub st = spec_jwks rs /\
    Forall (fun j => is_private (j_key j) = false) (s_pub st) /\
    Forall2 (fun r j => j_kid j = kid_of r /\ j_key j = Pub (r_key r) /\ j_certs j = r_chain r /\
                        Some (j_alg j) = spec_alg (r_key r) /\ j_use j = "sig") rs (s_pub st).
Proof.
  intro L. apply load_sound in L as [[a rs] [Hacc ->]].
  destruct (spec_accept_active _ _ _ _ Hacc) as (Hf & Hu & _).
  exists rs. simpl. repeat split; try assumption.
  - apply Forall_forall. intros j Hj. apply in_map_iff in Hj as [r [<- _]]. reflexivity.
  - rewrite store_usable_split, !andb_true_iff in Hu. destruct Hu as [[Hal _] _].
    rewrite forallb_forall in Hal. clear Hacc Hf a.
    induction rs as [|r rest IH]; simpl; constructor.
    + simpl. specialize (Hal r (or_introl eq_refl)). destruct (spec_alg (r_key r)); [|discriminate]. repeat split.
    + apply IH. intros x Hx. apply Hal. right. exact Hx.
Qed.

(** exp is the configured ttl later *)
Lemma exp_is_ttl_later st iss sub ttl now jti custom t :
  sign st iss sub ttl now jti custom = Ok t ->
  exists iat exp,
    mget "iat" (t_claims t) = Some (VInt iat) /\ mget "nbf" (t_claims t) = Some (VInt iat) /\
    mget "exp" (t_claims t) = Some (VInt exp) /\
    (ttl / second <= exp - iat <= (ttl + 999999999) / second)%Z /\
    (forall s, ttl = (s * second)%Z -> (exp - iat = s)%Z).
Proof.
  intro S. destruct (system_claims_win _ _ _ _ _ _ _ _ S) as (_ & _ & H3 & H4 & H5 & _).
  exists (unix now), (unix (now + ttl)). repeat split; try assumption; try apply exp_minus_iat.
  intros s ->. apply exp_minus_iat_whole.
Qed.

(* ------------------------------------------------------------------ C16-F1 *)

(* ------------------------------------------------------------------ C16-F1, C16-F2: the pinned behaviour *)

Definition q_of (sub : string) : req := {| q_sub := sub; q_out := "o"; q_attr := "a" |}.

Definition f1_cfg : config :=
  {| c_keyid := "key1"; c_name := ""; c_ttl := Some 120000000000%Z; c_claims := None; c_cache := true;
     c_twin := None; c_before := []; c_after := [] |}.
Definition f1_entry (k : nat) : raw_entry :=
  {| r_key := {| k_id := k; k_kind := KEcdsa; k_size := 384 |}; r_xkid := "key1"; r_genkid := "generated";
     r_chain := []; r_chain_ok := true; r_usage_ok := true |}.
Definition f1_ops : list op :=
  [OExec false None (q_of "alice") 1000000000000%Z []; OReload (PemOk [f1_entry 11]); OJwks;
   OExec false None (q_of "alice") 1001000000000%Z []].

(** F1 (pinned tree): a token handed out after the reload is signed by the replaced key and
    does not verify against the key set published at that moment *)
Lemma F1_refuted :
  exists c f ops t,
    guard_F1 c f ops = true /\
    nth_error (snd (run fx_pinned c f ops)) 3 = Some (XToken t false) /\
    nth_error (snd (run fx_pinned c f ops)) 2 = Some (XJwks [spec_jwk (f1_entry 11)]) /\
    t_key t = Priv (r_key (f1_entry 10)) /\
    run_prop c f ops (fst (run fx_pinned c f ops)) (snd (run fx_pinned c f ops)) = false.
Proof.
  exists f1_cfg, (PemOk [f1_entry 10]), f1_ops.
  eexists. vm_compute. repeat split.
Qed.

(** F2 (tree with the repair of F1 only): key store A; an Execute whose cache lookup sees A,
    during which the store is replaced by B, signs with B and files the token under A's
    cache key; after the roll-back to A the next Execute hands out the B-token although
    only A's key is published *)
Definition f2_entry (k : nat) (kid : string) : raw_entry :=
  {| r_key := {| k_id := k; k_kind := KEcdsa; k_size := 256 |}; r_xkid := kid; r_genkid := "generated";
     r_chain := []; r_chain_ok := true; r_usage_ok := true |}.
Definition f2_cfg : config :=
  {| c_keyid := ""; c_name := ""; c_ttl := Some 120000000000%Z; c_claims := None; c_cache := true;
     c_twin := None; c_before := []; c_after := [] |}.
Definition f2_ops : list op :=
  [OExec false None (q_of "alice") 1000000000000%Z [PemOk [f2_entry 8 "key-b"]];
   OReload (PemOk [f2_entry 7 "key-a"]); OJwks;
   OExec false None (q_of "alice") 1001000000000%Z []].

Lemma F2_refuted :
  exists t,
    guard_F2 f2_cfg f2_ops = true /\ guard_F1 f2_cfg (PemOk [f2_entry 7 "key-a"]) f2_ops = false /\
    snd (run fx_F1_only f2_cfg (PemOk [f2_entry 7 "key-a"]) f2_ops) =
      [XToken t true; XDone; XJwks [spec_jwk (f2_entry 7 "key-a")]; XToken t false] /\
    t_kid t = "key-b" /\ t_key t = Priv (r_key (f2_entry 8 "key-b")) /\
    run_prop f2_cfg (PemOk [f2_entry 7 "key-a"]) f2_ops
             (fst (run fx_F1_only f2_cfg (PemOk [f2_entry 7 "key-a"]) f2_ops))
             (snd (run fx_F1_only f2_cfg (PemOk [f2_entry 7 "key-a"]) f2_ops)) = false.
Proof. eexists. vm_compute. repeat split. Qed.

(** non-vacuity: reuse on, another key holder, a twin with another signer name, a reload
    rotates the active key, a reload lands inside an Execute, the cache clock passes the
    reuse window, rule-level variants *)
Definition nv_entry (k : nat) (kid : string) : raw_entry :=
  {| r_key := {| k_id := k; k_kind := KRsa; k_size := 3072 |}; r_xkid := kid; r_genkid := "generated";
     r_chain := [7; 8]; r_chain_ok := true; r_usage_ok := true |}.
Definition nv_cfg : config :=
  {| c_keyid := ""; c_name := "idp"; c_ttl := Some 90500000000%Z;
     c_claims := Some [("sub", VStr "admin"); ("aud", VRaw "[""a""]"); ("who", VSubj); ("grp", VAttr)]; c_cache := true;
     c_twin := Some "idp-2"; c_before := [PemOk [nv_entry 5 "other"]]; c_after := [] |}.
Definition nv_ops : list op :=
  [OExec false None (q_of "alice") 1000500000000%Z []; OExec false None (q_of "alice") 1001000000000%Z [];
   OExec true None (q_of "alice") 1001500000000%Z [];
   OReload (PemOk [nv_entry 4 "new"; nv_entry 3 "old"]);
   OExec false None (q_of "alice") 1002500000000%Z [PemOk [nv_entry 3 "old"]];
   OWait 86000000000%Z;
   OExec false None (q_of "alice") 1003000000000%Z [];
   OExec false (Some {| o_ttl := Some 30000000000%Z; o_claims := None; o_unknown := false |}) (q_of "alice") 1003000000000%Z [];
   OExec false (Some {| o_ttl := None; o_claims := Some [("scope", VOut)]; o_unknown := false |}) (q_of "alice") 1004000000000%Z [];
   OExec false (Some {| o_ttl := None; o_claims := None; o_unknown := true |}) (q_of "alice") 1005000000000%Z [];
   OJwks].

Lemma nonvacuous :
  exists t1 t1' t2 t2' t3 t4,
    snd (run fx_all nv_cfg (PemOk [nv_entry 3 "old"]) nv_ops) =
      [XToken t1 true; XToken t1 true; XToken t1' true; XDone; XToken t2 true; XDone; XToken t2' true;
       XToken t3 true; XToken t4 true; XErr;
       XJwks [spec_jwk (nv_entry 5 "other"); spec_jwk (nv_entry 3 "old")]] /\
    t_kid t1 = "old" /\ mget "iss" (t_claims t1) = Some (VStr "idp") /\
    (* the twin does not get the other finalizer's token *)
    mget "iss" (t_claims t1') = Some (VStr "idp-2") /\
    (* signed after the reload that landed inside Execute: by "old" again, not by "new" *)
    t_kid t2 = "old" /\ t_alg t2 = "PS384" /\ mget "grp" (t_claims t2) = Some (VStr "a") /\
    mget "sub" (t_claims t2) = Some (VStr "alice") /\ mget "exp" (t_claims t2) = Some (VInt 1093%Z) /\
    (* 86 s later the cached token (reusable for 85.5 s) is not handed out any more *)
    mget "iat" (t_claims t2') = Some (VInt 1003%Z) /\
    mget "exp" (t_claims t3) = Some (VInt 1033%Z) /\ mget "who" (t_claims t3) = Some (VStr "alice") /\
    mget "exp" (t_claims t4) = Some (VInt 1094%Z) /\ mget "scope" (t_claims t4) = Some (VStr "o") /\
    mget "who" (t_claims t4) = None.
Proof. do 6 eexists. vm_compute. repeat split. Qed.

(* ------------------------------------------------------------------ rule-level variants *)

(** WithConfig accepts exactly the overrides made of ttl (> 1s) and claims, and the variant
    is the catalogue configuration with the given members replaced *)
Lemma variant_overlay c o ce :
  with_config c o = Ok ce <->
  (o_unknown o = false /\ (forall t, o_ttl o = Some t -> (second < t)%Z) /\
   ce = {| c_keyid := c_keyid c; c_name := c_name c; c_ttl := overlay (o_ttl o) (c_ttl c);
           c_claims := overlay (o_claims o) (c_claims c); c_cache := c_cache c; c_twin := c_twin c;
           c_before := c_before c; c_after := c_after c |}).
Proof.
  unfold with_config, overlay. destruct (o_unknown o).
  - split; [discriminate | intros [H _]; discriminate].
  - destruct (o_ttl o) as [t|].
    + destruct (t <=? second)%Z eqn:E.
      * split; [discriminate|]. intros (_ & H & _). specialize (H t eq_refl). apply Z.leb_le in E. lia.
      * apply Z.leb_gt in E. split.
        -- intro H. inversion H. repeat split. intros t' Ht'. inversion Ht'; subst. exact E.
        -- intros (_ & _ & ->). reflexivity.
    + split.
      * intro H. inversion H. repeat split. intros t' Ht'. discriminate.
      * intros (_ & _ & ->). reflexivity.
Qed.

(** a variant's tokens: exp is the variant's effective ttl (own, else the catalogue's, else
    5 minutes) after iat; custom claims come from its effective template *)
Lemma variant_token c o ce st q now jti t :
  with_config c o = Ok ce ->
  sign st (issuer ce) (q_sub q) (ttl_of ce) now jti (custom_of ce q) = Ok t ->
  let ttl := match o_ttl o with Some x => x | None => ttl_of c end in
  let tmpl := match o_claims o with Some x => x | None => tmpl_of c end in
  issuer ce = issuer c /\
  exists iat exp,
    mget "iat" (t_claims t) = Some (VInt iat) /\ mget "nbf" (t_claims t) = Some (VInt iat) /\
    mget "exp" (t_claims t) = Some (VInt exp) /\
    (ttl / second <= exp - iat <= (ttl + 999999999) / second)%Z /\
    (forall s, ttl = (s * second)%Z -> (exp - iat = s)%Z) /\
    (forall k, ~ In k reserved ->
       mget k (t_claims t) = option_map (spec_value q) (tmpl_get k tmpl)).
Proof.
  intros W S. apply variant_overlay in W as (_ & _ & ->). cbv zeta.
  set (ce := {| c_keyid := c_keyid c; c_name := c_name c; c_ttl := overlay (o_ttl o) (c_ttl c);
                c_claims := overlay (o_claims o) (c_claims c); c_cache := c_cache c; c_twin := c_twin c;
                c_before := c_before c; c_after := c_after c |}) in *.
  assert (Ht : ttl_of ce = match o_ttl o with Some x => x | None => ttl_of c end).
  { unfold ttl_of, ce, overlay. simpl. destruct (o_ttl o); reflexivity. }
  split; [reflexivity|].
  destruct (exp_is_ttl_later _ _ _ _ _ _ _ _ S) as (iat & exp & H1 & H2 & H3 & H4 & H5).
  rewrite Ht in H4, H5. exists iat, exp. repeat split; try assumption; try apply H4.
  intros k Hk. destruct (system_claims_win _ _ _ _ _ _ _ _ S) as (_ & _ & _ & _ & _ & _ & Hc).
  rewrite (Hc k Hk).
  pose proof (mget_custom ce q k) as M. rewrite mget_merge in M. simpl in M.
  destruct (tmpl_get k (custom_of ce q)) eqn:E; rewrite M;
    unfold tmpl_of, ce, overlay; simpl; destruct (o_claims o); destruct (tmpl_get k _); simpl; try rewrite resolve_spec; reflexivity.
Qed.

(* ------------------------------------------------------------------ no panic is reachable any more *)

(** since the key store rejects empty stores and unsupported key sizes (fixes for
    C19-F1/F2) neither [ks.Entries()[0]] nor [Entry.JWK] can panic in load *)
Lemma load_no_panic cfg f : load cfg f <> Panic.
Proof.
  unfold load, keystore_of. destruct f as [|rs]; [discriminate|].
  destruct (forallb create_entry_ok rs) eqn:CE; [|discriminate].
  destruct (is_nil rs) eqn:Hne; [discriminate|].
  rewrite verify_build_char, forallb_true, andb_true_r.
  destruct (forallb chain_fine rs && distinct (map kid_of rs)); [|discriminate].
  assert (Hall : forallb (fun r => some (spec_alg (r_key r))) rs = true).
  { apply forallb_forall. intros r Hr. rewrite <- create_entry_ok_spec.
    rewrite forallb_forall in CE. apply CE. exact Hr. }
  assert (Fin : forall a, In a rs ->
    (if negb (is_nil (e_chain (entry_of a))) && negb (e_usage_ok (entry_of a)) then @Err state else
     match entries_jwks (map entry_of rs) with
     | Ok keys => match entry_jwk (entry_of a) with
                  | Ok j => Ok {| s_jwk := j; s_key := Priv (e_key (entry_of a)); s_pub := keys |}
                  | Err => Err | Panic => Panic end
     | Err => Err | Panic => Panic end) <> Panic).
  { intros a Ha. destruct (negb (is_nil (e_chain (entry_of a))) && negb (e_usage_ok (entry_of a))); [discriminate|].
    rewrite entries_jwks_char, Hall, entry_jwk_char.
    rewrite forallb_forall in Hall. specialize (Hall a Ha). destruct (spec_alg (r_key a)); discriminate. }
  destruct (String.eqb cfg "").
  - destruct rs as [|r rest]; [discriminate|]. simpl map. exact (Fin r (or_introl eq_refl)).
  - rewrite get_key_char. destruct (find (fun r => String.eqb (kid_of r) cfg) rs) as [a|] eqn:F; simpl; [|discriminate].
    apply find_some in F as [Ha _]. exact (Fin a Ha).
Qed.
