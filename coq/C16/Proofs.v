(** C16 — proofs about the sequential model: claims, activation, published set,
    whole histories against the specification of C16/Spec.v. *)
From HV Require Import Base.Prelude C16.Model C16.Spec.
Open Scope string_scope.

(* ------------------------------------------------------------------ small facts *)

Lemma eqb_refl_s s : String.eqb s s = true.
Proof. apply String.eqb_refl. Qed.

Lemma str_in_In s l : str_in s l = true <-> In s l.
Proof.
  unfold str_in. rewrite existsb_exists. split.
  - intros [x [Hin He]]. apply String.eqb_eq in He. subst. exact Hin.
  - intro H. exists s. split; [exact H | apply String.eqb_refl].
Qed.

Lemma str_in_false s l : str_in s l = false <-> ~ In s l.
Proof.
  pose proof (str_in_In s l) as H. destruct (str_in s l); split; intro G.
  - discriminate.
  - exfalso. apply G. apply H. reflexivity.
  - intro I. apply H in I. discriminate.
  - reflexivity.
Qed.

Lemma keykind_eqb_eq a b : keykind_eqb a b = true <-> a = b.
Proof. destruct a, b; simpl; split; intro H; try reflexivity; discriminate. Qed.

Lemma keyref_eqb_eq a b : keyref_eqb a b = true <-> a = b.
Proof.
  destruct a as [i k s], b as [i' k' s']. unfold keyref_eqb. simpl.
  rewrite !andb_true_iff, Nat.eqb_eq, keykind_eqb_eq, Z.eqb_eq. split.
  - intros [[H1 H2] H3]. subst. reflexivity.
  - intro H. inversion H. auto.
Qed.

Lemma keyref_eqb_refl a : keyref_eqb a a = true.
Proof. apply keyref_eqb_eq. reflexivity. Qed.

Lemma keymat_eqb_refl a : keymat_eqb a a = true.
Proof. destruct a; simpl; apply keyref_eqb_refl. Qed.

Lemma cval_eqb_refl v : cval_eqb v v = true.
Proof. destruct v; simpl; try reflexivity; try apply String.eqb_refl; try apply Z.eqb_refl; apply Nat.eqb_refl. Qed.

Lemma cval_eqb_eq a b : cval_eqb a b = true <-> a = b.
Proof.
  destruct a, b; simpl; split; intro H; try discriminate; try reflexivity;
    try (apply String.eqb_eq in H; subst; reflexivity);
    try (apply Z.eqb_eq in H; subst; reflexivity);
    try (apply Nat.eqb_eq in H; subst; reflexivity);
    inversion H; subst; try apply String.eqb_refl; try apply Z.eqb_refl; apply Nat.eqb_refl.
Qed.

(* ------------------------------------------------------------------ maps *)

Lemma mget_mset_same k v m : mget k (mset k v m) = Some v.
Proof.
  induction m as [|[k' v'] r IH]; simpl.
  - rewrite String.eqb_refl. reflexivity.
  - destruct (String.eqb k k') eqn:E; simpl.
    + rewrite String.eqb_refl. reflexivity.
    + rewrite E. exact IH.
Qed.

Lemma mget_mset_other k k' v m : k <> k' -> mget k (mset k' v m) = mget k m.
Proof.
  intro Hne. induction m as [|[k2 v2] r IH]; simpl.
  - apply String.eqb_neq in Hne. rewrite Hne. reflexivity.
  - destruct (String.eqb k' k2) eqn:E; simpl.
    + apply String.eqb_eq in E. subst k2. apply String.eqb_neq in Hne. rewrite Hne. reflexivity.
    + destruct (String.eqb k k2); [reflexivity | exact IH].
Qed.

Lemma mget_mset k k' v m : mget k (mset k' v m) = if String.eqb k k' then Some v else mget k m.
Proof.
  destruct (String.eqb k k') eqn:E.
  - apply String.eqb_eq in E. subst. apply mget_mset_same.
  - apply String.eqb_neq in E. apply mget_mset_other. exact E.
Qed.

Lemma mset_keys k v m x : In x (map fst (mset k v m)) <-> x = k \/ In x (map fst m).
Proof.
  induction m as [|[k' v'] r IH]; simpl.
  - intuition congruence.
  - destruct (String.eqb k k') eqn:E; simpl.
    + apply String.eqb_eq in E. subst k'. intuition congruence.
    + rewrite IH. intuition congruence.
Qed.

Lemma mset_nodup k v m : NoDup (map fst m) -> NoDup (map fst (mset k v m)).
Proof.
  induction m as [|[k' v'] r IH]; simpl; intro H.
  - constructor; [intros [] | constructor].
  - inversion H as [|? ? Hn Hr]; subst. destruct (String.eqb k k') eqn:E; simpl.
    + apply String.eqb_eq in E. subst. constructor; assumption.
    + constructor; [| apply IH; exact Hr]. rewrite mset_keys. intros [Hx|Hx].
      * subst. rewrite String.eqb_refl in E. discriminate.
      * apply Hn. exact Hx.
Qed.

Lemma mget_in k v m : NoDup (map fst m) -> In (k, v) m -> mget k m = Some v.
Proof.
  induction m as [|[k' v'] r IH]; simpl; intros Hn Hin; [contradiction|].
  inversion Hn as [|? ? Hnot Hr]; subst. destruct Hin as [Hin|Hin].
  - inversion Hin; subst. rewrite String.eqb_refl. reflexivity.
  - destruct (String.eqb k k') eqn:E.
    + apply String.eqb_eq in E. subst. exfalso. apply Hnot. apply in_map_iff. exists (k', v). auto.
    + apply IH; assumption.
Qed.

Lemma mget_some_in k v m : mget k m = Some v -> In (k, v) m.
Proof.
  induction m as [|[k' v'] r IH]; simpl; intro H; [discriminate|].
  destruct (String.eqb k k') eqn:E.
  - apply String.eqb_eq in E. inversion H; subst. left. reflexivity.
  - right. apply IH. exact H.
Qed.

Lemma merge_nodup src : forall dst, NoDup (map fst dst) -> NoDup (map fst (merge src dst)).
Proof.
  unfold merge. induction src as [|[k v] r IH]; simpl; intros dst H; [exact H|].
  apply IH. apply mset_nodup. exact H.
Qed.

(** the merged map gives a name the value of its last member in [src], else [dst]'s *)
Lemma mget_merge k src : forall dst,
  mget k (merge src dst) = match tmpl_get k src with Some v => Some v | None => mget k dst end.
Proof.
  unfold merge. induction src as [|[k' v'] r IH]; simpl; intro dst; [reflexivity|].
  rewrite IH. destruct (tmpl_get k r); [reflexivity|]. rewrite mget_mset.
  destruct (String.eqb k k'); reflexivity.
Qed.

Lemma merge_keys src : forall dst x,
  In x (map fst (merge src dst)) <-> In x (map fst src) \/ In x (map fst dst).
Proof.
  unfold merge. induction src as [|[k v] r IH]; simpl; intros dst x.
  - split; [auto | intros [[]|H]; exact H].
  - rewrite IH, mset_keys. split.
    + intros [H|[H|H]]; auto.
    + intros [[H|H]|H]; auto.
Qed.

Lemma tmpl_get_map k f t :
  tmpl_get k (map (fun kv : string * cval => (fst kv, f (snd kv))) t) = option_map f (tmpl_get k t).
Proof.
  induction t as [|[k' v'] r IH]; simpl; [reflexivity|].
  rewrite IH. destruct (tmpl_get k r); simpl; [reflexivity|].
  destruct (String.eqb k k'); reflexivity.
Qed.

Lemma tmpl_get_in k t : In k (map fst t) -> exists v, tmpl_get k t = Some v.
Proof.
  induction t as [|[k' v'] r IH]; simpl; intro H; [contradiction|].
  destruct (tmpl_get k r) eqn:E; [eexists; reflexivity|].
  destruct H as [H|H].
  - subst. rewrite String.eqb_refl. eexists; reflexivity.
  - destruct (IH H) as [v Hv]. discriminate.
Qed.

Lemma mget_render k sub t : mget k (render sub t) = option_map (resolve sub) (tmpl_get k t).
Proof.
  unfold render. rewrite mget_merge, tmpl_get_map. destruct (tmpl_get k t); reflexivity.
Qed.

Lemma render_nodup sub t : NoDup (map fst (render sub t)).
Proof. unfold render. apply merge_nodup. constructor. Qed.

(* ------------------------------------------------------------------ Sign: system claims win *)

Definition sys_claims (iss sub : string) (ttl now : Z) (jti : cval) (c : cmap) : cmap :=
  mset "sub" (VStr sub) (mset "nbf" (VInt (unix now)) (mset "iss" (VStr iss) (mset "iat" (VInt (unix now))
    (mset "jti" jti (mset "exp" (VInt (unix (now + ttl))) c))))).

Lemma sign_ok_inv st iss sub ttl now jti custom t :
  sign st iss sub ttl now jti custom = Ok t ->
  can_sign (j_alg (s_jwk st)) (s_key st) = true /\
  t = {| t_alg := j_alg (s_jwk st); t_kid := j_kid (s_jwk st); t_typ := "JWT"; t_key := s_key st;
         t_claims := sys_claims iss sub ttl now jti (merge custom []) |}.
Proof.
  unfold sign. destruct (can_sign (j_alg (s_jwk st)) (s_key st)); simpl; intro H; [|discriminate].
  inversion H. split; reflexivity.
Qed.

Lemma sign_can st iss sub ttl now jti custom :
  can_sign (j_alg (s_jwk st)) (s_key st) = true ->
  exists t, sign st iss sub ttl now jti custom = Ok t.
Proof. intro H. unfold sign. rewrite H. simpl. eexists; reflexivity. Qed.

Ltac neq_str := let H := fresh in intro H; discriminate H.

Lemma sys_claims_get iss sub ttl now jti c :
  let m := sys_claims iss sub ttl now jti c in
  mget "sub" m = Some (VStr sub) /\ mget "iss" m = Some (VStr iss) /\
  mget "iat" m = Some (VInt (unix now)) /\ mget "nbf" m = Some (VInt (unix now)) /\
  mget "exp" m = Some (VInt (unix (now + ttl))) /\ mget "jti" m = Some jti.
Proof.
  unfold sys_claims. cbv zeta.
  repeat split;
    repeat (first [ rewrite mget_mset_same; reflexivity
                  | rewrite mget_mset_other by neq_str ]).
Qed.

Lemma sys_claims_other iss sub ttl now jti c k :
  ~ In k reserved -> mget k (sys_claims iss sub ttl now jti c) = mget k c.
Proof.
  intro H. unfold sys_claims.
  repeat (rewrite mget_mset_other; [| intro E; apply H; subst k; simpl; tauto]).
  reflexivity.
Qed.

Lemma sys_claims_keys iss sub ttl now jti c x :
  In x (map fst (sys_claims iss sub ttl now jti c)) <-> In x reserved \/ In x (map fst c).
Proof.
  unfold sys_claims. rewrite !mset_keys. simpl. split.
  - intros H. repeat (destruct H as [H|H]; [subst; tauto|]). tauto.
  - intros [H|H]; [|tauto]. repeat (destruct H as [H|H]; [subst; tauto|]). contradiction.
Qed.

Lemma sys_claims_nodup iss sub ttl now jti c :
  NoDup (map fst c) -> NoDup (map fst (sys_claims iss sub ttl now jti c)).
Proof. intro H. unfold sys_claims. repeat apply mset_nodup. exact H. Qed.

(** system claims: whatever the custom claims are *)
Lemma system_claims_win st iss sub ttl now jti custom t :
  sign st iss sub ttl now jti custom = Ok t ->
  mget "sub" (t_claims t) = Some (VStr sub) /\
  mget "iss" (t_claims t) = Some (VStr iss) /\
  mget "iat" (t_claims t) = Some (VInt (unix now)) /\
  mget "nbf" (t_claims t) = Some (VInt (unix now)) /\
  mget "exp" (t_claims t) = Some (VInt (unix (now + ttl))) /\
  mget "jti" (t_claims t) = Some jti /\
  (forall k, ~ In k reserved ->
     mget k (t_claims t) = match tmpl_get k custom with Some v => Some v | None => None end).
Proof.
  intro H. apply sign_ok_inv in H as [_ ->]. simpl.
  pose proof (sys_claims_get iss sub ttl now jti (merge custom [])) as G. cbv zeta in G.
  destruct G as (G1 & G2 & G3 & G4 & G5 & G6). repeat (split; [assumption|]).
  intros k Hk. rewrite sys_claims_other by exact Hk. rewrite mget_merge. reflexivity.
Qed.

(** exp is the ttl later: exactly for whole-second ttls, else within the second *)
Lemma exp_minus_iat now ttl :
  (ttl / second <= unix (now + ttl) - unix now <= (ttl + 999999999) / second)%Z.
Proof. unfold unix, second. Z.div_mod_to_equations. lia. Qed.

Lemma exp_minus_iat_whole now s : (unix (now + s * second) - unix now = s)%Z.
Proof. unfold unix, second. Z.div_mod_to_equations. lia. Qed.

(* ------------------------------------------------------------------ key store and load against the specification *)

Definition entry_of (r : raw_entry) : entry :=
  {| e_kid := kid_of r; e_key := r_key r; e_chain := r_chain r; e_usage_ok := r_usage_ok r |}.

(** the signer's fields when [cur] = (active entry, all entries) is the current store *)
Definition state_of (cur : raw_entry * list raw_entry) : state :=
  {| s_jwk := spec_jwk (fst cur); s_key := Priv (r_key (fst cur)); s_pub := spec_jwks (snd cur) |}.

Lemma jose_alg_spec k : jose_alg k = spec_alg k.
Proof.
  destruct k as [i kind size]. unfold jose_alg, spec_alg, alg_table. cbn [k_kind k_size].
  destruct kind; cbn [find fst snd keykind_eqb andb];
    repeat rewrite (Z.eqb_sym size);
    repeat match goal with |- context [Z.eqb ?c size] => destruct (Z.eqb c size); cbn [snd] end;
    reflexivity.
Qed.

Definition chain_fine (r : raw_entry) : bool := is_nil (r_chain r) || r_chain_ok r.

Lemma forallb_notin_cons x known l :
  forallb (fun k => negb (str_in k (x :: known))) l =
  negb (str_in x l) && forallb (fun k => negb (str_in k known)) l.
Proof.
  induction l as [|y r IH]; [reflexivity|]. cbn [forallb]. rewrite IH.
  change (str_in y (x :: known)) with (String.eqb y x || str_in y known).
  change (str_in x (y :: r)) with (String.eqb x y || str_in x r).
  rewrite (String.eqb_sym y x).
  destruct (String.eqb x y), (str_in y known), (str_in x r); reflexivity.
Qed.

Lemma verify_build_char rs : forall known,
  verify_build known rs =
  if forallb chain_fine rs && distinct (map kid_of rs) && forallb (fun k => negb (str_in k known)) (map kid_of rs)
  then Ok (map entry_of rs) else Err.
Proof.
  induction rs as [|r rest IH]; intro known; simpl; [reflexivity|].
  fold (kid_of r). unfold chain_fine at 1.
  rewrite <- negb_orb. destruct (is_nil (r_chain r) || r_chain_ok r); simpl; [|reflexivity].
  destruct (str_in (kid_of r) known) eqn:K; simpl.
  - rewrite !andb_false_r. reflexivity.
  - rewrite IH, forallb_notin_cons.
    destruct (forallb chain_fine rest), (str_in (kid_of r) (map kid_of rest)), (distinct (map kid_of rest)),
      (forallb (fun k => negb (str_in k known)) (map kid_of rest)); reflexivity.
Qed.

Lemma forallb_andb {A} (f g : A -> bool) l :
  forallb (fun x => f x && g x) l = forallb f l && forallb g l.
Proof.
  induction l as [|x r IH]; simpl; [reflexivity|]. rewrite IH.
  destruct (f x), (g x), (forallb f r), (forallb g r); reflexivity.
Qed.

Lemma forallb_true {A} (l : list A) : forallb (fun _ => true) l = true.
Proof. induction l; simpl; auto. Qed.

Lemma entry_jwk_char r :
  entry_jwk (entry_of r) = match spec_alg (r_key r) with Some _ => Ok (spec_jwk r) | None => Panic end.
Proof.
  unfold entry_jwk, spec_jwk. simpl. rewrite jose_alg_spec. destruct (spec_alg (r_key r)); reflexivity.
Qed.

Lemma entries_jwks_char rs :
  entries_jwks (map entry_of rs) =
  if forallb (fun r => some (spec_alg (r_key r))) rs then Ok (spec_jwks rs) else Panic.
Proof.
  induction rs as [|r rest IH]; simpl; [reflexivity|].
  rewrite entry_jwk_char. destruct (spec_alg (r_key r)); simpl; [|reflexivity].
  rewrite IH. destruct (forallb (fun r0 => some (spec_alg (r_key r0))) rest); reflexivity.
Qed.

Lemma get_key_char id rs :
  get_key id (map entry_of rs) = option_map entry_of (find (fun r => String.eqb (kid_of r) id) rs).
Proof.
  unfold get_key. induction rs as [|r rest IH]; simpl; [reflexivity|].
  destruct (String.eqb (kid_of r) id); [reflexivity | exact IH].
Qed.

Lemma create_entry_ok_spec r : create_entry_ok r = some (spec_alg (r_key r)).
Proof.
  unfold create_entry_ok, spec_alg, alg_table. destruct (r_key r) as [i kind size]. cbn [k_kind k_size].
  destruct kind; cbn [find fst snd keykind_eqb andb];
    repeat rewrite (Z.eqb_sym size);
    repeat match goal with |- context [Z.eqb ?c size] => destruct (Z.eqb c size); cbn [snd orb some] end;
    reflexivity.
Qed.

Lemma supported_not_other rs :
  forallb (fun r => some (spec_alg (r_key r))) rs = true -> forallb create_entry_ok rs = true.
Proof.
  intro H. rewrite forallb_forall in *. intros r Hr. rewrite create_entry_ok_spec. apply H. exact Hr.
Qed.

Lemma spec_active_in cfg rs a : spec_active cfg rs = Some a -> In a rs.
Proof.
  unfold spec_active. destruct (String.eqb cfg "").
  - destruct rs; simpl; intro H; inversion H. left. reflexivity.
  - intro H. apply find_some in H. apply H.
Qed.

Lemma spec_active_kid cfg rs a :
  spec_active cfg rs = Some a -> cfg <> "" -> kid_of a = cfg.
Proof.
  unfold spec_active. intros H Hne. apply String.eqb_neq in Hne. rewrite Hne in H.
  apply find_some in H. apply String.eqb_eq. apply H.
Qed.

Lemma store_usable_split rs :
  store_usable rs = forallb (fun r => some (spec_alg (r_key r))) rs && forallb chain_fine rs && distinct (map kid_of rs).
Proof. unfold store_usable. rewrite (forallb_andb (fun r => some (spec_alg (r_key r))) chain_fine). reflexivity. Qed.

(** every file the specification accepts is loaded, into exactly the specified fields *)
Lemma load_complete cfg f cur :
  spec_accept cfg f = Some cur -> load cfg f = Ok (state_of cur).
Proof.
  unfold spec_accept, load, keystore_of. destruct f as [|rs]; [discriminate|].
  rewrite store_usable_split.
  destruct (forallb (fun r => some (spec_alg (r_key r))) rs) eqn:A; simpl; [|discriminate].
  destruct (forallb chain_fine rs) eqn:B; simpl; [|discriminate].
  destruct (distinct (map kid_of rs)) eqn:C; simpl; [|discriminate].
  destruct (spec_active cfg rs) as [a|] eqn:Act; [|discriminate].
  destruct (is_nil (r_chain a) || r_usage_ok a) eqn:U; [|discriminate].
  intro H. inversion H; subst cur. clear H.
  assert (Ha : In a rs) by (eapply spec_active_in; exact Act).
  assert (Hne : is_nil rs = false) by (destruct rs; [contradiction | reflexivity]).
  rewrite (supported_not_other rs A), Hne, verify_build_char, B, C. simpl.
  rewrite forallb_true.
  assert (Hal : exists alg, spec_alg (r_key a) = Some alg).
  { rewrite forallb_forall in A. specialize (A a Ha). destruct (spec_alg (r_key a)); [eexists; reflexivity | discriminate]. }
  destruct Hal as [alg Hal].
  unfold spec_active in Act.
  assert (Fin : forall e, e = entry_of a ->
    (if negb (is_nil (e_chain e)) && negb (e_usage_ok e) then @Err state else
     match entries_jwks (map entry_of rs) with
     | Ok keys => match entry_jwk e with
                  | Ok j => Ok {| s_jwk := j; s_key := Priv (e_key e); s_pub := keys |}
                  | Err => Err | Panic => Panic end
     | Err => Err | Panic => Panic end) = Ok (state_of (a, rs))).
  { intros e ->. simpl. rewrite <- negb_orb, U. simpl.
    rewrite entries_jwks_char, A, entry_jwk_char, Hal. reflexivity. }
  destruct (String.eqb cfg "").
  - destruct rs as [|r rest]; simpl in Act; [discriminate|]. inversion Act; subst r. simpl map.
    exact (Fin (entry_of a) eq_refl).
  - rewrite get_key_char, Act. simpl. exact (Fin (entry_of a) eq_refl).
Qed.

(** and nothing else is *)
Lemma load_sound cfg f st :
  load cfg f = Ok st -> exists cur, spec_accept cfg f = Some cur /\ st = state_of cur.
Proof.
  unfold load, keystore_of. destruct f as [|rs]; [discriminate|].
  destruct (forallb create_entry_ok rs) eqn:CE; [|discriminate].
  destruct (is_nil rs) eqn:Hne; [discriminate|].
  rewrite verify_build_char, forallb_true, andb_true_r.
  destruct (forallb chain_fine rs) eqn:B; simpl; [|discriminate].
  destruct (distinct (map kid_of rs)) eqn:C; simpl; [|discriminate].
  assert (Fin : forall a, spec_active cfg rs = Some a ->
    (if negb (is_nil (e_chain (entry_of a))) && negb (e_usage_ok (entry_of a)) then @Err state else
     match entries_jwks (map entry_of rs) with
     | Ok keys => match entry_jwk (entry_of a) with
                  | Ok j => Ok {| s_jwk := j; s_key := Priv (e_key (entry_of a)); s_pub := keys |}
                  | Err => Err | Panic => Panic end
     | Err => Err | Panic => Panic end) = Ok st ->
    exists cur, spec_accept cfg (PemOk rs) = Some cur /\ st = state_of cur).
  { intros a Act. simpl. rewrite <- negb_orb.
    destruct (is_nil (r_chain a) || r_usage_ok a) eqn:U; simpl; [|discriminate].
    rewrite entries_jwks_char.
    destruct (forallb (fun r => some (spec_alg (r_key r))) rs) eqn:A; [|discriminate].
    rewrite entry_jwk_char. destruct (spec_alg (r_key a)) eqn:Hal; [|discriminate].
    intro H. inversion H; subst st. exists (a, rs). split; [|reflexivity].
    unfold spec_accept. rewrite store_usable_split, A, B, C, Act, U. reflexivity. }
  unfold spec_active in Fin.
  destruct (String.eqb cfg "").
  - destruct rs as [|r rest]; [discriminate|]. simpl map. exact (Fin r eq_refl).
  - rewrite get_key_char. destruct (find (fun r => String.eqb (kid_of r) cfg) rs) as [a|] eqn:F; simpl; [|discriminate].
    exact (Fin a eq_refl).
Qed.

Lemma load_not_ok cfg f : spec_accept cfg f = None -> forall st, load cfg f <> Ok st.
Proof.
  intros H st L. apply load_sound in L as [cur [Hc _]]. rewrite H in Hc. discriminate.
Qed.

(* ------------------------------------------------------------------ a freshly signed token meets the claims specification *)

Lemma tmpl_get_nodup k m : NoDup (map fst m) -> tmpl_get k m = mget k m.
Proof.
  induction m as [|[k' v'] r IH]; simpl; intro H; [reflexivity|].
  inversion H as [|? ? Hn Hr]; subst. rewrite (IH Hr).
  destruct (mget k r) eqn:G.
  - destruct (String.eqb k k') eqn:E; [|reflexivity].
    apply String.eqb_eq in E. subst. exfalso. apply Hn. apply mget_some_in in G.
    apply in_map_iff. exists (k', c). auto.
  - reflexivity.
Qed.

Definition custom_of (c : config) (sub : string) : cmap :=
  match c_claims c with Some t => render sub t | None => [] end.

Lemma custom_of_nodup c sub : NoDup (map fst (custom_of c sub)).
Proof. unfold custom_of. destruct (c_claims c); [apply render_nodup | constructor]. Qed.

Lemma mget_custom c sub k :
  mget k (merge (custom_of c sub) []) = option_map (resolve sub) (tmpl_get k (tmpl_of c)).
Proof.
  rewrite mget_merge, (tmpl_get_nodup k _ (custom_of_nodup c sub)). simpl.
  unfold custom_of, tmpl_of. destruct (c_claims c) as [t|].
  - rewrite mget_render. destruct (tmpl_get k t); reflexivity.
  - reflexivity.
Qed.

Lemma ttl_eq c : spec_ttl c = ttl_of c.
Proof. unfold spec_ttl, ttl_of. destruct (c_ttl c); reflexivity. Qed.

Lemma reuse_eq c : (c_cache c && (cache_leeway <? ttl_of c)%Z) = reuse_allowed c.
Proof. unfold reuse_allowed. rewrite <- (ttl_eq c). reflexivity. Qed.

Definition fresh_claims (c : config) (sub : string) (now : Z) (n : nat) : cmap :=
  sys_claims (issuer c) sub (ttl_of c) now (VJti n) (merge (custom_of c sub) []).

Lemma fresh_claims_nodup c sub now n : NoDup (map fst (fresh_claims c sub now n)).
Proof. apply sys_claims_nodup, merge_nodup. constructor. Qed.

Lemma claim_is_get k v m : mget k m = Some v -> claim_is k v m = true.
Proof. unfold claim_is. intros ->. apply cval_eqb_refl. Qed.

Lemma fresh_claims_ok c sub now n :
  claims_ok c sub (fresh_claims c sub now n) = true /\ times_exact c now (fresh_claims c sub now n) = true.
Proof.
  set (m := fresh_claims c sub now n).
  pose proof (sys_claims_get (issuer c) sub (ttl_of c) now (VJti n) (merge (custom_of c sub) [])) as G.
  cbv zeta in G. fold (fresh_claims c sub now n) in G. fold m in G.
  destruct G as (G1 & G2 & G3 & G4 & G5 & G6).
  split.
  - unfold claims_ok. rewrite !andb_true_iff. repeat split.
    + apply claim_is_get. exact G1.
    + apply claim_is_get. exact G2.
    + unfold claim_int. rewrite G3, G4, G5, ttl_eq. rewrite !andb_true_iff.
      pose proof (exp_minus_iat now (ttl_of c)) as B. unfold second in B.
      repeat split; [apply Z.eqb_refl | apply Z.leb_le; apply B | apply Z.leb_le; apply B].
    + rewrite G6. reflexivity.
    + apply forallb_forall. intros [k v] Hin. cbn [fst snd].
      destruct (str_in k reserved) eqn:R; [reflexivity|]. cbn [orb].
      apply str_in_false in R.
      pose proof (mget_in k v m (fresh_claims_nodup c sub now n) Hin) as Hg.
      unfold m, fresh_claims in Hg. rewrite sys_claims_other in Hg by exact R.
      rewrite mget_custom in Hg. destruct (tmpl_get k (tmpl_of c)) as [v0|]; simpl in Hg; [|discriminate].
      inversion Hg; subst v. unfold resolve. apply cval_eqb_refl.
    + apply forallb_forall. intros [k v0] Hin. cbn [fst snd].
      destruct (str_in k reserved) eqn:R; [reflexivity|]. cbn [orb].
      apply str_in_false in R. unfold m, fresh_claims. rewrite sys_claims_other by exact R.
      rewrite mget_custom.
      destruct (tmpl_get_in k (tmpl_of c)) as [v1 Hv1].
      { apply in_map_iff. exists (k, v0). auto. }
      rewrite Hv1. reflexivity.
  - unfold times_exact. rewrite !andb_true_iff. rewrite ttl_eq. repeat split; apply claim_is_get; assumption.
Qed.

(* ------------------------------------------------------------------ whole histories *)

Lemma tmpl_eqb_eq a b : tmpl_eqb a b = true <-> a = b.
Proof.
  unfold tmpl_eqb. apply list_eqb_spec. intros [k1 v1] [k2 v2]. simpl.
  rewrite andb_true_iff, String.eqb_eq, cval_eqb_eq. split.
  - intros [-> ->]. reflexivity.
  - intro H. inversion H. auto.
Qed.

Lemma ckey_eqb_eq a b : ckey_eqb a b = true -> a = b.
Proof.
  destruct a as [a1 a2 a3 a4 a5 a6 a7], b as [b1 b2 b3 b4 b5 b6 b7]. unfold ckey_eqb. simpl.
  rewrite !andb_true_iff. intros [[[[[[H1 H2] H3] H4] H5] H6] H7].
  apply String.eqb_eq in H1, H2, H3, H4. apply Z.eqb_eq in H6. subst.
  assert (a5 = b5).
  { destruct a5 as [x|], b5 as [y|]; simpl in H5; try discriminate; [|reflexivity].
    apply keyref_eqb_eq in H5. subst. reflexivity. }
  assert (a7 = b7).
  { destruct a7 as [x|], b7 as [y|]; simpl in H7; try discriminate; [|reflexivity].
    apply tmpl_eqb_eq in H7. subst. reflexivity. }
  subst. reflexivity.
Qed.

Lemma cache_get_in k c t : cache_get k c = Some t -> In (k, t) c.
Proof.
  induction c as [|[k' t'] r IH]; simpl; intro H; [discriminate|].
  destruct (ckey_eqb k k') eqn:E.
  - apply ckey_eqb_eq in E. inversion H; subst. left. reflexivity.
  - right. apply IH. exact H.
Qed.

Lemma cmap_eqb_refl m : cmap_eqb m m = true.
Proof.
  unfold cmap_eqb. apply forallb_forall. intros k _.
  destruct (mget k m); simpl; [apply cval_eqb_refl | reflexivity].
Qed.

Lemma token_eqb_refl t : token_eqb t t = true.
Proof.
  unfold token_eqb. rewrite !String.eqb_refl, keymat_eqb_refl, cmap_eqb_refl. reflexivity.
Qed.

Lemma spec_accept_good cfg f a rs :
  spec_accept cfg f = Some (a, rs) -> In a rs /\ exists alg, spec_alg (r_key a) = Some alg.
Proof.
  unfold spec_accept. destruct f as [|rs']; [discriminate|].
  rewrite store_usable_split.
  destruct (forallb (fun r => some (spec_alg (r_key r))) rs') eqn:Al; simpl; [|discriminate].
  destruct (forallb chain_fine rs' && distinct (map kid_of rs')); [|discriminate].
  destruct (spec_active cfg rs') as [a'|] eqn:Act; [|discriminate].
  destruct (is_nil (r_chain a') || r_usage_ok a'); [|discriminate].
  intro H. inversion H; subst. pose proof (spec_active_in _ _ _ Act) as Hin. split; [exact Hin|].
  rewrite forallb_forall in Al. specialize (Al a Hin).
  destruct (spec_alg (r_key a)); [eexists; reflexivity | discriminate].
Qed.

Lemma can_sign_active a alg : spec_alg (r_key a) = Some alg -> can_sign alg (Priv (r_key a)) = true.
Proof.
  intro H. unfold can_sign. rewrite jose_alg_spec, H.
  destruct (r_key a) as [i kind size]. simpl. destruct kind.
  - unfold spec_alg, alg_table in H. cbn [k_kind k_size find fst snd keykind_eqb andb] in H.
    repeat match type of H with context [Z.eqb ?c size] => destruct (Z.eqb c size); cbn [snd] in H end;
      inversion H; reflexivity.
  - apply String.eqb_refl.
  - unfold spec_alg in H. simpl in H. discriminate.
Qed.

Lemma verifies_active a rs t :
  In a rs -> t_kid t = kid_of a -> t_key t = Priv (r_key a) -> verifies t (spec_jwks rs) = true.
Proof.
  intros Hin Hk Hkey. unfold verifies. apply existsb_exists. exists (spec_jwk a). split.
  - unfold spec_jwks. apply in_map. exact Hin.
  - simpl. rewrite Hk, Hkey, String.eqb_refl. simpl. apply keyref_eqb_refl.
Qed.

Lemma verifies_app t l1 l2 l3 : verifies t l2 = true -> verifies t (l1 ++ l2 ++ l3) = true.
Proof.
  unfold verifies. intro H. rewrite !existsb_app, H. rewrite orb_true_r. reflexivity.
Qed.

Lemma others_pub_spec fs : others_pub fs = spec_others fs.
Proof.
  unfold others_pub, spec_others. induction fs as [|f r IH]; simpl; [reflexivity|]. rewrite IH. f_equal.
  destruct (load "" f) as [st| |] eqn:L.
  - apply load_sound in L as [cur [Hacc ->]]. rewrite Hacc. reflexivity.
  - destruct (spec_accept "" f) eqn:Hacc; [|reflexivity].
    apply load_complete in Hacc. rewrite Hacc in L. discriminate.
  - destruct (spec_accept "" f) eqn:Hacc; [|reflexivity].
    apply load_complete in Hacc. rewrite Hacc in L. discriminate.
Qed.

Lemma spec_others_public fs j : In j (spec_others fs) -> is_private (j_key j) = false.
Proof.
  unfold spec_others. intro H. apply in_flat_map in H as [f [_ Hj]].
  destruct (spec_accept "" f) as [cur|]; [|contradiction].
  unfold spec_jwks in Hj. apply in_map_iff in Hj as [r [<- _]]. reflexivity.
Qed.

Lemma jwks_spec c w cur : w_st w = state_of cur -> jwks c w = spec_published (c_before c) (c_after c) (snd cur).
Proof. intro H. unfold jwks, spec_published. rewrite H, !others_pub_spec. reflexivity. Qed.

Lemma keymat_eqb_eq a b : keymat_eqb a b = true <-> a = b.
Proof.
  destruct a as [x|x], b as [y|y]; simpl; split; intro H; try discriminate;
    try (apply keyref_eqb_eq in H; subst; reflexivity); inversion H; apply keyref_eqb_refl.
Qed.

Lemma jwk_eqb_eq x y : jwk_eqb x y = true <-> x = y.
Proof.
  destruct x as [k1 a1 m1 u1 c1], y as [k2 a2 m2 u2 c2]. unfold jwk_eqb. simpl.
  rewrite !andb_true_iff, !String.eqb_eq, keymat_eqb_eq.
  unfold list_nat_eqb. rewrite (list_eqb_spec Nat.eqb Nat.eqb_eq). split.
  - intros [[[[H1 H2] H3] H4] H5]. subst. reflexivity.
  - intro H. inversion H. auto.
Qed.

Lemma sign_active c a rs alg sub now n :
  spec_alg (r_key a) = Some alg ->
  sign (state_of (a, rs)) (issuer c) sub (ttl_of c) now (VJti n) (custom_of c sub) =
  Ok {| t_alg := alg; t_kid := kid_of a; t_typ := "JWT"; t_key := Priv (r_key a);
        t_claims := fresh_claims c sub now n |}.
Proof.
  intro H. unfold sign, state_of, spec_jwk. cbn [fst snd s_jwk s_key j_alg j_kid]. rewrite H.
  rewrite (can_sign_active a alg H). reflexivity.
Qed.

(** the claims specification depends on a configuration only through issuer, ttl and template *)
Lemma claims_ok_ext c1 c2 sub m :
  issuer c1 = issuer c2 -> ttl_of c1 = ttl_of c2 -> c_claims c1 = c_claims c2 ->
  claims_ok c1 sub m = claims_ok c2 sub m.
Proof.
  intros Hi Ht Hc. unfold claims_ok, tmpl_of. rewrite !ttl_eq.
  change (spec_iss c1) with (issuer c1). change (spec_iss c2) with (issuer c2).
  rewrite Hi, Ht, Hc. reflexivity.
Qed.

Lemma with_config_spec c o :
  with_config c o = match spec_variant c o with Some ce => Ok ce | None => Err end.
Proof.
  unfold with_config, spec_variant, overlay. destruct (o_unknown o); simpl; [reflexivity|].
  destruct (o_ttl o) as [t|]; [|reflexivity].
  rewrite (Z.leb_antisym second t). unfold second. destruct (1000000000 <? t)%Z; reflexivity.
Qed.

Section Histories.
  Variable fixed : bool.           (* is the repair of C16-F1 in place *)
  Variable c : config.             (* the catalogue (prototype) configuration *)
  Variable A : list raw_entry.     (* the active entries of all accepted files of the run *)
  Hypothesis no_clash :
    fixed = false -> c_cache c = true -> forall a b, In a A -> In b A -> clash a b = false.

  (** prototype and variants share signer, cache and registry *)
  Definition same_base (ce : config) : Prop :=
    c_cache ce = c_cache c /\ issuer ce = issuer c /\ c_before ce = c_before c /\ c_after ce = c_after c.

  Definition cached_ok (seen : list token) (e : ckey * token) : Prop :=
    let '(key, t) := e in
    In t seen /\
    exists ce sub b, same_base ce /\ reuse_allowed ce = true /\
      key = {| ck_kid := t_kid t; ck_alg := t_alg t; ck_iss := issuer ce; ck_sub := sub;
               ck_key := if fixed then Some (r_key b) else None; ck_ttl := ttl_of ce; ck_claims := c_claims ce |} /\
      claims_ok ce sub (t_claims t) = true /\
      In b A /\ kid_of b = t_kid t /\ spec_alg (r_key b) = Some (t_alg t) /\
      t_key t = Priv (r_key b) /\ t_typ t = "JWT".

  Record winv (cur : raw_entry * list raw_entry) (seen : list token) (w : world) : Prop := {
    wi_state : w_st w = state_of cur;
    wi_in : In (fst cur) (snd cur);
    wi_alg : exists alg, spec_alg (r_key (fst cur)) = Some alg;
    wi_A : In (fst cur) A;
    wi_jti : forall t, In t seen -> exists n, jti_of t = Some (VJti n) /\ n < w_minted w;
    wi_cache : forall e, In e (w_cache w) -> cached_ok seen e }.

  Lemma same_jti_self t n : jti_of t = Some (VJti n) -> same_jti t t = true.
  Proof. unfold same_jti. intros ->. simpl. apply Nat.eqb_refl. Qed.

  Lemma jwks_base ce w : same_base ce -> jwks ce w = jwks c w.
  Proof. intros (_ & _ & Hb & Ha). unfold jwks. rewrite Hb, Ha. reflexivity. Qed.

  Lemma cached_mono seen t e : cached_ok seen e -> cached_ok (t :: seen) e.
  Proof.
    destruct e as [k u]. simpl. intros (H1 & H2). split; [right; exact H1 | exact H2].
  Qed.

  (** Execute on the prototype or a variant with effective configuration [ce] *)
  Lemma exec_ok ce cur seen w sub now :
    same_base ce ->
    winv cur seen w ->
    exists w' t, exec fixed ce w sub now = (w', Ok t) /\
                 token_ok ce cur seen sub now t (verifies t (jwks c w')) = true /\
                 winv cur (t :: seen) w'.
  Proof.
    intros Hbase [Hst Hin [alg Halg] HA Hjti Hcache]. destruct cur as [a rs]. simpl in *.
    assert (Hpub : spec_published (c_before ce) (c_after ce) rs = spec_published (c_before c) (c_after c) rs).
    { destruct Hbase as (_ & _ & Hb & Ha). rewrite Hb, Ha. reflexivity. }
    unfold exec. rewrite Hst. cbn [state_of fst snd s_jwk s_key s_pub spec_jwk j_kid j_alg j_key keyref_of]. rewrite Halg.
    set (ck := {| ck_kid := kid_of a; ck_alg := alg; ck_iss := issuer ce; ck_sub := sub;
                  ck_key := if fixed then Some (r_key a) else None; ck_ttl := ttl_of ce; ck_claims := c_claims ce |}).
    destruct (if c_cache ce then cache_get ck (w_cache w) else None) as [t|] eqn:Hit.
    - (* reuse *)
      assert (Hcc : c_cache ce = true) by (destruct (c_cache ce); [reflexivity | discriminate]).
      assert (Hg : cache_get ck (w_cache w) = Some t) by (rewrite Hcc in Hit; exact Hit).
      apply cache_get_in in Hg. pose proof (Hcache _ Hg) as Hc. simpl in Hc.
      destruct Hc as (Hseen & ce0 & sub' & b & Hb0 & Hre0 & Hkey & Hcl0 & HbA & Hbk & Hbalg & Hbkey & Htyp).
      unfold ck in Hkey. inversion Hkey as [[K1 K2 K3 K4 K5 K6 K7]]. subst sub'.
      assert (Hcl : claims_ok ce sub (t_claims t) = true).
      { rewrite (claims_ok_ext ce ce0 sub (t_claims t) K3 K6 K7). exact Hcl0. }
      assert (Hre : reuse_allowed ce = true).
      { unfold reuse_allowed in *. rewrite ttl_eq in *. rewrite K6.
        destruct Hbase as (Hc1 & _). destruct Hb0 as (Hc0 & _). rewrite Hc1, <- Hc0. exact Hre0. }
      assert (Hsame : r_key b = r_key a).
      { destruct fixed eqn:Hfx; [inversion K5; reflexivity|].
        assert (Hcp : c_cache c = true) by (destruct Hbase as (Hc1 & _); rewrite <- Hc1; exact Hcc).
        pose proof (no_clash eq_refl Hcp a b HA HbA) as Hn. unfold clash in Hn.
        rewrite Hbk, <- K1, String.eqb_refl, Hbalg, Halg, <- K2 in Hn. simpl in Hn. rewrite String.eqb_refl in Hn.
        simpl in Hn. apply negb_false_iff in Hn. apply keyref_eqb_eq in Hn. symmetry. exact Hn. }
      exists w, t. split; [reflexivity|].
      assert (Hver2 : verifies t (spec_published (c_before ce) (c_after ce) rs) = true).
      { apply verifies_app.
        apply verifies_active with (a := a); [exact Hin | symmetry; exact K1 | rewrite Hbkey, Hsame; reflexivity]. }
      assert (Hver : verifies t (jwks c w) = true).
      { rewrite (jwks_spec c w (a, rs) Hst). cbn [snd]. rewrite <- Hpub. exact Hver2. }
      split.
      + unfold token_ok. rewrite Hver. cbn [fst snd andb]. rewrite Hver2. cbn [andb].
        assert (Hh : header_ok a t = true).
        { unfold header_ok. rewrite <- K1, String.eqb_refl, Halg, <- K2, String.eqb_refl, Htyp, Hbkey, Hsame. simpl.
          apply keyref_eqb_refl. }
        rewrite Hh, Hcl. simpl.
        destruct (Hjti t Hseen) as [n [Hn _]].
        assert (He : existsb (same_jti t) seen = true).
        { apply existsb_exists. exists t. split; [exact Hseen | eapply same_jti_self; exact Hn]. }
        rewrite He, Hre. simpl. apply existsb_exists. exists t. split; [exact Hseen | apply token_eqb_refl].
      + constructor; simpl; try assumption.
        * eexists; exact Halg.
        * intros t' [<-|Ht']; [apply Hjti; exact Hseen | apply Hjti; exact Ht'].
        * intros e He. apply cached_mono. apply Hcache. exact He.
    - (* mint *)
      fold (custom_of ce sub).
      rewrite (sign_active ce a rs alg sub now (w_minted w) Halg).
      set (t := {| t_alg := alg; t_kid := kid_of a; t_typ := "JWT"; t_key := Priv (r_key a);
                   t_claims := fresh_claims ce sub now (w_minted w) |}).
      eexists. exists t. split; [reflexivity|].
      destruct (fresh_claims_ok ce sub now (w_minted w)) as [Hcl Hte].
      assert (Hjt : jti_of t = Some (VJti (w_minted w))).
      { unfold jti_of, t. simpl.
        pose proof (sys_claims_get (issuer ce) sub (ttl_of ce) now (VJti (w_minted w)) (merge (custom_of ce sub) [])) as G.
        cbv zeta in G. apply G. }
      assert (Hver : verifies t (spec_published (c_before ce) (c_after ce) rs) = true)
        by (apply verifies_app; apply verifies_active with (a := a); [exact Hin | reflexivity | reflexivity]).
      split.
      + erewrite (jwks_spec c _ (a, rs)) by reflexivity. cbn [snd]. rewrite <- Hpub.
        assert (Hh : header_ok a t = true).
        { unfold header_ok, t. simpl. rewrite String.eqb_refl, Halg, String.eqb_refl. simpl. apply keyref_eqb_refl. }
        assert (He : existsb (same_jti t) seen = false).
        { apply not_true_is_false. intro E. apply existsb_exists in E as [u [Hu Hs]].
          destruct (Hjti u Hu) as [n [Hn Hlt]]. unfold same_jti in Hs. rewrite Hjt, Hn in Hs. simpl in Hs.
          apply Nat.eqb_eq in Hs. lia. }
        unfold token_ok. rewrite He. cbn [fst snd]. rewrite !andb_true_iff.
        repeat split; [exact Hver | exact Hver | exact Hh | exact Hcl | exact Hte].
      + constructor; cbn [w_st w_cache w_minted fst snd]; try assumption; try reflexivity.
        * eexists; exact Halg.
        * intros t' [<-|Ht'].
          -- exists (w_minted w). split; [exact Hjt | lia].
          -- destruct (Hjti t' Ht') as [n [Hn Hlt]]. exists n. split; [exact Hn | lia].
        * intros e He. rewrite reuse_eq in He.
          destruct (reuse_allowed ce) eqn:Hre.
          -- destruct He as [<-|He]; [| apply cached_mono; apply Hcache; exact He].
             simpl. split; [left; reflexivity|].
             exists ce, sub, a. unfold t, ck. simpl. repeat split; try reflexivity; try assumption; apply Hbase.
          -- apply cached_mono. apply Hcache. exact He.
  Qed.

  Lemma steps_ok ops : forall cur seen w,
    winv cur seen w ->
    incl (accepted_of (c_keyid c) (files_of ops)) A ->
    obs_ok c cur seen ops (steps fixed c w ops) = true.
  Proof.
    induction ops as [|o ops IH]; intros cur seen w Hw Hincl; [reflexivity|].
    destruct o as [ov sub now | f |].
    - (* Execute on the prototype or a variant *)
      cbn [steps step obs_ok]. unfold spec_target.
      assert (Htarget : (match ov with None => Ok c | Some o => with_config c o end) =
                        match (match ov with None => Some c | Some o => spec_variant c o end) with
                        | Some ce => Ok ce | None => Err end).
      { destruct ov as [o|]; [apply with_config_spec | reflexivity]. }
      rewrite Htarget.
      destruct (match ov with None => Some c | Some o => spec_variant c o end) as [ce|] eqn:Hce.
      + assert (Hbase : same_base ce).
        { destruct ov as [o|].
          - unfold spec_variant in Hce.
            destruct (o_unknown o || match o_ttl o with Some t => negb (1000000000 <? t)%Z | None => false end); [discriminate|].
            inversion Hce; subst ce. unfold same_base, issuer. simpl. repeat split; reflexivity.
          - inversion Hce; subst ce. unfold same_base. repeat split; reflexivity. }
        destruct (exec_ok ce cur seen w sub now Hbase Hw) as (w' & t & He & Hok & Hw').
        rewrite He. rewrite Hok. simpl. apply IH; [exact Hw' | exact Hincl].
      + apply IH; assumption.
    - (* reload *)
      cbn [steps step]. unfold reload. cbn [files_of flat_map app accepted_of] in Hincl.
      change (flat_map (fun o => match o with OReload f0 => [f0] | _ => [] end) ops) with (files_of ops) in Hincl.
      destruct (load (c_keyid c) f) as [st| |] eqn:L.
      + apply load_sound in L as [cur' [Hacc ->]]. cbn [obs_ok]. rewrite Hacc.
        destruct cur' as [a' rs']. rewrite Hacc in Hincl.
        destruct (spec_accept_good _ _ _ _ Hacc) as [Hin' Halg'].
        apply IH.
        * destruct Hw. constructor; simpl; try assumption; try reflexivity. apply Hincl. left. reflexivity.
        * intros x Hx. apply Hincl. right. exact Hx.
      + destruct (spec_accept (c_keyid c) f) as [cur'|] eqn:Hacc.
        * apply load_complete in Hacc. rewrite Hacc in L. discriminate.
        * cbn [obs_ok]. rewrite Hacc. apply IH; assumption.
      + destruct (spec_accept (c_keyid c) f) as [cur'|] eqn:Hacc.
        * apply load_complete in Hacc. rewrite Hacc in L. discriminate.
        * cbn [obs_ok]. rewrite Hacc. apply IH; assumption.
    - (* JWKS *)
      cbn [steps step obs_ok]. destruct Hw as [Hst]. rewrite (jwks_spec c w cur Hst).
      assert (Hj : jwks_ok c cur (spec_published (c_before c) (c_after c) (snd cur)) = true).
      { unfold jwks_ok. apply andb_true_iff. split.
        - apply (list_eqb_spec jwk_eqb jwk_eqb_eq). reflexivity.
        - unfold spec_published. apply forallb_forall. intros j Hj.
          apply in_app_or in Hj as [Hj|Hj]; [rewrite (spec_others_public _ _ Hj); reflexivity|].
          apply in_app_or in Hj as [Hj|Hj]; [|rewrite (spec_others_public _ _ Hj); reflexivity].
          unfold spec_jwks in Hj. apply in_map_iff in Hj as [r [<- _]]. reflexivity. }
      rewrite Hj. simpl. apply IH; [constructor; assumption | exact Hincl].
  Qed.
End Histories.

Lemma guard_no_clash c f ops :
  guard_F1 c f ops = false ->
  c_cache c = true ->
  forall a b, In a (accepted_of (c_keyid c) (f :: files_of ops)) ->
              In b (accepted_of (c_keyid c) (f :: files_of ops)) -> clash a b = false.
Proof.
  unfold guard_F1. intros G Hre a b Ha Hb. rewrite Hre in G. simpl andb in G.
  apply not_true_is_false. intro Hc. apply not_true_iff_false in G. apply G.
  apply existsb_exists. exists a. split; [exact Ha|]. apply existsb_exists. exists b. split; assumption.
Qed.

Lemma create_char c f :
  create c f = if ttl_valid c
               then match load (c_keyid c) f with
                    | Ok st => Ok {| w_st := st; w_cache := []; w_minted := 0 |}
                    | Err => Err | Panic => Panic end
               else Err.
Proof.
  unfold create, ttl_valid. destruct (c_ttl c) as [t|]; [|reflexivity].
  rewrite (Z.leb_antisym second t). unfold second. destruct (1000000000 <? t)%Z; reflexivity.
Qed.

(** every run outside the guard of C16-F1 meets the specification; with the repair, every run *)
Theorem run_meets_spec_gen fixed c f ops :
  (fixed = false -> guard_F1 c f ops = false) ->
  run_ok c f ops (fst (run fixed c f ops)) (snd (run fixed c f ops)) = true.
Proof.
  intro G. unfold run, run_ok. rewrite create_char. destruct (ttl_valid c); [|reflexivity].
  destruct (load (c_keyid c) f) as [st| |] eqn:L.
  - apply load_sound in L as [cur [Hacc ->]]. rewrite Hacc. cbn [fst snd].
    destruct cur as [a rs]. destruct (spec_accept_good _ _ _ _ Hacc) as [Hin Halg].
    apply steps_ok with (A := accepted_of (c_keyid c) (f :: files_of ops)).
    + intros Hfx Hre. apply guard_no_clash; [apply G; exact Hfx | exact Hre].
    + constructor; simpl; try assumption.
      * reflexivity.
      * rewrite Hacc. left. reflexivity.
      * intros t [].
      * intros e [].
    + simpl. rewrite Hacc. intros x Hx. right. exact Hx.
  - destruct (spec_accept (c_keyid c) f) eqn:Hacc; [|reflexivity].
    apply load_complete in Hacc. rewrite Hacc in L. discriminate.
  - destruct (spec_accept (c_keyid c) f) eqn:Hacc; [|reflexivity].
    apply load_complete in Hacc. rewrite Hacc in L. discriminate.
Qed.

Theorem run_meets_spec c f ops :
  guard_F1 c f ops = false ->
  run_ok c f ops (fst (run false c f ops)) (snd (run false c f ops)) = true.
Proof. intro G. apply run_meets_spec_gen. intros _. exact G. Qed.

Theorem run_meets_spec_fixed c f ops :
  run_ok c f ops (fst (run true c f ops)) (snd (run true c f ops)) = true.
Proof. apply run_meets_spec_gen. discriminate. Qed.

(* ------------------------------------------------------------------ readable corollaries *)

Lemma spec_accept_active cfg f a rs :
  spec_accept cfg f = Some (a, rs) -> f = PemOk rs /\ store_usable rs = true /\ spec_active cfg rs = Some a.
Proof.
  unfold spec_accept. destruct f as [|rs']; [discriminate|].
  destruct (store_usable rs') eqn:U; [|discriminate].
  destruct (spec_active cfg rs') as [a'|] eqn:Act; [|discriminate].
  destruct (is_nil (r_chain a') || r_usage_ok a'); [|discriminate].
  intro H. inversion H; subst. auto.
Qed.

Lemma load_iff cfg f st :
  load cfg f = Ok st <-> exists cur, spec_accept cfg f = Some cur /\ st = state_of cur.
Proof.
  split; [apply load_sound|]. intros [cur [H ->]]. apply load_complete. exact H.
Qed.

Lemma header_names_active_key cfg f st iss sub ttl now jti custom t :
  load cfg f = Ok st -> sign st iss sub ttl now jti custom = Ok t ->
  exists a rs, f = PemOk rs /\ spec_active cfg rs = Some a /\
    t_kid t = kid_of a /\ spec_alg (r_key a) = Some (t_alg t) /\ t_typ t = "JWT" /\ t_key t = Priv (r_key a).
Proof.
  intros L S. apply load_sound in L as [[a rs] [Hacc ->]].
  destruct (spec_accept_active _ _ _ _ Hacc) as (Hf & _ & Hact).
  destruct (spec_accept_good _ _ _ _ Hacc) as [_ [alg Halg]].
  apply sign_ok_inv in S as [_ ->]. exists a, rs. simpl. rewrite Halg. repeat split; assumption.
Qed.

Lemma token_verifies_against_published cfg f st iss sub ttl now jti custom t :
  load cfg f = Ok st -> sign st iss sub ttl now jti custom = Ok t -> verifies t (s_pub st) = true.
Proof.
  intros L S. apply load_sound in L as [[a rs] [Hacc ->]].
  destruct (spec_accept_good _ _ _ _ Hacc) as [Hin _].
  apply sign_ok_inv in S as [_ ->]. simpl.
  apply verifies_active with (a := a); [exact Hin | reflexivity | reflexivity].
Qed.

Lemma sign_never_fails cfg f st iss sub ttl now jti custom :
  load cfg f = Ok st -> exists t, sign st iss sub ttl now jti custom = Ok t.
Proof.
  intro L. apply load_sound in L as [[a rs] [Hacc ->]].
  destruct (spec_accept_good _ _ _ _ Hacc) as [_ [alg Halg]].
  apply sign_can. simpl. rewrite Halg. apply can_sign_active. exact Halg.
Qed.

Lemma jwks_public_only cfg f st :
  load cfg f = Ok st ->
  exists rs, f = PemOk rs /\ s_pub st = spec_jwks rs /\
    Forall (fun j => is_private (j_key j) = false) (s_pub st) /\
    Forall2 (fun r j => j_kid j = kid_of r /\ j_key j = Pub (r_key r) /\ j_certs j = r_chain r /\
                        Some (j_alg j) = spec_alg (r_key r) /\ j_use j = "sig") rs (s_pub st).
Proof.
  intro L. apply load_sound in L as [[a rs] [Hacc ->]].
  destruct (spec_accept_active _ _ _ _ Hacc) as (Hf & Hu & _).
  exists rs. simpl. repeat split; try assumption.
  - apply Forall_forall. intros j Hj. apply in_map_iff in Hj as [r [<- _]]. reflexivity.
  - rewrite store_usable_split, !andb_true_iff in Hu. destruct Hu as [[Hal _] _].
    rewrite forallb_forall in Hal. clear Hacc Hf a.
    induction rs as [|r rest IH]; simpl; constructor.
    + simpl. specialize (Hal r (or_introl eq_refl)). destruct (spec_alg (r_key r)); [|discriminate]. repeat split.
    + apply IH. intros x Hx. apply Hal. right. exact Hx.
Qed.

(** exp is the configured ttl later *)
Lemma exp_is_ttl_later st iss sub ttl now jti custom t :
  sign st iss sub ttl now jti custom = Ok t ->
  exists iat exp,
    mget "iat" (t_claims t) = Some (VInt iat) /\ mget "nbf" (t_claims t) = Some (VInt iat) /\
    mget "exp" (t_claims t) = Some (VInt exp) /\
    (ttl / second <= exp - iat <= (ttl + 999999999) / second)%Z /\
    (forall s, ttl = (s * second)%Z -> (exp - iat = s)%Z).
Proof.
  intro S. destruct (system_claims_win _ _ _ _ _ _ _ _ S) as (_ & _ & H3 & H4 & H5 & _).
  exists (unix now), (unix (now + ttl)). repeat split; try assumption; try apply exp_minus_iat.
  intros s ->. apply exp_minus_iat_whole.
Qed.

(* ------------------------------------------------------------------ C16-F1 *)

Definition f1_cfg : config :=
  {| c_keyid := "key1"; c_name := ""; c_ttl := Some 120000000000%Z; c_claims := None; c_cache := true;
     c_before := []; c_after := [] |}.
Definition f1_entry (k : nat) : raw_entry :=
  {| r_key := {| k_id := k; k_kind := KEcdsa; k_size := 384 |}; r_xkid := "key1"; r_genkid := "generated";
     r_chain := []; r_chain_ok := true; r_usage_ok := true |}.
Definition f1_ops : list op :=
  [OExec None "alice" 1000000000000%Z; OReload (PemOk [f1_entry 11]); OJwks; OExec None "alice" 1001000000000%Z].

(** a token handed out after the reload is signed by the replaced key and does not
    verify against the key set published at that moment *)
Lemma F1_refuted :
  exists c f ops t,
    guard_F1 c f ops = true /\
    nth_error (snd (run false c f ops)) 3 = Some (XToken t false) /\
    nth_error (snd (run false c f ops)) 2 = Some (XJwks [spec_jwk (f1_entry 11)]) /\
    t_key t = Priv (r_key (f1_entry 10)) /\
    run_ok c f ops (fst (run false c f ops)) (snd (run false c f ops)) = false.
Proof.
  exists f1_cfg, (PemOk [f1_entry 10]), f1_ops.
  eexists. vm_compute. repeat split.
Qed.

(** non-vacuity: reuse is on, a reload rotates in a new active key under a new key id;
    tokens are reused before and freshly signed after, everything verifies *)
Definition nv_entry (k : nat) (kid : string) : raw_entry :=
  {| r_key := {| k_id := k; k_kind := KRsa; k_size := 3072 |}; r_xkid := kid; r_genkid := "generated";
     r_chain := [7; 8]; r_chain_ok := true; r_usage_ok := true |}.
Definition nv_cfg : config :=
  {| c_keyid := ""; c_name := "idp"; c_ttl := Some 90500000000%Z;
     c_claims := Some [("sub", VStr "admin"); ("aud", VRaw "[""a""]"); ("who", VSubj)]; c_cache := true;
     c_before := [PemOk [nv_entry 5 "other"]]; c_after := [] |}.
Definition nv_ops : list op :=
  [OExec None "alice" 1000500000000%Z; OExec None "alice" 1001000000000%Z;
   OReload (PemOk [nv_entry 4 "new"; nv_entry 3 "old"]); OExec None "alice" 1002500000000%Z;
   OExec (Some {| o_ttl := Some 30000000000%Z; o_claims := None; o_unknown := false |}) "alice" 1003000000000%Z;
   OExec (Some {| o_ttl := None; o_claims := Some [("scope", VStr "read")]; o_unknown := false |}) "alice" 1004000000000%Z;
   OExec (Some {| o_ttl := None; o_claims := None; o_unknown := true |}) "alice" 1005000000000%Z;
   OJwks].

Lemma nonvacuous :
  guard_F1 nv_cfg (PemOk [nv_entry 3 "old"]) nv_ops = false /\
  exists t1 t2 t3 t4,
    snd (run true nv_cfg (PemOk [nv_entry 3 "old"]) nv_ops) =
      [XToken t1 true; XToken t1 true; XDone; XToken t2 true; XToken t3 true; XToken t4 true; XErr;
       XJwks [spec_jwk (nv_entry 5 "other"); spec_jwk (nv_entry 4 "new"); spec_jwk (nv_entry 3 "old")]] /\
    t_kid t1 = "old" /\ t_kid t2 = "new" /\ t_alg t2 = "PS384" /\
    mget "sub" (t_claims t2) = Some (VStr "alice") /\ mget "who" (t_claims t2) = Some (VStr "alice") /\
    mget "exp" (t_claims t2) = Some (VInt 1093%Z) /\
    (* variant with ttl 30s only: the catalogue's claims, exp = iat + 30 *)
    mget "exp" (t_claims t3) = Some (VInt 1033%Z) /\ mget "who" (t_claims t3) = Some (VStr "alice") /\
    (* variant with claims only: the catalogue's ttl (90.5 s), its own claims *)
    mget "exp" (t_claims t4) = Some (VInt 1094%Z) /\ mget "scope" (t_claims t4) = Some (VStr "read") /\
    mget "who" (t_claims t4) = None.
Proof. split; [vm_compute; reflexivity|]. do 4 eexists. vm_compute. repeat split. Qed.

(* ------------------------------------------------------------------ rule-level variants *)

(** WithConfig accepts exactly the overrides made of ttl (> 1s) and claims, and the variant
    is the catalogue configuration with the given members replaced *)
Lemma variant_overlay c o ce :
  with_config c o = Ok ce <->
  (o_unknown o = false /\ (forall t, o_ttl o = Some t -> (second < t)%Z) /\
   ce = {| c_keyid := c_keyid c; c_name := c_name c; c_ttl := overlay (o_ttl o) (c_ttl c);
           c_claims := overlay (o_claims o) (c_claims c); c_cache := c_cache c;
           c_before := c_before c; c_after := c_after c |}).
Proof.
  unfold with_config, overlay. destruct (o_unknown o).
  - split; [discriminate | intros [H _]; discriminate].
  - destruct (o_ttl o) as [t|].
    + destruct (t <=? second)%Z eqn:E.
      * split; [discriminate|]. intros (_ & H & _). specialize (H t eq_refl). apply Z.leb_le in E. lia.
      * apply Z.leb_gt in E. split.
        -- intro H. inversion H. repeat split. intros t' Ht'. inversion Ht'; subst. exact E.
        -- intros (_ & _ & ->). reflexivity.
    + split.
      * intro H. inversion H. repeat split. intros t' Ht'. discriminate.
      * intros (_ & _ & ->). reflexivity.
Qed.

(** a variant's tokens: exp is the variant's effective ttl (own, else the catalogue's, else
    5 minutes) after iat; custom claims come from its effective template *)
Lemma variant_token c o ce st sub now jti t :
  with_config c o = Ok ce ->
  sign st (issuer ce) sub (ttl_of ce) now jti (custom_of ce sub) = Ok t ->
  let ttl := match o_ttl o with Some x => x | None => ttl_of c end in
  let tmpl := match o_claims o with Some x => x | None => tmpl_of c end in
  issuer ce = issuer c /\
  exists iat exp,
    mget "iat" (t_claims t) = Some (VInt iat) /\ mget "nbf" (t_claims t) = Some (VInt iat) /\
    mget "exp" (t_claims t) = Some (VInt exp) /\
    (ttl / second <= exp - iat <= (ttl + 999999999) / second)%Z /\
    (forall s, ttl = (s * second)%Z -> (exp - iat = s)%Z) /\
    (forall k, ~ In k reserved ->
       mget k (t_claims t) = option_map (resolve sub) (tmpl_get k tmpl)).
Proof.
  intros W S. apply variant_overlay in W as (_ & _ & ->). cbv zeta.
  assert (Ht : ttl_of {| c_keyid := c_keyid c; c_name := c_name c; c_ttl := overlay (o_ttl o) (c_ttl c);
                         c_claims := overlay (o_claims o) (c_claims c); c_cache := c_cache c;
                         c_before := c_before c; c_after := c_after c |}
               = match o_ttl o with Some x => x | None => ttl_of c end).
  { unfold ttl_of, overlay. simpl. destruct (o_ttl o); reflexivity. }
  split; [reflexivity|].
  destruct (exp_is_ttl_later _ _ _ _ _ _ _ _ S) as (iat & exp & H1 & H2 & H3 & H4 & H5).
  rewrite Ht in H4, H5. exists iat, exp. repeat split; try assumption; try apply H4.
  intros k Hk. destruct (system_claims_win _ _ _ _ _ _ _ _ S) as (_ & _ & _ & _ & _ & _ & Hc).
  rewrite (Hc k Hk).
  pose proof (mget_custom {| c_keyid := c_keyid c; c_name := c_name c; c_ttl := overlay (o_ttl o) (c_ttl c);
                             c_claims := overlay (o_claims o) (c_claims c); c_cache := c_cache c;
                             c_before := c_before c; c_after := c_after c |} sub k) as M.
  rewrite mget_merge in M. simpl in M.
  assert (Hm : mget k [] = None) by reflexivity.
  destruct (tmpl_get k (custom_of _ sub)) eqn:E; rewrite M;
    unfold tmpl_of, overlay; simpl; destruct (o_claims o); reflexivity.
Qed.

(* ------------------------------------------------------------------ no panic is reachable any more *)

(** since the key store rejects empty stores and unsupported key sizes (fixes for
    C19-F1/F2) neither [ks.Entries()[0]] nor [Entry.JWK] can panic in load *)
Lemma load_no_panic cfg f : load cfg f <> Panic.
Proof.
  unfold load, keystore_of. destruct f as [|rs]; [discriminate|].
  destruct (forallb create_entry_ok rs) eqn:CE; [|discriminate].
  destruct (is_nil rs) eqn:Hne; [discriminate|].
  rewrite verify_build_char, forallb_true, andb_true_r.
  destruct (forallb chain_fine rs && distinct (map kid_of rs)); [|discriminate].
  assert (Hall : forallb (fun r => some (spec_alg (r_key r))) rs = true).
  { apply forallb_forall. intros r Hr. rewrite <- create_entry_ok_spec.
    rewrite forallb_forall in CE. apply CE. exact Hr. }
  assert (Fin : forall a, In a rs ->
    (if negb (is_nil (e_chain (entry_of a))) && negb (e_usage_ok (entry_of a)) then @Err state else
     match entries_jwks (map entry_of rs) with
     | Ok keys => match entry_jwk (entry_of a) with
                  | Ok j => Ok {| s_jwk := j; s_key := Priv (e_key (entry_of a)); s_pub := keys |}
                  | Err => Err | Panic => Panic end
     | Err => Err | Panic => Panic end) <> Panic).
  { intros a Ha. destruct (negb (is_nil (e_chain (entry_of a))) && negb (e_usage_ok (entry_of a))); [discriminate|].
    rewrite entries_jwks_char, Hall, entry_jwk_char.
    rewrite forallb_forall in Hall. specialize (Hall a Ha). destruct (spec_alg (r_key a)); discriminate. }
  destruct (String.eqb cfg "").
  - destruct rs as [|r rest]; [discriminate|]. simpl map. exact (Fin r (or_introl eq_refl)).
  - rewrite get_key_char. destruct (find (fun r => String.eqb (kid_of r) cfg) rs) as [a|] eqn:F; simpl; [|discriminate].
    apply find_some in F as [Ha _]. exact (Fin a Ha).
Qed.
