(** C16 — for every well-formed skeleton and every interleaving, each call observes
    field values of one single load (proof by invariant over the machine of Locks.v). *)
From HV Require Import Base.Prelude C16.Locks.

Definition all_eq (s : shared) : Prop := g_jwk s = g_key s /\ g_key s = g_pub s.

(** where a thread stands, by lock mode *)
Definition th_ok (s : shared) (t : thread) : Prop :=
  match th_mode t with
  | MNone => wf_norm (th_rest t) = true /\ (th_rest t = [] \/ th_obs t = []) /\ obs_consistent (th_obs t) = true
  | MR => reads_then_runlock (th_rest t) = true /\ Forall (fun x => seen_ok (g_jwk s) x = true) (th_obs t)
  | MW => writes_then_unlock (th_rest t) = true /\ th_obs t = [] /\
          forall f, get f s = th_gen t \/ writes f (th_rest t) = true
  end.

Definition inv (s : shared) (ths : list thread) : Prop :=
  count MW ths <= 1 /\ (count MW ths = 1 -> count MR ths = 0) /\ (count MW ths = 0 -> all_eq s) /\
  Forall (th_ok s) ths.

Definition cnt (m : mode) (t : thread) : nat := if is_mode m t then 1 else 0.

Lemma count_mid m l1 t l2 : count m (l1 ++ t :: l2) = count m (l1 ++ l2) + cnt m t.
Proof.
  unfold count, cnt. rewrite !filter_app, !app_length. simpl.
  destruct (is_mode m t); simpl; lia.
Qed.

Lemma count_zero m l : count m l = 0 -> forall t, In t l -> is_mode m t = false.
Proof.
  unfold count. induction l as [|x r IH]; simpl; intros H t Hin; [contradiction|].
  destruct (is_mode m x) eqn:E; simpl in H; [discriminate|].
  destruct Hin as [<-|Hin]; [exact E | apply IH; assumption].
Qed.

Lemma cnt_mode m t : cnt m t = match m, th_mode t with MNone, MNone | MR, MR | MW, MW => 1 | _, _ => 0 end.
Proof. unfold cnt, is_mode. destruct m, (th_mode t); reflexivity. Qed.

Lemma shared_eqb_refl s : shared_eqb s s = true.
Proof. unfold shared_eqb. rewrite !Nat.eqb_refl. reflexivity. Qed.

Lemma seen_ok_gen g x : seen_ok g x = true -> snd (fst x) = g.
Proof. unfold seen_ok. intro H. apply andb_true_iff in H as [H _]. apply Nat.eqb_eq in H. exact H. Qed.

Lemma forall_seen_consistent g o : Forall (fun x => seen_ok g x = true) o -> obs_consistent o = true.
Proof.
  intro H. destruct o as [|x r]; [reflexivity|]. unfold obs_consistent.
  inversion H as [|? ? Hx Hr]; subst. rewrite (seen_ok_gen g x Hx).
  apply forallb_forall. rewrite Forall_forall in H. exact H.
Qed.

Lemma th_ok_none_indep s s' t : th_mode t = MNone -> th_ok s t -> th_ok s' t.
Proof. unfold th_ok. intros ->. auto. Qed.

Lemma field_eqb_eq a b : field_eqb a b = true <-> a = b.
Proof. destruct a, b; simpl; split; intro H; try reflexivity; discriminate. Qed.

Lemma get_set_same f g s : get f (set f g s) = g.
Proof. destruct f; reflexivity. Qed.

Lemma get_set_other f f' g s : f' <> f -> get f' (set f g s) = get f' s.
Proof. destruct f, f'; simpl; intro H; try reflexivity; exfalso; apply H; reflexivity. Qed.

Lemma all_eq_seen s f : all_eq s -> seen_ok (g_jwk s) (f, get f s, s) = true.
Proof.
  intros [H1 H2]. unfold seen_ok. simpl. apply andb_true_iff. split.
  - apply Nat.eqb_eq. destruct f; simpl; congruence.
  - unfold shared_eqb. simpl. rewrite !andb_true_iff, !Nat.eqb_eq. repeat split; congruence.
Qed.

Ltac inv_split := split; [|split; [|split]].

(** one step of one thread preserves the invariant *)
Lemma step_preserves s l1 t l2 s' t' :
  inv s (l1 ++ t :: l2) ->
  step_thread (l1 ++ l2) s t = Some (s', t') ->
  inv s' (l1 ++ t' :: l2).
Proof.
  intros (Hw & Hwr & Heq & Hall) Hstep.
  rewrite count_mid in Hw, Hwr, Heq. rewrite (count_mid MR) in Hwr.
  apply Forall_app in Hall as [Hl1 Hrest]. apply Forall_cons_iff in Hrest as [Ht Hl2].
  unfold inv. rewrite !count_mid. rewrite !cnt_mode in *.
  unfold step_thread in Hstep. unfold th_ok in Ht.
  destruct t as [gen md rest obs]. simpl in *.
  assert (Hothers : forall s2, count MW (l1 ++ l2) = 0 -> count MR (l1 ++ l2) = 0 ->
                     Forall (th_ok s2) l1 /\ Forall (th_ok s2) l2).
  { intros s2 Hz1 Hz2. split; apply Forall_forall; intros x Hx.
    - apply th_ok_none_indep with (s := s); [| rewrite Forall_forall in Hl1; apply Hl1; exact Hx].
      pose proof (count_zero MW _ Hz1 x (in_or_app _ _ _ (or_introl Hx))) as A.
      pose proof (count_zero MR _ Hz2 x (in_or_app _ _ _ (or_introl Hx))) as B.
      unfold is_mode in A, B. destruct (th_mode x); try reflexivity; discriminate.
    - apply th_ok_none_indep with (s := s); [| rewrite Forall_forall in Hl2; apply Hl2; exact Hx].
      pose proof (count_zero MW _ Hz1 x (in_or_app _ _ _ (or_intror Hx))) as A.
      pose proof (count_zero MR _ Hz2 x (in_or_app _ _ _ (or_intror Hx))) as B.
      unfold is_mode in A, B. destruct (th_mode x); try reflexivity; discriminate. }
  destruct md.
  - (* not holding the lock: the next event is RLock or Lock *)
    destruct Ht as (Hwf & Hobs & Hcons).
    destruct rest as [|e r]; [discriminate|]. destruct e; simpl in Hwf; try discriminate.
    + (* RLock *)
      unfold is_mode in Hstep. simpl in Hstep.
      destruct (Nat.eqb (count MW (l1 ++ l2)) 0) eqn:E; [|discriminate]. apply Nat.eqb_eq in E.
      inversion Hstep; subst s' t'. simpl. inv_split; try lia.
      * intro. apply Heq. lia.
      * apply Forall_app. split; [exact Hl1|]. constructor; [|exact Hl2].
        unfold th_ok. simpl. split; [exact Hwf|]. destruct Hobs as [Hobs|Hobs]; [discriminate|]. subst. constructor.
    + (* Lock *)
      unfold is_mode in Hstep. simpl in Hstep.
      destruct (Nat.eqb (count MW (l1 ++ l2)) 0) eqn:E; [|discriminate]. apply Nat.eqb_eq in E.
      destruct (Nat.eqb (count MR (l1 ++ l2)) 0) eqn:E2; [|discriminate]. apply Nat.eqb_eq in E2.
      inversion Hstep; subst s' t'. simpl. apply andb_true_iff in Hwf as [Hwf Hall3].
      inv_split; try lia.
      apply Forall_app. split; [exact Hl1|]. constructor; [|exact Hl2].
      unfold th_ok. simpl. split; [exact Hwf|]. split.
      * destruct Hobs as [Hobs|Hobs]; [discriminate | exact Hobs].
      * intro f. right. simpl in Hall3. rewrite !andb_true_iff in Hall3. destruct f; tauto.
  - (* holding the read lock *)
    destruct Ht as (Hrr & Hobs).
    assert (Hnow : count MW (l1 ++ l2) = 0) by lia.
    destruct rest as [|e r]; [discriminate|]. destruct e; simpl in Hrr; try discriminate.
    + (* RUnlock *)
      destruct r; [|discriminate]. unfold is_mode in Hstep. simpl in Hstep.
      inversion Hstep; subst s' t'. simpl. inv_split; try lia.
      * intro. apply Heq. lia.
      * apply Forall_app. split; [exact Hl1|]. constructor; [|exact Hl2].
        unfold th_ok. simpl. split; [reflexivity|]. split; [left; reflexivity|].
        eapply forall_seen_consistent. exact Hobs.
    + (* a read *)
      inversion Hstep; subst s' t'. simpl. inv_split; try lia.
      * intro. apply Heq. lia.
      * apply Forall_app. split; [exact Hl1|]. constructor; [|exact Hl2].
        unfold th_ok. simpl. split; [exact Hrr|]. constructor; [|exact Hobs].
        apply all_eq_seen. apply Heq. lia.
  - (* holding the write lock *)
    destruct Ht as (Hwu & Hobs & Hfields).
    assert (Hz1 : count MW (l1 ++ l2) = 0) by lia.
    assert (Hz2 : count MR (l1 ++ l2) = 0) by lia.
    destruct rest as [|e r]; [discriminate|]. destruct e; simpl in Hwu; try discriminate.
    + (* Unlock: every field has been written *)
      destruct r; [|discriminate]. unfold is_mode in Hstep. simpl in Hstep.
      inversion Hstep; subst s' t'. simpl. inv_split; try lia.
      * intros _. destruct (Hfields FJwk) as [A|A]; [|discriminate].
        destruct (Hfields FKey) as [B|B]; [|discriminate].
        destruct (Hfields FPub) as [C|C]; [|discriminate]. simpl in A, B, C. split; congruence.
      * apply Forall_app. split; [exact Hl1|]. constructor; [|exact Hl2].
        unfold th_ok. simpl. subst obs. split; [reflexivity|]. split; [left; reflexivity | reflexivity].
    + (* a write *)
      inversion Hstep; subst s' t'. simpl.
      destruct (Hothers (set f gen s) Hz1 Hz2) as [Ho1 Ho2].
      inv_split; try lia.
      apply Forall_app. split; [exact Ho1|]. constructor; [|exact Ho2].
      unfold th_ok. simpl. split; [exact Hwu|]. split; [exact Hobs|].
      intro f'. destruct (field_eqb f' f) eqn:E.
      * apply field_eqb_eq in E. subst f'. left. apply get_set_same.
      * assert (f' <> f) by (intro; subst; destruct f; discriminate).
        rewrite get_set_other by assumption.
        destruct (Hfields f') as [A|A]; [left; exact A|]. right.
        unfold writes in A. simpl in A. rewrite E in A. exact A.
Qed.

(** the thread that moves is some element of the list, the others are untouched *)
Lemma step_at_inv i : forall before s ts,
  inv s (rev before ++ ts) ->
  inv (cf_sh (step_at i before s ts)) (cf_ths (step_at i before s ts)).
Proof.
  induction i as [|j IH]; intros before s ts H.
  - destruct ts as [|t r]; simpl.
    + rewrite app_nil_r in H. exact H.
    + destruct (step_thread (rev before ++ r) s t) as [[s' t']|] eqn:E; simpl.
      * eapply step_preserves; eassumption.
      * exact H.
  - destruct ts as [|t r]; simpl.
    + rewrite app_nil_r in H. exact H.
    + apply IH. simpl. rewrite <- app_assoc. exact H.
Qed.

Lemma run_sched_inv sched : forall c,
  inv (cf_sh c) (cf_ths c) -> inv (cf_sh (run_sched sched c)) (cf_ths (run_sched sched c)).
Proof.
  induction sched as [|i r IH]; intros c H; [exact H|].
  simpl. apply IH. unfold step. apply step_at_inv. exact H.
Qed.

Lemma inv_consistent s ths : inv s ths -> forallb (fun t => obs_consistent (th_obs t)) ths = true.
Proof.
  intros (_ & _ & _ & H). apply forallb_forall. intros t Ht. rewrite Forall_forall in H.
  specialize (H t Ht). unfold th_ok in H. destruct (th_mode t).
  - apply H.
  - eapply forall_seen_consistent. apply H.
  - destruct H as (_ & -> & _). reflexivity.
Qed.

Lemma find_method_wf sk name : wf_skeleton sk = true -> wf_method (find_method name sk) = true.
Proof.
  unfold wf_skeleton, find_method. intro H.
  destruct (find (fun m => String.eqb (fst m) name) sk) as [m|] eqn:F; [|reflexivity].
  apply find_some in F as [Hin _]. rewrite forallb_forall in H. apply H. exact Hin.
Qed.

Lemma count_fresh m raws : m <> MNone -> count m (map (fun r => mk_thread (fst r) (snd r)) raws) = 0.
Proof.
  intro Hm. unfold count. induction raws as [|r rest IH]; simpl; [reflexivity|].
  unfold is_mode at 1. simpl. destruct m; try (exfalso; apply Hm; reflexivity); exact IH.
Qed.

(** [calls]: which methods are called, and with which generation (used by writers) *)
Definition threads_of (sk : skeleton) (calls : list (string * nat)) : list thread :=
  map (fun r => mk_thread (fst r) (snd r)) (map (fun c => (snd c, find_method (fst c) sk)) calls).

Lemma init_inv sk calls g0 : wf_skeleton sk = true -> inv (cf_sh (init g0 (threads_of sk calls))) (cf_ths (init g0 (threads_of sk calls))).
Proof.
  intro Hwf. unfold init, threads_of. simpl. unfold inv.
  rewrite !count_fresh by discriminate. inv_split; try lia; [intros _; split; reflexivity|].
  apply Forall_forall. intros t Ht. apply in_map_iff in Ht as [[g raw] [<- Hin]].
  apply in_map_iff in Hin as [[name g'] [Heq _]]. inversion Heq; subst.
  unfold th_ok, mk_thread. simpl. repeat split; [| right; reflexivity].
  pose proof (find_method_wf sk name Hwf) as W. unfold wf_method in W.
  apply andb_true_iff in W. apply W.
Qed.

(** for all skeletons that pass the check, all sets of concurrent calls and all
    interleavings: every call's reads saw one generation, and at each of its reads all
    three fields were of that generation *)
Theorem consistent_pair sk calls g0 sched :
  wf_skeleton sk = true ->
  conf_consistent (run_sched sched (init g0 (threads_of sk calls))) = true.
Proof.
  intro Hwf. unfold conf_consistent. eapply inv_consistent.
  apply run_sched_inv. apply init_inv. exact Hwf.
Qed.

(** spelled out for one call: any two reads (e.g. Sign's of jwk and of key) saw the same
    load, and the published set was that load's at both instants *)
Corollary sign_sees_one_load sk calls g0 sched t f1 g1 s1 f2 g2 s2 :
  wf_skeleton sk = true ->
  In t (cf_ths (run_sched sched (init g0 (threads_of sk calls)))) ->
  In (f1, g1, s1) (th_obs t) -> In (f2, g2, s2) (th_obs t) ->
  g1 = g2 /\ s1 = {| g_jwk := g1; g_key := g1; g_pub := g1 |} /\ s2 = s1.
Proof.
  intros Hwf Ht H1 H2.
  pose proof (consistent_pair sk calls g0 sched Hwf) as C. unfold conf_consistent in C.
  rewrite forallb_forall in C. specialize (C t Ht). unfold obs_consistent in C.
  destruct (th_obs t) as [|x r] eqn:E; [contradiction|].
  rewrite forallb_forall in C.
  pose proof (C _ H1) as A. pose proof (C _ H2) as B. unfold seen_ok in A, B. simpl in A, B.
  apply andb_true_iff in A as [A1 A2]. apply andb_true_iff in B as [B1 B2].
  apply Nat.eqb_eq in A1, B1. unfold shared_eqb in A2, B2. simpl in A2, B2.
  rewrite !andb_true_iff, !Nat.eqb_eq in A2, B2.
  destruct s1, s2. simpl in *. destruct A2 as [[? ?] ?], B2 as [[? ?] ?]. subst.
  repeat split; congruence.
Qed.

(** the skeleton of jwt_signer.go as of the pinned tree passes the check (the driver
    re-extracts it on every run; this copy documents what was read) *)
Definition pinned_skeleton : skeleton :=
  [ ("load"%string, [ERet; ERet; ERet; ELock; EDeferUnlock; EWrite FJwk; EWrite FKey; EWrite FPub; ERet]);
    ("Hash"%string, [ERLock; ERead FJwk; ERUnlock; ERet]);
    ("Sign"%string, [ERLock; ERead FJwk; ERead FKey; ERUnlock; ERet; ERet; ERet]);
    ("Keys"%string, [ERLock; EDeferRUnlock; ERead FPub; ERet]);
    ("activeCertificateChain"%string, [ERLock; EDeferRUnlock; ERead FJwk; ERet]) ].

Example pinned_skeleton_wf : wf_skeleton pinned_skeleton = true.
Proof. vm_compute. reflexivity. Qed.

(** the hypothesis is needed: a Sign that takes the read lock twice can see two loads *)
Definition torn_skeleton : skeleton :=
  [ ("load"%string, [ELock; EDeferUnlock; EWrite FJwk; EWrite FKey; EWrite FPub; ERet]);
    ("Sign"%string, [ERLock; ERead FJwk; ERUnlock; ERLock; ERead FKey; ERUnlock; ERet]) ].

Lemma torn_refuted :
  wf_skeleton torn_skeleton = false /\
  exists sched, conf_consistent (run_sched sched
     (init 0 (threads_of torn_skeleton [("Sign"%string, 0); ("load"%string, 1)]))) = false.
Proof.
  split; [vm_compute; reflexivity|].
  exists [0; 0; 0; 1; 1; 1; 1; 1; 0; 0; 0]. vm_compute. reflexivity.
Qed.
