(** C16 — the lock discipline of jwtSigner (Sign / load / Keys / Hash /
    activeCertificateChain) as a small interleaving machine.

    A method is the sequence of its lock operations and accesses to the three guarded
    fields (jwk, key, pubKeys) in source order — the *skeleton* the driver extracts from
    jwt_signer.go with go/ast on every run.  Threads execute skeletons step by step; a
    schedule picks the thread that moves next; a RWMutex lets a reader in iff no writer
    holds it and a writer iff nobody holds it.  Field values are abstracted to the
    *generation* (identity of the load) that wrote them: a reader that sees generation g
    for jwk and for key has the JWK and the private key of one load. *)
From HV Require Import Base.Prelude.

Inductive field := FJwk | FKey | FPub.

Definition field_eqb (a b : field) : bool :=
  match a, b with FJwk, FJwk | FKey, FKey | FPub, FPub => true | _, _ => false end.

Definition all_fields : list field := [FJwk; FKey; FPub].

Inductive ev :=
| ERLock | ERUnlock | ELock | EUnlock          (* s.mut.RLock() ... *)
| EDeferRUnlock | EDeferUnlock                  (* defer s.mut.RUnlock() / Unlock() *)
| ERead (f : field) | EWrite (f : field)        (* s.f used / assigned *)
| ERet.                                         (* a return statement *)

Definition ev_eqb (a b : ev) : bool :=
  match a, b with
  | ERLock, ERLock | ERUnlock, ERUnlock | ELock, ELock | EUnlock, EUnlock
  | EDeferRUnlock, EDeferRUnlock | EDeferUnlock, EDeferUnlock | ERet, ERet => true
  | ERead f, ERead g | EWrite f, EWrite g => field_eqb f g
  | _, _ => false
  end.

(** a method skeleton as extracted; a whole type = its methods by name *)
Definition skeleton := list (string * list ev).

(* ------------------------------------------------------------------ normal form *)

(** deferred unlocks run at the end (LIFO); return statements are dropped — that is
    sound for the straight-line reading only if no return can leave a lock held,
    which [rets_ok] checks on the raw list *)
Fixpoint norm_go (pending : list ev) (l : list ev) : list ev :=
  match l with
  | [] => pending
  | EDeferRUnlock :: r => norm_go (ERUnlock :: pending) r
  | EDeferUnlock :: r => norm_go (EUnlock :: pending) r
  | ERet :: r => norm_go pending r
  | e :: r => e :: norm_go pending r
  end.

Definition norm (l : list ev) : list ev := norm_go [] l.

(** at every return statement either no lock is held or its unlock is deferred *)
Fixpoint rets_ok (held deferred : bool) (l : list ev) : bool :=
  match l with
  | [] => true
  | (ERLock | ELock) :: r => rets_ok true false r
  | (ERUnlock | EUnlock) :: r => rets_ok false false r
  | (EDeferRUnlock | EDeferUnlock) :: r => rets_ok held true r
  | ERet :: r => (negb held || deferred) && rets_ok held deferred r
  | _ :: r => rets_ok held deferred r
  end.

(** a normalised method is: nothing | RLock reads RUnlock | Lock writes-of-all-fields Unlock *)
Fixpoint reads_then_runlock (l : list ev) : bool :=
  match l with
  | [ERUnlock] => true
  | ERead _ :: r => reads_then_runlock r
  | _ => false
  end.

Fixpoint writes_then_unlock (l : list ev) : bool :=
  match l with
  | [EUnlock] => true
  | EWrite _ :: r => writes_then_unlock r
  | _ => false
  end.

Definition writes (f : field) (l : list ev) : bool := existsb (ev_eqb (EWrite f)) l.

Definition wf_norm (l : list ev) : bool :=
  match l with
  | [] => true
  | ERLock :: r => reads_then_runlock r
  | ELock :: r => writes_then_unlock r && forallb (fun f => writes f r) all_fields
  | _ => false
  end.

Definition wf_method (raw : list ev) : bool := rets_ok false false raw && wf_norm (norm raw).

Definition wf_skeleton (sk : skeleton) : bool := forallb (fun m => wf_method (snd m)) sk.

(* ------------------------------------------------------------------ machine *)

Inductive mode := MNone | MR | MW.

(** generations of the three fields *)
Record shared := { g_jwk : nat; g_key : nat; g_pub : nat }.

Definition get (f : field) (s : shared) : nat :=
  match f with FJwk => g_jwk s | FKey => g_key s | FPub => g_pub s end.

Definition set (f : field) (g : nat) (s : shared) : shared :=
  match f with
  | FJwk => {| g_jwk := g; g_key := g_key s; g_pub := g_pub s |}
  | FKey => {| g_jwk := g_jwk s; g_key := g; g_pub := g_pub s |}
  | FPub => {| g_jwk := g_jwk s; g_key := g_key s; g_pub := g |}
  end.

(** what a read saw: the field, its generation, and (ghost) the generations of all
    three fields at that instant *)
Definition seen := (field * nat * shared)%type.

Record thread := { th_gen : nat; th_mode : mode; th_rest : list ev; th_obs : list seen }.

Definition mk_thread (gen : nat) (raw : list ev) : thread :=
  {| th_gen := gen; th_mode := MNone; th_rest := norm raw; th_obs := [] |}.

Definition is_mode (m : mode) (t : thread) : bool :=
  match m, th_mode t with MNone, MNone | MR, MR | MW, MW => true | _, _ => false end.

Definition count (m : mode) (ts : list thread) : nat := length (filter (is_mode m) ts).

(** one step of thread [t] while the other threads are [others]; None = blocked / finished *)
Definition step_thread (others : list thread) (s : shared) (t : thread) : option (shared * thread) :=
  let upd m r o := {| th_gen := th_gen t; th_mode := m; th_rest := r; th_obs := o |} in
  match th_rest t with
  | [] => None
  | ERLock :: r =>
      if is_mode MNone t && Nat.eqb (count MW others) 0 then Some (s, upd MR r (th_obs t)) else None
  | ELock :: r =>
      if is_mode MNone t && Nat.eqb (count MW others) 0 && Nat.eqb (count MR others) 0
      then Some (s, upd MW r (th_obs t)) else None
  | ERUnlock :: r => if is_mode MR t then Some (s, upd MNone r (th_obs t)) else None
  | EUnlock :: r => if is_mode MW t then Some (s, upd MNone r (th_obs t)) else None
  | ERead f :: r => Some (s, upd (th_mode t) r ((f, get f s, s) :: th_obs t))
  | EWrite f :: r => Some (set f (th_gen t) s, upd (th_mode t) r (th_obs t))
  | (EDeferRUnlock | EDeferUnlock | ERet) :: r => Some (s, upd (th_mode t) r (th_obs t))
  end.

Record conf := { cf_sh : shared; cf_ths : list thread }.

(** thread number [i] moves if it can; otherwise nothing happens *)
Fixpoint step_at (i : nat) (before : list thread) (s : shared) (ts : list thread) : conf :=
  match ts with
  | [] => {| cf_sh := s; cf_ths := rev before |}
  | t :: r =>
    match i with
    | O => match step_thread (rev before ++ r) s t with
           | Some (s', t') => {| cf_sh := s'; cf_ths := rev before ++ t' :: r |}
           | None => {| cf_sh := s; cf_ths := rev before ++ t :: r |}
           end
    | S j => step_at j (t :: before) s r
    end
  end.

Definition step (i : nat) (c : conf) : conf := step_at i [] (cf_sh c) (cf_ths c).

(** a schedule is any list of thread numbers: all interleavings *)
Fixpoint run_sched (sched : list nat) (c : conf) : conf :=
  match sched with
  | [] => c
  | i :: r => run_sched r (step i c)
  end.

Definition init (g0 : nat) (ths : list thread) : conf :=
  {| cf_sh := {| g_jwk := g0; g_key := g0; g_pub := g0 |}; cf_ths := ths |}.

(** all reads of one call saw one generation, and at each of them all three fields
    were of that generation *)
Definition shared_eqb (a b : shared) : bool :=
  Nat.eqb (g_jwk a) (g_jwk b) && Nat.eqb (g_key a) (g_key b) && Nat.eqb (g_pub a) (g_pub b).

Definition seen_ok (g : nat) (x : seen) : bool :=
  Nat.eqb (snd (fst x)) g && shared_eqb (snd x) {| g_jwk := g; g_key := g; g_pub := g |}.

Definition obs_consistent (o : list seen) : bool :=
  match o with
  | [] => true
  | x :: _ => forallb (seen_ok (snd (fst x))) o
  end.

Definition conf_consistent (c : conf) : bool := forallb (fun t => obs_consistent (th_obs t)) (cf_ths c).

(* ------------------------------------------------------------------ exhaustive exploration *)

Definition find_method (name : string) (sk : skeleton) : list ev :=
  match find (fun m => String.eqb (fst m) name) sk with Some m => snd m | None => [] end.

(** every interleaving of the given configuration, depth first *)
(** [forallb] that stops at the first failure also under call-by-value evaluation *)
Fixpoint all_lazy {A} (f : A -> bool) (l : list A) : bool :=
  match l with
  | [] => true
  | x :: r => if f x then all_lazy f r else false
  end.

Fixpoint explore (fuel : nat) (c : conf) : bool :=
  if conf_consistent c then
    match fuel with
    | O => true
    | S n =>
      all_lazy (fun i =>
        let c' := step i c in
        (* a thread that cannot move changes nothing: no need to recurse *)
        if list_eqb Nat.eqb (map (fun t => length (th_rest t)) (cf_ths c'))
                            (map (fun t => length (th_rest t)) (cf_ths c))
        then true else explore n c') (seq 0 (length (cf_ths c)))
    end
  else false.

(** roles by what a method does, not by its name *)
Definition reads (f : field) (l : list ev) : bool := existsb (ev_eqb (ERead f)) l.
Definition is_writer (l : list ev) : bool := existsb (fun f => writes f l) all_fields.
Definition is_pair_reader (l : list ev) : bool := reads FJwk l && reads FKey l.
Definition is_pub_reader (l : list ev) : bool := reads FPub l.

Definition pick (role : list ev -> bool) (sk : skeleton) : list ev :=
  match find (fun m => role (snd m)) sk with Some m => snd m | None => [] end.

(** the code still has the three roles the property talks about: a method that replaces
    the fields, one that reads JWK and key (Sign), one that reads the published set *)
Definition has_roles (sk : skeleton) : bool :=
  negb (is_nil (pick is_writer sk)) && negb (is_nil (pick is_pair_reader sk)) && negb (is_nil (pick is_pub_reader sk)).

Definition explore_threads (ths : list thread) : bool :=
  explore (fold_right (fun t n => length (th_rest t) + n) 0 ths) (init 0 ths).

Definition is_reader (l : list ev) : bool := existsb (fun f => reads f l) all_fields.

(** two reloads racing with one Sign and one Keys, and two reloads racing with every single
    method (or function of another file) that reads a guarded field *)
Definition explore_ok (sk : skeleton) : bool :=
  let w := pick is_writer sk in
  explore_threads [ mk_thread 1 w; mk_thread 2 w; mk_thread 0 (pick is_pair_reader sk); mk_thread 0 (pick is_pub_reader sk) ]
  && all_lazy (fun m => if is_reader (snd m) then explore_threads [ mk_thread 1 w; mk_thread 2 w; mk_thread 0 (snd m) ] else true) sk.
