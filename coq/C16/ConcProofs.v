(** C16 — proofs about the concurrent machine of C16/Conc.v: for every set of Execute calls, every
    schedule (all interleavings with any reloads, JWKS reads and waits):

    - invariant [cinv]: the signer state is one that some file loaded; every token in the cache is in the
      log of tokens made, filed under the key of the very state (and call) it was made under; every
      call in flight holds a key / token that belongs to a state read by one of its own sections;
    - [returned_token_linearizes]: a returned token is what Sign makes for this very request from the
      fields that were active at one of the call's own critical sections;
    - [hit_same_state]: a cache hit hands out a token made under a state with the same key id, algorithm
      and key as the state the call's Hash() section read, for the same issuer/ttl/template/request;
    - [rejected_reloads_unobservable], [conc_sequential_is_exec], examples. *)
From HV Require Import Base.Prelude C16.Model C16.Spec C16.Proofs C16.Conc.
Open Scope string_scope.
Open Scope list_scope.

(* ------------------------------------------------------------------ lists *)

Lemma set_nth_length {A} (x : A) l : forall i, length (set_nth i x l) = length l.
Proof. induction l as [|y r IH]; intros [|j]; simpl; auto. Qed.

Lemma nth_set_nth_eq {A} (x : A) l : forall i y, nth_error l i = Some y -> nth_error (set_nth i x l) i = Some x.
Proof.
  induction l as [|z r IH]; intros [|j] y H; simpl in *; try discriminate; [reflexivity|].
  eapply IH. exact H.
Qed.

Lemma nth_set_nth_neq {A} (x : A) l : forall i j, i <> j -> nth_error (set_nth i x l) j = nth_error l j.
Proof.
  induction l as [|z r IH]; intros [|i] [|j] H; simpl; try reflexivity.
  - exfalso. apply H. reflexivity.
  - apply IH. intro E. apply H. subst. reflexivity.
Qed.

Lemma Forall_set_nth {A} (P : A -> Prop) (x : A) l : forall i, Forall P l -> P x -> Forall P (set_nth i x l).
Proof.
  induction l as [|z r IH]; intros i Hl Hx; [destruct i; simpl; constructor|].
  inversion Hl as [|? ? Hz Hr]; subst.
  destruct i as [|j]; simpl; constructor; auto.
Qed.

Lemma map_set_nth_same {A B} (f : A -> B) (x : A) l : forall i y,
  nth_error l i = Some y -> f x = f y -> map f (set_nth i x l) = map f l.
Proof.
  induction l as [|z r IH]; intros [|j] y H E; simpl in *; try discriminate.
  - inversion H; subst. rewrite E. reflexivity.
  - f_equal. eapply IH; eassumption.
Qed.

Lemma crun_app fx c s1 s2 g : crun fx c (s1 ++ s2) g = crun fx c s2 (crun fx c s1 g).
Proof. unfold crun. apply fold_left_app. Qed.

Lemma crun_snoc fx c s e g : crun fx c (s ++ [e]) g = cstep fx c (crun fx c s g) e.
Proof. rewrite crun_app. reflexivity. Qed.

Lemma crun_cons fx c e s g : crun fx c (e :: s) g = crun fx c s (cstep fx c g e).
Proof. reflexivity. Qed.

(* ------------------------------------------------------------------ states that a file loaded *)

Section Conc.
  Variable fx : fixes.
  Hypothesis F1 : fx_F1 fx = true.      (* repair of C16-F1 (d9caf75): the cache key covers the key itself *)
  Hypothesis F2 : fx_F2 fx = true.      (* repair of C16-F2 (186d696): filed under the key of the JWK signed with *)
  Variable c : config.                  (* the catalogue configuration: key id, other key holders *)

  Definition loaded (st : state) : Prop := exists f, load (c_keyid c) f = Ok st.

  Lemma loaded_shape st : loaded st ->
    exists a rs alg, st = state_of (a, rs) /\ In a rs /\ spec_alg (r_key a) = Some alg.
  Proof.
    intros [f L]. apply load_sound in L as [[a rs] [Hacc ->]].
    destruct (spec_accept_good _ _ _ _ Hacc) as [Hin [alg Halg]].
    exists a, rs, alg. auto.
  Qed.

  (** [t] is what Sign makes for the request of [cl] from the fields [st] *)
  Definition made (st : state) (cl : call) (t : token) : Prop :=
    exists now jti, sign st (issuer (cl_cfg cl)) (q_sub (cl_req cl)) (ttl_of (cl_cfg cl)) now jti
                         (claims_of (cl_cfg cl) (cl_req cl)) = Ok t.

  (** the signing identity of a state: key id, algorithm, private key *)
  Definition sig_id (st : state) : string * string * keymat := (j_kid (s_jwk st), j_alg (s_jwk st), s_key st).

  Lemma sign_sig_id st st' iss sub ttl now jti custom :
    sig_id st = sig_id st' -> sign st iss sub ttl now jti custom = sign st' iss sub ttl now jti custom.
  Proof. unfold sig_id, sign. intro H. inversion H as [[H1 H2 H3]]. rewrite H1, H2, H3. reflexivity. Qed.

  (** equal cache keys: same signing identity, same issuer, ttl, template and request *)
  Lemma key_of_inj c1 st1 q1 c2 st2 q2 :
    loaded st1 -> loaded st2 -> key_of fx c1 st1 q1 = key_of fx c2 st2 q2 ->
    sig_id st1 = sig_id st2 /\ q1 = q2 /\ issuer c1 = issuer c2 /\ ttl_of c1 = ttl_of c2 /\ c_claims c1 = c_claims c2.
  Proof.
    intros L1 L2 E.
    destruct (loaded_shape _ L1) as (a1 & rs1 & alg1 & -> & _ & _).
    destruct (loaded_shape _ L2) as (a2 & rs2 & alg2 & -> & _ & _).
    unfold key_of in E. rewrite F1 in E. unfold state_of, spec_jwk in E. cbn in E.
    inversion E as [[Hkid Halg Hiss Hsub Hout Hattr Hkey Httl Hcl]].
    unfold sig_id, state_of, spec_jwk. cbn. rewrite Hkid, Halg, Hkey.
    destruct q1, q2. cbn in *. subst. auto.
  Qed.

  Lemma made_transfer st cl t st' cl' :
    loaded st -> loaded st' -> made st cl t ->
    key_of fx (cl_cfg cl) st (cl_req cl) = key_of fx (cl_cfg cl') st' (cl_req cl') ->
    made st' cl' t.
  Proof.
    intros L L' [now [jti S]] E.
    destruct (key_of_inj _ _ _ _ _ _ L L' E) as (Hid & Hq & Hi & Ht & Hc).
    exists now, jti. rewrite <- (sign_sig_id _ _ _ _ _ _ _ _ Hid), <- Hq, <- Hi, <- Ht.
    unfold claims_of in *. rewrite <- Hc. exact S.
  Qed.

  (** what a made token says about the state it was made from *)
  Lemma made_facts st cl t : loaded st -> made st cl t ->
    t_key t = s_key st /\ t_kid t = j_kid (s_jwk st) /\ t_alg t = j_alg (s_jwk st) /\
    verifies t (published c st) = true.
  Proof.
    intros L [now [jti S]]. apply sign_ok_inv in S as [_ ->].
    split; [reflexivity|]. split; [reflexivity|]. split; [reflexivity|].
    destruct (loaded_shape _ L) as (a & rs & alg & -> & Hin & _).
    unfold published. apply verifies_app. change (s_pub (state_of (a, rs))) with (spec_jwks rs).
    apply verifies_active with (a := a); [exact Hin | reflexivity | reflexivity].
  Qed.

  (* ------------------------------------------------------------------ the invariant *)

  Definition made_ok (e : made_entry) : Prop :=
    let '(st, cl, k, t) := e in
    loaded st /\ k = key_of fx (cl_cfg cl) st (cl_req cl) /\ made st cl t.

  Definition cache_ok (made_log : list made_entry) (e : ckey * token * Z) : Prop :=
    let '(k, t, _) := e in exists st cl, In (st, cl, k, t) made_log.

  (** the state a call's token belongs to: the one its Sign section read, else the one its Hash section read *)
  Definition lin_of (th : thread) : option state :=
    match th_st1 th with Some s => Some s | None => th_st0 th end.

  Definition th_ok (made_log : list made_entry) (th : thread) : Prop :=
    let cl := th_call th in
    match th_pc th with
    | PInit => th_st1 th = None
    | PKeyed k0 | PMiss k0 =>
        th_st1 th = None /\
        exists st0, th_st0 th = Some st0 /\ loaded st0 /\ k0 = key_of fx (cl_cfg cl) st0 (cl_req cl)
    | PSigned k t => exists st1, th_st1 th = Some st1 /\ In (st1, cl, k, t) made_log
    | PRet t | PDone (Ok t) => exists lin, lin_of th = Some lin /\ loaded lin /\ made lin cl t
    | PDone _ => True
    end.

  Record cinv (g : conf) : Prop := {
    ci_loaded : loaded (g_st g);
    ci_made : Forall made_ok (g_made g);
    ci_cache : Forall (cache_ok (g_made g)) (g_cache g);
    ci_ths : Forall (th_ok (g_made g)) (g_ths g) }.

  Lemma cache_ok_mono l l' e : incl l l' -> cache_ok l e -> cache_ok l' e.
  Proof. destruct e as [[k t] x]. intros I (st & cl & H). exists st, cl. apply I. exact H. Qed.

  Lemma th_ok_mono l l' th : incl l l' -> th_ok l th -> th_ok l' th.
  Proof.
    intros I. unfold th_ok. destruct (th_pc th) as [| | | k t | |[]]; auto.
    intros (st1 & H1 & H2). exists st1. split; [exact H1 | apply I; exact H2].
  Qed.

  Lemma cinit_inv st calls : loaded st -> cinv (cinit st calls).
  Proof.
    intro L. constructor; cbn; auto.
    apply Forall_forall. intros th H. apply in_map_iff in H as [cl [<- _]]. reflexivity.
  Qed.

  Lemma Forall_nth {A} (P : A -> Prop) l i x : Forall P l -> nth_error l i = Some x -> P x.
  Proof. intros H E. rewrite Forall_forall in H. apply H. eapply nth_error_In. exact E. Qed.

  (** every event keeps the invariant *)
  Lemma cstep_inv g e : cinv g -> cinv (cstep fx c g e).
  Proof.
    intros [HL HM HC HT]. destruct e as [i|f| |d]; cbn.
    - destruct (nth_error (g_ths g) i) as [th|] eqn:N; [|constructor; assumption].
      pose proof (Forall_nth _ _ _ _ HT N) as Hth. unfold th_ok in Hth.
      unfold exec_step. destruct (th_pc th) as [|k0|k0|k t|t|r] eqn:PC.
      + (* Hash() *)
        constructor; cbn; auto. apply Forall_set_nth; [exact HT|].
        unfold th_ok. cbn. split; [exact Hth|]. exists (g_st g). auto.
      + (* cch.Get *)
        destruct Hth as (N1 & st0 & H0 & L0 & ->).
        destruct (if c_cache (cl_cfg (th_call th)) then cache_get _ (g_clock g) (g_cache g) else None) as [t|] eqn:G.
        * constructor; cbn; auto. apply Forall_set_nth; [exact HT|].
          destruct (c_cache (cl_cfg (th_call th))); [|discriminate].
          apply cache_get_in in G as [x [Hin _]].
          rewrite Forall_forall in HC. destruct (HC _ Hin) as (st' & cl' & Hmade).
          rewrite Forall_forall in HM. destruct (HM _ Hmade) as (L' & K' & M').
          unfold th_ok. cbn. exists st0. split; [|split; [exact L0|]].
          -- unfold lin_of. cbn. rewrite N1. exact H0.
          -- eapply made_transfer; [exact L' | exact L0 | exact M' | symmetry; exact K'].
        * constructor; cbn; auto. apply Forall_set_nth; [exact HT|].
          unfold th_ok. cbn. split; [exact N1|]. exists st0. auto.
      + (* signWithHash *)
        destruct Hth as (N1 & st0 & H0 & L0 & ->).
        destruct (sign (g_st g) _ _ _ _ _ _) as [t| |] eqn:S.
        * rewrite F2.
          assert (MO : made_ok (g_st g, th_call th, key_of fx (cl_cfg (th_call th)) (g_st g) (cl_req (th_call th)), t)).
          { split; [exact HL|]. split; [reflexivity|]. eexists; eexists; exact S. }
          constructor; cbn.
          -- exact HL.
          -- constructor; assumption.
          -- eapply Forall_impl; [|exact HC]. intros e He. eapply cache_ok_mono; [|exact He]. apply incl_tl, incl_refl.
          -- apply Forall_set_nth.
             ++ eapply Forall_impl; [|exact HT]. intros e He. eapply th_ok_mono; [|exact He]. apply incl_tl, incl_refl.
             ++ unfold th_ok. cbn. exists (g_st g). split; [reflexivity | left; reflexivity].
        * constructor; cbn; auto. apply Forall_set_nth; [exact HT|]. exact I.
        * constructor; cbn; auto. apply Forall_set_nth; [exact HT|]. exact I.
      + (* cch.Set *)
        destruct Hth as (st1 & H1 & Hin).
        pose proof Hin as Hin'. rewrite Forall_forall in HM. apply HM in Hin' as (L1 & K1 & M1).
        constructor; cbn; auto.
        * rewrite <- Forall_forall in HM. exact HM.
        * match goal with |- context [if ?b then _ else _] => destruct b end; [|exact HC].
          constructor; [|exact HC]. exists st1, (th_call th). exact Hin.
        * apply Forall_set_nth; [exact HT|]. unfold th_ok. cbn. exists st1.
          split; [unfold lin_of; cbn; rewrite H1; reflexivity | auto].
      + (* return *)
        constructor; cbn; auto. apply Forall_set_nth; [exact HT|]. exact Hth.
      + constructor; cbn; auto. apply Forall_set_nth; [exact HT|].
        unfold th_ok. cbn. destruct r; exact Hth.
    - destruct (load (c_keyid c) f) as [st| |] eqn:L; [|constructor; assumption|constructor; assumption].
      constructor; cbn; auto. exists f. exact L.
    - constructor; assumption.
    - constructor; assumption.
  Qed.

  Lemma crun_inv s : forall g, cinv g -> cinv (crun fx c s g).
  Proof.
    induction s as [|e r IH]; intros g H; [exact H|]. rewrite crun_cons. apply IH, cstep_inv, H.
  Qed.
  (* ------------------------------------------------------------------ where the ghosts come from *)

  Lemma exec_step_call g th : th_call (u_th (exec_step fx g th)) = th_call th.
  Proof.
    unfold exec_step. destruct (th_pc th); cbn; try reflexivity.
    - destruct (if c_cache _ then _ else _); reflexivity.
    - destruct (sign _ _ _ _ _ _ _); reflexivity.
  Qed.

  (** thread number i after an event: untouched, or it was its own step *)
  Lemma cstep_thread g e i th :
    nth_error (g_ths (cstep fx c g e)) i = Some th ->
    nth_error (g_ths g) i = Some th \/
    (e = SThread i /\ exists th0, nth_error (g_ths g) i = Some th0 /\ th = u_th (exec_step fx g th0)).
  Proof.
    destruct e as [j|f| |d]; cbn; auto.
    - destruct (nth_error (g_ths g) j) as [thj|] eqn:N; [|auto]. cbn.
      destruct (Nat.eq_dec j i) as [->|Hne].
      + rewrite (nth_set_nth_eq _ _ _ _ N). intro H. inversion H; subst. right. split; [reflexivity|]. exists thj. auto.
      + rewrite nth_set_nth_neq by exact Hne. auto.
    - destruct (load (c_keyid c) f); auto.
  Qed.

  Lemma cstep_thread_own g i th :
    nth_error (g_ths g) i = Some th ->
    nth_error (g_ths (cstep fx c g (SThread i))) i = Some (u_th (exec_step fx g th)).
  Proof. intro N. cbn. rewrite N. cbn. eapply nth_set_nth_eq. exact N. Qed.

  Lemma cstep_calls g e : map th_call (g_ths (cstep fx c g e)) = map th_call (g_ths g).
  Proof.
    destruct e as [j|f| |d]; cbn; auto.
    - destruct (nth_error (g_ths g) j) as [thj|] eqn:N; [|reflexivity]. cbn.
      eapply map_set_nth_same; [exact N | apply exec_step_call].
    - destruct (load (c_keyid c) f); reflexivity.
  Qed.

  Lemma crun_calls s : forall g, map th_call (g_ths (crun fx c s g)) = map th_call (g_ths g).
  Proof.
    induction s as [|e r IH]; intro g; [reflexivity|]. rewrite crun_cons, IH. apply cstep_calls.
  Qed.

  Lemma call_of st calls s i th :
    nth_error (g_ths (crun fx c s (cinit st calls))) i = Some th -> nth_error calls i = Some (th_call th).
  Proof.
    intro N. apply (map_nth_error th_call) in N. rewrite crun_calls in N. cbn in N.
    rewrite map_map in N. cbn in N. rewrite map_id in N. exact N.
  Qed.

  (** a per-thread ghost that only a step of the thread itself sets, to the signer state of that moment,
      and only from a pc satisfying [K], was set at such a moment of the schedule *)
  Lemma ghost_history (proj : thread -> option state) (K : pc -> Prop) :
    (forall g th st, proj (u_th (exec_step fx g th)) = Some st ->
                     proj th = Some st \/ (K (th_pc th) /\ st = g_st g)) ->
    forall g0 i, (forall th0, nth_error (g_ths g0) i = Some th0 -> proj th0 = None) ->
    forall s th st, nth_error (g_ths (crun fx c s g0)) i = Some th -> proj th = Some st ->
    exists s1 s2 th1, s = s1 ++ SThread i :: s2 /\ g_st (crun fx c s1 g0) = st /\
                      nth_error (g_ths (crun fx c s1 g0)) i = Some th1 /\ K (th_pc th1).
  Proof.
    intros Hproj g0 i H0 s. induction s as [|e s IH] using rev_ind; intros th st N P.
    - cbn in N. rewrite (H0 _ N) in P. discriminate.
    - rewrite crun_snoc in N. apply cstep_thread in N as [N|(-> & th0 & N & ->)].
      + destruct (IH _ _ N P) as (s1 & s2 & th1 & -> & R). exists s1, (s2 ++ [e]), th1.
        split; [rewrite <- app_assoc; reflexivity | exact R].
      + apply Hproj in P as [P|[HK ->]].
        * destruct (IH _ _ N P) as (s1 & s2 & th1 & -> & R). exists s1, (s2 ++ [SThread i]), th1.
          split; [rewrite <- app_assoc; reflexivity | exact R].
        * exists s, [], th0. auto.
  Qed.

  Lemma exec_step_st0 g th st : th_st0 (u_th (exec_step fx g th)) = Some st ->
    th_st0 th = Some st \/ (th_pc th = PInit /\ st = g_st g).
  Proof.
    unfold exec_step. destruct (th_pc th); cbn; auto.
    - intro H. inversion H. auto.
    - destruct (if c_cache _ then _ else _); auto.
    - destruct (sign _ _ _ _ _ _ _); auto.
  Qed.

  Lemma exec_step_st1 g th st : th_st1 (u_th (exec_step fx g th)) = Some st ->
    th_st1 th = Some st \/ ((exists k0, th_pc th = PMiss k0) /\ st = g_st g).
  Proof.
    unfold exec_step. destruct (th_pc th) as [|k0|k0|k t|t|r]; cbn; auto.
    - destruct (if c_cache _ then _ else _); auto.
    - destruct (sign _ _ _ _ _ _ _); cbn; auto. intro H. inversion H. right. split; [exists k0|]; reflexivity.
  Qed.

  (** the log of made tokens: every entry was put there by the Sign section of some call, under the
      signer state of that moment *)
  Lemma cstep_made g e x :
    In x (g_made (cstep fx c g e)) ->
    In x (g_made g) \/
    exists j thj k0 k t, e = SThread j /\ nth_error (g_ths g) j = Some thj /\ th_pc thj = PMiss k0 /\
                         x = (g_st g, th_call thj, k, t) /\ pc_of j (cstep fx c g e) = Some (PSigned k t).
  Proof.
    destruct e as [j|f| |d]; cbn; auto.
    - destruct (nth_error (g_ths g) j) as [thj|] eqn:N; [|auto]. cbn. intro Hin.
      assert (In x (g_made g) \/
              exists k0 k t, th_pc thj = PMiss k0 /\ x = (g_st g, th_call thj, k, t) /\
                             th_pc (u_th (exec_step fx g thj)) = PSigned k t) as [H|(k0 & k & t & A & B & C)].
      { revert Hin. unfold exec_step. destruct (th_pc thj) as [|k0|k0|k t|t|r] eqn:PC; cbn; auto.
        + destruct (if c_cache _ then _ else _); auto.
        + destruct (sign _ _ _ _ _ _ _) as [t| |] eqn:S; cbn; auto.
          intros [<-|H]; [|auto]. right. exists k0. eexists; eexists. repeat split. }
      + auto.
      + right. exists j, thj, k0, k, t. repeat split; auto.
        unfold pc_of. cbn. rewrite (nth_set_nth_eq _ _ _ _ N). cbn. rewrite C. reflexivity.
    - destruct (load (c_keyid c) f); auto.
  Qed.

  Lemma made_history g0 : g_made g0 = [] ->
    forall s x, In x (g_made (crun fx c s g0)) ->
    exists j s1 s2 thj k0 k t,
      s = s1 ++ SThread j :: s2 /\ nth_error (g_ths (crun fx c s1 g0)) j = Some thj /\ th_pc thj = PMiss k0 /\
      x = (g_st (crun fx c s1 g0), th_call thj, k, t) /\
      pc_of j (crun fx c (s1 ++ [SThread j]) g0) = Some (PSigned k t).
  Proof.
    intros H0 s. induction s as [|e s IH] using rev_ind; intros x Hin.
    - cbn in Hin. rewrite H0 in Hin. contradiction.
    - rewrite crun_snoc in Hin. apply cstep_made in Hin as [Hin|(j & thj & k0 & k & t & -> & N & PC & -> & P)].
      + destruct (IH _ Hin) as (j & s1 & s2 & R). destruct R as (thj & k0 & k & t & -> & R).
        exists j, s1, (s2 ++ [e]), thj, k0, k, t. split; [rewrite <- app_assoc; reflexivity | exact R].
      + exists j, s, [], thj, k0, k, t. rewrite crun_snoc. auto.
  Qed.

  (* ------------------------------------------------------------------ the theorems *)

  Lemma quiet_st s : forall g, quiet c s = true -> g_st (crun fx c s g) = g_st g.
  Proof.
    induction s as [|e r IH]; intros g Q; [reflexivity|]. cbn in Q. apply andb_true_iff in Q as [Qe Qr].
    rewrite crun_cons, (IH _ Qr). destruct e as [j|f| |d]; cbn; try reflexivity.
    - destruct (nth_error (g_ths g) j); reflexivity.
    - unfold rejected in Qe. destruct (load (c_keyid c) f); [discriminate | reflexivity | reflexivity].
  Qed.

  Lemma thread_step_st g i : g_st (cstep fx c g (SThread i)) = g_st g.
  Proof. cbn. destruct (nth_error (g_ths g) i); reflexivity. Qed.

  (** EVERY RETURNED TOKEN BELONGS TO ONE OF THE CALL'S OWN CRITICAL SECTIONS.
      For any calls, any schedule: if call i has returned the token t, then the schedule has a step of
      call i itself — its Hash() section (it stood at PInit) or its signWithHash() section (it stood at
      PMiss), hence a moment between its start and its end — such that with [lin] = the signer's fields at
      that moment: t is exactly what Sign makes from [lin] for the request of call i (so all that is
      proved about [sign] applies: header, system claims, ttl), in particular it is signed with the key
      active at that moment, names its key id and algorithm, and verifies against the key set published at
      that moment — and at every later moment up to the next successful reload. *)
  Theorem returned_token_linearizes st0 calls sched i t :
    loaded st0 ->
    result i (crun fx c sched (cinit st0 calls)) = Some (Ok t) ->
    exists s1 s2 cl p,
      sched = s1 ++ SThread i :: s2 /\ nth_error calls i = Some cl /\
      pc_of i (crun fx c s1 (cinit st0 calls)) = Some p /\ (p = PInit \/ exists k0, p = PMiss k0) /\
      let lin := g_st (crun fx c s1 (cinit st0 calls)) in
      loaded lin /\ made lin cl t /\
      t_key t = s_key lin /\ t_kid t = j_kid (s_jwk lin) /\ t_alg t = j_alg (s_jwk lin) /\
      verifies t (published c lin) = true /\
      forall s2a s2b, s2 = s2a ++ s2b -> quiet c s2a = true ->
        verifies t (published c (g_st (crun fx c (s1 ++ SThread i :: s2a) (cinit st0 calls)))) = true.
  Proof.
    intros L0 R. unfold result, pc_of in R.
    destruct (nth_error (g_ths (crun fx c sched (cinit st0 calls))) i) as [th|] eqn:N; [|discriminate].
    cbn in R. destruct (th_pc th) as [| | | | |r] eqn:PC; try discriminate. inversion R; subst r. clear R.
    pose proof (crun_inv sched _ (cinit_inv st0 calls L0)) as [_ _ _ HT].
    pose proof (Forall_nth _ _ _ _ HT N) as Hth. unfold th_ok in Hth. rewrite PC in Hth.
    destruct Hth as (lin & Hlin & Ll & Ml).
    assert (Hist : exists s1 s2 th1, sched = s1 ++ SThread i :: s2 /\ g_st (crun fx c s1 (cinit st0 calls)) = lin /\
                     nth_error (g_ths (crun fx c s1 (cinit st0 calls))) i = Some th1 /\
                     (th_pc th1 = PInit \/ exists k0, th_pc th1 = PMiss k0)).
    { unfold lin_of in Hlin. destruct (th_st1 th) as [s1'|] eqn:S1.
      - inversion Hlin; subst s1'.
        destruct (ghost_history th_st1 (fun p => exists k0, p = PMiss k0) exec_step_st1 (cinit st0 calls) i) with (s := sched) (th := th) (st := lin)
          as (s1 & s2 & th1 & E & G & N1 & K); auto.
        { intros th0 H. cbn in H. apply nth_error_In, in_map_iff in H as [cl [<- _]]. reflexivity. }
        exists s1, s2, th1. auto.
      - destruct (ghost_history th_st0 (fun p => p = PInit) exec_step_st0 (cinit st0 calls) i) with (s := sched) (th := th) (st := lin)
          as (s1 & s2 & th1 & E & G & N1 & K); auto.
        { intros th0 H. cbn in H. apply nth_error_In, in_map_iff in H as [cl [<- _]]. reflexivity. }
        exists s1, s2, th1. auto. }
    destruct Hist as (s1 & s2 & th1 & E & G & N1 & K).
    exists s1, s2, (th_call th), (th_pc th1).
    split; [exact E|]. split; [eapply call_of; exact N|].
    split; [unfold pc_of; rewrite N1; reflexivity|]. split; [exact K|].
    cbv zeta. rewrite G.
    destruct (made_facts lin (th_call th) t Ll Ml) as (A & B & C & D).
    repeat (split; [assumption|]).
    intros s2a s2b _ Q. rewrite crun_app, crun_cons, (quiet_st _ _ Q), thread_step_st, G. exact D.
  Qed.

  (** NO CROSS-STATE CACHE HIT.  If call i, having computed the cache key k0 in its Hash() section, finds
      the token t in the cache, then t was made by the signWithHash() section of some call j at an earlier
      moment of the schedule and filed under exactly k0 — the key of the signer state of THAT moment and of
      call j's configuration and request —, and that state has the same key id, algorithm and key as the
      one call i's Hash() section read; issuer, ttl, claims template and request are the same as well. *)
  Theorem hit_same_state st0 calls s i k0 t :
    loaded st0 ->
    let G x := crun fx c x (cinit st0 calls) in
    pc_of i (G s) = Some (PKeyed k0) -> pc_of i (G (s ++ [SThread i])) = Some (PRet t) ->
    exists j sa sb k0' sh sh' cl cl',
      s = sa ++ SThread j :: sb /\ nth_error calls j = Some cl' /\
      pc_of j (G sa) = Some (PMiss k0') /\ pc_of j (G (sa ++ [SThread j])) = Some (PSigned k0 t) /\
      s = sh ++ SThread i :: sh' /\ nth_error calls i = Some cl /\ pc_of i (G sh) = Some PInit /\
      k0 = key_of fx (cl_cfg cl') (g_st (G sa)) (cl_req cl') /\
      k0 = key_of fx (cl_cfg cl) (g_st (G sh)) (cl_req cl) /\
      sig_id (g_st (G sa)) = sig_id (g_st (G sh)) /\ cl_req cl' = cl_req cl /\
      issuer (cl_cfg cl') = issuer (cl_cfg cl) /\ ttl_of (cl_cfg cl') = ttl_of (cl_cfg cl) /\
      c_claims (cl_cfg cl') = c_claims (cl_cfg cl).
  Proof.
    intros L0 G P1 P2. unfold pc_of in P1.
    destruct (nth_error (g_ths (G s)) i) as [th|] eqn:N; [|discriminate]. cbn in P1. inversion P1 as [PC]. clear P1.
    pose proof (crun_inv s _ (cinit_inv st0 calls L0)) as [_ HM HC HT]. fold (G s) in HM, HC, HT.
    pose proof (Forall_nth _ _ _ _ HT N) as Hth. unfold th_ok in Hth. rewrite PC in Hth.
    destruct Hth as (_ & st & H0 & Lst & Kst).
    unfold G in P2. rewrite crun_snoc in P2. fold (G s) in P2. unfold pc_of in P2.
    rewrite (cstep_thread_own _ _ _ N) in P2. cbn in P2. unfold exec_step in P2. rewrite PC in P2.
    destruct (if c_cache (cl_cfg (th_call th)) then cache_get k0 (g_clock (G s)) (g_cache (G s)) else None) as [t'|] eqn:Hit;
      cbn in P2; [|discriminate]. inversion P2; subst t'. clear P2.
    destruct (c_cache (cl_cfg (th_call th))); [|discriminate].
    apply cache_get_in in Hit as [x [Hin _]].
    rewrite Forall_forall in HC. destruct (HC _ Hin) as (st' & cl' & Hmade).
    rewrite Forall_forall in HM. destruct (HM _ Hmade) as (L' & K' & M').
    destruct (made_history (cinit st0 calls) eq_refl s _ Hmade) as (j & sa & sb & thj & k0' & k & t' & Es & Nj & PCj & Ex & Pj).
    inversion Ex; subst st' cl' k t'. clear Ex.
    destruct (ghost_history th_st0 (fun p => p = PInit) exec_step_st0 (cinit st0 calls) i) with (s := s) (th := th) (st := st)
      as (sh & sh' & th1 & Eh & Gh & N1 & K1); auto.
    { intros th0 H. cbn in H. apply nth_error_In, in_map_iff in H as [cl [<- _]]. reflexivity. }
    fold (G sa) in *. fold (G sh) in *.
    destruct (key_of_inj _ _ _ _ _ _ L' Lst (eq_trans (eq_sym K') Kst)) as (Hid & Hq & Hi & Ht & Hc).
    exists j, sa, sb, k0', sh, sh', (th_call th), (th_call thj).
    split; [exact Es|]. split; [eapply call_of; exact Nj|].
    split; [unfold pc_of; rewrite Nj; cbn; rewrite PCj; reflexivity|].
    split; [exact Pj|]. split; [exact Eh|]. split; [eapply call_of; exact N|].
    split; [unfold pc_of; rewrite N1; cbn; rewrite K1; reflexivity|].
    rewrite Gh. auto 10.
  Qed.

  (** REJECTED RELOADS CHANGE NOTHING: dropping every reload whose file is rejected from a schedule leaves
      the whole configuration — every call's outcome, the cache, the signer's fields, every JWKS answer — as it is *)
  Theorem rejected_reloads_unobservable s : forall g, crun fx c (effective c s) g = crun fx c s g.
  Proof.
    induction s as [|e r IH]; intro g; [reflexivity|]. cbn [effective filter].
    destruct e as [j|f| |d]; cbn [negb]; try (rewrite !crun_cons; apply IH).
    unfold rejected at 1. destruct (load (c_keyid c) f) eqn:L; cbn [negb].
    - rewrite !crun_cons. apply IH.
    - rewrite crun_cons. cbn. rewrite L. apply IH.
    - rewrite crun_cons. cbn. rewrite L. apply IH.
  Qed.
End Conc.

(* ------------------------------------------------------------------ the sequential model is the one-thread case *)

Definition conf_of (w : world) (ths : list thread) (made_log : list made_entry) : conf :=
  {| g_st := w_st w; g_cache := w_cache w; g_minted := w_minted w; g_clock := w_clock w; g_ths := ths;
     g_jwks := []; g_made := made_log |}.

Definition world_of (g : conf) : world :=
  {| w_st := g_st g; w_cache := g_cache g; w_minted := g_minted g; w_clock := g_clock g |}.

Lemma reloads_conf fx c ce ths made_log mids : c_keyid ce = c_keyid c -> forall w,
  crun fx c (map SReload mids) (conf_of w ths made_log) = conf_of (reloads ce w mids) ths made_log.
Proof.
  intro K. induction mids as [|f r IH]; intro w; [reflexivity|].
  cbn [map]. rewrite crun_cons.
  change (reloads ce w (f :: r)) with (reloads ce (fst (reload ce w f)) r). rewrite <- IH. f_equal.
  unfold reload. cbn [cstep]. rewrite K. cbn. destruct (load (c_keyid c) f); reflexivity.
Qed.

(** [exec] of C16/Model.v — Execute with the reloads [mids] landing between its cache lookup and Sign — is
    the machine running one call: Hash(), Get, the reloads, signWithHash(), Set, return *)
Theorem conc_sequential_is_exec fx c ce w q now mids :
  c_keyid ce = c_keyid c ->
  let cl := {| cl_cfg := ce; cl_req := q; cl_now := now |} in
  let g := crun fx c ([SThread 0; SThread 0] ++ map SReload mids ++ [SThread 0; SThread 0; SThread 0])
                (conf_of w [new_thread cl] []) in
  world_of g = fst (exec fx ce w q now mids) /\ result 0 g = Some (snd (exec fx ce w q now mids)).
Proof.
  intros K cl g. subst g. rewrite !crun_app.
  set (k0 := key_of fx ce (w_st w) q).
  set (th p s1 := {| th_call := cl; th_pc := p; th_st0 := Some (w_st w); th_st1 := s1 |}).
  assert (E1 : crun fx c [SThread 0; SThread 0] (conf_of w [new_thread cl] []) =
               conf_of w [th (match (if c_cache ce then cache_get k0 (w_clock w) (w_cache w) else None) with
                              | Some t => PRet t | None => PMiss k0 end) None] []).
  { cbn -[cache_get key_of]. fold k0.
    destruct (if c_cache ce then cache_get k0 (w_clock w) (w_cache w) else None); reflexivity. }
  rewrite E1, (reloads_conf fx c ce _ _ mids K). unfold exec. fold k0.
  destruct (if c_cache ce then cache_get k0 (w_clock w) (w_cache w) else None) as [t|].
  - destruct (reloads ce w mids) as [wst wc wm wk]. split; reflexivity.
  - set (W := reloads ce w mids).
    cbn -[sign key_of cache_leeway]. change (claims_of ce q) with (match c_claims ce with Some t => render q t | None => [] end).
    destruct (sign (w_st W) (issuer ce) (q_sub q) (ttl_of ce) now (VJti (w_minted W))
                   match c_claims ce with Some t => render q t | None => [] end) as [t| |].
    + cbn -[key_of cache_leeway]. split; reflexivity.
    + destruct W. split; reflexivity.
    + destruct W. split; reflexivity.
Qed.
