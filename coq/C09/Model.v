(** C09 — model of the forwarded-header handling of heimdall's HTTP entry points:

    - internal/handler/middleware/http/trustedproxy/handler.go   (New: the proxy
      set, the trust test, the deletion of the seven headers),
    - net.IP.Equal / net.IP.To4 / net.IPNet.Contains as used there,
    - internal/handler/requestcontext/extract_url.go, extract_method.go,
      request_context.go (New, Request, requestClientIPs, Headers),
    - internal/handler/proxy/request_context.go rewriteRequest (the block that
      re-creates X-Forwarded-* / Forwarded for the upstream; the removal of the
      client's headers by httputil.ReverseProxy when Rewrite is set).

    Faithful to the code as it is: [fixed_F1 = true] is the code as it is
    (fix: e501d3a = fixes/C09-F1.diff); [fixed_F1 = false] is the loader as
    pinned before that commit, kept for the two witnesses.

    Oracles (data of a case, never axioms): net.ParseIP / net.ParseCIDR on the
    configured entry strings and on the peer host ([parse_ip], [parse_cidr]),
    net.SplitHostPort on RemoteAddr ([split_host_port]), net/http's request
    parser for Host, escaped path and raw query, and url.Parse on the
    X-Forwarded-Uri value ([parse_uri]).  Modelled (and compared with net/http's
    answer on every case): textproto.CanonicalMIMEHeaderKey on token names
    ([canon_key]) and the trimming of optional white space of header values.

    Layers: [serve] works on parse results (entries, peer bytes, canonical
    header list); [handle] is the whole entry point on what an operator and a
    client supply: the mode, the two configured trusted_proxies options as
    strings, RemoteAddr, the request line and the header lines as sent. *)
From HV Require Import Base.Prelude.
Open Scope string_scope.

(* ------------------------------------------------------------------ strings *)

(** strings.Split(s, c) for a single-byte separator: never empty *)
Fixpoint split_on (c : ascii) (s : string) : list string :=
  match s with
  | EmptyString => [EmptyString]
  | String a r =>
    let l := split_on c r in
    if Ascii.eqb a c then EmptyString :: l
    else match l with
         | [] => [String a EmptyString]
         | h :: t => String a h :: t
         end
  end.

(** ASCII white space of strings.TrimSpace: \t \n \v \f \r and space *)
Definition is_space (a : ascii) : bool :=
  let n := N_of_ascii a in ((9 <=? n) && (n <=? 13))%N || (n =? 32)%N.

(** optional white space of HTTP header values (net/http trims it on the wire) *)
Definition is_ows (a : ascii) : bool :=
  let n := N_of_ascii a in (n =? 9)%N || (n =? 32)%N.

Fixpoint trim_left (f : ascii -> bool) (s : string) : string :=
  match s with
  | String a r => if f a then trim_left f r else s
  | EmptyString => EmptyString
  end.

Fixpoint trim_right (f : ascii -> bool) (s : string) : string :=
  match s with
  | EmptyString => EmptyString
  | String a r =>
    match trim_right f r with
    | EmptyString => if f a then EmptyString else String a EmptyString
    | r' => String a r'
    end
  end.

Definition trim_space (s : string) : string := trim_right is_space (trim_left is_space s).
Definition http_trim (s : string) : string := trim_right is_ows (trim_left is_ows s).

(** strings.CutPrefix *)
Fixpoint cut_prefix (p s : string) : option string :=
  match p with
  | EmptyString => Some s
  | String a p' =>
    match s with
    | String b s' => if Ascii.eqb a b then cut_prefix p' s' else None
    | EmptyString => None
    end
  end.

(** strings.Cut(s, c) for a single-byte separator: the text before the first [c] and the text after it;
    the whole text and "" when there is none *)
Fixpoint cut_at (c : ascii) (s : string) : string * string :=
  match s with
  | EmptyString => (EmptyString, EmptyString)
  | String a r => if Ascii.eqb a c then (EmptyString, r)
                  else let '(x, y) := cut_at c r in (String a x, y)
  end.

Definition nonempty (s : string) : bool := negb (String.eqb s "").

Fixpoint join (sep : string) (l : list string) : string :=
  match l with
  | [] => ""
  | [x] => x
  | x :: r => x ++ sep ++ join sep r
  end.

(* ------------------------------------------------------------------ headers *)

(** http.Header after net/http's parser: canonical keys; per key the values in
    arrival order.  Represented as the list of (key, value) pairs. *)
Definition hdrs := list (string * string).

Definition values (k : string) (h : hdrs) : list string :=
  map snd (filter (fun kv => String.eqb (fst kv) k) h).

(** Header.Get: first value or "" *)
Definition get (k : string) (h : hdrs) : string :=
  match values k h with v :: _ => v | [] => "" end.

Definition has (k : string) (h : hdrs) : bool := negb (is_nil (values k h)).

(** Header.Del *)
Definition del (k : string) (h : hdrs) : hdrs :=
  filter (fun kv => negb (String.eqb (fst kv) k)) h.

(** textproto.CanonicalMIMEHeaderKey on a valid token (net/http rejects header lines whose
    name is not a token before heimdall sees the request): the first letter and every letter
    after a '-' in upper case, all other letters in lower case *)
Definition is_lower (a : ascii) : bool := let n := N_of_ascii a in ((97 <=? n) && (n <=? 122))%N.
Definition is_upper (a : ascii) : bool := let n := N_of_ascii a in ((65 <=? n) && (n <=? 90))%N.
Definition to_upper (a : ascii) : ascii := if is_lower a then ascii_of_N (N_of_ascii a - 32) else a.
Definition to_lower (a : ascii) : ascii := if is_upper a then ascii_of_N (N_of_ascii a + 32) else a.

Fixpoint canon_go (upper : bool) (s : string) : string :=
  match s with
  | EmptyString => EmptyString
  | String c r =>
    let c' := if upper then to_upper c else to_lower c in
    String c' (canon_go (Ascii.eqb c' "-") r)
  end.

Definition canon_key (s : string) : string := canon_go true s.

(** the header lines of a request as sent (name in any casing, value with optional white
    space around it) and what net/http's parser makes of them *)
Definition raw_hdrs := list (string * string).

Definition XFF := "X-Forwarded-For".
Definition XFP := "X-Forwarded-Proto".
Definition XFH := "X-Forwarded-Host".
Definition XFU := "X-Forwarded-Uri".
Definition XFPath := "X-Forwarded-Path".
Definition XFM := "X-Forwarded-Method".
Definition FWD := "Forwarded".

(** trustedproxy.untrustedHeader *)
Definition untrusted_header : list string := [FWD; XFF; XFP; XFH; XFU; XFPath; XFM].

Definition parse_headers (r : raw_hdrs) : hdrs :=
  map (fun nv => (canon_key (fst nv), http_trim (snd nv))) r.

(** Header.Set: replaces all values of the key *)
Definition set_hdr (k v : string) (h : hdrs) : hdrs := (del k h ++ [(k, v)])%list.

(* ------------------------------------------------------------------ addresses *)

(** net.IP: a byte slice; [[]] is Go's nil (what net.ParseIP returns on failure) *)
Definition ip := list N.

Definition bytes_eqb (a b : list N) : bool := list_eqb N.eqb a b.

Definition v4_in_v6_prefix : list N := [0;0;0;0;0;0;0;0;0;0;255;255]%N.

(** net.IP.Equal *)
Definition ip_equal (a x : ip) : bool :=
  if Nat.eqb (length a) (length x) then bytes_eqb a x
  else if Nat.eqb (length a) 4 && Nat.eqb (length x) 16 then
    bytes_eqb (firstn 12 x) v4_in_v6_prefix && bytes_eqb a (skipn 12 x)
  else if Nat.eqb (length a) 16 && Nat.eqb (length x) 4 then
    bytes_eqb (firstn 12 a) v4_in_v6_prefix && bytes_eqb (skipn 12 a) x
  else false.

(** net.IP.To4: [None] is nil *)
Definition to4 (a : ip) : option ip :=
  if Nat.eqb (length a) 4 then Some a
  else if Nat.eqb (length a) 16 && bytes_eqb (firstn 12 a) v4_in_v6_prefix then Some (skipn 12 a)
  else None.

(** net.networkNumberAndMask: [None] is (nil, nil) *)
Definition network_number_and_mask (a : ip) (m : list N) : option (ip * list N) :=
  let r := match to4 a with
           | Some a4 => Some a4
           | None => if Nat.eqb (length a) 16 then Some a else None
           end in
  match r with
  | None => None
  | Some a' =>
    if Nat.eqb (length m) 4 then
      (if Nat.eqb (length a') 4 then Some (a', m) else None)
    else if Nat.eqb (length m) 16 then
      (if Nat.eqb (length a') 4 then Some (a', skipn 12 m) else Some (a', m))
    else None
  end.

(** the loop of IPNet.Contains over [l = len(ip)] bytes *)
Fixpoint masked_eqb (nn m p : list N) : bool :=
  match nn, m, p with
  | [], _, [] => true
  | n :: nn', mb :: m', pb :: p' => N.eqb (N.land n mb) (N.land pb mb) && masked_eqb nn' m' p'
  | _, _, _ => false  (* lengths differ: excluded by the length test before the loop, or a Go index panic *)
  end.

(** would the loop of IPNet.Contains index out of range (a Go panic)?  [l = len(ip)] bytes are read
    from the network number and the mask *)
Definition contains_panics (a : ip) (m : list N) (p : ip) : bool :=
  let p' := match to4 p with Some x => x | None => p end in
  match network_number_and_mask a m with
  | None => false
  | Some (nn, mk) => Nat.eqb (length p') (length nn) && negb (Nat.leb (length p') (length mk))
  end.

(** net.IPNet.Contains *)
Definition net_contains (a : ip) (m : list N) (p : ip) : bool :=
  let p' := match to4 p with Some x => x | None => p end in
  match network_number_and_mask a m with
  | None => Nat.eqb (length p') 0          (* nn = nil: l != len(nn) unless l = 0, then the loop is empty *)
  | Some (nn, mk) =>
    if Nat.eqb (length p') (length nn) then masked_eqb nn mk p' else false
  end.

(** one configured trusted_proxies entry with the answer of the net package:
    no "/" : ParseIP ([EIp []] when it fails);  with "/" : ParseCIDR *)
Inductive entry :=
| EIp (a : ip)
| ECidrErr
| ECidr (a : ip) (m : list N).

(** trustedproxy.ipHolder *)
Inductive holder := HIp (a : ip) | HNet (a : ip) (m : list N).

(** the loop of trustedproxy.New *)
Definition holder_of (fixed_F1 : bool) (e : entry) : list holder :=
  match e with
  | EIp a => if fixed_F1 && is_nil a then [] else [HIp a]
  | ECidrErr => []
  | ECidr a m => [HNet a m]
  end.

Definition holders (fixed_F1 : bool) (es : list entry) : list holder := flat_map (holder_of fixed_F1) es.

Definition holder_contains (p : ip) (h : holder) : bool :=
  match h with
  | HIp a => ip_equal a p
  | HNet a m => net_contains a m p
  end.

(** trustedProxySet.Contains(net.ParseIP(IPFromHostPort(RemoteAddr))) *)
Definition trusted_peer (fixed_F1 : bool) (es : list entry) (peer : ip) : bool :=
  existsb (holder_contains peer) (holders fixed_F1 es).

(** the middleware: delete the seven headers unless the peer is trusted *)
Definition strip (trusted : bool) (h : hdrs) : hdrs :=
  if trusted then h else fold_left (fun acc n => del n acc) untrusted_header h.

(* ------------------------------------------------------------------ the request view *)

(** what the connection and the request line say *)
Record conn := {
  c_peer : string;      (* httpx.IPFromHostPort(req.RemoteAddr) *)
  c_tls : bool;         (* req.TLS != nil *)
  c_method : string;    (* req.Method *)
  c_host : string;      (* req.Host *)
  c_escpath : string;   (* req.URL.EscapedPath() *)
  c_rawquery : string   (* req.URL.RawQuery *)
}.

(** heimdall.Request as the pipeline sees it (URL.Path is PathUnescape(RawPath)) *)
Record view := {
  v_method : string;
  v_scheme : string;
  v_host : string;
  v_rawpath : string;
  v_query : string;
  v_ips : list string;
  v_hdrs : hdrs          (* what Header()/Headers() read: the request headers after the middleware *)
}.

Section Oracle.
  (** url.Parse on an X-Forwarded-Uri value: [Some (EscapedPath(), RawQuery)] (the query as sent since
      fix: f446e16, before it Query().Encode()), [None] on error *)
  Variable parse_uri : string -> option (string * string).

  (** path and query of an X-Forwarded-Uri value: as url.Parse reads it; a value that does not parse is
      used as received, cut at the first "?" (fix: d3f6cd7; before it such a value was ignored) *)
  Definition read_uri (v : string) : string * string :=
    match parse_uri v with Some pq => pq | None => cut_at "?" v end.

  Definition actual_scheme (c : conn) : string := if c_tls c then "https" else "http".

  (** extractURL *)
  Definition extract_url (c : conn) (h : hdrs) : string * string * string * string :=
    let proto := let p := get XFP h in if nonempty p then p else actual_scheme c in
    let host := let x := get XFH h in if nonempty x then x else c_host c in
    let pq := let v := get XFU h in
              if nonempty v then read_uri v
              else ("", "") in
    let rawpath := if nonempty (fst pq) then fst pq else c_escpath c in
    let query := if nonempty (snd pq) then snd pq else c_rawquery c in
    (proto, host, rawpath, query).

  (** extractMethod *)
  Definition extract_method (c : conn) (h : hdrs) : string :=
    let v := get XFM h in if nonempty v then v else c_method c.

  (** the inner loops of requestClientIPs for one element of the Forwarded header *)
  Definition forwarded_for (elem : string) : string :=
    fold_left (fun acc part => match cut_prefix "for=" (trim_space part) with Some a => a | None => acc end)
              (split_on ";" (trim_space elem)) "".

  (** requestClientIPs *)
  Definition client_ips (c : conn) (h : hdrs) : list string :=
    let fw := get FWD h in
    let ips := if nonempty fw then map forwarded_for (split_on "," fw)
               else let xff := get XFF h in
                    if nonempty xff then map trim_space (split_on "," xff) else [] in
    ips ++ [c_peer c].

  (** requestcontext.New + Request(), on the headers the middleware left *)
  Definition view_of (c : conn) (h : hdrs) : view :=
    let '(proto, host, rawpath, query) := extract_url c h in
    {| v_method := extract_method c h; v_scheme := proto; v_host := host; v_rawpath := rawpath;
       v_query := query; v_ips := client_ips c h; v_hdrs := h |}.

  (* ---------------------------------------------------------------- proxy: forwarded headers for the upstream *)

  Definition forwarded_elem (c : conn) : string :=
    "for=" ++ c_peer c ++ ";host=" ++ c_host c ++ ";proto=" ++ actual_scheme c.

  (** the headers of the outgoing proxy request, as far as they derive from the incoming request
      (hop-by-hop headers, which ReverseProxy removes, and the headers the pipeline adds are outside
      this model).  [h] is the header list the middleware left.
      - httputil.ReverseProxy (Rewrite set) clones the incoming headers and deletes Forwarded,
        X-Forwarded-For, X-Forwarded-Host, X-Forwarded-Proto from the clone;
      - rewriteRequest deletes X-Forwarded-Method, X-Forwarded-Uri, X-Forwarded-Path;
      - then the block that re-creates the forwarding information from [proxyReq.In] (the request
        after the middleware); X-Forwarded-For and Forwarded are list fields: all their field lines
        count, joined by ", " (fix: f228b67; before it only the first line was extended).
        Values are what arrives (net/http trims optional white space). *)
  Definition upstream_cleared (h : hdrs) : hdrs :=
    fold_left (fun acc n => del n acc) [FWD; XFF; XFH; XFP; XFM; XFU; XFPath] h.

  Definition upstream_headers (c : conn) (h : hdrs) : hdrs :=
    let xfh := get XFH h in
    let xfp := get XFP h in
    let xff := join ", " (values XFF h) in
    let fw := join ", " (values FWD h) in
    let out := upstream_cleared h in
    if nonempty xff || nonempty xfp || nonempty xfh then
      set_hdr XFH (http_trim (if nonempty xfh then xfh else c_host c))
        (set_hdr XFP (http_trim (if nonempty xfp then xfp else actual_scheme c))
           (set_hdr XFF (http_trim (if nonempty xff then xff ++ ", " ++ c_peer c else c_peer c)) out))
    else
      set_hdr FWD (http_trim (if nonempty fw then fw ++ ", " ++ forwarded_elem c else forwarded_elem c)) out.

  (** what one request produces: the view handed to matching and mechanisms, and (proxy mode) the
      method and the headers of the request that reaches the upstream *)
  Record served := {
    s_view : view;
    s_up_hdrs : hdrs;
    s_up_method : string
  }.

  Definition serve (fixed_F1 : bool) (es : list entry) (peer : ip) (c : conn) (h : hdrs) : served :=
    let h' := strip (trusted_peer fixed_F1 es peer) h in
    let v := view_of c h' in
    {| s_view := v; s_up_hdrs := upstream_headers c h'; s_up_method := v_method v |}.

  (* ---------------------------------------------------------------- the entry point on strings *)

  Section Net.
    Variable parse_ip : string -> ip.                       (* net.ParseIP; [[]] = nil *)
    Variable parse_cidr : string -> option (ip * list N).   (* net.ParseCIDR: network number and mask *)
    Variable split_host_port : string -> option string.     (* net.SplitHostPort: the host, [None] on error *)

    Definition contains_slash (s : string) : bool := existsb (Ascii.eqb "/") (list_ascii_of_string s).

    (** the dispatch of trustedproxy.New on one configured string *)
    Definition entry_of (s : string) : entry :=
      if contains_slash s then
        match parse_cidr s with Some (a, m) => ECidr a m | None => ECidrErr end
      else EIp (parse_ip s).

    Fixpoint drop_last (s : string) : string :=
      match s with
      | EmptyString => EmptyString
      | String a EmptyString => EmptyString
      | String a r => String a (drop_last r)
      end.

    (** httpx.IPFromHostPort *)
    Definition ip_from_host_port (hp : string) : string :=
      match split_host_port hp with
      | None => ""
      | Some (String "[" r) => drop_last r
      | Some host => host
      end.

    Inductive mode := Decision | Proxy.

    (** serve.decision.trusted_proxies and serve.proxy.trusted_proxies; [None] = option not set *)
    Record config := { cfg_decision : option (list string); cfg_proxy : option (list string) }.

    (** decision/service.go and proxy/service.go: each service hands its own option to
        trustedproxy.New, an absent option as the empty list *)
    Definition configured (m : mode) (cfg : config) : list string :=
      match (match m with Decision => cfg_decision cfg | Proxy => cfg_proxy cfg end) with
      | Some l => l
      | None => []
      end.

    (** the request line and connection facts that net/http hands to the handler chain *)
    Record reqline := { r_remote : string; r_tls : bool; r_method : string; r_host : string;
                        r_escpath : string; r_rawquery : string }.

    Definition conn_of (r : reqline) : conn :=
      {| c_peer := ip_from_host_port (r_remote r); c_tls := r_tls r; c_method := r_method r; c_host := r_host r;
         c_escpath := r_escpath r; c_rawquery := r_rawquery r |}.

    Definition handle (fixed_F1 : bool) (m : mode) (cfg : config) (r : reqline) (raw : raw_hdrs) : served :=
      serve fixed_F1 (map entry_of (configured m cfg)) (parse_ip (ip_from_host_port (r_remote r)))
            (conn_of r) (parse_headers raw).

    (** one instance of the service: trustedproxy.New returns a closure over the holder set, which is never
        written after construction, and requestcontext.New builds a new context per request — an instance
        keeps nothing from one request to the next.  A history of requests is served one by one. *)
    Definition run_instance (fixed_F1 : bool) (m : mode) (cfg : config) (reqs : list (reqline * raw_hdrs)) : list served :=
      map (fun rq => handle fixed_F1 m cfg (fst rq) (snd rq)) reqs.
  End Net.
End Oracle.
