(** C09 — the entry point on what operator and client supply: configured strings,
    RemoteAddr, header lines as sent (any casing of the names).

    Specification vocabulary added here:
    - header names are compared without regard to ASCII case ([eq_ci],
      [is_forwarded_ci], [not_forwarded_raw], [same_except_forwarded_raw]);
    - the configured list of a mode is that mode's own option, an absent option is
      the empty list; a configured string covers an address when it reads as an
      address equal to it or as a CIDR range containing it ([covers_str]); the peer
      address is the host part of RemoteAddr, no host:port = nobody ([peer_addr],
      [listed_cfg]);
    - independent characterisations of strings.Split and strings.TrimSpace
      ([is_split], [is_trim]) and, built from them, the client list a trusted
      proxy announces ([announced]). *)
From HV Require Import Base.Prelude C09.Model C09.Proofs.
Open Scope string_scope.

(* ------------------------------------------------------------------ header-name casing *)

Fixpoint lower (s : string) : string :=
  match s with
  | EmptyString => EmptyString
  | String a r => String (to_lower a) (lower r)
  end.

(** equal as header names: ASCII case does not count *)
Definition eq_ci (a b : string) : bool := String.eqb (lower a) (lower b).

Definition is_forwarded_ci (n : string) : bool := existsb (eq_ci n) untrusted_header.

Definition not_forwarded_raw (r : raw_hdrs) : raw_hdrs := filter (fun nv => negb (is_forwarded_ci (fst nv))) r.

(** two requests whose header lines differ at most in lines named (in any casing) like one of the seven *)
Definition same_except_forwarded_raw (r r' : raw_hdrs) : Prop := not_forwarded_raw r = not_forwarded_raw r'.

Ltac ascii_cases c := destruct c as [[] [] [] [] [] [] [] []]; reflexivity.

Lemma to_lower_idem c : to_lower (to_lower c) = to_lower c.
Proof. ascii_cases c. Qed.

Lemma to_lower_upper c : to_lower (to_upper c) = to_lower c.
Proof. ascii_cases c. Qed.

Lemma to_upper_lower c : to_upper (to_lower c) = to_upper c.
Proof. ascii_cases c. Qed.

Lemma canon_go_lower u s : canon_go u (lower s) = canon_go u s.
Proof.
  revert u. induction s as [|c s IH]; intro u; simpl; [reflexivity|].
  destruct u; rewrite ?to_upper_lower, ?to_lower_idem, IH; reflexivity.
Qed.

Lemma lower_canon_go u s : lower (canon_go u s) = lower s.
Proof.
  revert u. induction s as [|c s IH]; intro u; simpl; [reflexivity|].
  destruct u; rewrite ?to_lower_upper, ?to_lower_idem, IH; reflexivity.
Qed.

(** names that differ only in case have the same canonical key ... *)
Lemma canon_key_ci a b : eq_ci a b = true -> canon_key a = canon_key b.
Proof.
  unfold eq_ci, canon_key. intro E. apply String.eqb_eq in E.
  rewrite <- (canon_go_lower true a), <- (canon_go_lower true b), E. reflexivity.
Qed.

(** ... and a name has the canonical key K exactly when it is K up to case *)
Lemma canon_key_eqb n K : canon_key K = K -> String.eqb (canon_key n) K = eq_ci n K.
Proof.
  intro HK. destruct (eq_ci n K) eqn:E.
  - apply canon_key_ci in E. rewrite E, HK. apply String.eqb_refl.
  - destruct (String.eqb (canon_key n) K) eqn:E'; [|reflexivity].
    apply String.eqb_eq in E'. unfold eq_ci in E.
    assert (L : lower n = lower K) by (rewrite <- E'; unfold canon_key; rewrite lower_canon_go; reflexivity).
    rewrite L, String.eqb_refl in E. discriminate.
Qed.

Lemma forwarded_name_canon n : is_forwarded_name (canon_key n) = is_forwarded_ci n.
Proof.
  unfold is_forwarded_name, is_forwarded_ci, untrusted_header. cbn [existsb].
  rewrite !canon_key_eqb by reflexivity. reflexivity.
Qed.

Lemma not_forwarded_parse r : not_forwarded (parse_headers r) = parse_headers (not_forwarded_raw r).
Proof.
  unfold not_forwarded, parse_headers, not_forwarded_raw.
  induction r as [|[n v] r IH]; simpl; [reflexivity|].
  rewrite forwarded_name_canon. destruct (is_forwarded_ci n); simpl; rewrite IH; reflexivity.
Qed.

Lemma same_except_parse r r' :
  same_except_forwarded_raw r r' -> same_except_forwarded (parse_headers r) (parse_headers r').
Proof.
  unfold same_except_forwarded_raw, same_except_forwarded. intro E. rewrite !not_forwarded_parse, E. reflexivity.
Qed.

(** no header line named like one of the seven, in any casing, is among the parsed headers that remain *)
Lemma has_parse_not_forwarded_raw n r :
  is_forwarded_ci n = true -> has (canon_key n) (parse_headers (not_forwarded_raw r)) = false.
Proof.
  intro Hn. rewrite <- not_forwarded_parse. apply has_not_forwarded. rewrite forwarded_name_canon. exact Hn.
Qed.

(* ------------------------------------------------------------------ the configured strings and RemoteAddr *)

Section NetSpec.
  Variable parse_ip : string -> ip.
  Variable parse_cidr : string -> option (ip * list N).
  Variable split_host_port : string -> option string.

  (** what the theorems assume of the net package (each is re-checked on the observed answers of every case):
      ParseIP returns nil, 4 or 16 bytes, and nil for the empty string and for anything containing "/";
      ParseCIDR answers only strings containing "/", with address and mask of equal length 4 or 16;
      the host returned by SplitHostPort does not start with "[" (it strips the brackets itself). *)
  Definition net_ok : Prop :=
    (forall s, wf_ip (parse_ip s)) /\
    parse_ip "" = [] /\
    (forall s, contains_slash s = true -> parse_ip s = []) /\
    (forall s a m, parse_cidr s = Some (a, m) -> contains_slash s = true /\ wf_entry (ECidr a m)) /\
    (forall s h, split_host_port s = Some h -> forall r, h <> String "[" r).

  (** the address of the directly connected peer: the host part of RemoteAddr; no host:port, no address *)
  Definition peer_host (remote : string) : string :=
    match split_host_port remote with Some h => h | None => "" end.

  Definition peer_addr (remote : string) : ip :=
    match split_host_port remote with Some h => parse_ip h | None => [] end.

  (** a configured string covers an address when it reads as that address or as a range containing it *)
  Definition covers_str (s : string) (p : ip) : bool :=
    spec_covers (EIp (parse_ip s)) p ||
    match parse_cidr s with Some (a, m) => spec_covers (ECidr a m) p | None => false end.

  (** listed in trusted_proxies of the mode that serves the request; an option that is not set lists nobody *)
  Definition listed_cfg (m : mode) (cfg : config) (remote : string) : Prop :=
    exists l s, (match m with Decision => cfg_decision cfg | Proxy => cfg_proxy cfg end) = Some l /\
                In s l /\ covers_str s (peer_addr remote) = true.

  Hypothesis Hnet : net_ok.

  Lemma host_is_peer_host remote : ip_from_host_port split_host_port remote = peer_host remote.
  Proof.
    unfold ip_from_host_port, peer_host. destruct (split_host_port remote) as [h|] eqn:E; [|reflexivity].
    destruct Hnet as (_ & _ & _ & _ & Hb). specialize (Hb _ _ E).
    destruct h as [|a r]; [reflexivity|].
    destruct (Ascii.eqb a "[") eqn:Ea.
    - apply Ascii.eqb_eq in Ea. subst. exfalso. apply (Hb r). reflexivity.
    - destruct a as [[] [] [] [] [] [] [] []]; try reflexivity. discriminate.
  Qed.

  Lemma peer_is_peer_addr remote : parse_ip (ip_from_host_port split_host_port remote) = peer_addr remote.
  Proof.
    rewrite host_is_peer_host. unfold peer_host, peer_addr.
    destruct (split_host_port remote); [reflexivity|]. destruct Hnet as (_ & He & _). exact He.
  Qed.

  Lemma peer_addr_wf remote : wf_ip (peer_addr remote).
  Proof.
    unfold peer_addr. destruct Hnet as (Hw & _). destruct (split_host_port remote); [apply Hw | left; reflexivity].
  Qed.

  Lemma entry_of_wf s : wf_entry (entry_of parse_ip parse_cidr s).
  Proof.
    unfold entry_of. destruct (contains_slash s).
    - destruct (parse_cidr s) as [[a m]|] eqn:E; [|exact I].
      destruct Hnet as (_ & _ & _ & Hc & _). apply (Hc _ _ _ E).
    - destruct Hnet as (Hw & _). apply Hw.
  Qed.

  Lemma spec_covers_nil p : spec_covers (EIp []) p = false.
  Proof. unfold spec_covers. destruct (canon16 p); reflexivity. Qed.

  Lemma entry_of_covers s p : spec_covers (entry_of parse_ip parse_cidr s) p = covers_str s p.
  Proof.
    unfold entry_of, covers_str. destruct Hnet as (_ & _ & Hs & Hc & _).
    destruct (contains_slash s) eqn:E.
    - rewrite (Hs _ E), spec_covers_nil. simpl.
      destruct (parse_cidr s) as [[a m]|]; [reflexivity|]. unfold spec_covers. destruct (canon16 p); reflexivity.
    - destruct (parse_cidr s) as [[a m]|] eqn:Ec.
      + destruct (Hc _ _ _ Ec) as [Hx _]. rewrite Hx in E. discriminate.
      + rewrite orb_false_r. reflexivity.
  Qed.

  Lemma listed_cfg_listed m cfg remote :
    listed (map (entry_of parse_ip parse_cidr) (configured m cfg)) (peer_addr remote) <-> listed_cfg m cfg remote.
  Proof.
    unfold listed, listed_cfg, configured. split.
    - intros (e & Hin & Hc). apply in_map_iff in Hin as (s & <- & Hs). rewrite entry_of_covers in Hc.
      destruct (match m with Decision => cfg_decision cfg | Proxy => cfg_proxy cfg end) as [l|]; [|destruct Hs].
      exists l, s. auto.
    - intros (l & s & -> & Hs & Hc). exists (entry_of parse_ip parse_cidr s). split.
      + apply in_map. exact Hs.
      + rewrite entry_of_covers. exact Hc.
  Qed.

  Lemma configured_wf m cfg : Forall wf_entry (map (entry_of parse_ip parse_cidr) (configured m cfg)).
  Proof. apply Forall_forall. intros e Hin. apply in_map_iff in Hin as (s & <- & _). apply entry_of_wf. Qed.

  (** the middleware of a service trusts the peer exactly when the peer is listed in that service's own option *)
  Theorem trust_is_membership_cfg m cfg remote :
    trusted_peer true (map (entry_of parse_ip parse_cidr) (configured m cfg))
                 (parse_ip (ip_from_host_port split_host_port remote)) = true
    <-> listed_cfg m cfg remote.
  Proof.
    rewrite peer_is_peer_addr. rewrite <- listed_cfg_listed.
    apply trust_is_membership; [apply configured_wf | apply peer_addr_wf].
  Qed.
End NetSpec.

(* ------------------------------------------------------------------ strings.Split and strings.TrimSpace, characterised *)

Fixpoint sep_concat (c : ascii) (l : list string) : string :=
  match l with
  | [] => ""
  | [x] => x
  | x :: r => x ++ String c (sep_concat c r)
  end.

Definition free_of (c : ascii) (x : string) : Prop := ~ In c (list_ascii_of_string x).

(** [l] is [s] cut at every [c]: at least one piece, no piece contains [c], and the pieces put together
    with [c] between them are [s] again *)
Definition is_split (c : ascii) (s : string) (l : list string) : Prop :=
  l <> [] /\ sep_concat c l = s /\ Forall (free_of c) l.

Lemma split_on_spec c s : is_split c s (split_on c s).
Proof.
  induction s as [|a s IH].
  - simpl. split; [discriminate|]. split; [reflexivity|]. constructor; [intros []|constructor].
  - destruct IH as (Hne & Hcat & Hfree). simpl.
    destruct (Ascii.eqb a c) eqn:E.
    + apply Ascii.eqb_eq in E. subst a. split; [discriminate|]. split.
      * destruct (split_on c s) as [|h t]; [contradiction|]. cbn [sep_concat]. simpl. rewrite <- Hcat. reflexivity.
      * constructor; [intros []|exact Hfree].
    + destruct (split_on c s) as [|h t]; [contradiction|].
      split; [discriminate|]. split.
      * rewrite <- Hcat. destruct t; reflexivity.
      * inversion Hfree as [|? ? Hh Ht]; subst. constructor; [|exact Ht].
        intros [Hin|Hin]; [subst; rewrite Ascii.eqb_refl in E; discriminate | exact (Hh Hin)].
Qed.

Lemma string_app_nil (x : string) : (x ++ "")%string = x.
Proof. induction x; simpl; congruence. Qed.

(** two texts that start with a [c]-free piece followed by the end or by [c] start with the same piece *)
Lemma first_piece c : forall (x x' t t' : string),
  free_of c x -> free_of c x' ->
  (t = "" \/ exists u, t = String c u) -> (t' = "" \/ exists u, t' = String c u) ->
  (x ++ t = x' ++ t')%string -> x = x' /\ t = t'.
Proof.
  induction x as [|a x IHx]; intros [|a' x'] t t' Hx Hx' Ht Ht' E; simpl in *.
  - auto.
  - destruct Ht as [->|(u & ->)]; [discriminate|]. inversion E; subst. exfalso. apply Hx'. left. reflexivity.
  - destruct Ht' as [->|(u & ->)]; [discriminate|]. inversion E; subst. exfalso. apply Hx. left. reflexivity.
  - inversion E; subst.
    destruct (IHx x' t t') as [-> ->]; auto.
    + intro Hin. apply Hx. right. exact Hin.
    + intro Hin. apply Hx'. right. exact Hin.
Qed.

(** the pieces are determined by the description *)
Lemma is_split_unique c s l l' : is_split c s l -> is_split c s l' -> l = l'.
Proof.
  revert s l'. induction l as [|x l IH]; intros s l' (Hne & Hcat & Hfree) (Hne' & Hcat' & Hfree'); [contradiction|].
  destruct l' as [|x' l']; [contradiction|].
  inversion Hfree as [|? ? Hx Hl]. inversion Hfree' as [|? ? Hx' Hl']. subst.
  assert (E : sep_concat c (x :: l) = sep_concat c (x' :: l')) by congruence.
  clear Hcat' Hne Hne' Hfree Hfree'.
  destruct l as [|y l]; destruct l' as [|y' l']; cbn [sep_concat] in E.
  - subst. reflexivity.
  - exfalso. rewrite <- (string_app_nil x) in E.
    destruct (first_piece c _ _ _ _ Hx Hx' (or_introl eq_refl) (or_intror (ex_intro _ _ eq_refl)) E) as [_ H].
    discriminate.
  - exfalso. rewrite <- (string_app_nil x') in E.
    destruct (first_piece c _ _ _ _ Hx Hx' (or_intror (ex_intro _ _ eq_refl)) (or_introl eq_refl) E) as [_ H].
    discriminate.
  - destruct (first_piece c _ _ _ _ Hx Hx' (or_intror (ex_intro _ _ eq_refl)) (or_intror (ex_intro _ _ eq_refl)) E) as [-> Ht].
    inversion Ht as [Ht']. f_equal.
    apply (IH (sep_concat c (y :: l))); (split; [discriminate|]); split; auto.
Qed.

(** strings.Cut, characterised: the first piece is free of the separator; either the text is the first
    piece, the separator and the rest, or there is no separator and the rest is empty *)
Lemma cut_at_spec c s :
  free_of c (fst (cut_at c s)) /\
  (s = (fst (cut_at c s) ++ String c (snd (cut_at c s)))%string \/
   (free_of c s /\ fst (cut_at c s) = s /\ snd (cut_at c s) = "")).
Proof.
  induction s as [|a s (Hf & IH)]; simpl.
  - split; [intros []|]. right. split; [intros []|]. auto.
  - destruct (Ascii.eqb a c) eqn:E.
    + apply Ascii.eqb_eq in E. subst. simpl. split; [intros []|]. left. reflexivity.
    + destruct (cut_at c s) as [x y] eqn:Ec. simpl in *.
      assert (Ha : a <> c) by (intro; subst; rewrite Ascii.eqb_refl in E; discriminate).
      split; [intros [H|H]; [exact (Ha H)|exact (Hf H)]|].
      destruct IH as [IH|(Hs & Hx & Hy)]; [left; congruence|].
      right. split; [intros [H|H]; [exact (Ha H)|exact (Hs H)]|]. split; congruence.
Qed.

Definition all_space (s : string) : Prop := Forall (fun a => is_space a = true) (list_ascii_of_string s).

Definition starts_nonspace (t : string) : Prop := forall a t', t = String a t' -> is_space a = false.
Definition ends_nonspace (t : string) : Prop := forall t' a, t = (t' ++ String a "")%string -> is_space a = false.

(** [t] is [s] without the white space at both ends *)
Definition is_trim (s t : string) : Prop :=
  exists l r, s = (l ++ t ++ r)%string /\ all_space l /\ all_space r /\ starts_nonspace t /\ ends_nonspace t.

Lemma trim_left_spec s :
  exists l, s = (l ++ trim_left is_space s)%string /\ all_space l /\ starts_nonspace (trim_left is_space s).
Proof.
  induction s as [|a s (l & E & Hl & Hs)].
  - exists "". split; [reflexivity|]. split; [constructor|]. intros a t' H. discriminate.
  - simpl. destruct (is_space a) eqn:Ea.
    + exists (String a l). split; [simpl; congruence|]. split; [constructor; assumption|exact Hs].
    + exists "". split; [reflexivity|]. split; [constructor|]. intros a' t' H. inversion H; subst. exact Ea.
Qed.

Lemma trim_right_spec s :
  exists r, s = (trim_right is_space s ++ r)%string /\ all_space r /\ ends_nonspace (trim_right is_space s).
Proof.
  induction s as [|a s (r & E & Hr & He)].
  - exists "". split; [reflexivity|]. split; [constructor|]. intros t' a H. destruct t'; discriminate.
  - simpl. destruct (trim_right is_space s) as [|b u] eqn:Et.
    + destruct (is_space a) eqn:Ea.
      * exists (String a r). split; [simpl in E; simpl; congruence|]. split; [constructor; assumption|].
        intros t' a' H. destruct t'; discriminate.
      * exists r. split; [simpl in *; congruence|]. split; [exact Hr|].
        intros t' a' H. destruct t' as [|x t']; simpl in H; inversion H; subst; [exact Ea|destruct t'; discriminate].
    + exists r. split; [simpl in *; congruence|]. split; [exact Hr|].
      intros t' a' H. destruct t' as [|x t']; simpl in H; inversion H as [[Hx Hu]]; subst.
      apply (He t' a'). exact Hu.
Qed.

Lemma trim_right_keeps_start s :
  starts_nonspace s -> starts_nonspace (trim_right is_space s).
Proof.
  intros Hs a t' H. destruct s as [|b s]; [discriminate|]. simpl in H.
  destruct (trim_right is_space s).
  - destruct (is_space b) eqn:Eb; [discriminate|]. inversion H; subst. exact Eb.
  - inversion H; subst. apply (Hs a s). reflexivity.
Qed.

Lemma string_app_assoc (a b c : string) : ((a ++ b) ++ c)%string = (a ++ b ++ c)%string.
Proof. induction a; simpl; congruence. Qed.

Lemma trim_space_spec s : is_trim s (trim_space s).
Proof.
  unfold trim_space. destruct (trim_left_spec s) as (l & El & Hl & Hs).
  destruct (trim_right_spec (trim_left is_space s)) as (r & Er & Hr & He).
  exists l, r. split; [rewrite El at 1; rewrite Er at 1; reflexivity|].
  split; [exact Hl|]. split; [exact Hr|]. split; [apply trim_right_keeps_start; exact Hs | exact He].
Qed.

(* ------------------------------------------------------------------ the client list a trusted proxy announces *)

(** [x] is nothing, or the value of a for= parameter of the Forwarded element [elem]
    (parameters are separated by ";", white space around element and parameter does not count) *)
Definition for_value (elem x : string) : Prop :=
  x = "" \/
  exists te parts p, is_trim elem te /\ is_split ";" te parts /\ In p parts /\ is_trim p ("for=" ++ x).

(** X-Forwarded-For: the comma separated entries without the white space around them *)
Definition announced_xff (xff : option string) (xs : list string) : Prop :=
  match xff with
  | Some x => if nonempty x then exists elems, is_split "," x elems /\ Forall2 is_trim elems xs else xs = []
  | None => xs = []
  end.

(** Forwarded (one entry per comma separated element) wins over X-Forwarded-For;
    [fw], [xff]: the first value of the header if the request has one *)
Definition announced_of (fw xff : option string) (xs : list string) : Prop :=
  match fw with
  | Some f => if nonempty f then exists elems, is_split "," f elems /\ Forall2 for_value elems xs
              else announced_xff xff xs
  | None => announced_xff xff xs
  end.

Definition announced (h : hdrs) (xs : list string) : Prop := announced_of (hdr FWD h) (hdr XFF h) xs.

Lemma cut_prefix_some p s r : cut_prefix p s = Some r -> s = (p ++ r)%string.
Proof.
  revert s. induction p as [|a p IH]; intros s H; simpl in *.
  - inversion H. reflexivity.
  - destruct s as [|b s]; [discriminate|]. destruct (Ascii.eqb a b) eqn:E; [|discriminate].
    apply Ascii.eqb_eq in E. subst. f_equal. apply IH. exact H.
Qed.

Definition ff_step (acc part : string) : string :=
  match cut_prefix "for=" (trim_space part) with Some a => a | None => acc end.

Lemma fold_for_value parts : forall acc,
  fold_left ff_step parts acc = acc \/
  exists p, In p parts /\ cut_prefix "for=" (trim_space p) = Some (fold_left ff_step parts acc).
Proof.
  induction parts as [|p parts IH]; intro acc; cbn [fold_left In]; [left; reflexivity|].
  destruct (IH (ff_step acc p)) as [E|(q & Hq & Hc)].
  - rewrite E. unfold ff_step. destruct (cut_prefix "for=" (trim_space p)) eqn:Ec; [|left; reflexivity].
    right. exists p. split; [left; reflexivity|exact Ec].
  - right. exists q. split; [right; exact Hq|exact Hc].
Qed.

Lemma forwarded_for_value elem : for_value elem (forwarded_for elem).
Proof.
  unfold forwarded_for. fold ff_step.
  destruct (fold_for_value (split_on ";" (trim_space elem)) "") as [E|(p & Hp & Hc)].
  - left. exact E.
  - right. exists (trim_space elem), (split_on ";" (trim_space elem)), p.
    split; [apply trim_space_spec|]. split; [apply split_on_spec|]. split; [exact Hp|].
    apply cut_prefix_some in Hc. rewrite <- Hc. apply trim_space_spec.
Qed.

Lemma Forall2_map {A B} (R : A -> B -> Prop) (f : A -> B) l : (forall x, R x (f x)) -> Forall2 R l (map f l).
Proof. intro H. induction l; simpl; constructor; auto. Qed.

Lemma announced_model h : announced h (spec_forwarded_clients h).
Proof.
  assert (X : announced_xff (hdr XFF h) match hdr XFF h with
                              | Some x => if nonempty x then map trim_space (split_on "," x) else []
                              | None => []
                              end).
  { unfold announced_xff. destruct (hdr XFF h) as [x|]; [|reflexivity].
    destruct (nonempty x); [|reflexivity].
    exists (split_on "," x). split; [apply split_on_spec|]. apply Forall2_map. apply trim_space_spec. }
  unfold announced, announced_of, spec_forwarded_clients. destruct (hdr FWD h) as [fw|]; [|exact X].
  destruct (nonempty fw); [|exact X].
  exists (split_on "," fw). split; [apply split_on_spec|]. apply Forall2_map. apply forwarded_for_value.
Qed.

(** the same class as a boolean, a little wider (parameter name in any case, value with or without
    quotes), for the evaluator of the correspondence stream *)
Fixpoint cut_prefix_ci (p s : string) : option string :=
  match p with
  | EmptyString => Some s
  | String a p' =>
    match s with
    | String b s' => if Ascii.eqb (to_lower a) (to_lower b) then cut_prefix_ci p' s' else None
    | EmptyString => None
    end
  end.

Definition unquote (s : string) : string :=
  match s with
  | String """" r => match trim_right (Ascii.eqb """") r with
                     | r' => if String.eqb (r' ++ """") r then r' else s
                     end
  | _ => s
  end.

Definition for_class_b (elem x : string) : bool :=
  String.eqb x "" ||
  existsb (fun p => match cut_prefix_ci "for=" (trim_space p) with
                    | Some r => String.eqb r x || String.eqb (unquote r) x
                    | None => false
                    end) (split_on ";" (trim_space elem)).

Lemma cut_prefix_ci_of p s r : cut_prefix p s = Some r -> cut_prefix_ci p s = Some r.
Proof.
  revert s. induction p as [|a p IH]; intros s H; simpl in *; [exact H|].
  destruct s as [|b s]; [discriminate|]. destruct (Ascii.eqb a b) eqn:E; [|discriminate].
  apply Ascii.eqb_eq in E. subst. rewrite Ascii.eqb_refl. apply IH. exact H.
Qed.

Lemma forwarded_for_class elem : for_class_b elem (forwarded_for elem) = true.
Proof.
  unfold for_class_b, forwarded_for. fold ff_step.
  destruct (fold_for_value (split_on ";" (trim_space elem)) "") as [E|(p & Hp & Hc)].
  - rewrite E. reflexivity.
  - apply orb_true_iff. right. apply existsb_exists. exists p. split; [exact Hp|].
    rewrite (cut_prefix_ci_of _ _ _ Hc). rewrite String.eqb_refl. reflexivity.
Qed.

(* ------------------------------------------------------------------ trusted: each header overrides exactly its component *)

Section TrustedView.
  Variable parse_uri : string -> option (string * string).

  (** the value of every component: a present, non-empty header counts, otherwise the actual request *)
  Theorem trusted_view fixed es peer c h :
    Forall wf_entry es -> wf_ip peer -> listed es peer ->
    exists xs, announced h xs /\
    s_view (serve parse_uri fixed es peer c h) =
    let uri := match hdr XFU h with Some v => if nonempty v then Some (read_uri parse_uri v) else None | None => None end in
    {| v_method := override (hdr XFM h) (c_method c);
       v_scheme := override (hdr XFP h) (if c_tls c then "https" else "http");
       v_host := override (hdr XFH h) (c_host c);
       v_rawpath := override (option_map fst uri) (c_escpath c);
       v_query := override (option_map snd uri) (c_rawquery c);
       v_ips := xs ++ [c_peer c];
       v_hdrs := h |}.
  Proof.
    intros Hes Hp Hl. exists (spec_forwarded_clients h). split; [apply announced_model|].
    apply trusted_overrides_gen; assumption.
  Qed.

  (** "exactly its component": a component depends on no other header than its own (two requests of a
      listed peer that agree in the header of a component agree in that component, whatever else differs) *)
  Theorem trusted_frame fixed es peer c h h' :
    Forall wf_entry es -> wf_ip peer -> listed es peer ->
    let v := s_view (serve parse_uri fixed es peer c h) in
    let v' := s_view (serve parse_uri fixed es peer c h') in
    (hdr XFM h = hdr XFM h' -> v_method v = v_method v') /\
    (hdr XFP h = hdr XFP h' -> v_scheme v = v_scheme v') /\
    (hdr XFH h = hdr XFH h' -> v_host v = v_host v') /\
    (hdr XFU h = hdr XFU h' -> v_rawpath v = v_rawpath v' /\ v_query v = v_query v') /\
    (hdr FWD h = hdr FWD h' -> hdr XFF h = hdr XFF h' -> v_ips v = v_ips v').
  Proof.
    intros Hes Hp Hl v v'. subst v v'.
    rewrite !(trusted_overrides_gen parse_uri fixed es peer c) by assumption. cbn zeta.
    cbn [v_method v_scheme v_host v_rawpath v_query v_ips].
    repeat split; intros; unfold spec_forwarded_clients; repeat match goal with H : hdr _ _ = hdr _ _ |- _ => rewrite H; clear H end; reflexivity.
  Qed.
End TrustedView.

(* ------------------------------------------------------------------ the whole entry point *)

(** the first value of the header line named [n] in any casing, as it arrives (optional white space trimmed) *)
Definition hdr_ci (n : string) (raw : raw_hdrs) : option string :=
  match filter (fun nv => eq_ci (fst nv) n) raw with
  | nv :: _ => Some (http_trim (snd nv))
  | [] => None
  end.

Lemma hdr_parse K raw : canon_key K = K -> hdr K (parse_headers raw) = hdr_ci K raw.
Proof.
  intro HK. unfold hdr, hdr_ci, values, parse_headers.
  induction raw as [|[n v] raw IH]; simpl; [reflexivity|].
  rewrite (canon_key_eqb n K HK). destruct (eq_ci n K); simpl; [reflexivity|exact IH].
Qed.

Section Handle.
  Variable parse_uri : string -> option (string * string).
  Variable parse_ip : string -> ip.
  Variable parse_cidr : string -> option (ip * list N).
  Variable split_host_port : string -> option string.
  Hypothesis Hnet : net_ok parse_ip parse_cidr split_host_port.

  Notation handle' := (handle parse_uri parse_ip parse_cidr split_host_port true).
  Notation listed' := (listed_cfg parse_ip parse_cidr split_host_port).
  Notation host' := (peer_host split_host_port).

  Definition scheme_of (r : reqline) : string := if r_tls r then "https" else "http".

  (** the Forwarded header heimdall makes itself *)
  Definition fresh_forwarded (r : reqline) : string :=
    http_trim ("for=" ++ host' (r_remote r) ++ ";host=" ++ r_host r ++ ";proto=" ++ scheme_of r).

  Lemma untrusted_cfg m cfg r :
    ~ listed' m cfg (r_remote r) ->
    trusted_peer true (map (entry_of parse_ip parse_cidr) (configured m cfg))
                 (parse_ip (ip_from_host_port split_host_port (r_remote r))) = false.
  Proof.
    intro Hl. apply not_true_is_false. intro T. apply Hl.
    apply (trust_is_membership_cfg parse_ip parse_cidr split_host_port Hnet). exact T.
  Qed.

  (** not listed: everything comes from the connection and the request line; the remaining headers are
      the lines not named like one of the seven; the upstream gets these and one fresh Forwarded header *)
  Theorem handle_untrusted m cfg r raw :
    ~ listed' m cfg (r_remote r) ->
    handle' m cfg r raw =
      {| s_view := {| v_method := r_method r; v_scheme := scheme_of r; v_host := r_host r;
                      v_rawpath := r_escpath r; v_query := r_rawquery r; v_ips := [host' (r_remote r)];
                      v_hdrs := parse_headers (not_forwarded_raw raw) |};
         s_up_hdrs := (parse_headers (not_forwarded_raw raw) ++ [(FWD, fresh_forwarded r)])%list;
         s_up_method := r_method r |}.
  Proof.
    intro Hl. unfold handle. rewrite (untrusted_not_passed_on parse_uri true _ _ _ _ (untrusted_cfg m cfg r Hl)).
    unfold spec_view_untrusted, spec_upstream_untrusted, conn_of, fresh_forwarded, scheme_of, actual_scheme.
    cbn [c_peer c_tls c_method c_host c_escpath c_rawquery].
    rewrite (host_is_peer_host parse_ip parse_cidr split_host_port Hnet). rewrite not_forwarded_parse. reflexivity.
  Qed.

  (** ... so a header line named like one of the seven, in any casing, is neither visible to the pipeline
      nor passed on: the only such header at the upstream is the fresh Forwarded *)
  Theorem handle_untrusted_hidden m cfg r raw n :
    ~ listed' m cfg (r_remote r) -> is_forwarded_ci n = true ->
    has (canon_key n) (v_hdrs (s_view (handle' m cfg r raw))) = false /\
    forall v, In (canon_key n, v) (s_up_hdrs (handle' m cfg r raw)) -> canon_key n = FWD /\ v = fresh_forwarded r.
  Proof.
    intros Hl Hn. rewrite (handle_untrusted m cfg r raw Hl). cbn [s_view v_hdrs s_up_hdrs].
    split; [apply has_parse_not_forwarded_raw; exact Hn|].
    intros v Hin. apply in_app_or in Hin as [Hin|[Hin|[]]].
    - exfalso. pose proof (has_parse_not_forwarded_raw n raw Hn) as Hh.
      unfold has, values in Hh. apply negb_false_iff in Hh.
      assert (Hf : In (canon_key n, v) (filter (fun kv : string * string => String.eqb (fst kv) (canon_key n))
                                               (parse_headers (not_forwarded_raw raw)))).
      { apply filter_In. split; [exact Hin|]. apply String.eqb_refl. }
      destruct (filter _ (parse_headers (not_forwarded_raw raw))); [destruct Hf|discriminate].
    - inversion Hin. auto.
  Qed.

  (** 2-safety on what is sent: requests that differ at most in header lines named like one of the seven *)
  Theorem handle_noninterference m cfg r raw raw' :
    ~ listed' m cfg (r_remote r) -> same_except_forwarded_raw raw raw' ->
    handle' m cfg r raw = handle' m cfg r raw'.
  Proof.
    intros Hl Hs. rewrite !handle_untrusted by assumption. unfold same_except_forwarded_raw in Hs. rewrite Hs. reflexivity.
  Qed.

  Lemma trusted_cfg m cfg r :
    listed' m cfg (r_remote r) ->
    listed (map (entry_of parse_ip parse_cidr) (configured m cfg))
           (parse_ip (ip_from_host_port split_host_port (r_remote r))).
  Proof.
    intro Hl. rewrite (peer_is_peer_addr parse_ip parse_cidr split_host_port Hnet).
    apply (listed_cfg_listed parse_ip parse_cidr split_host_port Hnet). exact Hl.
  Qed.

  (** listed: every present, non-empty header (any casing of its name, first line) overrides its
      component, everything else is the actual request *)
  Theorem handle_trusted m cfg r raw :
    listed' m cfg (r_remote r) ->
    exists xs, announced_of (hdr_ci FWD raw) (hdr_ci XFF raw) xs /\
    s_view (handle' m cfg r raw) =
    let uri := match hdr_ci XFU raw with Some v => if nonempty v then Some (read_uri parse_uri v) else None | None => None end in
    {| v_method := override (hdr_ci XFM raw) (r_method r);
       v_scheme := override (hdr_ci XFP raw) (scheme_of r);
       v_host := override (hdr_ci XFH raw) (r_host r);
       v_rawpath := override (option_map fst uri) (r_escpath r);
       v_query := override (option_map snd uri) (r_rawquery r);
       v_ips := xs ++ [host' (r_remote r)];
       v_hdrs := parse_headers raw |}.
  Proof.
    intro Hl. unfold handle.
    destruct (trusted_view parse_uri true _ _ (conn_of split_host_port r) (parse_headers raw)
                (configured_wf parse_ip parse_cidr split_host_port Hnet m cfg)
                (eq_ind_r wf_ip (peer_addr_wf parse_ip parse_cidr split_host_port Hnet (r_remote r))
                          (peer_is_peer_addr parse_ip parse_cidr split_host_port Hnet (r_remote r)))
                (trusted_cfg m cfg r Hl)) as (xs & Ha & Ev).
    exists xs. unfold announced in Ha. rewrite !hdr_parse in Ha by reflexivity. split; [exact Ha|].
    rewrite Ev. rewrite !hdr_parse by reflexivity. unfold conn_of, scheme_of.
    cbn [c_peer c_tls c_method c_host c_escpath c_rawquery].
    rewrite (host_is_peer_host parse_ip parse_cidr split_host_port Hnet). reflexivity.
  Qed.

  (** exactly its component *)
  Theorem handle_trusted_frame m cfg r raw raw' :
    listed' m cfg (r_remote r) ->
    let v := s_view (handle' m cfg r raw) in
    let v' := s_view (handle' m cfg r raw') in
    (hdr_ci XFM raw = hdr_ci XFM raw' -> v_method v = v_method v') /\
    (hdr_ci XFP raw = hdr_ci XFP raw' -> v_scheme v = v_scheme v') /\
    (hdr_ci XFH raw = hdr_ci XFH raw' -> v_host v = v_host v') /\
    (hdr_ci XFU raw = hdr_ci XFU raw' -> v_rawpath v = v_rawpath v' /\ v_query v = v_query v') /\
    (hdr_ci FWD raw = hdr_ci FWD raw' -> hdr_ci XFF raw = hdr_ci XFF raw' -> v_ips v = v_ips v').
  Proof.
    intros Hl. unfold handle. rewrite <- !hdr_parse by reflexivity.
    apply trusted_frame.
    - apply (configured_wf parse_ip parse_cidr split_host_port Hnet).
    - rewrite (peer_is_peer_addr parse_ip parse_cidr split_host_port Hnet).
      apply (peer_addr_wf parse_ip parse_cidr split_host_port Hnet).
    - apply trusted_cfg. exact Hl.
  Qed.

  (** histories on one instance: what the n-th request gets is what it would get alone, whatever was served
      before and whatever comes after (the instance has no memory) ... *)
  Theorem history_pointwise m cfg reqs i r raw :
    nth_error reqs i = Some (r, raw) ->
    nth_error (run_instance parse_uri parse_ip parse_cidr split_host_port true m cfg reqs) i = Some (handle' m cfg r raw).
  Proof. intro H. unfold run_instance. rewrite nth_error_map, H. reflexivity. Qed.

  (** ... in particular a request of a peer that is not listed gets the connection-only view after any history,
      e.g. directly after requests of a listed peer whose address is written with the same leading text *)
  Theorem history_untrusted m cfg reqs i r raw :
    nth_error reqs i = Some (r, raw) ->
    ~ listed' m cfg (r_remote r) ->
    nth_error (run_instance parse_uri parse_ip parse_cidr split_host_port true m cfg reqs) i =
      Some {| s_view := {| v_method := r_method r; v_scheme := scheme_of r; v_host := r_host r;
                           v_rawpath := r_escpath r; v_query := r_rawquery r; v_ips := [host' (r_remote r)];
                           v_hdrs := parse_headers (not_forwarded_raw raw) |};
              s_up_hdrs := (parse_headers (not_forwarded_raw raw) ++ [(FWD, fresh_forwarded r)])%list;
              s_up_method := r_method r |}.
  Proof. intros H Hl. rewrite (history_pointwise m cfg reqs i r raw H), (handle_untrusted m cfg r raw Hl). reflexivity. Qed.
End Handle.

(* ------------------------------------------------------------------ oracles given by a finite table of observed answers *)

Fixpoint assoc {B} (s : string) (l : list (string * B)) : option B :=
  match l with
  | [] => None
  | (k, v) :: r => if String.eqb k s then Some v else assoc s r
  end.

Definition net_table := list (string * (ip * option (ip * list N))).

Definition tbl_ip (t : net_table) : string -> ip :=
  fun s => match assoc s t with Some (a, _) => a | None => [] end.
Definition tbl_cidr (t : net_table) : string -> option (ip * list N) :=
  fun s => match assoc s t with Some (_, n) => n | None => None end.
(** net.SplitHostPort was asked about one string *)
Definition one_split (remote : string) (answer : option string) : string -> option string :=
  fun s => if String.eqb s remote then answer else None.

Definition wf_ipb (a : ip) : bool :=
  Nat.eqb (length a) 0 || Nat.eqb (length a) 4 || Nat.eqb (length a) 16.
Definition wf_cidrb (a : ip) (m : list N) : bool :=
  (Nat.eqb (length a) 4 && Nat.eqb (length m) 4) || (Nat.eqb (length a) 16 && Nat.eqb (length m) 16).

Definition net_row_ok (row : string * (ip * option (ip * list N))) : bool :=
  let '(s, (a, n)) := row in
  wf_ipb a &&
  (if contains_slash s then is_nil a else true) &&
  (if String.eqb s "" then is_nil a else true) &&
  match n with Some (x, m) => contains_slash s && wf_cidrb x m | None => true end.

Definition split_answer_ok (answer : option string) : bool :=
  match answer with Some (String "[" _) => false | _ => true end.

Lemma assoc_in {B} s (t : list (string * B)) v : assoc s t = Some v -> In (s, v) t.
Proof.
  induction t as [|[k w] t IH]; simpl; [discriminate|].
  destruct (String.eqb k s) eqn:E.
  - apply String.eqb_eq in E. intro H. inversion H. subst. left. reflexivity.
  - intro H. right. apply IH. exact H.
Qed.

Lemma wf_ipb_wf a : wf_ipb a = true -> wf_ip a.
Proof.
  unfold wf_ipb, wf_ip. intro H. apply orb_true_iff in H as [H|H]; [apply orb_true_iff in H as [H|H]|];
    apply Nat.eqb_eq in H; auto.
Qed.

Lemma wf_cidrb_wf a m : wf_cidrb a m = true -> wf_entry (ECidr a m).
Proof.
  unfold wf_cidrb. simpl. intro H. apply orb_true_iff in H as [H|H]; apply andb_true_iff in H as [H1 H2];
    apply Nat.eqb_eq in H1, H2; auto.
Qed.

(** the boolean check the evaluator runs on the observed answers of a case implies what the theorems assume *)
Theorem table_net_ok t remote answer :
  forallb net_row_ok t = true -> split_answer_ok answer = true ->
  net_ok (tbl_ip t) (tbl_cidr t) (one_split remote answer).
Proof.
  intros Ht Hs. rewrite forallb_forall in Ht.
  assert (Hrow : forall s a n, assoc s t = Some (a, n) -> net_row_ok (s, (a, n)) = true).
  { intros s a n E. apply Ht. apply assoc_in. exact E. }
  unfold net_ok, tbl_ip, tbl_cidr. repeat split.
  - intro s. destruct (assoc s t) as [[a n]|] eqn:E; [|left; reflexivity].
    specialize (Hrow _ _ _ E). unfold net_row_ok in Hrow. apply andb_true_iff in Hrow as [Hrow _].
    apply andb_true_iff in Hrow as [Hrow _]. apply andb_true_iff in Hrow as [Hrow _]. apply wf_ipb_wf. exact Hrow.
  - destruct (assoc "" t) as [[a n]|] eqn:E; [|reflexivity].
    specialize (Hrow _ _ _ E). unfold net_row_ok in Hrow. apply andb_true_iff in Hrow as [Hrow _].
    apply andb_true_iff in Hrow as [_ Hrow]. simpl in Hrow. destruct a; [reflexivity|discriminate].
  - intros s Hsl. destruct (assoc s t) as [[a n]|] eqn:E; [|reflexivity].
    specialize (Hrow _ _ _ E). unfold net_row_ok in Hrow. apply andb_true_iff in Hrow as [Hrow _].
    apply andb_true_iff in Hrow as [Hrow _]. apply andb_true_iff in Hrow as [_ Hrow]. rewrite Hsl in Hrow.
    destruct a; [reflexivity|discriminate].
  - destruct (assoc s t) as [[a0 n]|] eqn:E; [|discriminate]. subst n.
    specialize (Hrow _ _ _ E). unfold net_row_ok in Hrow. apply andb_true_iff in Hrow as [_ Hrow].
    apply andb_true_iff in Hrow as [Hrow _]. exact Hrow.
  - destruct (assoc s t) as [[a0 n]|] eqn:E; [|discriminate]. subst n.
    specialize (Hrow _ _ _ E). unfold net_row_ok in Hrow. apply andb_true_iff in Hrow as [_ Hrow].
    apply andb_true_iff in Hrow as [_ Hrow]. apply wf_cidrb_wf. exact Hrow.
  - intros s h E r ->. unfold one_split in E. destruct (String.eqb s remote); [|discriminate].
    subst answer. simpl in Hs. destruct r; discriminate.
Qed.

(* ------------------------------------------------------------------ non-vacuity: concrete oracles that satisfy [net_ok] *)

Definition ex_table : net_table :=
  [ ("not-an-ip", ([], None));
    ("10.0.0.0/8", ([], Some ([10;0;0;0], [255;0;0;0])));
    ("10.1.2.3", ([0;0;0;0;0;0;0;0;0;0;255;255;10;1;2;3], None));
    ("::ffff:10.1.2.3", ([0;0;0;0;0;0;0;0;0;0;255;255;10;1;2;3], None));
    ("8.8.4.4", ([0;0;0;0;0;0;0;0;0;0;255;255;8;8;4;4], None));
    ("", ([], None)) ]%N.

Definition ex_parse_ip := tbl_ip ex_table.
Definition ex_parse_cidr := tbl_cidr ex_table.
(** net.SplitHostPort on the RemoteAddr values of the examples *)
Definition ex_split : string -> option string :=
  fun s => if String.eqb s "8.8.4.4:53" then Some "8.8.4.4"
           else if String.eqb s "10.1.2.3:80" then Some "10.1.2.3"
           else if String.eqb s "[::ffff:10.1.2.3]:80" then Some "::ffff:10.1.2.3"
           else None.

Definition ex_cfg : config := {| cfg_decision := None; cfg_proxy := Some ["not-an-ip"; "10.0.0.0/8"] |}.

Lemma ex_net_ok : net_ok ex_parse_ip ex_parse_cidr ex_split.
Proof.
  destruct (table_net_ok ex_table "" None eq_refl eq_refl) as (H1 & H2 & H3 & H4 & _).
  unfold net_ok, ex_parse_ip, ex_parse_cidr. repeat split; try assumption.
  - apply (H4 s a m H).
  - apply (H4 s a m H).
  - intros s h E r ->. unfold ex_split in E.
    repeat match type of E with (if ?b then _ else _) = _ => destruct b; [inversion E|] end. discriminate.
Qed.

Lemma listed_cfg_b parse_ip parse_cidr split_host_port m cfg remote :
  listed_cfg parse_ip parse_cidr split_host_port m cfg remote <->
  existsb (fun s => covers_str parse_ip parse_cidr s (peer_addr parse_ip split_host_port remote))
          (match (match m with Decision => cfg_decision cfg | Proxy => cfg_proxy cfg end) with
           | Some l => l
           | None => []
           end) = true.
Proof.
  unfold listed_cfg. rewrite existsb_exists. split.
  - intros (l & s & -> & Hs & Hc). exists s. auto.
  - intros (s & Hs & Hc). destruct (match m with Decision => cfg_decision cfg | Proxy => cfg_proxy cfg end) as [l|]; [|destruct Hs].
    exists l, s. auto.
Qed.

Lemma ex_untrusted :
  ~ listed_cfg ex_parse_ip ex_parse_cidr ex_split Proxy ex_cfg "8.8.4.4:53" /\
  ~ listed_cfg ex_parse_ip ex_parse_cidr ex_split Decision ex_cfg "10.1.2.3:80" /\
  ~ listed_cfg ex_parse_ip ex_parse_cidr ex_split Proxy ex_cfg "garbage" /\
  same_except_forwarded_raw [("x-forwarded-METHOD", "POST"); ("X-Custom", "1"); ("X-FORWARDED-URI", "/pst/a")]
                            [("X-Custom", "1"); ("forwarded", "for=1.1.1.1")].
Proof.
  repeat split; try (intro L; apply listed_cfg_b in L; vm_compute in L; discriminate).
Qed.

Lemma ex_trusted :
  listed_cfg ex_parse_ip ex_parse_cidr ex_split Proxy ex_cfg "10.1.2.3:80" /\
  listed_cfg ex_parse_ip ex_parse_cidr ex_split Proxy ex_cfg "[::ffff:10.1.2.3]:80".
Proof. split; apply listed_cfg_b; vm_compute; reflexivity. Qed.
