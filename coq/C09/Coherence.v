(** C09 — the evaluator of the correspondence stream is coherent with the theorems:
    whenever the oracles of a case are well-formed and the observation is what the model
    predicts ([corr]), the property predicate ([prop], written from the specification)
    holds.  So [prop] asks nothing the theorems do not give (no false alarm on a tree that
    behaves like the model), and the row "correspondence holds, property fails" of the
    verdict table cannot occur for the repaired loader.  Supporting lemma, not a property
    theorem. *)
From HV Require Import Base.Prelude C09.Model C09.Proofs C09.Request Run.Eval_C09.
Open Scope string_scope.

Lemma forallb2_map {A B} (f : A -> B -> bool) (g : A -> B) l :
  (forall x, f x (g x) = true) -> forallb2 f l (map g l) = true.
Proof. intro H. induction l; simpl; [reflexivity|]. rewrite H, IHl. reflexivity. Qed.

(** the model's client list is in the class the evaluator accepts *)
Lemma announced_b_model raw : announced_b raw (spec_forwarded_clients (parse_headers raw)) = true.
Proof.
  unfold announced_b, spec_forwarded_clients. rewrite !hdr_parse by reflexivity.
  assert (X : match hdr_ci XFF raw with
              | Some x => if nonempty x
                          then forallb2 (fun e y => String.eqb (trim_space e) y) (split_on "," x)
                                        match hdr_ci XFF raw with
                                        | Some x0 => if nonempty x0 then map trim_space (split_on "," x0) else []
                                        | None => []
                                        end
                          else is_nil match hdr_ci XFF raw with
                                      | Some x0 => if nonempty x0 then map trim_space (split_on "," x0) else []
                                      | None => []
                                      end
              | None => is_nil match hdr_ci XFF raw with
                               | Some x0 => if nonempty x0 then map trim_space (split_on "," x0) else []
                               | None => []
                               end
              end = true).
  { destruct (hdr_ci XFF raw) as [x|]; [|reflexivity]. destruct (nonempty x); [|reflexivity].
    apply forallb2_map. intro e. apply String.eqb_refl. }
  destruct (hdr_ci FWD raw) as [f|]; [|exact X].
  destruct (nonempty f); [|exact X].
  apply forallb2_map. apply forwarded_for_class.
Qed.

Lemma string_eqb_true a b : String.eqb a b = true -> a = b.
Proof. apply String.eqb_eq. Qed.

Lemma list_string_eqb_true a b : list_eqb String.eqb a b = true -> a = b.
Proof. apply list_eqb_spec. intros x y. apply String.eqb_eq. Qed.

(** what [view_corr] establishes *)
Lemma view_corr_fields v host ov :
  view_corr v host ov = true ->
  ov_method ov = v_method v /\ ov_scheme ov = v_scheme v /\ ov_host ov = v_host v /\
  ov_rawpath ov = v_rawpath v /\ ov_query ov = v_query v /\ ov_ips ov = v_ips v /\
  visible_ok host (v_hdrs v) (ov_hdrs ov) = true /\
  list_eqb pair_eqb (ov_probes ov) (fwd_visible (v_hdrs v)) = true /\ ov_ok ov = true.
Proof.
  unfold view_corr. intro H. repeat (apply andb_true_iff in H as [H ?]).
  repeat split; try (apply string_eqb_true; assumption); try assumption.
  apply list_string_eqb_true. assumption.
Qed.

(** a key that [has] a value among parsed header lines is the canonical key of one of the lines *)
Lemma has_parse k r : has k (parse_headers r) = true -> exists n v, In (n, v) r /\ k = canon_key n.
Proof.
  unfold has, values, parse_headers. induction r as [|[n v] r IH]; simpl; [discriminate|].
  destruct (String.eqb (canon_key n) k) eqn:E.
  - intros _. apply String.eqb_eq in E. exists n, v. auto.
  - intro H. destruct (IH H) as (n' & v' & Hin & Hk). exists n', v'. auto.
Qed.

Lemma eq_ci_canon n K : eq_ci (canon_key n) K = eq_ci n K.
Proof. unfold eq_ci, canon_key. rewrite lower_canon_go. reflexivity. Qed.

Lemma forwarded_ci_canon n : is_forwarded_ci (canon_key n) = is_forwarded_ci n.
Proof.
  unfold is_forwarded_ci. induction untrusted_header as [|K l IH]; simpl; [reflexivity|].
  rewrite eq_ci_canon, IH. reflexivity.
Qed.

Lemma visible_not_forwarded host raw seen :
  eq_ci "Host" "Host" = true ->
  visible_ok host (parse_headers (not_forwarded_raw raw)) seen = true ->
  forallb (fun kv : string * string => negb (is_forwarded_ci (fst kv))) seen = true.
Proof.
  intros _ H. unfold visible_ok in H. apply andb_true_iff in H as [H _]. apply andb_true_iff in H as [H _].
  rewrite forallb_forall in *. intros [k v] Hin. specialize (H _ Hin). cbn [fst snd] in *.
  apply orb_true_iff in H as [H|H].
  - apply andb_true_iff in H as [H _]. apply String.eqb_eq in H. subst k. reflexivity.
  - apply andb_true_iff in H as [H _]. destruct (has_parse _ _ H) as (n & w & Hn & ->).
    rewrite forwarded_ci_canon. unfold not_forwarded_raw in Hn. apply filter_In in Hn as [_ Hn]. exact Hn.
Qed.

Lemma fwd_visible_not_forwarded h : fwd_visible (not_forwarded h) = [].
Proof.
  unfold fwd_visible, untrusted_header. cbn [flat_map].
  rewrite !has_not_forwarded by reflexivity. reflexivity.
Qed.

Lemma list_pair_eqb_nil l : list_eqb pair_eqb l [] = true -> l = [].
Proof. destruct l; [reflexivity|discriminate]. Qed.

Lemma is_nil_true {A} (l : list A) : is_nil l = true -> l = [].
Proof. destruct l; [reflexivity|discriminate]. Qed.

Lemma listed_cfgb_spec c :
  listed_cfgb c = true <-> listed_cfg (o_parse_ip c) (o_parse_cidr c) (o_split c) (k_mode c) (k_cfg c) (r_remote (k_req c)).
Proof. symmetry. apply listed_cfg_b. Qed.

Lemma rule_fits_of_corr o (cands : list (option string)) :
  match o_view o with
  | Some v => rule_cands (ov_method v) (ov_scheme v) (ov_host v) (ov_rawpath v) = cands
  | None => True
  end ->
  (if forallb is_some cands
   then ok2xx (o_status o) && is_some (o_view o) &&
        existsb (fun cd => match cd with Some r => String.eqb r (o_rule o) | None => false end) cands
   else true) = true ->
  rule_fits o = true.
Proof.
  unfold rule_fits. destruct (o_view o) as [v|]; [|reflexivity]. intros -> H. cbv zeta.
  destruct (forallb is_some cands); [|reflexivity].
  apply andb_true_iff in H as [_ H]. rewrite H. apply orb_true_r.
Qed.

Theorem check_coherent c :
  oracles_ok c = true -> corr true c = true -> prop c = true.
Proof.
  intros Hor Hc. pose proof (oracles_ok_net_ok c Hor) as Hnet.
  unfold corr in Hc. cbv zeta in Hc.
  apply andb_true_iff in Hc as [Hc Hni]. apply andb_true_iff in Hc as [Hc Hup]. apply andb_true_iff in Hc as [Hrule Hview].
  set (s := handle (o_parse_uri c) (o_parse_ip c) (o_parse_cidr c) (o_split c) true (k_mode c) (k_cfg c) (k_req c) (k_raw c)) in *.
  unfold prop.
  (* the observed view has the components of the model's view *)
  assert (Hf : match o_view (k_obs c) with
               | Some ov => view_corr (s_view s) (r_host (k_req c)) ov = true
               | None => True
               end) by (destruct (o_view (k_obs c)); [exact Hview|exact I]).
  assert (Hfits : rule_fits (k_obs c) = true).
  { eapply rule_fits_of_corr; [|exact Hrule].
    destruct (o_view (k_obs c)) as [ov|]; [|exact I].
    destruct (view_corr_fields _ _ _ Hf) as (-> & -> & -> & -> & _). reflexivity. }
  assert (Hok : match o_view (k_obs c) with Some ov => ov_ok ov | None => true end = true).
  { destruct (o_view (k_obs c)) as [ov|]; [|reflexivity]. apply (view_corr_fields _ _ _ Hf). }
  rewrite Hfits, Hok, !andb_true_r.
  destruct (listed_cfgb c) eqn:El.
  - (* listed *)
    apply listed_cfgb_spec in El. unfold prop_trusted.
    destruct (o_view (k_obs c)) as [ov|]; [|reflexivity].
    destruct (view_corr_fields _ _ _ Hf) as (Em & Es & Eh & Ep & Eq & Ei & _).
    pose proof (trusted_overrides_gen (o_parse_uri c) true _ _ (conn_of (o_split c) (k_req c)) (parse_headers (k_raw c))
        (configured_wf _ _ _ Hnet (k_mode c) (k_cfg c))
        (eq_ind_r wf_ip (peer_addr_wf _ _ _ Hnet (r_remote (k_req c))) (peer_is_peer_addr _ _ _ Hnet (r_remote (k_req c))))
        (trusted_cfg _ _ _ Hnet (k_mode c) (k_cfg c) (k_req c) El)) as Ev.
    fold (handle (o_parse_uri c) (o_parse_ip c) (o_parse_cidr c) (o_split c) true (k_mode c) (k_cfg c) (k_req c) (k_raw c)) in Ev.
    fold s in Ev. rewrite Em, Es, Eh, Ep, Eq, Ei, Ev. cbv zeta.
    cbn [v_method v_scheme v_host v_rawpath v_query v_ips].
    rewrite !hdr_parse by reflexivity. unfold conn_of, scheme_ofb.
    cbn [c_peer c_tls c_method c_host c_escpath c_rawquery].
    rewrite !String.eqb_refl. cbn [andb].
    rewrite (host_is_peer_host _ _ _ Hnet).
    rewrite rev_app_distr. cbn [rev app]. rewrite String.eqb_refl, rev_involutive. cbn [andb].
    rewrite announced_b_model, andb_true_r.
    (* path and query: the model takes the query as sent, the second reading the predicate accepts *)
    unfold read_uri, o_parse_uri.
    destruct (hdr_ci XFU (k_raw c)) as [u|]; [|rewrite !String.eqb_refl; reflexivity].
    destruct (nonempty u); [|rewrite !String.eqb_refl; reflexivity].
    destruct (o_parse_uri3 c u) as [[[p q] rq]|]; cbn [option_map fst snd];
      [|destruct (cut_at "?" u) as [cp cq]; cbn [fst snd]]; rewrite !String.eqb_refl, ?orb_true_r; reflexivity.
  - (* not listed *)
    assert (Hl : ~ listed_cfg (o_parse_ip c) (o_parse_cidr c) (o_split c) (k_mode c) (k_cfg c) (r_remote (k_req c))).
    { intro L. apply listed_cfgb_spec in L. rewrite L in El. discriminate. }
    rewrite (untrusted_cfg _ _ _ Hnet _ _ _ Hl) in Hni. cbn [orb] in Hni.
    apply andb_true_iff in Hni as [Hleak Hpair].
    unfold prop_untrusted. rewrite Hleak, Hpair, !andb_true_r.
    destruct (o_view (k_obs c)) as [ov|]; [|reflexivity].
    destruct (view_corr_fields _ _ _ Hf) as (Em & Es & Eh & Ep & Eq & Ei & Hvis & Hpr & _).
    pose proof (handle_untrusted (o_parse_uri c) _ _ _ Hnet (k_mode c) (k_cfg c) (k_req c) (k_raw c) Hl) as Ev.
    fold s in Ev. rewrite Ev in *. cbn [s_view v_method v_scheme v_host v_rawpath v_query v_ips v_hdrs] in *.
    rewrite Em, Es, Eh, Ep, Eq, Ei. unfold scheme_ofb, scheme_of.
    rewrite !String.eqb_refl. cbn [list_eqb andb]. rewrite String.eqb_refl. cbn [andb].
    rewrite (visible_not_forwarded _ _ _ eq_refl Hvis). cbn [andb].
    rewrite <- not_forwarded_parse, fwd_visible_not_forwarded in Hpr.
    apply list_pair_eqb_nil in Hpr. rewrite Hpr. reflexivity.
Qed.
Print Assumptions check_coherent.

(** the same for a history: every step whose oracles are well-formed and whose observation is the model's
    prediction satisfies the property predicate *)
Theorem check_history_coherent h :
  forallb oracles_ok h = true -> v_corr (check true h) = true -> v_prop (check true h) = true.
Proof.
  unfold check. cbn [v_corr v_prop]. intros Ho Hc. apply andb_true_iff in Hc as [_ Hc].
  rewrite forallb_forall in *. intros c Hin. specialize (Ho c Hin). specialize (Hc c Hin).
  unfold check1 in *. cbn [v_corr v_prop] in *.
  repeat (apply andb_true_iff in Hc as [Hc ?]). apply check_coherent; assumption.
Qed.
Print Assumptions check_history_coherent.
