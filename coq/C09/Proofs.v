(** C09 — specification vocabulary and proofs.

    Specification (transcribed from the property statement):
    - a peer is *listed* when some trusted_proxies entry covers its address:
      a single address covers exactly itself (an IPv4 address and its IPv4-mapped
      IPv6 form are the same address), a CIDR range covers the addresses of its
      family that agree with the network number under the mask; an entry or a peer
      that does not parse covers / is covered by nothing ([spec_covers], [listed]);
    - for a peer that is not listed the view comes only from the connection and
      the request line, and the pipeline sees none of the seven headers
      ([spec_view_untrusted]); the upstream gets one freshly made Forwarded header
      ([spec_upstream_untrusted]);
    - for a listed peer every present, non-empty header overrides exactly its
      component, the rest falls back to the actual request ([spec_view_trusted]). *)
From HV Require Import Base.Prelude C09.Model.
Open Scope string_scope.

(* ------------------------------------------------------------------ specification *)

(** an address as 16 bytes: IPv4 a.b.c.d is ::ffff:a.b.c.d; anything else is not an address *)
Definition canon16 (a : ip) : option (list N) :=
  if Nat.eqb (length a) 4 then Some (v4_in_v6_prefix ++ a)%list
  else if Nat.eqb (length a) 16 then Some a
  else None.

Definition is_v4 (b : list N) : bool := bytes_eqb (firstn 12 b) v4_in_v6_prefix.

Definition land_list (x m : list N) : list N := map (fun xm => N.land (fst xm) (snd xm)) (combine x m).

Definition agree_under (m x y : list N) : bool := bytes_eqb (land_list x m) (land_list y m).

(** a mask as 16 bytes: the mask of an IPv4 network written with 4 bytes says nothing about the
    ::ffff:0:0/96 prefix, which every IPv4 address has *)
Definition mask16 (m : list N) : list N :=
  if Nat.eqb (length m) 4 then ([255;255;255;255;255;255;255;255;255;255;255;255]%N ++ m)%list else m.

(** a single address covers itself; a range covers the addresses of its family (IPv4 / IPv6 proper) that
    agree with the network number under the mask; what does not parse covers / is covered by nothing *)
Definition spec_covers (e : entry) (p : ip) : bool :=
  match e, canon16 p with
  | EIp a, Some pb =>
    match canon16 a with Some ab => bytes_eqb ab pb | None => false end
  | ECidr a m, Some pb =>
    match canon16 a with
    | Some ab => Bool.eqb (is_v4 ab) (is_v4 pb) && agree_under (mask16 m) ab pb
    | None => false
    end
  | _, _ => false
  end.

(** the same, shaped like net.IPNet.Contains (an IPv4 network is compared on 4 bytes, its mask being 4
    bytes or the last 4 of 16): equal to [spec_covers] on what the net package returns
    ([spec_covers_go_shape]); used for the proof of [trust_is_membership] only *)
Definition mask4 (m : list N) : list N := if Nat.eqb (length m) 16 then skipn 12 m else m.

Definition covers_go_shape (e : entry) (p : ip) : bool :=
  match e, canon16 p with
  | EIp a, Some pb =>
    match canon16 a with Some ab => bytes_eqb ab pb | None => false end
  | ECidr a m, Some pb =>
    match canon16 a with
    | Some ab => if is_v4 ab then is_v4 pb && agree_under (mask4 m) (skipn 12 ab) (skipn 12 pb)
                 else negb (is_v4 pb) && agree_under m ab pb
    | None => false
    end
  | _, _ => false
  end.

Definition listed (es : list entry) (p : ip) : Prop := exists e, In e es /\ spec_covers e p = true.
Definition listedb (es : list entry) (p : ip) : bool := existsb (fun e => spec_covers e p) es.

(** what the net package can return: ParseIP gives nil or 16 bytes (4 is allowed too), ParseCIDR gives
    address and mask of the same length 4 or 16 *)
Definition wf_ip (a : ip) : Prop := length a = 0 \/ length a = 4 \/ length a = 16.
Definition wf_entry (e : entry) : Prop :=
  match e with
  | EIp a => wf_ip a
  | ECidrErr => True
  | ECidr a m => (length a = 4 /\ length m = 4) \/ (length a = 16 /\ length m = 16)
  end.

(** the inputs of finding C09-F1: an entry that is not an address and a peer that is not one either *)
Definition guard_F1 (es : list entry) (p : ip) : bool :=
  is_nil p && existsb (fun e => match e with EIp [] => true | _ => false end) es.

Definition is_forwarded_name (k : string) : bool := existsb (String.eqb k) untrusted_header.
Definition not_forwarded (h : hdrs) : hdrs := filter (fun kv => negb (is_forwarded_name (fst kv))) h.

(** two header sets that differ at most in the seven headers *)
Definition same_except_forwarded (h h' : hdrs) : Prop := not_forwarded h = not_forwarded h'.

(** first value of a header, if present *)
Definition hdr (k : string) (h : hdrs) : option string :=
  match values k h with v :: _ => Some v | [] => None end.

(** a present, non-empty value overrides; otherwise the actual request counts *)
Definition override (o : option string) (actual : string) : string :=
  match o with Some v => if nonempty v then v else actual | None => actual end.

Definition spec_view_untrusted (c : conn) (h : hdrs) : view :=
  {| v_method := c_method c; v_scheme := actual_scheme c; v_host := c_host c;
     v_rawpath := c_escpath c; v_query := c_rawquery c; v_ips := [c_peer c];
     v_hdrs := not_forwarded h |}.

(** the request an upstream receives on behalf of a peer that is not listed: the headers of the request
    other than the seven, and one Forwarded header made from the connection *)
Definition spec_upstream_untrusted (c : conn) (h : hdrs) : hdrs :=
  (not_forwarded h ++
   [ (FWD, http_trim ("for=" ++ c_peer c ++ ";host=" ++ c_host c ++ ";proto=" ++ actual_scheme c)) ])%list.

(** the forwarding headers at the upstream: for each of the seven names that is present, its values *)
Definition fwd_projection (uh : hdrs) : list (string * list string) :=
  flat_map (fun n => if has n uh then [(n, values n uh)] else []) untrusted_header.

(** the client list announced by a trusted proxy: Forwarded (its for= parameters) wins over X-Forwarded-For *)
Definition spec_forwarded_clients (h : hdrs) : list string :=
  match hdr FWD h with
  | Some fw => if nonempty fw then map forwarded_for (split_on "," fw)
               else match hdr XFF h with
                    | Some x => if nonempty x then map trim_space (split_on "," x) else []
                    | None => []
                    end
  | None => match hdr XFF h with
            | Some x => if nonempty x then map trim_space (split_on "," x) else []
            | None => []
            end
  end.

Definition spec_view_trusted (parse_uri : string -> option (string * string)) (c : conn) (h : hdrs) : view :=
  let uri := match hdr XFU h with Some v => if nonempty v then Some (read_uri parse_uri v) else None | None => None end in
  {| v_method := override (hdr XFM h) (c_method c);
     v_scheme := override (hdr XFP h) (actual_scheme c);
     v_host := override (hdr XFH h) (c_host c);
     v_rawpath := override (option_map fst uri) (c_escpath c);
     v_query := override (option_map snd uri) (c_rawquery c);
     v_ips := (spec_forwarded_clients h ++ [c_peer c])%list;
     v_hdrs := h |}.

(* ------------------------------------------------------------------ small facts *)

Lemma bytes_eqb_eq a b : bytes_eqb a b = true <-> a = b.
Proof. apply list_eqb_spec. intros x y. apply N.eqb_eq. Qed.

Lemma bytes_eqb_refl a : bytes_eqb a a = true.
Proof. apply bytes_eqb_eq. reflexivity. Qed.

Lemma bytes_eqb_sym a b : bytes_eqb a b = bytes_eqb b a.
Proof.
  destruct (bytes_eqb a b) eqn:E1, (bytes_eqb b a) eqn:E2; try reflexivity.
  - apply bytes_eqb_eq in E1. subst. rewrite bytes_eqb_refl in E2. discriminate.
  - apply bytes_eqb_eq in E2. subst. rewrite bytes_eqb_refl in E1. discriminate.
Qed.

Lemma bytes_eqb_length a b : bytes_eqb a b = true -> length a = length b.
Proof. intro H. apply bytes_eqb_eq in H. congruence. Qed.

Lemma bytes_eqb_app p a b : bytes_eqb (p ++ a)%list (p ++ b)%list = bytes_eqb a b.
Proof.
  unfold bytes_eqb. induction p as [|x p IH]; simpl; [reflexivity|]. rewrite N.eqb_refl. simpl. exact IH.
Qed.

Lemma masked_eqb_agree nn m p :
  length nn = length m -> length p = length m ->
  masked_eqb nn m p = agree_under m nn p.
Proof.
  revert m p. induction nn as [|n nn IH]; intros [|mb m] [|pb p] H1 H2; simpl in *; try discriminate; try reflexivity.
  unfold agree_under, land_list in *. simpl. unfold bytes_eqb at 1. simpl. f_equal. apply IH; lia.
Qed.

Lemma firstn_12_prefix a : firstn 12 (v4_in_v6_prefix ++ a)%list = v4_in_v6_prefix.
Proof. reflexivity. Qed.

Lemma skipn_12_prefix a : skipn 12 (v4_in_v6_prefix ++ a)%list = a.
Proof. reflexivity. Qed.

Lemma split_16 (a : list N) : length a = 16 -> a = (firstn 12 a ++ skipn 12 a)%list /\ length (skipn 12 a) = 4 /\ length (firstn 12 a) = 12.
Proof.
  intro H. split; [symmetry; apply firstn_skipn|]. split.
  - rewrite skipn_length. lia.
  - rewrite firstn_length. lia.
Qed.

(* ------------------------------------------------------------------ trust is membership *)

Lemma is_v4_prefix a : is_v4 (v4_in_v6_prefix ++ a)%list = true.
Proof. reflexivity. Qed.

Lemma bytes_eqb_app_split p1 a p2 b :
  length p1 = length p2 -> bytes_eqb (p1 ++ a)%list (p2 ++ b)%list = bytes_eqb p1 p2 && bytes_eqb a b.
Proof.
  unfold bytes_eqb. revert p2. induction p1 as [|x p1 IH]; intros [|y p2] H; simpl in *; try discriminate; [reflexivity|].
  rewrite IH by lia. rewrite andb_assoc. reflexivity.
Qed.

Lemma eqb_v4_16 a p :
  length p = 16 ->
  bytes_eqb (v4_in_v6_prefix ++ a)%list p = bytes_eqb (firstn 12 p) v4_in_v6_prefix && bytes_eqb a (skipn 12 p).
Proof.
  intro Hp. destruct (split_16 p Hp) as (Es & _ & H12). rewrite Es at 1.
  rewrite bytes_eqb_app_split by (rewrite H12; reflexivity).
  rewrite (bytes_eqb_sym v4_in_v6_prefix). reflexivity.
Qed.

Local Opaque firstn skipn v4_in_v6_prefix.

(** a single-address entry (repaired loader) *)
Lemma ip_entry_membership a p :
  wf_ip a -> wf_ip p ->
  existsb (holder_contains p) (holder_of true (EIp a)) = spec_covers (EIp a) p.
Proof.
  intros Ha Hp. unfold holder_of, spec_covers, canon16.
  destruct a as [|a0 ar] eqn:Ea.
  - simpl. destruct (Nat.eqb (length p) 4); [reflexivity|]. destruct (Nat.eqb (length p) 16); reflexivity.
  - rewrite <- Ea in *. assert (Hn : is_nil a = false) by (subst; reflexivity). rewrite Hn. simpl.
    rewrite orb_false_r. unfold ip_equal.
    destruct Ha as [Ha|[Ha|Ha]]; destruct Hp as [Hp|[Hp|Hp]]; rewrite Ha, Hp; simpl;
      try (subst a; discriminate); try reflexivity.
    + symmetry. apply eqb_v4_16. exact Hp.
    + rewrite (bytes_eqb_sym a). rewrite eqb_v4_16 by exact Ha. rewrite (bytes_eqb_sym p). reflexivity.
Qed.

Lemma to4_len4 a : length a = 4 -> to4 a = Some a.
Proof. intro H. unfold to4. rewrite H. reflexivity. Qed.

Lemma to4_len16 a : length a = 16 -> to4 a = if is_v4 a then Some (skipn 12 a) else None.
Proof. intro H. unfold to4, is_v4. rewrite H. reflexivity. Qed.

Lemma to4_len0 a : length a = 0 -> to4 a = None.
Proof. intro H. unfold to4. rewrite H. reflexivity. Qed.

Lemma agree_under_16_v4 m a p :
  length m = 16 -> length a = 16 -> length p = 16 -> is_v4 a = true -> is_v4 p = true ->
  agree_under (skipn 12 m) (skipn 12 a) (skipn 12 p) = agree_under (skipn 12 m) (skipn 12 a) (skipn 12 p).
Proof. reflexivity. Qed.

(** a CIDR entry: IPNet.Contains is the Go-shaped predicate ... *)
Lemma cidr_entry_go_shape a m p :
  wf_entry (ECidr a m) -> wf_ip p ->
  net_contains a m p = covers_go_shape (ECidr a m) p.
Proof.
  intros Hw Hp. unfold net_contains, network_number_and_mask, covers_go_shape, canon16, mask4.
  destruct Hw as [[Ha Hm]|[Ha Hm]].
  - (* IPv4 network, 4-byte mask *)
    rewrite (to4_len4 a Ha).
    destruct Hp as [Hp|[Hp|Hp]].
    + rewrite (to4_len0 p Hp). repeat (rewrite ?Ha, ?Hm, ?Hp; simpl). reflexivity.
    + rewrite (to4_len4 p Hp). repeat (rewrite ?Ha, ?Hm, ?Hp; simpl).
      rewrite is_v4_prefix, !skipn_12_prefix. simpl. apply masked_eqb_agree; lia.
    + rewrite (to4_len16 p Hp). destruct (split_16 p Hp) as (_ & H4 & _).
      destruct (is_v4 p) eqn:Ev; repeat (rewrite ?Ha, ?Hm, ?Hp, ?H4, ?Ev; simpl).
      * rewrite is_v4_prefix, !skipn_12_prefix. simpl. apply masked_eqb_agree; lia.
      * rewrite is_v4_prefix. reflexivity.
  - (* 16-byte address and mask *)
    rewrite (to4_len16 a Ha).
    destruct (split_16 a Ha) as (_ & Ha4 & _). destruct (split_16 m Hm) as (_ & Hm4 & _).
    destruct (is_v4 a) eqn:Eva.
    + destruct Hp as [Hp|[Hp|Hp]].
      * rewrite (to4_len0 p Hp). repeat (rewrite ?Ha, ?Hm, ?Hp, ?Ha4; simpl). reflexivity.
      * rewrite (to4_len4 p Hp). repeat (rewrite ?Ha, ?Hm, ?Hp, ?Ha4, ?Eva; simpl).
        rewrite is_v4_prefix, !skipn_12_prefix. simpl. apply masked_eqb_agree; lia.
      * rewrite (to4_len16 p Hp). destruct (split_16 p Hp) as (_ & H4 & _).
        destruct (is_v4 p) eqn:Ev; repeat (rewrite ?Ha, ?Hm, ?Hp, ?H4, ?Ha4, ?Eva, ?Ev; simpl).
        -- apply masked_eqb_agree; lia.
        -- reflexivity.
    + destruct Hp as [Hp|[Hp|Hp]].
      * rewrite (to4_len0 p Hp). repeat (rewrite ?Ha, ?Hm, ?Hp; simpl). reflexivity.
      * rewrite (to4_len4 p Hp). repeat (rewrite ?Ha, ?Hm, ?Hp, ?Eva; simpl).
        rewrite is_v4_prefix. reflexivity.
      * rewrite (to4_len16 p Hp). destruct (split_16 p Hp) as (_ & H4 & _).
        destruct (is_v4 p) eqn:Ev; repeat (rewrite ?Ha, ?Hm, ?Hp, ?H4, ?Eva, ?Ev; simpl).
        -- reflexivity.
        -- apply masked_eqb_agree; lia.
Qed.

(** ... which is the declarative one *)
Lemma land_list_app x1 x2 m1 m2 :
  length x1 = length m1 -> land_list (x1 ++ x2) (m1 ++ m2) = (land_list x1 m1 ++ land_list x2 m2)%list.
Proof.
  unfold land_list. revert m1. induction x1 as [|x x1 IH]; intros [|mb m1] H; simpl in *; try discriminate; [reflexivity|].
  f_equal. apply IH. lia.
Qed.

Lemma land_list_length x m : length x = length m -> length (land_list x m) = length m.
Proof. intro H. unfold land_list. rewrite map_length, combine_length. lia. Qed.

Lemma agree_under_app m1 m2 x1 x2 y1 y2 :
  length x1 = length m1 -> length y1 = length m1 ->
  agree_under (m1 ++ m2) (x1 ++ x2) (y1 ++ y2) = agree_under m1 x1 y1 && agree_under m2 x2 y2.
Proof.
  intros Hx Hy. unfold agree_under. rewrite !land_list_app by assumption.
  apply bytes_eqb_app_split. rewrite !land_list_length by assumption. reflexivity.
Qed.

Lemma agree_under_refl m x : agree_under m x x = true.
Proof. apply bytes_eqb_refl. Qed.

Lemma is_v4_split b : length b = 16 -> is_v4 b = true -> b = (v4_in_v6_prefix ++ skipn 12 b)%list.
Proof.
  intros Hb Hv. unfold is_v4 in Hv. apply bytes_eqb_eq in Hv. rewrite <- Hv. symmetry. apply firstn_skipn.
Qed.

Lemma prefix_length : length v4_in_v6_prefix = 12.
Proof. Local Transparent v4_in_v6_prefix. reflexivity. Local Opaque v4_in_v6_prefix. Qed.

Lemma spec_covers_go_shape a m p :
  wf_entry (ECidr a m) -> wf_ip p -> spec_covers (ECidr a m) p = covers_go_shape (ECidr a m) p.
Proof.
  intros Hw Hp. unfold spec_covers, covers_go_shape, canon16, mask16, mask4.
  destruct Hp as [Hp|[Hp|Hp]]; rewrite Hp; cbn [Nat.eqb]; [reflexivity| |].
  - (* IPv4 peer *)
    destruct Hw as [[Ha Hm]|[Ha Hm]]; rewrite Ha, ?Hm; cbn [Nat.eqb].
    + rewrite !is_v4_prefix, !skipn_12_prefix. cbn [Bool.eqb andb].
      rewrite agree_under_app, agree_under_refl; [reflexivity| |]; rewrite prefix_length; reflexivity.
    + rewrite is_v4_prefix, skipn_12_prefix. destruct (is_v4 a) eqn:Ev; cbn [Bool.eqb negb andb]; [|reflexivity].
      rewrite (is_v4_split a Ha Ev) at 1. rewrite <- (firstn_skipn 12 m) at 1.
      rewrite agree_under_app, agree_under_refl; [reflexivity| |]; rewrite firstn_length, Hm, prefix_length; reflexivity.
  - (* 16-byte peer *)
    destruct Hw as [[Ha Hm]|[Ha Hm]]; rewrite Ha, ?Hm; cbn [Nat.eqb].
    + rewrite is_v4_prefix, skipn_12_prefix. destruct (is_v4 p) eqn:Ev; cbn [Bool.eqb andb]; [|reflexivity].
      rewrite (is_v4_split p Hp Ev) at 1.
      rewrite agree_under_app, agree_under_refl; [reflexivity| |]; rewrite prefix_length; reflexivity.
    + destruct (is_v4 a) eqn:Eva; destruct (is_v4 p) eqn:Evp; cbn [Bool.eqb negb andb]; try reflexivity.
      rewrite (is_v4_split a Ha Eva) at 1. rewrite (is_v4_split p Hp Evp) at 1. rewrite <- (firstn_skipn 12 m) at 1.
      rewrite agree_under_app, agree_under_refl; [reflexivity| |]; rewrite firstn_length, Hm, prefix_length; reflexivity.
Qed.

Lemma cidr_entry_membership a m p :
  wf_entry (ECidr a m) -> wf_ip p ->
  net_contains a m p = spec_covers (ECidr a m) p.
Proof. intros Hw Hp. rewrite spec_covers_go_shape by assumption. apply cidr_entry_go_shape; assumption. Qed.

Lemma entry_membership e p :
  wf_entry e -> wf_ip p ->
  existsb (holder_contains p) (holder_of true e) = spec_covers e p.
Proof.
  intros He Hp. destruct e as [a| |a m].
  - apply ip_entry_membership; assumption.
  - unfold spec_covers. simpl. destruct (canon16 p); reflexivity.
  - simpl. rewrite orb_false_r. apply cidr_entry_membership; assumption.
Qed.

Lemma existsb_flat_map {A B} (f : B -> bool) (g : A -> list B) l :
  existsb f (flat_map g l) = existsb (fun x => existsb f (g x)) l.
Proof.
  induction l as [|x l IH]; simpl; [reflexivity|]. rewrite existsb_app, IH. reflexivity.
Qed.

Lemma trusted_fixed_listedb es p :
  Forall wf_entry es -> wf_ip p -> trusted_peer true es p = listedb es p.
Proof.
  intros Hes Hp. unfold trusted_peer, holders, listedb. rewrite existsb_flat_map.
  induction Hes as [|e es He _ IH]; simpl; [reflexivity|].
  rewrite entry_membership by assumption. rewrite IH. reflexivity.
Qed.

Lemma listedb_listed es p : listedb es p = true <-> listed es p.
Proof. unfold listedb, listed. apply existsb_exists. Qed.

Theorem trust_is_membership es p :
  Forall wf_entry es -> wf_ip p ->
  (trusted_peer true es p = true <-> listed es p).
Proof. intros Hes Hp. rewrite trusted_fixed_listedb by assumption. apply listedb_listed. Qed.

(** the pinned loader differs from the repaired one only on the inputs of C09-F1 *)
Lemma holder_nil_contains p : holder_contains p (HIp []) = is_nil p.
Proof.
  simpl. unfold ip_equal. destruct p as [|x p]; [reflexivity|]. simpl. reflexivity.
Qed.

Lemma pinned_eq_fixed es p :
  guard_F1 es p = false -> trusted_peer false es p = trusted_peer true es p.
Proof.
  unfold guard_F1, trusted_peer, holders. rewrite !existsb_flat_map.
  induction es as [|e es IH]; intro G; simpl in *; [reflexivity|].
  rewrite andb_false_iff in G.
  assert (Hrest : existsb (fun x => existsb (holder_contains p) (holder_of false x)) es =
                  existsb (fun x => existsb (holder_contains p) (holder_of true x)) es).
  { apply IH. apply andb_false_iff. destruct G as [G|G]; [left; exact G|].
    apply orb_false_iff in G. right. apply G. }
  rewrite Hrest. f_equal.
  destruct e as [a| |a m]; try reflexivity.
  destruct a as [|x a]; [|reflexivity].
  cbn [holder_of is_nil andb existsb]. rewrite holder_nil_contains.
  destruct G as [G|G]; [rewrite G; reflexivity|]. simpl in G. discriminate.
Qed.

Theorem trust_is_membership_pinned es p :
  Forall wf_entry es -> wf_ip p -> guard_F1 es p = false ->
  (trusted_peer false es p = true <-> listed es p).
Proof. intros Hes Hp G. rewrite pinned_eq_fixed by assumption. apply trust_is_membership; assumption. Qed.

Local Transparent firstn skipn v4_in_v6_prefix.

Theorem F1_refuted :
  exists es p, Forall wf_entry es /\ wf_ip p /\ guard_F1 es p = true /\
               trusted_peer false es p = true /\ ~ listed es p.
Proof.
  exists [EIp []], []. split; [repeat constructor|]. split; [left; reflexivity|].
  split; [reflexivity|]. split; [reflexivity|].
  intro L. apply listedb_listed in L. vm_compute in L. discriminate.
Qed.

(* ------------------------------------------------------------------ the middleware removes the seven headers *)

Lemma del_filter k h : del k h = filter (fun kv => negb (String.eqb (fst kv) k)) h.
Proof. reflexivity. Qed.

Lemma filter_filter {A} (f g : A -> bool) l : filter f (filter g l) = filter (fun x => g x && f x) l.
Proof.
  induction l as [|x l IH]; simpl; [reflexivity|].
  destruct (g x); simpl; [destruct (f x); simpl; congruence | exact IH].
Qed.

Lemma strip_untrusted h : strip false h = not_forwarded h.
Proof.
  unfold strip, not_forwarded, untrusted_header. simpl. unfold del.
  rewrite !filter_filter. apply filter_ext. intros [k v]. unfold is_forwarded_name, untrusted_header. simpl.
  rewrite !negb_orb. rewrite !andb_assoc. rewrite andb_true_r. reflexivity.
Qed.

Lemma values_not_forwarded k h : is_forwarded_name k = true -> values k (not_forwarded h) = [].
Proof.
  intro Hk. unfold values, not_forwarded. rewrite filter_filter.
  assert (E : filter (fun x : string * string => negb (is_forwarded_name (fst x)) && String.eqb (fst x) k) h = []).
  { induction h as [|[k' v] h IH]; simpl; [reflexivity|].
    destruct (String.eqb k' k) eqn:Ek.
    - apply String.eqb_eq in Ek. subst. rewrite Hk. simpl. exact IH.
    - rewrite andb_false_r. exact IH. }
  rewrite E. reflexivity.
Qed.

Lemma get_not_forwarded k h : is_forwarded_name k = true -> get k (not_forwarded h) = "".
Proof. intro Hk. unfold get. rewrite values_not_forwarded by assumption. reflexivity. Qed.

Lemma has_not_forwarded k h : is_forwarded_name k = true -> has k (not_forwarded h) = false.
Proof. intro Hk. unfold has. rewrite values_not_forwarded by assumption. reflexivity. Qed.

(* ------------------------------------------------------------------ untrusted: only the connection counts *)

Section WithOracle.
  Variable parse_uri : string -> option (string * string).

  Lemma view_untrusted c h :
    view_of parse_uri c (not_forwarded h) = spec_view_untrusted c h.
  Proof.
    unfold view_of, extract_url, extract_method, client_ips, spec_view_untrusted.
    rewrite !get_not_forwarded by reflexivity. reflexivity.
  Qed.

  Lemma del_not_forwarded k h : is_forwarded_name k = true -> del k (not_forwarded h) = not_forwarded h.
  Proof.
    intro Hk. unfold del, not_forwarded. rewrite filter_filter. apply filter_ext. intros [k' v]. simpl.
    destruct (is_forwarded_name k') eqn:E; [reflexivity|]. simpl.
    destruct (String.eqb k' k) eqn:Ek; [|reflexivity].
    apply String.eqb_eq in Ek. subst. rewrite Hk in E. discriminate.
  Qed.

  Lemma cleared_not_forwarded h : upstream_cleared (not_forwarded h) = not_forwarded h.
  Proof. unfold upstream_cleared. simpl. rewrite !del_not_forwarded by reflexivity. reflexivity. Qed.

  Lemma upstream_untrusted c h :
    upstream_headers c (not_forwarded h) = spec_upstream_untrusted c h.
  Proof.
    unfold upstream_headers, spec_upstream_untrusted, forwarded_elem, set_hdr.
    rewrite !get_not_forwarded by reflexivity. rewrite !values_not_forwarded by reflexivity. rewrite cleared_not_forwarded.
    cbn [join nonempty String.eqb negb orb]. rewrite del_not_forwarded by reflexivity. reflexivity.
  Qed.

  Theorem untrusted_not_passed_on fixed es peer c h :
    trusted_peer fixed es peer = false ->
    serve parse_uri fixed es peer c h =
      {| s_view := spec_view_untrusted c h;
         s_up_hdrs := spec_upstream_untrusted c h;
         s_up_method := c_method c |}.
  Proof.
    intro Ht. unfold serve. rewrite Ht, strip_untrusted, view_untrusted, upstream_untrusted. reflexivity.
  Qed.

  Theorem untrusted_noninterference fixed es peer c h h' :
    trusted_peer fixed es peer = false ->
    same_except_forwarded h h' ->
    serve parse_uri fixed es peer c h = serve parse_uri fixed es peer c h'.
  Proof.
    intros Ht Hs. rewrite !untrusted_not_passed_on by assumption.
    unfold spec_view_untrusted, spec_upstream_untrusted. unfold same_except_forwarded in Hs. rewrite Hs. reflexivity.
  Qed.

  (* ---------------------------------------------------------------- trusted: exact overrides *)

  Lemma get_hdr k h : get k h = match hdr k h with Some v => v | None => "" end.
  Proof. unfold get, hdr. destruct (values k h); reflexivity. Qed.

  Lemma override_get k h actual :
    (if nonempty (get k h) then get k h else actual) = override (hdr k h) actual.
  Proof. rewrite get_hdr. unfold override. destruct (hdr k h); reflexivity. Qed.

  Theorem trusted_overrides_exactly fixed es peer c h :
    trusted_peer fixed es peer = true ->
    s_view (serve parse_uri fixed es peer c h) = spec_view_trusted parse_uri c h.
  Proof.
    intro Ht. unfold serve. rewrite Ht. cbn [strip s_view].
    unfold view_of, extract_url, extract_method, client_ips, spec_view_trusted, spec_forwarded_clients.
    rewrite !override_get. rewrite !get_hdr.
    destruct (hdr XFU h) as [u|] eqn:Eu; cbn [nonempty].
    - destruct (nonempty u) eqn:Enu.
      + destruct (read_uri parse_uri u) as [p q]; cbn [fst snd option_map override];
          destruct (hdr FWD h) as [fw|]; try destruct (nonempty fw);
          destruct (hdr XFF h) as [x|]; try destruct (nonempty x); reflexivity.
      + cbn [fst snd option_map override];
          destruct (hdr FWD h) as [fw|]; try destruct (nonempty fw);
          destruct (hdr XFF h) as [x|]; try destruct (nonempty x); reflexivity.
    - cbn [fst snd option_map override];
        destruct (hdr FWD h) as [fw|]; try destruct (nonempty fw);
        destruct (hdr XFF h) as [x|]; try destruct (nonempty x); reflexivity.
  Qed.
End WithOracle.

(* ------------------------------------------------------------------ mask invariant (no Go index panic in Contains) *)

Lemma network_number_and_mask_lengths a m nn mk :
  network_number_and_mask a m = Some (nn, mk) -> length nn = length mk.
Proof.
  unfold network_number_and_mask.
  destruct (to4 a) as [a4|] eqn:E4.
  - destruct (Nat.eqb (length m) 4) eqn:Em4.
    + destruct (Nat.eqb (length a4) 4) eqn:Ea; [|discriminate]. intro H; inversion H; subst.
      apply Nat.eqb_eq in Em4, Ea. lia.
    + destruct (Nat.eqb (length m) 16) eqn:Em16; [|discriminate].
      destruct (Nat.eqb (length a4) 4) eqn:Ea.
      * intro H; injection H as <- <-. apply Nat.eqb_eq in Em16, Ea.
        pose proof (skipn_length 12 m) as L. cbn [skipn] in *. lia.
      * intro H; injection H as <- <-. exfalso.
        unfold to4 in E4. destruct (Nat.eqb (length a) 4) eqn:E.
        -- inversion E4; subst. rewrite E in Ea. discriminate.
        -- destruct (Nat.eqb (length a) 16 && bytes_eqb (firstn 12 a) v4_in_v6_prefix) eqn:E'; [|discriminate].
           inversion E4; subst. apply andb_true_iff in E' as [E' _]. apply Nat.eqb_eq in E'.
           pose proof (skipn_length 12 a) as L. cbn [skipn] in *. rewrite L, E' in Ea. discriminate.
  - destruct (Nat.eqb (length a) 16) eqn:Ea; [|discriminate].
    destruct (Nat.eqb (length m) 4) eqn:Em4.
    + apply Nat.eqb_eq in Ea. rewrite Ea. simpl. discriminate.
    + destruct (Nat.eqb (length m) 16) eqn:Em16; [|discriminate].
      apply Nat.eqb_eq in Ea. rewrite Ea. simpl. intro H; inversion H; subst.
      apply Nat.eqb_eq in Em16. lia.
Qed.

(* ------------------------------------------------------------------ non-vacuity *)

Example nonvacuous_untrusted :
  let es := [ECidr [10;0;0;0]%N [255;0;0;0]%N; EIp []] in
  let peer := [0;0;0;0;0;0;0;0;0;0;255;255;8;8;4;4]%N in
  let c := {| c_peer := "8.8.4.4"; c_tls := false; c_method := "GET"; c_host := "a.example.com";
              c_escpath := "/pub/a"; c_rawquery := "x=1" |} in
  trusted_peer false es peer = false /\
  same_except_forwarded [(XFM, "POST"); ("X-Custom", "1"); (XFU, "/pst/a")] [("X-Custom", "1"); (FWD, "for=1.1.1.1")] /\
  v_method (s_view (serve (fun _ => Some ("/pst/a", "")) false es peer c [(XFM, "POST"); ("X-Custom", "1"); (XFU, "/pst/a")])) = "GET".
Proof. vm_compute. repeat split; reflexivity. Qed.

Example nonvacuous_trusted :
  let es := [ECidr [10;0;0;0]%N [255;0;0;0]%N] in
  let peer := [0;0;0;0;0;0;0;0;0;0;255;255;10;1;2;3]%N in
  let c := {| c_peer := "10.1.2.3"; c_tls := false; c_method := "GET"; c_host := "a.example.com";
              c_escpath := "/pub/a"; c_rawquery := "x=1" |} in
  trusted_peer false es peer = true /\
  s_view (serve (fun _ => Some ("/pst/a", "")) false es peer c [(XFM, "POST"); (XFU, "/pst/a"); (FWD, "for=1.1.1.1;proto=https, for=2.2.2.2")]) =
  {| v_method := "POST"; v_scheme := "http"; v_host := "a.example.com"; v_rawpath := "/pst/a"; v_query := "x=1";
     v_ips := ["1.1.1.1"; "2.2.2.2"; "10.1.2.3"];
     v_hdrs := [(XFM, "POST"); (XFU, "/pst/a"); (FWD, "for=1.1.1.1;proto=https, for=2.2.2.2")] |}.
Proof. vm_compute. split; reflexivity. Qed.

(* ------------------------------------------------------------------ the property theorems, for both loaders *)

(** a peer that is not listed is not trusted: by the repaired loader always, by the pinned loader
    outside the inputs of C09-F1 *)
Lemma not_listed_untrusted fixed es peer :
  Forall wf_entry es -> wf_ip peer -> ~ listed es peer ->
  (fixed = false -> guard_F1 es peer = false) -> trusted_peer fixed es peer = false.
Proof.
  intros Hes Hp Hl Hg. apply not_true_is_false. intro T. apply Hl.
  destruct fixed.
  - apply trust_is_membership; assumption.
  - apply trust_is_membership_pinned; auto.
Qed.

Lemma listed_trusted fixed es peer :
  Forall wf_entry es -> wf_ip peer -> listed es peer -> trusted_peer fixed es peer = true.
Proof.
  intros Hes Hp Hl.
  assert (T : trusted_peer true es peer = true) by (apply trust_is_membership; assumption).
  destruct fixed; [exact T|].
  destruct (guard_F1 es peer) eqn:G.
  - (* guard fires: the peer does not parse, so it cannot be listed *)
    exfalso. unfold guard_F1 in G. apply andb_true_iff in G as [G _].
    destruct peer; [|discriminate]. destruct Hl as (e & _ & Hc).
    unfold spec_covers in Hc. simpl in Hc. destruct e; discriminate.
  - rewrite pinned_eq_fixed by exact G. exact T.
Qed.

Theorem noninterference_gen parse_uri fixed es peer c h h' :
  Forall wf_entry es -> wf_ip peer ->
  ~ listed es peer -> (fixed = false -> guard_F1 es peer = false) ->
  same_except_forwarded h h' ->
  serve parse_uri fixed es peer c h = serve parse_uri fixed es peer c h' /\
  forall (D : Type) (decide : view -> D),
    decide (s_view (serve parse_uri fixed es peer c h)) = decide (s_view (serve parse_uri fixed es peer c h')).
Proof.
  intros Hes Hp Hl Hg Hs.
  assert (Ht := not_listed_untrusted fixed es peer Hes Hp Hl Hg).
  assert (E := untrusted_noninterference parse_uri fixed es peer c h h' Ht Hs).
  split; [exact E|]. intros D decide. rewrite E. reflexivity.
Qed.

Theorem not_passed_on_gen parse_uri fixed es peer c h :
  Forall wf_entry es -> wf_ip peer ->
  ~ listed es peer -> (fixed = false -> guard_F1 es peer = false) ->
  serve parse_uri fixed es peer c h =
    {| s_view := {| v_method := c_method c; v_scheme := if c_tls c then "https" else "http";
                    v_host := c_host c; v_rawpath := c_escpath c; v_query := c_rawquery c;
                    v_ips := [c_peer c]; v_hdrs := not_forwarded h |};
       s_up_hdrs := spec_upstream_untrusted c h;
       s_up_method := c_method c |} /\
  forall k, In k untrusted_header -> has k (v_hdrs (s_view (serve parse_uri fixed es peer c h))) = false.
Proof.
  intros Hes Hp Hl Hg.
  assert (Ht := not_listed_untrusted fixed es peer Hes Hp Hl Hg).
  rewrite (untrusted_not_passed_on parse_uri fixed es peer c h Ht). split; [reflexivity|].
  intros k Hk. cbn [s_view spec_view_untrusted v_hdrs]. apply has_not_forwarded.
  unfold is_forwarded_name. apply existsb_exists. exists k. split; [exact Hk | apply String.eqb_refl].
Qed.

(** the repaired loader: no guard *)
Theorem noninterference_fixed parse_uri es peer c h h' :
  Forall wf_entry es -> wf_ip peer -> ~ listed es peer -> same_except_forwarded h h' ->
  serve parse_uri true es peer c h = serve parse_uri true es peer c h' /\
  forall (D : Type) (decide : view -> D),
    decide (s_view (serve parse_uri true es peer c h)) = decide (s_view (serve parse_uri true es peer c h')).
Proof. intros Hes Hp Hl Hs. apply noninterference_gen; try assumption. discriminate. Qed.

Theorem not_passed_on_fixed parse_uri es peer c h :
  Forall wf_entry es -> wf_ip peer -> ~ listed es peer ->
  serve parse_uri true es peer c h =
    {| s_view := {| v_method := c_method c; v_scheme := if c_tls c then "https" else "http";
                    v_host := c_host c; v_rawpath := c_escpath c; v_query := c_rawquery c;
                    v_ips := [c_peer c]; v_hdrs := not_forwarded h |};
       s_up_hdrs := spec_upstream_untrusted c h;
       s_up_method := c_method c |} /\
  forall k, In k untrusted_header -> has k (v_hdrs (s_view (serve parse_uri true es peer c h))) = false.
Proof. intros Hes Hp Hl. apply not_passed_on_gen; try assumption. discriminate. Qed.

Theorem trusted_overrides_gen parse_uri fixed es peer c h :
  Forall wf_entry es -> wf_ip peer -> listed es peer ->
  s_view (serve parse_uri fixed es peer c h) =
  let uri := match hdr XFU h with Some v => if nonempty v then Some (read_uri parse_uri v) else None | None => None end in
  {| v_method := override (hdr XFM h) (c_method c);
     v_scheme := override (hdr XFP h) (if c_tls c then "https" else "http");
     v_host := override (hdr XFH h) (c_host c);
     v_rawpath := override (option_map fst uri) (c_escpath c);
     v_query := override (option_map snd uri) (c_rawquery c);
     v_ips := spec_forwarded_clients h ++ [c_peer c];
     v_hdrs := h |}.
Proof.
  intros Hes Hp Hl. apply trusted_overrides_exactly. apply listed_trusted; assumption.
Qed.

(** the pinned loader trusts the inputs of C09-F1 and lets their forwarded headers through: the
    2-safety statement fails there *)
Theorem F1_pinned_noninterference_refuted :
  exists es peer c h h',
    Forall wf_entry es /\ wf_ip peer /\ ~ listed es peer /\ guard_F1 es peer = true /\
    same_except_forwarded h h' /\
    s_view (serve (fun _ => None) false es peer c h) <> s_view (serve (fun _ => None) false es peer c h') /\
    s_view (serve (fun _ => None) true es peer c h) = s_view (serve (fun _ => None) true es peer c h').
Proof.
  exists [EIp []], [],
         {| c_peer := "fe80::1%eth0"; c_tls := false; c_method := "GET"; c_host := "a.example.com";
            c_escpath := "/pub/a"; c_rawquery := "" |},
         [(XFM, "POST")], [].
  split; [repeat constructor; simpl; auto|]. split; [left; reflexivity|].
  split; [intro L; apply listedb_listed in L; vm_compute in L; discriminate|].
  split; [reflexivity|]. split; [reflexivity|].
  split; [vm_compute; intro E; inversion E | vm_compute; reflexivity].
Qed.

(** the former finding inputs satisfy the hypotheses of the unguarded theorems *)
Example nonvacuous_former_F1_input :
  let es := [EIp []; ECidr [10;0;0;0]%N [255;0;0;0]%N] in
  let peer : ip := [] in
  Forall wf_entry es /\ wf_ip peer /\ ~ listed es peer /\ guard_F1 es peer = true /\
  trusted_peer true es peer = false /\ trusted_peer false es peer = true.
Proof.
  split; [repeat constructor; simpl; auto|]. split; [left; reflexivity|].
  split; [intro L; apply listedb_listed in L; vm_compute in L; discriminate|].
  repeat split; reflexivity.
Qed.

(* ------------------------------------------------------------------ the upstream request, any peer *)

(** the forwarding information heimdall composes for the upstream from the request the middleware left *)
Definition composed_forwarding (c : conn) (h : hdrs) : hdrs :=
  let xfh := get XFH h in
  let xfp := get XFP h in
  let xff := join ", " (values XFF h) in
  let fw := join ", " (values FWD h) in
  if nonempty xff || nonempty xfp || nonempty xfh then
    [ (XFF, http_trim (if nonempty xff then xff ++ ", " ++ c_peer c else c_peer c));
      (XFP, http_trim (if nonempty xfp then xfp else actual_scheme c));
      (XFH, http_trim (if nonempty xfh then xfh else c_host c)) ]
  else
    [ (FWD, http_trim (if nonempty fw then fw ++ ", " ++ forwarded_elem c else forwarded_elem c)) ].

Lemma values_del_same k h : values k (del k h) = [].
Proof.
  unfold values, del. rewrite filter_filter.
  induction h as [|[k' v] h IH]; simpl; [reflexivity|].
  destruct (String.eqb k' k); simpl; exact IH.
Qed.

Lemma values_del_other k k' h : String.eqb k k' = false -> values k (del k' h) = values k h.
Proof.
  intro E. unfold values, del. rewrite filter_filter. f_equal. apply filter_ext. intros [k0 v]. simpl.
  destruct (String.eqb k0 k) eqn:E0; [|apply andb_false_r].
  apply String.eqb_eq in E0. subst. rewrite E. reflexivity.
Qed.

Lemma values_app k (h1 h2 : hdrs) : values k (h1 ++ h2)%list = (values k h1 ++ values k h2)%list.
Proof. unfold values. rewrite filter_app, map_app. reflexivity. Qed.

Lemma values_del k k' h : values k (del k' h) = if String.eqb k k' then [] else values k h.
Proof.
  destruct (String.eqb k k') eqn:E.
  - apply String.eqb_eq in E. subst. apply values_del_same.
  - apply values_del_other. exact E.
Qed.

Lemma values_set k k' v h : values k (set_hdr k' v h) = if String.eqb k k' then [v] else values k h.
Proof.
  unfold set_hdr. rewrite values_app, values_del. unfold values at 2. simpl. rewrite (String.eqb_sym k' k).
  destruct (String.eqb k k'); simpl; [reflexivity|apply app_nil_r].
Qed.

Lemma values_cleared k h : is_forwarded_name k = true -> values k (upstream_cleared h) = [].
Proof.
  intro Hk. unfold upstream_cleared. cbn [fold_left]. rewrite !values_del.
  unfold is_forwarded_name, untrusted_header in Hk. cbn [existsb] in Hk.
  destruct (String.eqb k XFPath); [reflexivity|]. destruct (String.eqb k XFU); [reflexivity|].
  destruct (String.eqb k XFM); [reflexivity|]. destruct (String.eqb k XFP); [reflexivity|].
  destruct (String.eqb k XFH); [reflexivity|]. destruct (String.eqb k XFF); [reflexivity|].
  destruct (String.eqb k FWD); [reflexivity|]. discriminate.
Qed.

(** whoever the peer is: at the upstream the seven names carry what heimdall composed and nothing else;
    X-Forwarded-Method/-Uri/-Path never arrive *)
Theorem upstream_forwarding_is_composed c h k :
  is_forwarded_name k = true ->
  values k (upstream_headers c h) = values k (composed_forwarding c h).
Proof.
  intro Hk. unfold upstream_headers, composed_forwarding.
  destruct (nonempty (join ", " (values XFF h)) || nonempty (get XFP h) || nonempty (get XFH h)).
  - rewrite !values_set, (values_cleared k h Hk). unfold values. cbn [filter map fst snd].
    rewrite !(String.eqb_sym _ k).
    destruct (String.eqb k XFH) eqn:E1; destruct (String.eqb k XFP) eqn:E2; destruct (String.eqb k XFF) eqn:E3;
      try reflexivity;
      repeat match goal with H : String.eqb _ _ = true |- _ => apply String.eqb_eq in H end; subst; discriminate.
  - rewrite !values_set, (values_cleared k h Hk). unfold values. cbn [filter map fst snd].
    rewrite !(String.eqb_sym _ k). destruct (String.eqb k FWD); reflexivity.
Qed.

(* ------------------------------------------------------------------ IPNet.Contains never indexes out of range *)

(** for what ParseCIDR returns, networkNumberAndMask succeeds (the nil branch of Contains is not taken) and
    the loop of Contains stays inside the mask *)
Theorem contains_never_panics a m p :
  wf_entry (ECidr a m) ->
  (exists nn mk, network_number_and_mask a m = Some (nn, mk)) /\ contains_panics a m p = false.
Proof.
  intro Hw. assert (Hex : exists nn mk, network_number_and_mask a m = Some (nn, mk)).
  { unfold network_number_and_mask. destruct Hw as [[Ha Hm]|[Ha Hm]].
    - rewrite (to4_len4 a Ha), Hm, Ha. simpl. eauto.
    - rewrite (to4_len16 a Ha). destruct (is_v4 a).
      + rewrite Hm. destruct (Nat.eqb (length (skipn 12 a)) 4); simpl; eauto.
      + rewrite Ha, Hm. cbn. rewrite Ha. cbn. eexists _, _. reflexivity. }
  split; [exact Hex|]. destruct Hex as (nn & mk & E). unfold contains_panics. rewrite E.
  apply network_number_and_mask_lengths in E.
  cbv zeta. match goal with |- (?x =? ?y)%nat && _ = false => destruct (Nat.eqb x y) eqn:El end; [|reflexivity].
  apply Nat.eqb_eq in El. cbn [andb]. apply negb_false_iff. apply Nat.leb_le. lia.
Qed.
