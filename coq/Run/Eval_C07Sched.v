(** Evaluator of the C07 stream "sched": one case = ONE explored schedule of a tiny plan on the
    instrumented real repository (harness/sched, harness/tools/instr, harness/c07/c07_sched_test.go).

    A case carries the history (operations, results, logical invocation / response stamps, the
    proposed linearization and the results of the real code run sequentially in that order — exactly
    a case of [Run/Eval_C07.v]) and the global list of logged [item]s.

    [v_corr] — the tie between the code and the theorems' model: [replay] follows the items through
    the interleaving semantics of [Base/Locks.v] for the skeleton [sk] extracted from the same tree
    (every operation's items are a path of its method; every lock event is enabled in the model;
    the objects loaded / cloned / published are the model's); at the end every thread is idle, or —
    if the controller reported a deadlock — no thread of the model can move either.  For literal
    plans also the comparison with [repo_apply] ([check] of Eval_C07).

    [v_prop] — the property on THIS schedule: results linearizable w.r.t. the real code run
    sequentially ([check]'s v_prop), no happens-before data race among the logged accesses, no
    deadlock, no unlock-of-unlocked-mutex.

    [v_guards] is used for diagnostics only (C07 has no findings):
      [101; t; m] no path of method m matches thread t's operation   [102..107; t] see [rerr]
      [108] threads still running at the end / model not stuck at a reported deadlock
      [200; i; j] items i and j race   [300] not linearizable   [400] deadlock   [500] crash *)
From HV Require Export Base.Prelude Base.Locks C07.Model C07.Sched Run.Eval_C07.

Record scase := { sc_base : case; sc_items : list item; sc_deadlock : bool; sc_crash : bool; sc_threads : nat }.

Definition err_code (e : rerr) : list Z :=
  match e with
  | RNoPath t m => [101; Z.of_nat t; Z.of_nat m]
  | RBegin t => [102; Z.of_nat t]
  | REnd t => [103; Z.of_nat t]
  | RMismatch t _ => [104; Z.of_nat t]
  | RDisabled t _ => [105; Z.of_nat t]
  | RIdle t => [106; Z.of_nat t]
  | RNote t => [107; Z.of_nat t]
  end%Z.

Definition all_idle (c : cfg unit unit) (n : nat) : bool :=
  forallb (fun t => match c_thr c t with None => true | Some _ => false end) (seq 0 n).

Definition check_sched (sk : skel) (c : scase) : verdict :=
  let '(s, err) := replay wf1 sk tt (sc_items c) (rpst0 cfg0) in
  let b := check (sc_base c) in
  let ended := if sc_deadlock c then model_stuck wf1 (rs_cfg s) (seq 0 (sc_threads c))
               else sc_crash c || all_idle (rs_cfg s) (sc_threads c) in
  let races := hb_races (sc_items c) in
  let aborted := sc_deadlock c || sc_crash c in
  {| v_corr := match err with None => ended | Some _ => false end && (aborted || v_corr b);
     v_prop := negb aborted && is_nil races && v_prop b;
     v_guards :=
       (match err with Some e => err_code e ++ [Z.of_nat (length (rs_lab s))] | None => if ended then [] else [108] end ++
        match races with (i, j) :: _ => [200; Z.of_nat i; Z.of_nat j] | [] => [] end ++
        (if aborted || v_prop b then [] else [300]) ++
        (if sc_deadlock c then [400] else []) ++ (if sc_crash c then [500] else []))%Z |}.

(* short constructors for the generated case files *)
Definition IB := IBegin.
Definition IE := IEnd.
Definition IL (t : tid) (k : nat) (m : lock) : item :=
  ILk t (match k with 0 => ELock m | 1 => EUnlock m | 2 => ERLock m | _ => ERUnlock m end).
Definition IG := IGet.
Definition IP := IPut.
Definition IO := IObj.
Definition IC := IClone.
Definition IN := INote.
Definition mk_scase b its d cr n := {| sc_base := b; sc_items := its; sc_deadlock := d; sc_crash := cr; sc_threads := n |}.
