(** Evaluator of the C10 correspondence stream.

    One recorded case is one of five kinds (plus [CBroken] for a case the driver could not run) (all instants/durations in
    nanoseconds, `exp`/NotAfter of the seconds-based mechanisms in seconds):

    [CExec]  a mechanism created by the real factory from a prototype `cache_ttl`
             [conf] and a rule-level `cache_ttl` [rule], executed once against a
             recording cache: was the cache looked up, which ttl went to [Set];
    [CHttp]  one response through the real RFC 7234 round tripper into a real
             cache backend: was the cache looked up (GET/HEAD only), ttl handed
             to [Set] (never for other methods or responses with Vary), and is
             the response served from cache immediately afterwards;
    [CCache] a sequence of time-stamped Set/Get operations on the real in-memory
             cache / the real redis cache (miniredis as server);
    [CHist]  a sequence of time-stamped requests through a real mechanism (or
             the round tripper) with a real cache backend: hit/miss pattern.

    Wall-clock: the driver brackets every call by two clock readings; [dmax]
    is the width of the bracket.  Calls that read whole seconds are only
    recorded when both readings fall into the same second ([now] = that second);
    the model is evaluated at the end of the bracket that gives the LARGEST ttl,
    which the observation must not exceed.

    [CMix]   like [CHist] for one mechanism prototype, every request under its
             own rule-level `cache_ttl`.

    Per case: (i) [v_corr]: the observation REFINES the model (never more permissive), (ii) [v_prop]: the property's
    predicate (written from the property text, independent of the model
    functions) on the IMPLEMENTATION's observation, (iii) the finding guards. *)
From HV Require Export Base.Prelude Base.Time C10.Model C10.Proofs C10.Mixed.
Open Scope Z_scope.

(** ** vocabulary of the property predicate *)

(** validity leeway the property grants on top of the credential's own expiry
    (introspection `validity_leeway` / session lifespan leeway, default 10 s);
    keys and issued/obtained tokens get none *)
Definition grace (m : mech) : Z :=
  match m with MIntro | MGeneric => secs 10 | _ => 0 end.

(** last instant at which something with expiry information [e] may be reused *)
Definition limit (m : mech) (e : Z) : Z := expiry_instant m e + grace m.

Definition zle_opt (a : Z) (b : option Z) : bool :=
  match b with Some x => a <=? x | None => true end.

(** a ttl [t] handed to the cache at an instant not later than [ts] respects
    the lifetime [exp] and the configured ttl [cfg] *)
Definition stored_ok (m : mech) (cfg exp : option Z) (ts t : Z) : bool :=
  (0 <? t) && zle_opt t cfg && zle_opt (ts + t) (option_map (limit m) exp).

Definition cfg_zero (cfg : option Z) : bool :=
  match cfg with Some c => c =? 0 | None => false end.

Definition between (lo x hi : Z) : bool := (lo <=? x) && (x <=? hi).

(** Correspondence for [CExec] and [CHttp] is REFINEMENT, not equality: the
    implementation may be more careful than the model (look up less, store less,
    store for a shorter time) -- the property statement fixes upper bounds only,
    so a conservative change of a leeway or default constant is not a
    disagreement.  It may never be more permissive than the model. *)

(** ** [CExec] *)

Record eobs := { eo_ok : bool; eo_lookup : bool; eo_set : option Z; eo_tokexp : option Z }.

Definition exec_state (f : fixes) (m : mech) (conf rule : option Z) : option Z :=
  withconfig_ttl f m (create_ttl m conf) rule.

Definition exec_corr (f : fixes) (m : mech) (conf rule exp : option Z) (now dmax : Z) (o : eobs) : bool :=
  let st := exec_state f m conf rule in
  implb (eo_lookup o) (lookup_enabled m st) &&
  match eo_set o with
  | None => true
  | Some t => (0 <? t) && match store f m st exp now with Some hi => t <=? hi | None => false end
  end &&
  (* the token issued by the jwt finalizer lives at least as long as the model says *)
  match m, eo_tokexp o with
  | MJwtFin, Some te => unix (now + val st) <=? te
  | _, _ => true
  end.

Definition exec_prop (m : mech) (conf rule exp : option Z) (now dmax : Z) (o : eobs) : bool :=
  let cfg := spec_cfg m conf rule in
  (* a ttl of zero disables caching for that mechanism *)
  (if cfg_zero cfg && negb (mech_eqb m MJwtFin) then negb (eo_lookup o) && negb (is_some (eo_set o)) else true) &&
  match eo_set o with
  | None => true
  | Some t =>
      stored_ok m cfg exp (now + dmax) t &&
      (* a token issued by the finalizer is not handed out from cache once expired *)
      match m, eo_tokexp o with
      | MJwtFin, Some te => now + dmax + t <=? secs te
      | _, _ => true
      end
  end.

(** ** [CHttp]

    [h]: the header values as the driver's own RFC 7234 reader parsed them;
    [cachable]: pquerna/cachecontrol's verdict on cachability (oracle);
    [now .. now + dmax]: bracket around the first request;
    [bdelay]: time the response body took to arrive after the headers (a lower
    bound of the time between the library's clock reading and [time.Until]);
    [o_nsets]/[o_set]: number of Set calls / the ttl of the first one;
    [o_hit]: the second request, finished at most [tget] after the Set was
    called, was answered without reaching the transport. *)

Definition mkh (maxage : option Z) (expires : option (option Z)) (date : option Z) (age : Z) : hvals :=
  {| hv_maxage := maxage; hv_expires := expires; hv_date := date; hv_age := age |}.

Definition http_corr (f : fixes) (b : backend) (cachable : bool) (h : hvals) (dflt now dmax bdelay tget : Z)
           (o_nsets : Z) (o_set : option Z) (o_hit : bool) : bool :=
  (o_nsets =? (if is_some o_set then 1 else 0)) &&
  match o_set with
  | Some t =>
      (0 <? t) &&
      match http_store_hdr f cachable h dflt now (now + bdelay) with Some hi => t <=? hi | None => false end &&
      implb o_hit (is_some (cget b tget 1 (cset b 0 1 tt t [])))
  | None => negb o_hit
  end.

(** the property on the observation: a response is handed to the cache only
    with a positive ttl within the RFC 7234 freshness it has left AT THE TIME OF
    THE SET -- what it had left on arrival minus the time its body took to arrive
    ([bdelay], measured by the driver's body reader) -- so not at all when that
    is zero, negative or absent; and it is served from cache only within it *)
Definition http_prop (h : hvals) (dflt now dmax bdelay tget : Z) (o_set : option Z) (o_hit : bool) : bool :=
  match rfc_remaining h dflt now with
  | Some l =>
      match o_set with Some t => (0 <? t) && (t <=? l - bdelay) | None => true end &&
      (if o_hit then tget <=? l - bdelay else true)
  | None => negb (is_some o_set) && negb o_hit
  end.

(** ** [CCache] *)

Inductive cop := OSet (t k v ttl : Z) (ok : bool) | OGet (t k : Z) (r : option Z).

Definition zopt_eqb := option_eqb Z.eqb.

(** Refinement again: the real cache may answer "no entry" at any time (an early
    miss is no concern of C10); whatever it DOES return must be what the model
    cache -- built with the instants the Sets RETURNED and probed at the instants
    the Gets were ISSUED -- still holds.  In particular a Get issued after
    set-return + ttl must miss. *)
Fixpoint cache_corr (b : backend) (c : cache Z) (ops : list cop) : bool :=
  match ops with
  | [] => true
  | OSet t k v ttl ok :: r =>
      Bool.eqb ok (match b with Mem => true | Redis => 0 <? millis ttl end) &&
      cache_corr b (cset b t k v ttl c) r
  | OGet t k None :: r => cache_corr b c r
  | OGet t k (Some v) :: r => zopt_eqb (cget b t k c) (Some v) && cache_corr b c r
  end.

(** the last successful Set of key [k] among the operations seen so far
    (most recent first): (time, value, ttl) *)
Fixpoint last_set (k : Z) (seen : list cop) : option (Z * Z * Z) :=
  match seen with
  | [] => None
  | OSet t k' v ttl true :: r => if k' =? k then Some (t, v, ttl) else last_set k r
  | _ :: r => last_set k r
  end.

(** expiry enforcement: whatever a Get returns was put there by the last
    successful Set of that key and, if that Set carried a positive ttl, not
    longer ago than the ttl *)
Fixpoint cache_prop (seen : list cop) (ops : list cop) : bool :=
  match ops with
  | [] => true
  | OGet t k (Some v) as o :: r =>
      match last_set k seen with
      | Some (ts, v', ttl) => (v =? v') && (if 0 <? ttl then t - ts <=? ttl else true)
      | None => false
      end && cache_prop (o :: seen) r
  | o :: r => cache_prop (o :: seen) r
  end.

(** ** [CHist] *)

Inductive hkind := HMech (m : mech) (conf rule : option Z) | HHttp (dflt : Z).
Inductive hobs := HHit (v : Z) | HMiss (s : option Z).

Definition hevent := (Z * Z * result)%type.

Definition mkev (t k id : Z) (e : option Z) : hevent := (t, k, {| r_id := id; r_exp := e |}).

(** the model's lookup switch and ttl policy for a history *)
Definition hist_lookup (f : fixes) (hk : hkind) : bool :=
  match hk with
  | HMech m conf rule => lookup_enabled m (exec_state f m conf rule)
  | HHttp _ => true
  end.

Definition hist_policy (f : fixes) (hk : hkind) : result -> Z -> option Z :=
  match hk with
  | HMech m conf rule => mech_policy f m (exec_state f m conf rule)
  | HHttp dflt => http_policy f dflt
  end.

(** Correspondence for histories is refinement too.  The cache state is built
    with the cache semantics of the model ([cset]/[cget], checked exactly by the
    [CCache] cases) from the ttls the implementation actually handed to [Set];
    a request may be answered from cache only if the lookup is enabled and that
    cache holds a live entry with exactly that payload; a ttl handed to [Set]
    must be positive and at most the model's; answering from the remote system
    although the cache could have answered, storing less or for a shorter time
    is the implementation's freedom. *)
Fixpoint hist_refines (b : backend) (lookup : bool) (policy : result -> Z -> option Z)
         (c : cache result) (evs : list hevent) (obs : list hobs) : bool :=
  match evs, obs with
  | [], [] => true
  | (t, k, _) :: r, HHit id :: r' =>
      lookup &&
      match cget b t k c with Some v => r_id v =? id | None => false end &&
      hist_refines b lookup policy c r r'
  | _ :: r, HMiss None :: r' => hist_refines b lookup policy c r r'
  | (t, k, fr) :: r, HMiss (Some s') :: r' =>
      (0 <? s') &&
      match policy fr t with Some s => s' <=? s | None => false end &&
      hist_refines b lookup policy (cset b t k fr s' c) r r'
  | _, _ => false
  end.

(** the miss that fetched payload [id]: (instant, ttl handed to Set, expiry information) *)
Fixpoint origin (id : Z) (evs : list hevent) (obs : list hobs) : option (Z * option Z * option Z) :=
  match evs, obs with
  | (t, _, fr) :: r, HMiss s :: r' => if r_id fr =? id then Some (t, s, r_exp fr) else origin id r r'
  | _ :: r, _ :: r' => origin id r r'
  | _, _ => None
  end.

Definition hist_limit (hk : hkind) (e : Z) : Z :=
  match hk with HMech m _ _ => limit m e | HHttp _ => e end.

Definition hist_cfg (hk : hkind) : option Z :=
  match hk with
  | HMech MJwtFin _ _ => None
  | HMech m conf rule => spec_cfg m conf rule
  | HHttp _ => None
  end.

(** every payload served from cache was fetched earlier in this history, is
    served within the ttl handed to the cache (a non-positive ttl allows no
    reuse at all) and within its own lifetime; with a ttl of zero in force
    nothing is served from cache *)
Fixpoint hist_prop_from (slack : Z) (hk : hkind) (all_evs : list hevent) (all_obs : list hobs)
         (evs : list hevent) (obs : list hobs) : bool :=
  match evs, obs with
  | (t, _, _) :: r, HHit id :: r' =>
      negb (cfg_zero (hist_cfg hk)) &&
      match origin id all_evs all_obs with
      | Some (ts, Some ttl, e) =>
          (ts <=? t) && (0 <? ttl) && (t - ts <=? ttl + slack) &&
          zle_opt t (option_map (fun e => hist_limit hk e + slack) e)
      | _ => false
      end && hist_prop_from slack hk all_evs all_obs r r'
  | _ :: r, HMiss s :: r' =>
      (if cfg_zero (hist_cfg hk) then negb (is_some s) else true) &&
      hist_prop_from slack hk all_evs all_obs r r'
  | [], [] => true
  | _, _ => false
  end.

(** the input condition of C10-F2 irrespective of the backend: the pinned code calls [Set] with a
    non-positive ttl.  (Only the in-memory backend turns that into a property violation -- [guard_F2] --
    but the repaired code differs from the pinned one on redis as well: it does not call [Set] at all.) *)
Definition g_F2 (f : fixes) (expires : option Z) (dflt now : Z) : bool :=
  negb (fx2 f) && match http_lifetime expires dflt now with Some l => l <=? 0 | None => false end.

(** guards over a history *)
Definition hist_guards (f : fixes) (b : backend) (hk : hkind) (evs : list hevent) : list (Z * bool) :=
  match hk with
  | HMech m conf rule =>
      let st := exec_state f m conf rule in
      [(1, existsb (fun ev => match ev with (t, _, fr) => guard_F1 f m st (r_exp fr) t end) evs);
       (3, guard_F3 f m conf rule)]
  | HHttp dflt => [(2, existsb (fun ev => match ev with (t, _, fr) => g_F2 f (r_exp fr) dflt t end) evs)]
  end.

(** ** [CMix]: a history in which every request runs under its own rule
    (prototype `cache_ttl` [conf] + rule-level [rule]) of one mechanism *)

Definition mevent := (Z * Z * option Z * option Z * result)%type.

Definition mkmev (t k : Z) (conf rule : option Z) (id : Z) (e : option Z) : mevent :=
  (t, k, conf, rule, {| r_id := id; r_exp := e |}).

(** refinement, as for [CHist]; the cache is the family of caches indexed by the
    part of the ttl state that is in the cache key ([nspace]) *)
Fixpoint mix_refines (f : fixes) (b : backend) (m : mech) (cs : ncache) (evs : list mevent) (obs : list hobs) : bool :=
  match evs, obs with
  | [], [] => true
  | (t, k, conf, rule, _) :: r, HHit id :: r' =>
      let st := exec_state f m conf rule in
      lookup_enabled m st &&
      match cget b t k (nget (nspace f m st) cs) with Some v => r_id v =? id | None => false end &&
      mix_refines f b m cs r r'
  | _ :: r, HMiss None :: r' => mix_refines f b m cs r r'
  | (t, k, conf, rule, fr) :: r, HMiss (Some s') :: r' =>
      let st := exec_state f m conf rule in
      let n := nspace f m st in
      (0 <? s') &&
      match mech_policy f m st fr t with Some s => s' <=? s | None => false end &&
      mix_refines f b m (nset n (cset b t k fr s' (nget n cs)) cs) r r'
  | _, _ => false
  end.

Fixpoint mix_origin (id : Z) (evs : list mevent) (obs : list hobs) : option (Z * option Z * option Z) :=
  match evs, obs with
  | (t, _, _, _, fr) :: r, HMiss s :: r' => if r_id fr =? id then Some (t, s, r_exp fr) else mix_origin id r r'
  | _ :: r, _ :: r' => mix_origin id r r'
  | _, _ => None
  end.

(** the property per request: served from cache only (a) with caching not
    disabled for THIS request's rule, (b) within the ttl handed to the cache and
    within the payload's own lifetime, (c) not older than the ttl in force for
    THIS request ("a configured ttl can only shorten") *)
Fixpoint mix_prop (slack : Z) (m : mech) (all_evs : list mevent) (all_obs : list hobs)
         (evs : list mevent) (obs : list hobs) : bool :=
  match evs, obs with
  | (t, _, conf, rule, _) :: r, HHit id :: r' =>
      let cfg := spec_cfg m conf rule in
      negb (cfg_zero cfg && negb (mech_eqb m MJwtFin)) &&
      match mix_origin id all_evs all_obs with
      | Some (ts, Some ttl, e) =>
          (ts <=? t) && (0 <? ttl) && (t - ts <=? ttl + slack) &&
          zle_opt t (option_map (fun e => limit m e + slack) e) &&
          zle_opt (t - ts) (option_map (fun c => c + slack) cfg)
      | _ => false
      end && mix_prop slack m all_evs all_obs r r'
  | (_, _, conf, rule, _) :: r, HMiss s :: r' =>
      (if cfg_zero (spec_cfg m conf rule) && negb (mech_eqb m MJwtFin) then negb (is_some s) else true) &&
      mix_prop slack m all_evs all_obs r r'
  | [], [] => true
  | _, _ => false
  end.

Definition mix_guards (f : fixes) (m : mech) (evs : list mevent) : list (Z * bool) :=
  [(1, existsb (fun ev => match ev with (t, _, conf, rule, fr) => guard_F1 f m (exec_state f m conf rule) (r_exp fr) t end) evs);
   (3, existsb (fun ev => match ev with (_, _, conf, rule, _) => guard_F3 f m conf rule end) evs);
   (5, guard_F5 f m (map (fun ev => match ev with (_, _, conf, rule, _) => exec_state f m conf rule end) evs))].

(** ** the case type and [check] *)

Inductive case :=
| CExec (m : mech) (conf rule exp : option Z) (now dmax : Z) (obs : eobs)
| CHttp (b : backend) (cachable : bool) (h : hvals) (dflt now dmax bdelay tget : Z)
        (o_nsets : Z) (o_set : option Z) (o_hit : bool)
| CCache (b : backend) (ops : list cop)
| CHist (b : backend) (hk : hkind) (slack xsets : Z) (evs : list hevent) (obs : list hobs)
| CMix (b : backend) (m : mech) (slack xsets : Z) (evs : list mevent) (obs : list hobs)
| CBroken.  (* the driver could not run the case (harness error): never passes *)

Definition check (f : fixes) (c : case) : verdict :=
  match c with
  | CExec m conf rule exp now dmax o =>
      let st := exec_state f m conf rule in
      {| v_corr := exec_corr f m conf rule exp now dmax o;
         v_prop := exec_prop m conf rule exp now dmax o;
         v_guards := guards [(1, guard_F1 f m st exp now || guard_F1 f m st exp (now + dmax));
                             (3, guard_F3 f m conf rule)] |}
  | CHttp b cachable h dflt now dmax bdelay tget o_nsets o_set o_hit =>
      {| v_corr := http_corr f b cachable h dflt now dmax bdelay tget o_nsets o_set o_hit;
         v_prop := http_prop h dflt now dmax bdelay tget o_set o_hit;
         v_guards := guards [(2, negb (fx2 f)); (4, negb (fx4 f))] |}
  | CCache b ops =>
      {| v_corr := cache_corr b [] ops; v_prop := cache_prop [] ops; v_guards := [] |}
  | CHist b hk slack xsets evs obs =>
      (* [xsets]: Set calls made while a request was answered from cache (the model makes none) *)
      {| v_corr := (xsets =? 0) && hist_refines b (hist_lookup f hk) (hist_policy f hk) [] evs obs;
         v_prop := hist_prop_from slack hk evs obs evs obs;
         v_guards := guards (hist_guards f b hk evs) |}
  | CMix b m slack xsets evs obs =>
      {| v_corr := (xsets =? 0) && mix_refines f b m [] evs obs;
         v_prop := mix_prop slack m evs obs evs obs;
         v_guards := guards (mix_guards f m evs) |}
  | CBroken => {| v_corr := false; v_prop := true; v_guards := [] |}
  end.

(** short constructors for the generated case files *)
Definition eo (ok lookup : bool) (s tokexp : option Z) : eobs :=
  {| eo_ok := ok; eo_lookup := lookup; eo_set := s; eo_tokexp := tokexp |}.

(** [mkfx a b c d e]: which of the repairs of C10-F1 .. C10-F5 the implementation under test contains *)
Definition mkfx (a b c d e : bool) : fixes := {| fx1 := a; fx2 := b; fx3 := c; fx4 := d; fx5 := e |}.
