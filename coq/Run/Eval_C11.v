(** Evaluator of the C11 correspondence stream.

    A case is a small history: mechanism instances (prototypes and rule-level
    reconfigurations of one or two prototypes) executing requests one after the
    other against ONE shared recording cache, the same requests executed without
    a cache, and 20 repetitions of one request against empty caches.  Observed
    per step: the key looked up, hit or miss, the number of calls that reached
    the remote test server, the outcome with the cache and the outcome without.

    [v_corr]: the model (C11.Model, SHA-256 instantiated by the digest table of
    the case, map iteration orders as observed) predicts exactly these
    observations.
    [v_prop]: the property's predicate on the implementation's observations only:
    (P1) every outcome with cache equals the outcome without, (P2) a request
    identical to an earlier allowed one of a caching instance is answered
    without a remote call, (P3) the repetitions used one key. *)
From HV Require Export Base.Prelude C11.Model C11.Spec C11.Model2 C11.Spec2.
Local Open Scope string_scope.
Local Open Scope list_scope.

(* ------------------------------------------------------------------ equality tests *)

Definition str_list_eqb := list_eqb String.eqb.

Definition pair_eqb (a b : string * string) : bool := String.eqb (fst a) (fst b) && String.eqb (snd a) (snd b).

(** equal as multisets (the echo server reports headers and cookies as JSON objects) *)
Fixpoint remove1 (x : string * string) (l : alist) : option alist :=
  match l with
  | [] => None
  | y :: r => if pair_eqb x y then Some r else option_map (cons y) (remove1 x r)
  end.

Fixpoint alist_perm (a b : alist) : bool :=
  match a with
  | [] => is_nil b
  | x :: r => match remove1 x b with Some b' => alist_perm r b' | None => false end
  end.

Definition sent_eqb (a b : sent) : bool :=
  String.eqb (s_url a) (s_url b) && String.eqb (s_method a) (s_method b) &&
  alist_perm (s_headers a) (s_headers b) && alist_perm (s_cookies a) (s_cookies b) &&
  String.eqb (s_auth a) (s_auth b) && String.eqb (s_body a) (s_body b).

Definition result_eqb (a b : result) : bool :=
  sent_eqb (rs_sent a) (rs_sent b) && String.eqb (rs_sub a) (rs_sub b) && str_list_eqb (rs_scopes a) (rs_scopes b) &&
  str_list_eqb (rs_aud a) (rs_aud b) && Bool.eqb (rs_active a) (rs_active b).

Definition outcome_eqb (a b : outcome) : bool :=
  match a, b with
  | OAllow x, OAllow y => result_eqb x y
  | ODeny, ODeny | OErr, OErr => true
  | _, _ => false
  end.

(** for the correspondence only the decision is compared: allowed with which result, or not allowed
    (whether a refusal surfaces as an authentication/authorization or as a communication error is C12's subject) *)
Definition decision_eqb (a b : outcome) : bool :=
  match a, b with
  | OAllow x, OAllow y => result_eqb x y
  | OAllow _, _ | _, OAllow _ => false
  | _, _ => true
  end.

(** keys are compared up to a renaming: the same look-ups use equal keys in the model and in the
    implementation (the byte layout is not part of the property; it is reported separately as drift) *)
Fixpoint same_class (k : option string) (k' : option string) (ms os : list (option string)) : bool :=
  match ms, os with
  | [], [] => true
  | m :: mr, o :: or' =>
    Bool.eqb (option_eqb String.eqb k m) (option_eqb String.eqb k' o) && same_class k k' mr or'
  | _, _ => false
  end.

Fixpoint key_pattern_ok (ms os : list (option string)) : bool :=
  match ms, os with
  | [], [] => true
  | m :: mr, o :: or' =>
    Bool.eqb (match m with Some _ => true | None => false end) (match o with Some _ => true | None => false end) &&
    same_class m o mr or' && key_pattern_ok mr or'
  | _, _ => false
  end.

Definition is_allow (o : outcome) : bool := match o with OAllow _ => true | _ => false end.

Fixpoint remove_str (x : string) (l : list string) : option (list string) :=
  match l with
  | [] => None
  | y :: t => if String.eqb x y then Some t else option_map (cons y) (remove_str x t)
  end.

Fixpoint names_perm (a b : list string) : bool :=
  match a with
  | [] => is_nil b
  | x :: r => match remove_str x b with Some b' => names_perm r b' | None => false end
  end.

(* ------------------------------------------------------------------ cases *)

(** [o_up], [o_fup]: the headers handed on to the upstream service with the cache and without *)
Record obs := { o_key : option string; o_hit : bool; o_calls : nat; o_out : outcome;
                o_fresh : outcome; o_fcalls : nat; o_up : alist; o_fup : alist }.

Record ostep := { os_step : step; os_obs : obs }.

(** repetitions: step index, number of runs, distinct keys seen, keys no permutation explains *)
Record rep := { rp_step : nat; rp_runs : nat; rp_distinct : nat; rp_unexplained : nat }.

Record case := { c_world : world; c_sha : alist; c_steps : list ostep; c_rep : option rep }.

(** SHA-256 as observed: the digest table of the case; a pre-image the driver
    did not propose gets an answer that equals no digest *)
Definition H_tab (t : alist) (s : string) : string :=
  match lookup s t with Some d => d | None => "?" ++ s end%string.

(* ------------------------------------------------------------------ correspondence *)

Definition orders_ok (s : step) : bool :=
  let i := st_inst s in
  names_perm (st_ho s) (map fst (e_headers (eff_ep i))) &&
  match i_kind i with
  | KRemote | KCtx => names_perm (st_vo s) (map fst (i_values i))
  | _ => is_nil (st_vo s)
  end.

Definition sres_matches (exact : bool) (m : sres) (o : obs) : bool :=
  (negb exact || option_eqb String.eqb (sr_key m) (o_key o)) && Bool.eqb (sr_hit m) (o_hit o) &&
  Nat.eqb (sr_calls m) (o_calls o) && decision_eqb (sr_out m) (o_out o).

Definition fresh_matches (m : outcome * nat) (o : obs) : bool := decision_eqb (fst m) (o_fresh o).

Fixpoint all2 {A B} (f : A -> B -> bool) (l : list A) (m : list B) : bool :=
  match l, m with
  | [], [] => true
  | x :: r, y :: t => f x y && all2 f r t
  | _, _ => false
  end.

Definition rep_ok (exact : bool) (fx : fixes) (steps : list step) (r : option rep) : bool :=
  match r with
  | None => true
  | Some r =>
    match nth_error steps (rp_step r) with
    | None => false
    | Some s =>
      (negb exact || Nat.eqb (rp_unexplained r) 0) && Nat.leb 1 (rp_distinct r) && Nat.leb (rp_distinct r) (rp_runs r) &&
      (negb (order_free (st_inst s) || fx1 fx) || Nat.eqb (rp_distinct r) 1)
    end
  end.

(** [exact]: compare the key bytes too (layout drift report), else keys up to renaming *)
Definition corr_gen (exact : bool) (fx : fixes) (c : case) : bool :=
  let steps := map os_step (c_steps c) in
  let obss := map os_obs (c_steps c) in
  let H := H_tab (c_sha c) in
  key_pattern_ok (map sr_key (run_cached fx H (c_world c) [] steps)) (map o_key obss) &&
  forallb orders_ok steps && forallb (fun s => wf_instb (st_inst s)) steps &&
  all2 (sres_matches exact) (run_cached fx H (c_world c) [] steps) obss &&
  all2 (fun s o => alist_perm (upstream_of (st_inst s) (o_out o)) (o_up o) &&
                   alist_perm (upstream_of (st_inst s) (o_fresh o)) (o_fup o)) steps obss &&
  all2 fresh_matches (run_fresh (c_world c) steps) obss &&
  rep_ok exact fx steps (c_rep c).

Definition corr := corr_gen false.

(* ------------------------------------------------------------------ the property on the observations *)

(** (P1) enabling the cache changes no outcome *)
Definition p_transparent (c : case) : bool :=
  forallb (fun x => outcome_eqb (o_out (os_obs x)) (o_fresh (os_obs x)) &&
                    alist_perm (o_up (os_obs x)) (o_fup (os_obs x))) (c_steps c).

(** (P2) an identical request after an allowed one, caching instance: no remote call *)
Fixpoint p_hits_from (earlier : list ostep) (l : list ostep) : bool :=
  match l with
  | [] => true
  | x :: r =>
    (negb (existsb (fun y => same_request (os_step y) (os_step x) && enabled (st_inst (os_step y)) &&
                             is_allow (o_fresh (os_obs y))) earlier)
     || Nat.eqb (o_calls (os_obs x)) 0)
    && p_hits_from (earlier ++ [x]) r
  end.

(** (P3) the key does not depend on incidental nondeterminism *)
Definition p_deterministic (c : case) : bool :=
  match c_rep c with None => true | Some r => Nat.eqb (rp_distinct r) 1 end.

Definition prop (c : case) : bool :=
  p_transparent c && p_hits_from [] (c_steps c) && p_deterministic c.

(* ------------------------------------------------------------------ guards *)

(** [fx]: which repairs the implementation is expected to contain
    ([fx_all6]: the tree as it is, /repo 0b950ef).  A repaired finding has no guard any more. *)
Definition check (fx : fixes) (c : case) : verdict :=
  let steps := map os_step (c_steps c) in
  let rp := match c_rep c with Some r => Some (rp_step r) | None => None end in
  {| v_corr := corr fx c;
     v_prop := prop c;
     v_guards :=
       let H := H_tab (c_sha c) in
       guards [(1%Z, g_F1 steps rp && negb (fx1 fx)); (2%Z, g_F2 fx H steps && negb (fx2 fx));
               (3%Z, g_F3 fx H steps && negb (fx3 fx)); (10%Z, g_F10 fx H steps && negb (fx10 fx));
               (4%Z, g_F4 fx H steps); (6%Z, g_F6 fx H steps && negb (fx6 fx)); (7%Z, g_F7 fx H steps)] |}.

(* ------------------------------------------------------------------ short names for generated files *)

Definition pl := PLit.
Definition psub := PSubjectID.
Definition pv := PValue.
Definition po := POutput.
Definition ph := PReqHeader.
Definition pa := PAuthData.
Definition epc u m h a := {| e_url := u; e_method := m; e_headers := h; e_auth := a |}.
Definition ins k id e fh fc up p v t sc au se ex :=
  {| i_kind := k; i_id := id; i_ep := e; i_fwdh := fh; i_fwdc := fc; i_up := up; i_payload := p;
     i_values := v; i_ttl := t; i_scopes := sc; i_aud := au; i_session := se; i_exprs := ex |}.
Definition rq h c o sid sj cr :=
  {| q_headers := h; q_cookies := c; q_outputs := o; q_sub_id := sid; q_sub_json := sj; q_cred := cr |}.
Definition snt u m h c a b :=
  {| s_url := u; s_method := m; s_headers := h; s_cookies := c; s_auth := a; s_body := b |}.
Definition res s sub sc := {| rs_sent := s; rs_sub := sub; rs_scopes := sc; rs_aud := []; rs_active := true |}.
Definition resx s sub sc au ac := {| rs_sent := s; rs_sub := sub; rs_scopes := sc; rs_aud := au; rs_active := ac |}.
Definition ob k h n o f fn up fup :=
  {| o_key := k; o_hit := h; o_calls := n; o_out := o; o_fresh := f; o_fcalls := fn; o_up := up; o_fup := fup |}.
Definition stp i q ho vo o := {| os_step := {| st_inst := i; st_req := q; st_ho := ho; st_vo := vo |}; os_obs := o |}.
Definition wld t d := {| t_tok := t; t_deny := d |}.
Definition rp s n d u := {| rp_step := s; rp_runs := n; rp_distinct := d; rp_unexplained := u |}.
Definition cs w sha st r := {| c_world := w; c_sha := sha; c_steps := st; c_rep := r |}.

(** digests and pre-images with non-printable bytes are written in hex *)
Definition ux := unhex.

(* ================================================================== second stream: client credentials, jwt finalizer *)

Record obs2 := { o2_key : option string; o2_hit : bool; o2_calls : nat; o2_out : outcome; o2_fresh : outcome }.

Inductive case2 :=
| CC (sha : alist) (steps : list (cc_cfg * obs2))
| JF (sha : alist) (kid_conf : option string) (s0 : signer) (steps : list (jstep * option obs2))
| HC (sha : alist) (w : hc_world) (steps : list ((hc_cfg * hc_req) * obs2))
| JK (sha : alist) (w : jwks_world) (steps : list ((jk_cfg * jtok) * obs2)).

Definition sres_matches2 (exact : bool) (m : sres) (o : obs2) : bool :=
  (negb exact || option_eqb String.eqb (sr_key m) (o2_key o)) && Bool.eqb (sr_hit m) (o2_hit o) &&
  Nat.eqb (sr_calls m) (o2_calls o) && decision_eqb (sr_out m) (o2_out o).

Definition run_matches2 (exact : bool) (ms : list sres) (os : list obs2) : bool :=
  key_pattern_ok (map sr_key ms) (map o2_key os) && all2 (sres_matches2 exact) ms os.

Fixpoint exec_obs (l : list (jstep * option obs2)) : list obs2 :=
  match l with
  | [] => []
  | (JExec _ _, Some o) :: r => o :: exec_obs r
  | _ :: r => exec_obs r
  end.

Fixpoint jf_shape_ok (l : list (jstep * option obs2)) : bool :=
  match l with
  | [] => true
  | (JExec _ _, Some _) :: r | (JReload _ _, None) :: r => jf_shape_ok r
  | _ => false
  end.

Definition corr2_gen (exact : bool) (fx5 fx8 fx11 : bool) (c : case2) : bool :=
  match c with
  | JK sha w steps =>
    let H := H_tab sha in
    run_matches2 exact (jk_run fx11 H w [] (map fst steps)) (map snd steps) &&
    forallb (fun x => decision_eqb (jk_fresh w (fst (fst x)) (snd (fst x))) (o2_fresh (snd x))) steps
  | HC sha w steps =>
    let H := H_tab sha in
    run_matches2 exact (hc_run fx8 H w [] (map fst steps)) (map snd steps) &&
    forallb (fun x => decision_eqb (OAllow (hc_result w (fst (fst x)) (snd (fst x)))) (o2_fresh (snd x))) steps
  | CC sha steps =>
    let H := H_tab sha in
    run_matches2 exact (cc_run H [] (map fst steps)) (map snd steps) &&
    forallb (fun x => decision_eqb (OAllow (cc_result (fst x))) (o2_fresh (snd x))) steps
  | JF sha kc s0 steps =>
    let H := H_tab sha in
    jf_shape_ok steps &&
    (let r := jrun fx5 H kc s0 [] (map fst steps) in
     run_matches2 exact (map fst r) (exec_obs steps) &&
     all2 (fun (m : sres * outcome) o => decision_eqb (snd m) (o2_fresh o)) r (exec_obs steps))
  end.

(** (P2) for client credentials: the same configuration again, caching on: no call to the token endpoint *)
Fixpoint cc_hits_from (earlier : list cc_cfg) (l : list (cc_cfg * obs2)) : bool :=
  match l with
  | [] => true
  | (c, o) :: r =>
    (negb (cc_enabled c && existsb (cc_eqb c) earlier) || Nat.eqb (o2_calls o) 0) && cc_hits_from (earlier ++ [c]) r
  end.

(** (P2) for the finalizer: the same instance and request again with no key-store reload in between, token cacheable: a hit *)
Fixpoint jf_hits_from (since_reload : list (jf_cfg * jreq)) (l : list (jstep * option obs2)) : bool :=
  match l with
  | [] => true
  | (JExec c q, Some o) :: r =>
    (negb (jf_stores c && is_allow (o2_fresh o) &&
           existsb (fun x => jf_cfg_eqb (fst x) c && jreq_eqb (snd x) q) since_reload) || o2_hit o)
    && jf_hits_from (since_reload ++ [(c, q)]) r
  | (JReload _ _, _) :: r => jf_hits_from [] r
  | _ :: r => jf_hits_from since_reload r
  end.

(** (P2) for the RFC 7234 cache: the same request to the same endpoint again, response soundly reusable (GET, no Vary): no call *)
Fixpoint hc_hits_from (w : hc_world) (earlier : list (hc_cfg * hc_req)) (l : list ((hc_cfg * hc_req) * obs2)) : bool :=
  match l with
  | [] => true
  | (x, o) :: r =>
    (negb (hc_stores true w (fst x) &&
           existsb (fun y => hc_cfg_eqb (fst y) (fst x) && hc_req_eqb (snd y) (snd x)) earlier)
     || Nat.eqb (o2_calls o) 0) && hc_hits_from w (earlier ++ [x]) r
  end.

Definition corr2 := corr2_gen false.

(** (P2) for the key cache: the same token at the same instance again, key fetched before: no call *)
Fixpoint jk_hits_from (w : jwks_world) (earlier : list (jk_cfg * jtok)) (l : list ((jk_cfg * jtok) * obs2)) : bool :=
  match l with
  | [] => true
  | (x, o) :: r =>
    (negb (jk_enabled (fst x) && match jk_lookup w (fst x) (snd x) with JKKey _ tr => negb (jk_rejects (fst x) tr) | _ => false end &&
           existsb (fun y => jk_cfg_eqb (fst y) (fst x) && jtok_eqb (snd y) (snd x)) earlier)
     || Nat.eqb (o2_calls o) 0) && jk_hits_from w (earlier ++ [x]) r
  end.

Definition prop2 (c : case2) : bool :=
  match c with
  | JK _ w steps =>
    forallb (fun x => outcome_eqb (o2_out (snd x)) (o2_fresh (snd x))) steps && jk_hits_from w [] steps
  | HC _ w steps =>
    forallb (fun x => outcome_eqb (o2_out (snd x)) (o2_fresh (snd x))) steps && hc_hits_from w [] steps
  | CC _ steps => forallb (fun x => outcome_eqb (o2_out (snd x)) (o2_fresh (snd x))) steps && cc_hits_from [] steps
  | JF _ _ _ steps => forallb (fun o => outcome_eqb (o2_out o) (o2_fresh o)) (exec_obs steps) && jf_hits_from [] steps
  end.

(** [fx5]: the signer hash covers the key (repair of F5); [fx8]: repair of F8/F9; [fx11]: a cached JWK is validated *)
Definition check2 (fx5 fx8 fx11 : bool) (c : case2) : verdict :=
  {| v_corr := corr2 fx5 fx8 fx11 c;
     v_prop := prop2 c;
     v_guards := match c with
                 | JK sha _ steps => guards [(4%Z, g_jk_F4 (H_tab sha) (map fst steps));
                                             (11%Z, g_F11 (H_tab sha) (map fst steps) && negb fx11)]
                 | HC _ w steps => guards [(4%Z, g_hc_F4 (map fst steps)); (8%Z, g_F8 fx8 w (map fst steps));
                                            (9%Z, g_F9 fx8 w (map fst steps))]
                 | CC _ steps => guards [(4%Z, g_cc_F4 (map fst steps))]
                 | JF sha kc s0 steps => guards [(4%Z, g_jf_F4 fx5 (H_tab sha) kc s0 (map fst steps));
                                                  (5%Z, g_F5 kc s0 (map fst steps) && negb fx5)]
                 end |}.

Definition ccc u i s sc t b := {| cc_url := u; cc_id := i; cc_secret := s; cc_scopes := sc; cc_ttl := t; cc_body_auth := b |}.
Definition ob2 k h n o f := {| o2_key := k; o2_hit := h; o2_calls := n; o2_out := o; o2_fresh := f |}.
Definition jfc k i c t := {| jf_key_id := k; jf_iss := i; jf_claims := c; jf_ttl := t |}.
Definition jrq sid sj o oj := {| j_sub_id := sid; j_sub_json := sj; j_outputs := o; j_outputs_json := oj |}.
Definition sgn k g t := {| sg_kid := k; sg_gen := g; sg_thumb := t |}.
Definition jtk sub cl iss kid gen := enc_jtoken {| jt_sub := sub; jt_claims := cl; jt_iss := iss; jt_kid := kid; jt_gen := gen |}.
Definition cct (c : cc_cfg) := cc_result c.
Definition hcc u m a := {| hc_url := u; hc_method := m; hc_auth := a |}.
Definition jkc u h t v := {| jk_url := u; jk_headers := h; jk_ttl := t; jk_validate := v |}.
Definition jtk2 i k sg sub := {| t_iss := i; t_kid := k; t_signer := sg; t_sub := sub |}.
Definition jko (sub : string) := jk_owner_result sub.
Definition hrq h b := {| hq_headers := h; hq_body := b |}.

(** layout drift report (not a verdict of the check): [v_corr] = the keys are byte for byte the ones of the modelled layout *)
Definition drift (fx : fixes) (c : case) : verdict :=
  {| v_corr := corr_gen true fx c; v_prop := true; v_guards := [] |}.
Definition drift2 (fx5 fx8 fx11 : bool) (c : case2) : verdict :=
  {| v_corr := corr2_gen true fx5 fx8 fx11 c; v_prop := true; v_guards := [] |}.
