(** Evaluator of the C12 correspondence stream.  A case carries the respond
    configuration, the observed library answers (oracle), the error tree, a
    scenario, and the observations of: errors.Is / errors.As, the two real
    translators, the three real service stacks.  [check] computes
    (i) model = observation for all of them, (ii) the property's predicates on
    the observations, (iii) the guards of C12-F1 / C12-F2 on the input. *)
From HV Require Export Base.Prelude Base.ErrChain C12.Model C12.Proofs.
Local Open Scope Z_scope.

(** ** observations as rendered by the Go driver *)
Inductive omedia := OM (m : option media) | OMOther (s : string).
Inductive ogcode := OG (g : gcode) | OGOther (s : string).
(** [oh_wf]: the body (if any) is well-formed for the Content-Type it was sent with
    (valid JSON / parseable XML / <p>..</p> / anything for text/plain), as judged by the driver *)
Record ohdrs := { oh_loc : option string; oh_www : option string; oh_ct : omedia; oh_wf : bool }.

Inductive ohttp :=
| OHttp (status : Z) (h : ohdrs) (body marker : bool)
| OAbort                         (* a panic reached the caller of the handler *)
| OOther (s : string).

Inductive ogrpc :=
| ODenied (g : ogcode) (status : Z) (h : ohdrs) (body : bool)
| OStatus (g : ogcode)           (* gRPC status error, no CheckResponse *)
| OOk (g : ogcode)
| OGAbort
| OGOtherKind (s : string).

Inductive oscenario := SError | SHandled (m : mechanism) | SPanic (err_value : bool).

Record case := {
  k_cfg : cfg; k_or : oracle; k_err : err; k_sc : oscenario;
  k_is : list bool; k_as : option (Z * string);
  k_http : ohttp; k_grpc : ogrpc;
  k_dec : ohttp; k_prx : ohttp; k_env : ogrpc;
  k_up : list (string * string);
  k_mk : Z * bool }.   (* a redirect handler creation probe: the code tried, and whether the real constructor accepted it *)   (* what the mechanism handed to ctx.AddHeaderForUpstream (handled scenarios) *)

Definition to_scenario (s : oscenario) (e : err) : scenario :=
  match s with
  | SError => ScError e
  | SHandled m => ScHandled m e
  | SPanic true => ScPanic (Some e)
  | SPanic false => ScPanic None
  end.

(** ** correspondence *)
Definition hdrs_match (m : hdrs) (o : ohdrs) : bool :=
  option_eqb String.eqb (h_location m) (oh_loc o) && option_eqb String.eqb (h_www m) (oh_www o) &&
  match oh_ct o with OM x => option_eqb media_eqb (h_ctype m) x | OMOther _ => false end &&
  oh_wf o.

Definition gcode_match (m : gcode) (o : ogcode) : bool :=
  match o with OG g => gcode_eqb m g | OGOther _ => false end.

Definition hresp_match (m : hresp) (o : ohttp) : bool :=
  match m, o with
  | HResp s h b, OHttp s' h' b' _ => (s =? s') && hdrs_match h h' && Bool.eqb b b'
  | HPanic _, OAbort => true
  | _, _ => false
  end.

Definition gdenied_match (d : gdenied) (o : ogrpc) : bool :=
  match o with
  | ODenied g s h b => gcode_match (g_code d) g && (g_status d =? s) && hdrs_match (g_hdrs d) h && Bool.eqb (g_body d) b
  | _ => false
  end.

Definition ghandle_match (m : option gdenied) (o : ogrpc) : bool :=
  match m with
  | Some d => gdenied_match d o
  | None => match o with OGAbort => true | _ => false end
  end.

Definition hfinal_match (m : hfinal) (o : ohttp) : bool :=
  match m, o with
  | HFinal s h b, OHttp s' h' b' _ => (s =? s') && hdrs_match h h' && Bool.eqb b b'
  | HAbort, OAbort => true
  | _, _ => false
  end.

Definition gfinal_match (m : gfinal) (o : ogrpc) : bool :=
  match m with
  | GDenied d => gdenied_match d o
  | GStatusErr g => match o with OStatus g' => gcode_match g g' | _ => false end
  | GPositive => match o with OOk _ => true | _ => false end
  end.

Definition targets : list target :=
  [TKind KAuthentication; TKind KAuthorization; TKind KCommunication; TKind KTimeout; TKind KArgument;
   TKind KConfiguration; TKind KInternal; TKind KNoRule; TRedirect; TEval].

Definition as_eqb (a b : option (Z * string)) : bool :=
  option_eqb (fun x y => (fst x =? fst y) && String.eqb (snd x) (snd y)) a b.

Definition pair_eqb (a b : string * string) : bool := String.eqb (fst a) (fst b) && String.eqb (snd a) (snd b).

Definition model_up (s : oscenario) (e : err) : list (string * string) :=
  match s with SHandled m => hd_upstream (mech_exec m e) | _ => [] end.

Definition corr (fixed : bool) (k : case) : bool :=
  let c := k_cfg k in let o := k_or k in let e := k_err k in
  let sc := to_scenario (k_sc k) e in
  list_eqb pair_eqb (model_up (k_sc k) e) (k_up k) &&
  Bool.eqb (match create_redirect (fst (k_mk k)) (Some "x"%string) with Some _ => true | None => false end) (snd (k_mk k)) &&
  match k_sc k with SHandled (MRedirect code to) => redirect_code_ok code | _ => true end &&
  list_eqb Bool.eqb (map (fun t => is_ t e) targets) (k_is k) &&
  as_eqb (as_redirect e) (k_as k) &&
  hresp_match (http_handle c o e no_hdrs) (k_http k) &&
  ghandle_match (grpc_handle c o e) (k_grpc k) &&
  hfinal_match (http_respond_f fixed c o sc) (k_dec k) &&
  hfinal_match (http_respond_f fixed c o sc) (k_prx k) &&
  gfinal_match (grpc_respond_f fixed c o sc) (k_env k).

(** ** the property on the observations *)

Definition overrides_not_success_b (c : cfg) : bool :=
  negb (success_like (ov_authn c)) && negb (success_like (ov_authz c)) && negb (success_like (ov_comm c)) &&
  negb (success_like (ov_precond c)) && negb (success_like (ov_norule c)) && negb (success_like (ov_internal c)).

Definition redirects_not_success_b (e : err) : bool :=
  forallb (fun z => negb (success_like z)) (redirect_codes e).

(** an HTTP answer to failure [e]: the status of its kind (or its override), the
    Location of a redirect, no success status (under the hypotheses), a body
    only if verbose and only in the negotiated content type *)
Definition http_answer_ok (c : cfg) (o : oracle) (e : err) (r : ohttp) : bool :=
  match r with
  | OHttp s h b _ =>
      (s =? spec_status c e) &&
      option_eqb String.eqb (oh_loc h) (spec_location e) &&
      (if overrides_not_success_b c && redirects_not_success_b e then negb (success_like s) else true) &&
      (if b then c_verbose c else true) &&
      match oh_ct h with
      | OM None => negb b
      | OM (Some m) => c_verbose c && b && option_eqb media_eqb (o_neg_http o) (Some m)
      | OMOther _ => false
      end && oh_wf h
  | _ => false
  end.

Definition grpc_answer_ok (c : cfg) (o : oracle) (e : err) (r : ogrpc) : bool :=
  match r with
  | ODenied g s h b =>
      (s =? spec_status c e) && gcode_match (spec_gcode (spec_class e)) g &&
      option_eqb String.eqb (oh_loc h) (spec_location e) &&
      (if overrides_not_success_b c && redirects_not_success_b e then negb (success_like s) else true) &&
      (if b then c_verbose c else true) &&
      match oh_ct h with
      | OM None => negb b
      | OM (Some m) => c_verbose c &&
                       match o_neg_grpc o with Some m' => media_eqb m m' | None => media_eqb m Html end
      | OMOther _ => false
      end && oh_wf h
  | _ => false
  end.

(** "identically by the HTTP services and the Envoy gRPC service" *)
Definition same_answer (h : ohttp) (g : ogrpc) : bool :=
  match h, g with
  | OHttp s hh _ _, ODenied _ s' gh _ => (s =? s') && option_eqb String.eqb (oh_loc hh) (oh_loc gh)
  | _, _ => false
  end.

(** the failure a client is to be told about after an error handler ran (spec level) *)
Definition told (m : mechanism) (cause : err) : err :=
  match m with
  | MDefault => cause
  | MRedirect code (Some url) => Redirect (redirect_status code) url
  | MRedirect _ None => Sentinel KInternal
  | MWWW _ => Sentinel KAuthentication
  end.

Definition demanded_headers_b (m : mechanism) (h : ohdrs) : bool :=
  match m with
  | MWWW realm => option_eqb String.eqb (oh_www h) (Some ("Basic realm=" ++ effective_realm realm)%string)
  | MRedirect _ (Some url) => option_eqb String.eqb (oh_loc h) (Some url)
  | _ => true
  end.

Definition ohttp_hdrs_ok (f : ohdrs -> bool) (r : ohttp) : bool :=
  match r with OHttp _ h _ _ => f h | _ => false end.
Definition ogrpc_hdrs_ok (f : ohdrs -> bool) (r : ogrpc) : bool :=
  match r with ODenied _ _ h _ => f h | _ => false end.

Definition prop (k : case) : bool :=
  let c := k_cfg k in let o := k_or k in let e := k_err k in
  (* the translators on the error value itself *)
  http_answer_ok c o e (k_http k) && grpc_answer_ok c o e (k_grpc k) && same_answer (k_http k) (k_grpc k) &&
  (* a redirect handler the real constructor accepts never answers with a success status *)
  (if snd (k_mk k) then negb (success_like (redirect_status (fst (k_mk k)))) else true) &&
  (* through the three entry points *)
  match k_sc k with
  | SError =>
      http_answer_ok c o e (k_dec k) && http_answer_ok c o e (k_prx k) && grpc_answer_ok c o e (k_env k)
  | SHandled m =>
      let e' := told m e in
      http_answer_ok c o e' (k_dec k) && http_answer_ok c o e' (k_prx k) && grpc_answer_ok c o e' (k_env k) &&
      ohttp_hdrs_ok (demanded_headers_b m) (k_dec k) && ohttp_hdrs_ok (demanded_headers_b m) (k_prx k) &&
      ogrpc_hdrs_ok (demanded_headers_b m) (k_env k) &&
      (* the challenge the www_authenticate handler produced names the configured realm *)
      match m with
      | MWWW realm => list_eqb pair_eqb (k_up k) [("WWW-Authenticate"%string, ("Basic realm=" ++ effective_realm realm)%string)]
      | _ => is_nil (k_up k)
      end
  | SPanic b =>
      let e' := recovered (if b then Some e else None) in
      http_answer_ok c o e' (k_dec k) && http_answer_ok c o e' (k_prx k) &&
      match k_env k with OStatus (OG GInternal) => true | _ => false end
  end.

(** ** guards of the recorded findings on the input *)
Definition g_F1 (k : case) : bool :=
  match k_sc k with SHandled m => guard_F1 m | _ => false end.

Definition g_F2 (k : case) : bool :=
  let c := k_cfg k in let e := k_err k in
  guard_F2 c e ||
  match k_sc k with
  | SError => false
  | SHandled m => guard_F2 c (told m e)
  | SPanic b => guard_F2 c (recovered (if b then Some e else None))
  end.

(** [impl_fixed]: which variant the implementation is expected to be with respect
    to finding C12-F1 (true once fixes/C12-F1.diff is applied as a fix: commit) *)
Definition check (impl_fixed : bool) (k : case) : verdict :=
  {| v_corr := corr impl_fixed k; v_prop := prop k;
     v_guards := guards [(1, g_F1 k && negb impl_fixed); (2, g_F2 k)] |}.

(* constructors with short names for the generated case files *)
Definition mkcfg v a z m p n i :=
  {| c_verbose := v; ov_authn := a; ov_authz := z; ov_comm := m; ov_precond := p; ov_norule := n; ov_internal := i |}.
Definition mkor h g j x p := {| o_neg_http := h; o_neg_grpc := g; o_json_ne := j; o_xml_ne := x; o_plain_ne := p |}.
Definition hd l w c f := {| oh_loc := l; oh_www := w; oh_ct := c; oh_wf := f |}.
Definition mkcase c o e s i a h g d p v u m :=
  {| k_cfg := c; k_or := o; k_err := e; k_sc := s; k_is := i; k_as := a; k_http := h; k_grpc := g;
     k_dec := d; k_prx := p; k_env := v; k_up := u; k_mk := m |}.
