(** Evaluator of the C12 correspondence stream.  A case carries the respond
    configuration and where it came from (struct / configuration file), the observed
    library answers (oracle: the translators' own negotiation on a probe, body
    rendering; what the Accept header admits), the error tree, a scenario (the
    rule's error handler list / a panic / a failure of the proxy's Finalize), and the
    observations of: errors.Is for the six classes of the switch / errors.As, the
    two real translators, the three real service stacks, the challenges handed to
    the request context, a redirect handler creation probe.

    [check] computes
    (i)  [corr]: model output = observation, on the projections the property talks
         about (status, Location, WWW-Authenticate, content type, body presence,
         "details only inside the body", OK / not OK of the gRPC code);
    (ii) [prop]: the specification's predicates ([C12.Spec.seen_ok], [same_reply]) on the
         OBSERVATIONS — no model function is involved;
    (iii) the guards of C12-F1 / C12-F2 / C12-F5 / C12-F4 (repaired: never fires with fx4 = true) on the input.
    [C12.EvalSound.eval_sound]: corr and a sane oracle imply [prop_w (waived fx k)] (the clauses no open
    finding breaks on that input); [eval_sound_unguarded]: with no guard firing they imply [prop]. *)
From HV Require Export Base.Prelude Base.ErrChain C12.Model C12.Inputs C12.Spec C12.Stack C12.Proofs C12.StackProofs.
Local Open Scope Z_scope.

(** ** observations as rendered by the Go driver *)
Inductive oobs :=
| OA (r : reply) (gok : bool)   (* an HTTP response / a DeniedHttpResponse; [gok]: the gRPC status code is OK *)
| OHard                         (* a panic reached the caller / a gRPC status error (not OK) *)
| OPos                          (* a positive answer: OkHttpResponse, or a gRPC status error with code OK *)
| ONotRun                       (* the scenario does not concern this entry point *)
| OWeird (s : string).

Inductive oscenario := SFail (hs : list xhandler) | SPanic (err_value : bool) | SProxy (p : pfail).

Record case := {
  k_cfg : cfg; k_file : bool; k_or : oracle; k_nv : negview; k_err : err; k_sc : oscenario;
  k_is : list bool;               (* errors.Is: authn, authz, timeout||comm, arg, norule, redirect *)
  k_as : option (Z * string);     (* errors.As(&redirectError) *)
  k_http : oobs; k_grpc : oobs;   (* the two translators on the error value itself *)
  k_dec : oobs; k_prx : oobs; k_env : oobs;
  k_up : list string;             (* values handed to ctx.AddHeaderForUpstream("WWW-Authenticate", _) *)
  k_mk : Z * bool }.              (* redirect handler creation probe: code tried, accepted by the real constructor? *)

Definition to_x (s : oscenario) (e : err) : xscenario :=
  match s with
  | SFail hs => XFail hs e
  | SPanic true => XPanic (Some e)
  | SPanic false => XPanic None
  | SProxy p => XProxy p
  end.

Definition seen_of (o : oobs) : seen :=
  match o with
  | OA r gok => if gok then SSuccess else SReply r
  | OHard => SNoResponse
  | _ => SSuccess
  end.

(** ** correspondence *)
Definition ctype_eqb (a b : ctype) : bool :=
  match a, b with
  | CtNone, CtNone => true
  | CtKnown x, CtKnown y => media_eqb x y
  | CtOther x, CtOther y => String.eqb x y
  | _, _ => false
  end.

(** model reply [m] against observed reply [o]: the model's [r_details] is its [r_body]
    (a body is where the details are), so "details seen => the model sends a body" *)
Definition reply_match (m o : reply) : bool :=
  (r_status m =? r_status o) && option_eqb String.eqb (r_loc m) (r_loc o) &&
  option_eqb String.eqb (r_www m) (r_www o) && ctype_eqb (r_ct m) (r_ct o) &&
  Bool.eqb (r_body m) (r_body o) && implb (r_details o) (r_body m) && implb (r_details o) (r_wf o).

Definition seen_match (m : seen) (o : oobs) : bool :=
  match m, o with
  | SReply a, OA b false => reply_match a b
  | SNoResponse, OHard => true
  | SSuccess, ONotRun => true     (* the model answers positively only where the entry point is not concerned *)
  | _, _ => false
  end.

Definition classes6 (e : err) : list bool :=
  [is_ (TKind KAuthentication) e; is_ (TKind KAuthorization) e;
   is_ (TKind KTimeout) e || is_ (TKind KCommunication) e;
   is_ (TKind KArgument) e; is_ (TKind KNoRule) e; is_ TRedirect e].

Definition as_eqb (a b : option (Z * string)) : bool :=
  option_eqb (fun x y => (fst x =? fst y) && String.eqb (snd x) (snd y)) a b.

(** a redirect handler the real constructor accepts answers with a valid status that is not a success status *)
Definition mk_ok (p : Z * bool) : bool :=
  implb (snd p) (valid_code (redirect_status (fst p)) && negb (success_like (redirect_status (fst p)))).

Definition corr (fx : fixes) (k : case) : bool :=
  let c := loaded fx (k_file k) (k_cfg k) in let o := k_or k in let e := k_err k in
  let sc := to_x (k_sc k) e in
  list_eqb Bool.eqb (classes6 e) (k_is k) &&
  as_eqb (as_redirect e) (k_as k) &&
  mk_ok (k_mk k) &&
  list_eqb String.eqb (x_challenges sc) (k_up k) &&
  seen_match (seen_of_hresp (http_handle c o e no_hdrs)) (k_http k) &&
  seen_match (seen_of_ghandle (grpc_handle c o e)) (k_grpc k) &&
  seen_match (seen_of_hfinal (entry_http fx false (k_file k) (k_cfg k) o sc)) (k_dec k) &&
  seen_match (seen_of_hfinal (entry_http fx true (k_file k) (k_cfg k) o sc)) (k_prx k) &&
  seen_match (seen_of_gfinal (entry_grpc fx (k_file k) (k_cfg k) o sc)) (k_env k).

(** ** the property on the observations (specification only) *)

Definition redirects_not_success_b (e : err) : bool :=
  forallb (fun z => negb (success_like z)) (redirect_codes e).

Definition obs_ok (w : waiver) (c : cfg) (nv : negview) (hyp : bool) (d : demand) (o : oobs) : bool :=
  match o with
  | ONotRun => true
  | OWeird _ => false
  | _ => seen_ok_w w c nv hyp d (seen_of o)
  end.

Definition prop_w (w : waiver) (k : case) : bool :=
  let c := k_cfg k in let nv := k_nv k in let e := k_err k in
  let sc := to_x (k_sc k) e in
  (* the translators negotiate a type the Accept header admits *)
  oracle_ok nv (k_or k) &&
  (* the translators on the error value itself *)
  (let dT := {| d_classes := [spec_class e]; d_realm := None; d_hard := false |} in
   let hypT := ov_not_success_b c && redirects_not_success_b e in
   obs_ok w c nv hypT dT (k_http k) && obs_ok w c nv hypT dT (k_grpc k) &&
   (w_status w || same_reply (seen_of (k_http k)) (seen_of (k_grpc k)))) &&
  mk_ok (k_mk k) &&
  (* through the three entry points *)
  (let d := demand_of sc in let hyp := hyp_never_success c sc in
   obs_ok w c nv hyp d (k_dec k) && obs_ok w c nv hyp d (k_prx k) && obs_ok w c nv hyp d (k_env k) &&
   (w_status w ||
    same_reply (seen_of (k_dec k)) (seen_of (k_env k)) && same_reply (seen_of (k_prx k)) (seen_of (k_env k)) &&
    same_reply (seen_of (k_dec k)) (seen_of (k_prx k))) &&
   (* the challenge a www_authenticate handler produces names the configured realm *)
   match d_realm d with Some r => existsb (contains r) (k_up k) | None => true end).

Definition prop (k : case) : bool := prop_w no_waiver k.

(** ** guards of the recorded findings on the input *)
Definition g_F1 (fx : fixes) (k : case) : bool := xguard_F1 fx (to_x (k_sc k) (k_err k)).

Definition g_F2 (fx : fixes) (k : case) : bool :=
  let c := loaded fx (k_file k) (k_cfg k) in
  guard_F2 c (k_err k) || xguard_F2 c (to_x (k_sc k) (k_err k)).

(** the two halves of [g_F2], reported as separate findings: an override that is no status
    (C12-F2) / a hand-built redirect error value whose code is no status (C12-F5) *)
Definition g_F2o (fx : fixes) (k : case) : bool :=
  let c := loaded fx (k_file k) (k_cfg k) in
  guard_F2o_class c (spec_class (k_err k)) ||
  existsb (guard_F2o_class c) (d_classes (demand_of (to_x (k_sc k) (k_err k)))).

Definition g_F5 (k : case) : bool :=
  guard_F5_class (spec_class (k_err k)) ||
  existsb guard_F5_class (d_classes (demand_of (to_x (k_sc k) (k_err k)))).

Definition g_F4 (fx : fixes) (k : case) : bool :=
  xguard_F4 fx (k_file k) (k_cfg k) [spec_class (k_err k)] ||
  xguard_F4 fx (k_file k) (k_cfg k) (d_classes (demand_of (to_x (k_sc k) (k_err k)))).

(** [fx]: which repairs the implementation under test is expected to contain *)
(** the clauses the open findings whose guards fire are known to break on this input *)
Definition waived (fx : fixes) (k : case) : waiver :=
  {| w_status := g_F2 fx k || g_F4 fx k; w_www := g_F1 fx k |}.

(** [v_prop] is the full property predicate on the observations.  Only when the implementation
    deviates from the model ON AN INPUT OF AN OPEN FINDING (where the full predicate is false
    because of the recorded defect and so carries no signal) the remaining clauses decide: a change
    that breaks none of them ends as "correspondence differs, property holds" (search, DESIGN 4
    row 6), one that breaks another clause as a VIOLATION with this input.  When the
    correspondence holds, [v_prop] is the full predicate (so the finding is reported as KNOWN). *)
Definition check (fx : fixes) (k : case) : verdict :=
  let co := corr fx k in
  let any := g_F1 fx k || g_F2 fx k || g_F4 fx k in
  {| v_corr := co;
     v_prop := prop k || (negb co && any && prop_w (waived fx k) k);
     v_guards := guards [(1, g_F1 fx k); (2, g_F2o fx k); (5, g_F5 k); (4, g_F4 fx k)] |}.

(* constructors with short names for the generated case files *)
Definition mkfx a b := {| fx1 := a; fx4 := b |}.
Definition mkcfg v a z m p n i :=
  {| c_verbose := v; ov_authn := a; ov_authz := z; ov_comm := m; ov_precond := p; ov_norule := n; ov_internal := i |}.
Definition mkor h g j x p := {| o_neg_http := h; o_neg_grpc := g; o_json_ne := j; o_xml_ne := x; o_plain_ne := p |}.
Definition mknv f a o := {| nv_free := f; nv_allowed := a; nv_other := o |}.
Definition xh a m w := {| x_applies := a; x_mech := m; x_conf := w |}.
Definition mkr s l w c b d f :=
  {| r_status := s; r_loc := l; r_www := w; r_ct := c; r_body := b; r_details := d; r_wf := f |}.
Definition mkcase c f o nv e s i a h g d p v u m :=
  {| k_cfg := c; k_file := f; k_or := o; k_nv := nv; k_err := e; k_sc := s; k_is := i; k_as := a; k_http := h; k_grpc := g;
     k_dec := d; k_prx := p; k_env := v; k_up := u; k_mk := m |}.
