(** Evaluator of the C03 correspondence stream.  A case is a rule set (created by
    the real CreateRule, loaded into the real repository), the observed answers of
    the glob / regex engines, and a list of requests each with the observed
    matcher calls (route id, keys, values, answer), the selected rule and the
    captures after Execute.

    v_corr : the model predicts what the statement talks about: rule set accepted / rejected, and per
             request the selected rule (or none / panic), the captures, the encoded-slash rejection and the
             sequence of (route, answer) of the matcher calls.  Keys and values handed to the matchers are
             NOT compared (they are the subject of the theorems and show in the answers and captures).
    v_prop : built from the specification alone, on the implementation's observation — every matcher answer
             equals the specification's answer for that route and request, no panic, and the captures /
             encoded-slash rejection of the selected route are the specified ones; additionally every
             (pattern, value) pair the specification needs must be in the recorded engine table (a miss fails).
    v_guards : none — no finding is open.

    Cases with a HISTORY ([c_hist], constructor [csh]): the repository was brought into its state by
    AddRuleSet / UpdateRuleSet / DeleteRuleSet calls.  The model of the index is then C03/ReachHist.v
    [hrun] — the shared compressed tree (Radix/Tree.v Add, C06/TreeDel.v Delete) driven as
    repository_impl.go drives it — read as a C03 tree by [conv]; v_corr additionally compares which
    operations were accepted.  For cases without a history the same model is run NEXT TO C03's own
    transcription of Add ([load2]) and must give the same answers, request by request ([models_agree]). *)
From HV Require Export Base.Prelude C03.Model C03.Spec C03.ReachHist.
From HV Require Import C03.Proofs C03.ProofsTree C03.ReachConv.
Open Scope string_scope.
Open Scope list_scope.

Inductive loadobs := OCreateFailed | OAddFailed | OLoaded.

(** [ro_fresh]: the same request served by an instance of the rule set built anew (no request before) *)
Record reqobs := { ro_req : request; ro_calls : list call; ro_out : outcome;
                   ro_fresh : option (list call * outcome) }.

Record oentry := { oe_host : bool; oe_type : mtype; oe_pat : string; oe_val : string; oe_ans : bool }.

Record case := {
  c_rules : list ruledef; c_split : nat; c_oracle : list oentry; c_load : loadobs; c_reqs : list reqobs;
  (* the history: rule set / id / hash class per rule, and the operations with what the repository answered *)
  c_hist : option (list rmeta * list (hop * bool)) }.

(** the engines as observed on this case's (pattern, value) pairs *)
Definition eng_of (tbl : list oentry) : engine :=
  fun h t p v =>
    existsb (fun e => Bool.eqb (oe_host e) h && mtype_eqb (oe_type e) t &&
                      String.eqb (oe_pat e) p && String.eqb (oe_val e) v && oe_ans e) tbl.

(** is the engine's answer on this (pattern, value) pair recorded? *)
Definition oracle_has (tbl : list oentry) (h : bool) (t : mtype) (p v : string) : bool :=
  existsb (fun e => Bool.eqb (oe_host e) h && mtype_eqb (oe_type e) t &&
                    String.eqb (oe_pat e) p && String.eqb (oe_val e) v) tbl.
Definition tm_known (tbl : list oentry) (for_host : bool) (d : tmdef) (v : string) : bool :=
  match tm_type d with
  | TGlob | TRegex => oracle_has tbl for_host (tm_type d) (tm_value d) v
  | _ => true
  end.

(** everything the specification asks the engines about this call is in the table *)
Definition call_known (otbl : list oentry) (tbl : list sroute) (q : request) (k : call) : bool :=
  match nth_error tbl (k_vid k) with
  | None => true
  | Some s =>
    match sr_segs s q with
    | None => true
    | Some segs =>
      forallb (fun h => tm_known otbl true h (q_host q)) (rl_hosts (sr_def s)) &&
      forallb (fun p => match assoc_first (pp_name p) (declared_names (sr_tokens s)) segs with
                        | Some v => match spec_decode (keep_slash_of (rl_slash (sr_def s))) v with
                                    | Some d => tm_known otbl false (pp_tm p) d
                                    | None => true
                                    end
                        | None => true
                        end) (rt_params (sr_route s))
    end
  end.

(** property on one observed matcher call *)
Definition call_ok (eng : engine) (tbl : list sroute) (q : request) (k : call) : bool :=
  match nth_error tbl (k_vid k) with
  | None => false
  | Some s =>
    match sr_segs s q with
    | None => true          (* which routes are consulted is C02's business *)
    | Some segs =>
      (* no requirement when a path_params condition refers to a segment that is not validly
         percent-encoded (only the Envoy entry point lets such a path through) *)
      existsb (fun p => match assoc_first (pp_name p) (declared_names (sr_tokens s)) segs with
                        | Some v => negb (valid_encb v) | None => false end) (rt_params (sr_route s))
      || mres_eqb (k_res k) (spec_answer eng s q segs)
    end
  end.

Definition matched_vid (cs : list call) : option nat :=
  match rev cs with
  | k :: _ => match k_res k with MYes => Some (k_vid k) | _ => None end
  | [] => None
  end.

(** property on the observed outcome *)
Definition outcome_ok (tbl : list sroute) (q : request) (cs : list call) (o : outcome) : bool :=
  match o with
  | OPanic => false
  | ONone => true
  | ORule r caps rej =>
    match matched_vid cs with
    | None => false
    | Some v =>
      match nth_error tbl v with
      | None => false
      | Some s =>
        Nat.eqb (sr_rule s) r &&
        match sr_segs s q with
        | None => false
        | Some segs =>
          let sl := rl_slash (sr_def s) in
          Bool.eqb rej (spec_rejected sl q) &&
          (rej || match spec_captures sl (declared_names (sr_tokens s)) segs with
                  | None => true
                  | Some sc => caps_eqb caps sc
                  end)
        end
      end
    end
  end.

(** the part of a call trace the statement talks about *)
Definition call_proj (k : call) : nat * mres := (k_vid k, k_res k).
Definition proj_eqb (a b : nat * mres) : bool := Nat.eqb (fst a) (fst b) && mres_eqb (snd a) (snd b).

(** history independence: whether a route matches and what is exposed is a function of the rule set and
    of THIS request; the instance that has served other requests before answers like a new one *)
Definition hist_ok (o : reqobs) : bool :=
  match ro_fresh o with
  | None => true
  | Some (fcalls, fout) =>
    outcome_eqb (ro_out o) fout && list_eqb proj_eqb (map call_proj (ro_calls o)) (map call_proj fcalls)
  end.

(** A view without RawPath is produced by no entry point (they always set it); its Path is the already decoded
    path, for which "the percent-decoded raw segment" is not defined by the statement: for such a view only
    "no panic" and history independence are required (and the model's correspondence). *)
Definition req_prop (otbl : list oentry) (eng : engine) (tbl : list sroute) (o : reqobs) : bool :=
  hist_ok o &&
  if String.eqb (q_rawpath (ro_req o)) "" then negb (outcome_eqb (ro_out o) OPanic) else
  forallb (call_known otbl tbl (ro_req o)) (ro_calls o) &&
  forallb (call_ok eng tbl (ro_req o)) (ro_calls o) && outcome_ok tbl (ro_req o) (ro_calls o) (ro_out o).

(** accepted or rejected; at which stage a rule set is rejected is not part of the statement *)
Definition rejected_obs (a : loadobs) : bool := match a with OLoaded => false | _ => true end.

(** the history a case without one stands for: AddRuleSet of the first [k] rules (rule set 0), then
    AddRuleSet of the others (rule set 1) *)
Definition split_metas (k n : nat) : list rmeta :=
  map (fun i => {| rm_src := if Nat.ltb i k then 0 else 1; rm_id := i; rm_hash := i |}) (seq 0 n).
Definition split_hops (k n : nat) : list hop :=
  if Nat.leb n k then [HAdd (seq 0 n)] else [HAdd (seq 0 k); HAdd (seq k (n - k))].

(** the shared-tree model and C03's own transcription of Add answer alike on this case
    (only for the tree as it is now: the shared tree has the repairs of C03-F3 built in) *)
Definition models_agree (fx1 fx2 fx3 fx5 fx6 : bool) (fx7 : dec) (eng : engine) (c : case)
           (es : list centry) (t : tree) : bool :=
  if negb fx3 then true else
  let n := length (c_rules c) in
  let '(st, oks) := hrun es (split_metas (c_split c) n) (split_hops (c_split c) n) in
  let t2 := conv (h_tree st) in
  match oks with
  | true :: _ =>
    forallb (fun o =>
      let '(o1, c1) := serve fx1 fx2 fx5 fx6 fx7 eng es t (ro_req o) in
      let '(o2, c2) := serve fx1 fx2 fx5 fx6 fx7 eng es t2 (ro_req o) in
      outcome_eqb o1 o2 && calls_eqb c1 c2) (c_reqs c)
  | _ => false
  end.

Definition check (fx1 fx2 fx3 fx4 fx5 fx6 : bool) (fx7 : dec) (c : case) : verdict :=
  let eng := eng_of (c_oracle c) in
  let tbl := flat_routes 0 (c_rules c) in
  (* the property on whatever the implementation served, also when the model refuses the rule set *)
  let obs_prop := forallb (req_prop (c_oracle c) eng tbl) (c_reqs c) in
  let corr_on es t := forallb (fun o =>
                  let '(mout, mcalls) := serve fx1 fx2 fx5 fx6 fx7 eng es t (ro_req o) in
                  outcome_eqb mout (ro_out o) &&
                  list_eqb proj_eqb (map call_proj mcalls) (map call_proj (ro_calls o))) (c_reqs c) in
  match c_hist c with
  | Some (metas, hops) =>
    match create_rules fx4 (c_rules c) with
    | Rejected => {| v_corr := rejected_obs (c_load c); v_prop := obs_prop; v_guards := [] |}
    | Ok crs =>
      let es := entries_of 0 crs in
      let '(st, oks) := hrun es metas (map fst hops) in
      {| v_corr := negb (rejected_obs (c_load c)) && list_eqb Bool.eqb oks (map snd hops) &&
                   corr_on es (conv (h_tree st));
         v_prop := obs_prop; v_guards := [] |}
    end
  | None =>
  match load2 fx3 fx4 (c_split c) (c_rules c) with
  | Loaded es t =>
    {| v_corr := negb (rejected_obs (c_load c)) && corr_on es t && models_agree fx1 fx2 fx3 fx5 fx6 fx7 eng c es t;
       v_prop := obs_prop; v_guards := [] |}
  | ModelFuel => {| v_corr := false; v_prop := obs_prop; v_guards := [] |}
  | _ => {| v_corr := rejected_obs (c_load c); v_prop := obs_prop; v_guards := [] |}
  end
  end.

(* ---- short constructors for the generated case files *)
Definition tmd t v c := {| tm_type := t; tm_value := v; tm_compiles := c |}.
Definition pm n t := {| pp_name := n; pp_tm := t |}.
Definition rte p ps := {| rt_path := p; rt_params := ps |}.
Definition rul s m h r sl b :=
  {| rl_scheme := s; rl_methods := m; rl_hosts := h; rl_routes := r; rl_slash := sl; rl_bt := b |}.
Definition rq m s h p rp := {| q_method := m; q_scheme := s; q_host := h; q_path := p; q_rawpath := rp |}.
Definition cl v k vs r := {| k_vid := v; k_keys := k; k_vals := vs; k_res := r |}.
Definition ro q cs o f := {| ro_req := q; ro_calls := cs; ro_out := o; ro_fresh := f |}.
Definition oe h t p v a := {| oe_host := h; oe_type := t; oe_pat := p; oe_val := v; oe_ans := a |}.
Definition cs r k o l q := {| c_rules := r; c_split := k; c_oracle := o; c_load := l; c_reqs := q; c_hist := None |}.
Definition csh r ms hs o l q :=
  {| c_rules := r; c_split := 0; c_oracle := o; c_load := l; c_reqs := q; c_hist := Some (ms, hs) |}.
Definition rmt s i h := {| rm_src := s; rm_id := i; rm_hash := h |}.
