(** Evaluator of the C03 correspondence stream.  A case is a rule set (created by
    the real CreateRule, loaded into the real repository), the observed answers of
    the glob / regex engines, and a list of requests each with the observed
    matcher calls (route id, keys, values, answer), the selected rule and the
    captures after Execute.

    v_corr : the model predicts exactly the observation.
    v_prop : on the implementation's observation — every matcher answer equals the
             specification's answer for that route and request, no panic, and the
             captures / encoded-slash rejection of the selected route are the specified ones.
    v_guards : finding guards (computed from the input and the model's own trace)
             explaining the failing requests; empty if some failing request is unexplained. *)
From HV Require Export Base.Prelude C03.Model C03.Spec.
From HV Require Import C03.Proofs C03.ProofsTree.   (* the finding guards are the ones of the theorems *)
Open Scope string_scope.
Open Scope list_scope.

Inductive loadobs := OCreateFailed | OAddFailed | OLoaded.

Record reqobs := { ro_req : request; ro_calls : list call; ro_out : outcome }.

Record oentry := { oe_host : bool; oe_type : mtype; oe_pat : string; oe_val : string; oe_ans : bool }.

Record case := {
  c_rules : list ruledef; c_oracle : list oentry; c_load : loadobs; c_reqs : list reqobs }.

(** the engines as observed on this case's (pattern, value) pairs *)
Definition eng_of (tbl : list oentry) : engine :=
  fun h t p v =>
    existsb (fun e => Bool.eqb (oe_host e) h && mtype_eqb (oe_type e) t &&
                      String.eqb (oe_pat e) p && String.eqb (oe_val e) v && oe_ans e) tbl.

(** property on one observed matcher call *)
Definition call_ok (eng : engine) (tbl : list sroute) (q : request) (k : call) : bool :=
  match nth_error tbl (k_vid k) with
  | None => false
  | Some s =>
    match sr_segs s q with
    | None => true          (* which routes are consulted is C02's business *)
    | Some segs =>
      (* no requirement when a path_params condition refers to a segment that is not validly
         percent-encoded (only the Envoy entry point lets such a path through) *)
      existsb (fun p => match assoc_first (pp_name p) (declared_names (sr_tokens s)) segs with
                        | Some v => negb (valid_encb v) | None => false end) (rt_params (sr_route s))
      || mres_eqb (k_res k) (spec_answer eng s q segs)
    end
  end.

Definition matched_vid (cs : list call) : option nat :=
  match rev cs with
  | k :: _ => match k_res k with MYes => Some (k_vid k) | _ => None end
  | [] => None
  end.

(** property on the observed outcome *)
Definition outcome_ok (tbl : list sroute) (q : request) (cs : list call) (o : outcome) : bool :=
  match o with
  | OPanic => false
  | ONone => true
  | ORule r caps rej =>
    match matched_vid cs with
    | None => false
    | Some v =>
      match nth_error tbl v with
      | None => false
      | Some s =>
        Nat.eqb (sr_rule s) r &&
        match sr_segs s q with
        | None => false
        | Some segs =>
          let sl := rl_slash (sr_def s) in
          Bool.eqb rej (spec_rejected sl q) &&
          (rej || match spec_captures sl (declared_names (sr_tokens s)) segs with
                  | None => true
                  | Some sc => caps_eqb caps sc
                  end)
        end
      end
    end
  end.

Definition req_prop (eng : engine) (tbl : list sroute) (o : reqobs) : bool :=
  forallb (call_ok eng tbl (ro_req o)) (ro_calls o) && outcome_ok tbl (ro_req o) (ro_calls o) (ro_out o).

(* ---- finding guards, per request: the guards of the theorems (C03/Proofs.v, C03/ProofsTree.v),
        evaluated on the input and on the routes the model's own trace consults *)

Definition g_call (fx1 fx2 fx4 fx6 : bool) (fx7 : dec) (eng : engine) (tbl : list sroute) (q : request) (k : call) : list Z :=
  match nth_error tbl (k_vid k) with
  | None => []
  | Some s =>
    let d := sr_def s in
    let ps := rt_params (sr_route s) in
    let names := declared_names (sr_tokens s) in
    match sr_segs s q with
    | None => []
    | Some segs =>
      guards [
        (1%Z, guard_F1 fx1 eng (rl_hosts d) q);
        (2%Z, negb fx2 && guard_F2_params s);
        (3%Z, guard_F3 tbl s && negb (is_nil ps));   (* the renamed keys reach the path_params of the route *)
        (4%Z, guard_F4 fx4 (rl_methods d));
        (6%Z, on_params (guard_F6 fx6) (rl_slash d) q names segs ps);
        (7%Z, on_params (guard_F7 fx7) (rl_slash d) q names segs ps);
        (8%Z, on_params (guard_F8 fx7) (rl_slash d) q names segs ps)
      ]
    end
  end.

Definition g_req (fx1 fx2 fx4 fx5 fx6 : bool) (fx7 : dec) (eng : engine) (es : list centry) (t : tree) (tbl : list sroute) (q : request)
           (mcalls : list call) (mout : outcome) : list Z :=
  concat (map (g_call fx1 fx2 fx4 fx6 fx7 eng tbl q) mcalls) ++
  guards [ (5%Z, negb fx5 && guard_F5 fx1 fx2 fx6 fx7 eng es t q) ] ++
  match mout, matched_vid mcalls with
  | ORule _ _ _, Some v =>
    match nth_error tbl v with
    | Some s =>
      match sr_segs s q with
      | Some segs =>
        let sl := rl_slash (sr_def s) in
        let pairs := named_pairs (declared_names (sr_tokens s)) segs in
        guards [
          (3%Z, guard_F3 tbl s);
          (7%Z, req_guard_F7 fx7 sl q || caps_guard_F7 fx7 sl pairs);
          (8%Z, caps_guard_F8 fx7 sl pairs)
        ]
      | None => []
      end
    | None => []
    end
  | _, _ => []
  end.

Fixpoint zmem (x : Z) (l : list Z) : bool :=
  match l with [] => false | y :: r => Z.eqb x y || zmem x r end.
Fixpoint zdedup (l : list Z) : list Z :=
  match l with [] => [] | x :: r => if zmem x r then zdedup r else x :: zdedup r end.

Definition loadobs_eqb (a b : loadobs) : bool :=
  match a, b with
  | OCreateFailed, OCreateFailed | OAddFailed, OAddFailed | OLoaded, OLoaded => true
  | _, _ => false
  end.

Definition check (fx1 fx2 fx3 fx4 fx5 fx6 : bool) (fx7 : dec) (c : case) : verdict :=
  let eng := eng_of (c_oracle c) in
  let tbl := flat_routes 0 (c_rules c) in
  (* the property on whatever the implementation served, also when the model refuses the rule set *)
  let obs_prop := forallb (req_prop eng tbl) (c_reqs c) in
  match load fx3 fx4 (c_rules c) with
  | CreateFailed => {| v_corr := loadobs_eqb (c_load c) OCreateFailed; v_prop := obs_prop; v_guards := [] |}
  | AddFailed => {| v_corr := loadobs_eqb (c_load c) OAddFailed; v_prop := obs_prop; v_guards := [] |}
  | ModelFuel => {| v_corr := false; v_prop := obs_prop; v_guards := [] |}
  | Loaded es t =>
    let rows := map (fun o =>
                  let '(mout, mcalls) := serve fx1 fx2 fx5 fx6 fx7 eng es t (ro_req o) in
                  let ok := req_prop eng tbl o in
                  (outcome_eqb mout (ro_out o) && list_eqb call_eqb mcalls (ro_calls o),
                   ok,
                   (* guards are only needed (and only computed) for a request whose property fails *)
                   if ok then [] else g_req fx1 fx2 fx4 fx5 fx6 fx7 eng es t tbl (ro_req o) mcalls mout)) (c_reqs c) in
    let failing := filter (fun r => negb (snd (fst r))) rows in
    {| v_corr := loadobs_eqb (c_load c) OLoaded && forallb (fun r => fst (fst r)) rows;
       v_prop := is_nil failing;
       v_guards := if forallb (fun r => negb (is_nil (snd r))) failing
                   then zdedup (concat (map snd failing)) else [] |}
  end.

(* ---- short constructors for the generated case files *)
Definition tmd t v c := {| tm_type := t; tm_value := v; tm_compiles := c |}.
Definition pm n t := {| pp_name := n; pp_tm := t |}.
Definition rte p ps := {| rt_path := p; rt_params := ps |}.
Definition rul s m h r sl b :=
  {| rl_scheme := s; rl_methods := m; rl_hosts := h; rl_routes := r; rl_slash := sl; rl_bt := b |}.
Definition rq m s h p rp := {| q_method := m; q_scheme := s; q_host := h; q_path := p; q_rawpath := rp |}.
Definition cl v k vs r := {| k_vid := v; k_keys := k; k_vals := vs; k_res := r |}.
Definition ro q cs o := {| ro_req := q; ro_calls := cs; ro_out := o |}.
Definition oe h t p v a := {| oe_host := h; oe_type := t; oe_pat := p; oe_val := v; oe_ans := a |}.
Definition cs r o l q := {| c_rules := r; c_oracle := o; c_load := l; c_reqs := q |}.
