(** Evaluator of the C03 correspondence stream.  A case is a rule set (created by
    the real CreateRule, loaded into the real repository), the observed answers of
    the glob / regex engines, and a list of requests each with the observed
    matcher calls (route id, keys, values, answer), the selected rule and the
    captures after Execute.

    v_corr : the model predicts exactly the observation.
    v_prop : on the implementation's observation — every matcher answer equals the
             specification's answer for that route and request, no panic, and the
             captures / encoded-slash rejection of the selected route are the specified ones.
    v_guards : finding guards (computed from the input and the model's own trace)
             explaining the failing requests; empty if some failing request is unexplained. *)
From HV Require Export Base.Prelude C03.Model C03.Spec.
Open Scope string_scope.
Open Scope list_scope.

Inductive loadobs := OCreateFailed | OAddFailed | OLoaded.

Record reqobs := { ro_req : request; ro_calls : list call; ro_out : outcome }.

Record oentry := { oe_host : bool; oe_type : mtype; oe_pat : string; oe_val : string; oe_ans : bool }.

Record case := {
  c_rules : list ruledef; c_oracle : list oentry; c_load : loadobs; c_reqs : list reqobs }.

(** the engines as observed on this case's (pattern, value) pairs *)
Definition eng_of (tbl : list oentry) : engine :=
  fun h t p v =>
    existsb (fun e => Bool.eqb (oe_host e) h && mtype_eqb (oe_type e) t &&
                      String.eqb (oe_pat e) p && String.eqb (oe_val e) v && oe_ans e) tbl.

(** property on one observed matcher call *)
Definition call_ok (eng : engine) (tbl : list sroute) (q : request) (k : call) : bool :=
  match nth_error tbl (k_vid k) with
  | None => false
  | Some s =>
    match sr_segs s q with
    | None => true          (* which routes are consulted is C02's business *)
    | Some segs => mres_eqb (k_res k) (spec_answer eng s q segs)
    end
  end.

Definition matched_vid (cs : list call) : option nat :=
  match rev cs with
  | k :: _ => match k_res k with MYes => Some (k_vid k) | _ => None end
  | [] => None
  end.

(** property on the observed outcome *)
Definition outcome_ok (tbl : list sroute) (q : request) (cs : list call) (o : outcome) : bool :=
  match o with
  | OPanic => false
  | ONone => true
  | ORule r caps rej =>
    match matched_vid cs with
    | None => false
    | Some v =>
      match nth_error tbl v with
      | None => false
      | Some s =>
        Nat.eqb (sr_rule s) r &&
        match sr_segs s q with
        | None => false
        | Some segs =>
          let sl := rl_slash (sr_def s) in
          Bool.eqb rej (spec_rejected sl q) &&
          (rej || match spec_captures sl (declared_names (sr_tokens s)) segs with
                  | None => true
                  | Some sc => caps_eqb caps sc
                  end)
        end
      end
    end
  end.

Definition req_prop (eng : engine) (tbl : list sroute) (o : reqobs) : bool :=
  forallb (call_ok eng tbl (ro_req o)) (ro_calls o) && outcome_ok tbl (ro_req o) (ro_calls o) (ro_out o).

(* ---- finding guards, per request, on the input and the model's own trace *)

Definition shape (ts : list token) : list token :=
  map (fun t => match t with Lit s => Lit s | Wild _ => Wild "" | Free _ => Free "" end) ts.
Definition token_eqb (a b : token) : bool :=
  match a, b with
  | Lit x, Lit y | Wild x, Wild y | Free x, Free y => String.eqb x y
  | _, _ => false
  end.

Definition undecoded (keep : bool) (v : string) : bool :=
  match spec_decode keep v with Some d => negb (String.eqb d v) | None => false end.

Definition g_call (eng : engine) (tbl : list sroute) (q : request) (k : call) : list Z :=
  match nth_error tbl (k_vid k) with
  | None => []
  | Some s =>
    let d := sr_def s in
    let ps := rt_params (sr_route s) in
    let ts := sr_tokens s in
    let hostans := map (fun h => tm_match eng true h (q_host q)) (rl_hosts d) in
    guards [
      (1%Z, (2 <=? length (rl_hosts d))%nat && existsb (fun b => b) hostans && existsb negb hostans);
      (2%Z, ends_in_free ts && negb (is_nil ps));
      (4%Z, negb (is_nil (rl_methods d)) &&
            match create_method_matcher (rl_methods d) with Ok [] => true | _ => false end);
      (5%Z, match sr_segs s q with
            | Some segs => negb (strs_eqb (k_vals k) (if ends_in_free ts then removelast segs else segs))
            | None => false
            end);
      (6%Z, negb (is_nil ps) && (slash_eqb (rl_slash d) SOff || String.eqb (q_rawpath q) "") &&
            match sr_segs s q with
            | Some segs => existsb (undecoded (keep_slash_of (rl_slash d))) segs
            | None => false
            end)
    ]
  end.

Definition g_req (eng : engine) (tbl : list sroute) (q : request) (mcalls : list call) (mout : outcome) : list Z :=
  concat (map (g_call eng tbl q) mcalls) ++
  guards [
    (3%Z, match mout, matched_vid mcalls with
          | ORule _ _ _, Some v =>
            match nth_error tbl v with
            | Some s => ends_in_free (sr_tokens s) &&
                        existsb (fun s' => list_eqb token_eqb (shape (sr_tokens s')) (shape (sr_tokens s)) &&
                                           negb (strs_eqb (declared_names (sr_tokens s')) (declared_names (sr_tokens s)))) tbl
            | None => false
            end
          | _, _ => false
          end);
    (5%Z, match mout with OPanic => true | _ => false end);
    (7%Z, contains "%2f" (lookup_path q));
    (8%Z, contains "$$$escaped-slash" (path_unescape (lookup_path q)))
  ].

Fixpoint zmem (x : Z) (l : list Z) : bool :=
  match l with [] => false | y :: r => Z.eqb x y || zmem x r end.
Fixpoint zdedup (l : list Z) : list Z :=
  match l with [] => [] | x :: r => if zmem x r then zdedup r else x :: zdedup r end.

Definition loadobs_eqb (a b : loadobs) : bool :=
  match a, b with
  | OCreateFailed, OCreateFailed | OAddFailed, OAddFailed | OLoaded, OLoaded => true
  | _, _ => false
  end.

Definition check (fx2 fx5 : bool) (c : case) : verdict :=
  let eng := eng_of (c_oracle c) in
  match load (c_rules c) with
  | CreateFailed => {| v_corr := loadobs_eqb (c_load c) OCreateFailed; v_prop := true; v_guards := [] |}
  | AddFailed => {| v_corr := loadobs_eqb (c_load c) OAddFailed; v_prop := true; v_guards := [] |}
  | ModelFuel => {| v_corr := false; v_prop := true; v_guards := [] |}
  | Loaded es t =>
    let tbl := flat_routes 0 (c_rules c) in
    let rows := map (fun o =>
                  let '(mout, mcalls) := serve fx2 fx5 eng es t (ro_req o) in
                  (outcome_eqb mout (ro_out o) && list_eqb call_eqb mcalls (ro_calls o),
                   req_prop eng tbl o,
                   g_req eng tbl (ro_req o) mcalls mout)) (c_reqs c) in
    let failing := filter (fun r => negb (snd (fst r))) rows in
    {| v_corr := loadobs_eqb (c_load c) OLoaded && forallb (fun r => fst (fst r)) rows;
       v_prop := is_nil failing;
       v_guards := if forallb (fun r => negb (is_nil (snd r))) failing
                   then zdedup (concat (map snd failing)) else [] |}
  end.

(* ---- short constructors for the generated case files *)
Definition tmd t v c := {| tm_type := t; tm_value := v; tm_compiles := c |}.
Definition pm n t := {| pp_name := n; pp_tm := t |}.
Definition rte p ps := {| rt_path := p; rt_params := ps |}.
Definition rul s m h r sl b :=
  {| rl_scheme := s; rl_methods := m; rl_hosts := h; rl_routes := r; rl_slash := sl; rl_bt := b |}.
Definition rq m s h p rp := {| q_method := m; q_scheme := s; q_host := h; q_path := p; q_rawpath := rp |}.
Definition cl v k vs r := {| k_vid := v; k_keys := k; k_vals := vs; k_res := r |}.
Definition ro q cs o := {| ro_req := q; ro_calls := cs; ro_out := o |}.
Definition oe h t p v a := {| oe_host := h; oe_type := t; oe_pat := p; oe_val := v; oe_ans := a |}.
Definition cs r o l q := {| c_rules := r; c_oracle := o; c_load := l; c_reqs := q |}.
