(** Evaluators of the C16 correspondence streams.

    Stream "histories": one case = a finalizer configuration, the initial key-store
    file, a sequence of operations (Execute / replace the file + OnChanged / GET JWKS)
    and what the real finalizer, signer and management handler did.
      v_corr   the model's run equals the observation
      v_prop   [run_prop] (what the property statement fixes, from the specification) holds of
               the observation, and every freshly issued token's iat lies in the driver's
               clock bracket
      guards   1 = C16-F1, 2 = C16-F2, each only when the tree is expected to lack that repair
               (never under [FX true true])

    Stream "skeleton": one case = the lock/field-access skeleton of jwtSigner's methods
    extracted from jwt_signer.go by the driver (go/ast).
      v_corr   the skeleton is well-formed (the hypothesis of C16_consistent_pair)
      v_prop   exhaustive exploration of a small thread set finds no torn observation

    Stream "race" ([check_race]): one case = what concurrent Execute / JWKS calls saw under the
    race detector while a reloader cycled through generations of the key store.
      v_corr = v_prop   every (kid, alg, verifying key) triple and every JWKS kid list is one
               generation's, every token verified in its window, no call failed

    The streams "conc" and "exec-skeleton" are evaluated by Run/Eval_C16Conc.v. *)
From HV Require Export Base.Prelude C16.Model C16.Spec C16.Locks.

Record case := {
  c_cfg : config; c_file : pem_file; c_ops : list op;
  c_times : list (Z * Z);          (* per operation: driver's clock (ns) before / after *)
  c_created : res unit; c_obs : list oobs }.

Definition res_unit_eqb (a b : res unit) : bool :=
  match a, b with Ok _, Ok _ | Err, Err | Panic, Panic => true | _, _ => false end.

Definition oobs_eqb (a b : oobs) : bool :=
  match a, b with
  | XToken t v, XToken t' v' => token_eqb t t' && Bool.eqb v v'
  | XErr, XErr | XPanic, XPanic | XDone, XDone => true
  | XJwks k, XJwks k' => list_eqb jwk_eqb k k'
  | _, _ => false
  end.

(** every token seen for the first time was issued inside the bracket of its operation *)
Fixpoint brackets_ok (seen : list token) (ops : list op) (ts : list (Z * Z)) (obs : list oobs) : bool :=
  match ops, ts, obs with
  | OExec _ _ _ now _ :: ops', (t0, t1) :: ts', XToken t _ :: obs' =>
      (existsb (same_jti t) seen || ((unix t0 <=? unix now)%Z && (unix now <=? unix t1)%Z))
      && brackets_ok (t :: seen) ops' ts' obs'
  | _ :: ops', _ :: ts', _ :: obs' => brackets_ok seen ops' ts' obs'
  | _, _, _ => true
  end.

(** [impl]: which repairs the implementation is expected to have (which variant of the
    model it is compared with).  The property predicate is [run_prop] — what the property
    statement fixes, from the specification — on the implementation's observation, either way. *)
Definition check (impl : fixes) (c : case) : verdict :=
  let '(cr, obs) := run impl (c_cfg c) (c_file c) (c_ops c) in
  {| v_corr := res_unit_eqb cr (c_created c) && list_eqb oobs_eqb obs (c_obs c);
     v_prop := run_prop (c_cfg c) (c_file c) (c_ops c) (c_created c) (c_obs c)
               && brackets_ok [] (c_ops c) (c_times c) (c_obs c);
     v_guards := guards [(1%Z, guard_F1 (c_cfg c) (c_file c) (c_ops c) && negb (fx_F1 impl));
                         (2%Z, guard_F2 (c_cfg c) (c_ops c) && negb (fx_F2 impl))] |}.

(* short constructors for the generated case files *)
Definition K n k s := {| k_id := n; k_kind := k; k_size := s |}.
Definition RE k x g ch cok uok :=
  {| r_key := k; r_xkid := x; r_genkid := g; r_chain := ch; r_chain_ok := cok; r_usage_ok := uok |}.
Definition CF kid name ttl cl cch twin bef aft :=
  {| c_keyid := kid; c_name := name; c_ttl := ttl; c_claims := cl; c_cache := cch; c_twin := twin;
     c_before := bef; c_after := aft |}.
Definition FX a b := {| fx_F1 := a; fx_F2 := b |}.
Definition RQ s o a := {| q_sub := s; q_out := o; q_attr := a |}.
Definition OV ttl cl unk := {| o_ttl := ttl; o_claims := cl; o_unknown := unk |}.
Definition JW kid alg key use certs :=
  {| j_kid := kid; j_alg := alg; j_key := key; j_use := use; j_certs := certs |}.
Definition TK alg kid typ key cl hdr :=
  {| t_alg := alg; t_kid := kid; t_typ := typ; t_key := key; t_claims := cl; t_hdr := hdr |}.
Definition CS cfg f ops ts cr obs :=
  {| c_cfg := cfg; c_file := f; c_ops := ops; c_times := ts; c_created := cr; c_obs := obs |}.

(* ------------------------------------------------------------------ skeleton stream *)

Record skel_case := { k_skel : skeleton }.
Definition SK s := {| k_skel := s |}.

Definition check_skel (c : skel_case) : verdict :=
  {| v_corr := wf_skeleton (k_skel c) && has_roles (k_skel c);
     v_prop := explore_ok (k_skel c);
     v_guards := [] |}.

(* ------------------------------------------------------------------ stress stream (run under the race detector) *)

(** what concurrent Execute / JWKS calls saw while a reloader alternated between
    generations of the key store: every (kid, alg, verifying key) triple of a token must be
    the active triple of one generation, every JWKS answer the kid list of one generation,
    every token must verify against the JWKS fetched just before or just after it (when at
    most one reload overlapped), and no call may fail *)
Record race_case := {
  rc_allowed : list (string * string * nat); rc_sets : list (list string);
  rc_seen : list (string * string * nat); rc_seen_sets : list (list string);
  rc_window_bad : nat; rc_errors : nat }.

Definition triple_eqb (a b : string * string * nat) : bool :=
  String.eqb (fst (fst a)) (fst (fst b)) && String.eqb (snd (fst a)) (snd (fst b)) && Nat.eqb (snd a) (snd b).

Definition race_ok (c : race_case) : bool :=
  forallb (fun x => existsb (triple_eqb x) (rc_allowed c)) (rc_seen c) &&
  forallb (fun x => existsb (list_eqb String.eqb x) (rc_sets c)) (rc_seen_sets c) &&
  Nat.eqb (rc_window_bad c) 0 && Nat.eqb (rc_errors c) 0.

Definition RC a s x y w e :=
  {| rc_allowed := a; rc_sets := s; rc_seen := x; rc_seen_sets := y; rc_window_bad := w; rc_errors := e |}.

Definition check_race (c : race_case) : verdict :=
  {| v_corr := race_ok c; v_prop := race_ok c; v_guards := [] |}.
