(** Evaluator of the C07 stress stream.  A case is one concurrent history of the
    REAL repository (operations with their observed results and logical
    invocation / response stamps), listed in the linearization order the driver's
    search proposes.  The order is not trusted: [check] re-validates it.

    [v_corr]: executing the operations sequentially in the proposed order on the
    sequential repository machine ([repo_apply]) yields exactly the observed
    results.  [v_prop]: additionally the order respects real time (no operation is
    placed before one that had returned before it was invoked), stamps are sane,
    and operations of one thread do not overlap — i.e. the history is linearizable
    w.r.t. the sequential machine, witnessed by this order. *)
From HV Require Export Base.Prelude Base.Locks C07.Model.

Record hoprec := { h_thr : nat; h_op : rop; h_res : rres; h_inv : Z; h_ret : Z }.

Record case := { c_def : bool; c_hist : list hoprec }.

Fixpoint results_ok (def : bool) (s : rstate) (h : list hoprec) : bool :=
  match h with
  | [] => true
  | o :: r => let '(s', res) := repo_apply def s (h_op o) in
              rres_eqb res (h_res o) && results_ok def s' r
  end.

(** every operation is invoked before anything placed later has returned *)
Fixpoint realtime_ok (h : list hoprec) : bool :=
  match h with
  | [] => true
  | o :: r => forallb (fun o' => (h_inv o <? h_ret o')%Z) r && realtime_ok r
  end.

Definition stamps_ok (h : list hoprec) : bool :=
  forallb (fun o => (h_inv o <? h_ret o)%Z) h &&
  forallb (fun a => forallb (fun b =>
    negb (h_thr a =? h_thr b) || (h_inv a =? h_inv b)%Z || (h_ret a <? h_inv b)%Z || (h_ret b <? h_inv a)%Z) h) h.

Definition check (c : case) : verdict :=
  let corr := results_ok (c_def c) rstate0 (c_hist c) in
  {| v_corr := corr;
     v_prop := corr && realtime_ok (c_hist c) && stamps_ok (c_hist c) && negb (is_nil (c_hist c));
     v_guards := [] |}.

(* short constructors for the generated case files *)
Definition rr i s h ps := {| rr_id := i; rr_src := s; rr_hash := h; rr_paths := ps |}.
Definition hop t o r i e := {| h_thr := t; h_op := o; h_res := r; h_inv := i; h_ret := e |}.
Definition mk_case d h := {| c_def := d; c_hist := h |}.
