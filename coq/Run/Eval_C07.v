(** Evaluator of the C07 stress stream.  A case is one concurrent history of the
    REAL repository (operations with their observed results and logical
    invocation / response stamps), listed in the order the driver's search
    proposes, together with the results the SAME operations gave when the driver
    executed them in that order, one after the other, on a fresh real repository.
    Neither the order nor the search is trusted: [check] re-validates.

    [v_prop] — the property, from its statement alone: the history is ATOMIC, i.e.
    every operation returned what it returns in a sequential execution of the
    real code ([c_seq]) in an order that respects real time (no operation is
    placed before one that had returned before it was invoked); stamps are sane,
    operations of one thread do not overlap, and nothing panicked.  No model of
    what add / update / delete / lookup compute is involved.

    [v_corr] — correspondence with the sequential repository machine
    ([repo_apply], literal paths only): for plans with literal paths only, the
    machine run in the proposed order yields the observed results.  A change of
    the repository's sequential behaviour shows here and not in [v_prop]. *)
From HV Require Export Base.Prelude Base.Locks C07.Model.

Record hoprec := { h_thr : nat; h_op : rop; h_res : rres; h_inv : Z; h_ret : Z }.

Record case := { c_def : bool; c_lit : bool; c_hist : list hoprec; c_seq : list rres }.

Fixpoint results_ok (def : bool) (s : rstate) (h : list hoprec) : bool :=
  match h with
  | [] => true
  | o :: r => let '(s', res) := repo_apply def s (h_op o) in
              rres_eqb res (h_res o) && results_ok def s' r
  end.

(** every operation is invoked before anything placed later has returned *)
Fixpoint realtime_ok (h : list hoprec) : bool :=
  match h with
  | [] => true
  | o :: r => forallb (fun o' => (h_inv o <? h_ret o')%Z) r && realtime_ok r
  end.

Definition stamps_ok (h : list hoprec) : bool :=
  forallb (fun o => (h_inv o <? h_ret o)%Z) h &&
  forallb (fun a => forallb (fun b =>
    negb (h_thr a =? h_thr b) || (h_inv a =? h_inv b)%Z || (h_ret a <? h_inv b)%Z || (h_ret b <? h_inv a)%Z) h) h.

Definition no_panic (h : list hoprec) : bool :=
  forallb (fun o => match h_res o with RPanic | RForeign => false | _ => true end) h.

Definition same_as_sequential (h : list hoprec) (seq : list rres) : bool :=
  list_eqb rres_eqb (map h_res h) seq.

Definition check (c : case) : verdict :=
  {| v_corr := negb (c_lit c) || results_ok (c_def c) rstate0 (c_hist c);
     v_prop := same_as_sequential (c_hist c) (c_seq c) && realtime_ok (c_hist c) && stamps_ok (c_hist c) &&
               no_panic (c_hist c) && negb (is_nil (c_hist c));
     v_guards := [] |}.

(* short constructors for the generated case files *)
Definition rr i s h ps := {| rr_id := i; rr_src := s; rr_hash := h; rr_paths := ps |}.
Definition hop t o r i e := {| h_thr := t; h_op := o; h_res := r; h_inv := i; h_ret := e |}.
Definition mk_case d l h s := {| c_def := d; c_lit := l; c_hist := h; c_seq := s |}.
