(** Evaluator of the C09 correspondence stream.  A case is one request served
    by the real decision or proxy handler stack: the configured trusted_proxies
    entries and the peer with the net package's parse results, the connection
    and request line, the header list as parsed by net/http, url.Parse's answer
    on the X-Forwarded-Uri value, and the observation (status, matched rule,
    echoed view, what the upstream received).

    [v_corr]: the model ([serve] with the loader of the tree under test) predicts
    the observation;  [v_prop]: the observation is what the specification
    demands ([listedb] + [spec_view_trusted] / [spec_view_untrusted] /
    [spec_upstream_untrusted]);  guard 1 = C09-F1. *)
From HV Require Export Base.Prelude C09.Model C09.Proofs.
Open Scope string_scope.

Record oview := {
  ov_method : string; ov_scheme : string; ov_host : string; ov_rawpath : string; ov_query : string;
  ov_ips : list string;
  ov_hdrs : list (string * string);   (* the seven names visible through Headers(): name, values joined by "," *)
  ov_ok : bool                        (* Path = PathUnescape(RawPath), Header(n) = Headers()[n], canonical keys only *)
}.

Record oup := { ou_method : string; ou_uri : string; ou_hdrs : list (string * list string) }.

Record obs := { o_status : Z; o_rule : string; o_view : option oview; o_up : option oup }.

Record case := {
  k_proxy : bool;
  k_entries : list entry;
  k_peer : ip;
  k_conn : conn;
  k_hdrs : hdrs;
  k_uri : option (string * string);
  k_obs : obs
}.

(** the rule set of the harness (harness/c09/c09_test.go c09Rules): literal
    paths with one constraint each, backtracking to the catch-all "/**" *)
Definition rule_of (v : view) : option string :=
  let p := v_rawpath v in
  if String.eqb p "/pub/a" && String.eqb (v_method v) "GET" then Some "pub"
  else if String.eqb p "/pst/a" && String.eqb (v_method v) "POST" then Some "pst"
  else if String.eqb p "/sec/a" && String.eqb (v_scheme v) "https" then Some "sec"
  else if String.eqb p "/hst/a" && String.eqb (v_host v) "a.example.com" then Some "hst"
  else if String.eqb p "/any/a" then Some "any"
  else match p with
       | String "/" (String _ _) => Some "other"
       | _ => None
       end.

Definition fwd_visible (h : hdrs) : list (string * string) :=
  flat_map (fun n => if has n h then [(n, join "," (values n h))] else []) untrusted_header.

Definition oview_of (v : view) : oview :=
  {| ov_method := v_method v; ov_scheme := v_scheme v; ov_host := v_host v; ov_rawpath := v_rawpath v;
     ov_query := v_query v; ov_ips := v_ips v; ov_hdrs := fwd_visible (v_hdrs v); ov_ok := true |}.

Definition expected (proxy : bool) (s : served) : obs :=
  match rule_of (s_view s) with
  | None => {| o_status := 404; o_rule := ""; o_view := None; o_up := None |}
  | Some id =>
    {| o_status := 200; o_rule := id; o_view := Some (oview_of (s_view s));
       o_up := if proxy then Some {| ou_method := s_up_method s; ou_uri := s_up_uri s; ou_hdrs := s_up_fwd s |}
               else None |}
  end.

Definition pair_eqb (a b : string * string) : bool := String.eqb (fst a) (fst b) && String.eqb (snd a) (snd b).
Definition pairl_eqb (a b : string * list string) : bool :=
  String.eqb (fst a) (fst b) && list_eqb String.eqb (snd a) (snd b).

Definition oview_eqb (a b : oview) : bool :=
  String.eqb (ov_method a) (ov_method b) && String.eqb (ov_scheme a) (ov_scheme b) &&
  String.eqb (ov_host a) (ov_host b) && String.eqb (ov_rawpath a) (ov_rawpath b) &&
  String.eqb (ov_query a) (ov_query b) && list_eqb String.eqb (ov_ips a) (ov_ips b) &&
  list_eqb pair_eqb (ov_hdrs a) (ov_hdrs b) && Bool.eqb (ov_ok a) (ov_ok b).

Definition oup_eqb (a b : oup) : bool :=
  String.eqb (ou_method a) (ou_method b) && String.eqb (ou_uri a) (ou_uri b) &&
  list_eqb pairl_eqb (ou_hdrs a) (ou_hdrs b).

Definition obs_eqb (a b : obs) : bool :=
  Z.eqb (o_status a) (o_status b) && String.eqb (o_rule a) (o_rule b) &&
  option_eqb oview_eqb (o_view a) (o_view b) && option_eqb oup_eqb (o_up a) (o_up b).

(** url.Parse was asked about exactly one string: the first X-Forwarded-Uri value *)
Definition oracle (c : case) : string -> option (string * string) :=
  fun s => if String.eqb s (get XFU (k_hdrs c)) then k_uri c else None.

(** the specification's answer for the whole request *)
Definition spec_served (parse : string -> option (string * string)) (es : list entry) (peer : ip)
           (c : conn) (h : hdrs) : served :=
  if listedb es peer then
    let v := spec_view_trusted parse c h in
    {| s_view := v; s_up_fwd := upstream_forwarded c h; s_up_method := v_method v; s_up_uri := request_uri v |}
  else
    {| s_view := spec_view_untrusted c h; s_up_fwd := spec_upstream_untrusted c; s_up_method := c_method c;
       s_up_uri := c_escpath c ++ (if nonempty (c_rawquery c) then "?" ++ c_rawquery c else "") |}.

(** the well-formedness the theorems assume of the net package's answers *)
Definition wf_ipb (a : ip) : bool :=
  Nat.eqb (length a) 0 || Nat.eqb (length a) 4 || Nat.eqb (length a) 16.
Definition wf_entryb (e : entry) : bool :=
  match e with
  | EIp a => wf_ipb a
  | ECidrErr => true
  | ECidr a m => (Nat.eqb (length a) 4 && Nat.eqb (length m) 4) || (Nat.eqb (length a) 16 && Nat.eqb (length m) 16)
  end.

(** [impl_fixed]: false for the pinned loader (C09-F1 open), true once fixes/C09-F1.diff is applied *)
Definition check (impl_fixed : bool) (c : case) : verdict :=
  let parse := oracle c in
  {| v_corr := forallb wf_entryb (k_entries c) && wf_ipb (k_peer c) &&
               obs_eqb (expected (k_proxy c) (serve parse impl_fixed (k_entries c) (k_peer c) (k_conn c) (k_hdrs c))) (k_obs c);
     v_prop := obs_eqb (expected (k_proxy c) (spec_served parse (k_entries c) (k_peer c) (k_conn c) (k_hdrs c))) (k_obs c);
     v_guards := guards [(1%Z, guard_F1 (k_entries c) (k_peer c) && negb impl_fixed)] |}.

(* short constructors for the generated case files *)
Definition cn p t m h e q := {| c_peer := p; c_tls := t; c_method := m; c_host := h; c_escpath := e; c_rawquery := q |}.
Definition vw m s h p q i hs ok :=
  {| ov_method := m; ov_scheme := s; ov_host := h; ov_rawpath := p; ov_query := q; ov_ips := i; ov_hdrs := hs; ov_ok := ok |}.
Definition upv m u hs := {| ou_method := m; ou_uri := u; ou_hdrs := hs |}.
Definition ob s r v u := {| o_status := s; o_rule := r; o_view := v; o_up := u |}.
Definition cs p es peer c h u o :=
  {| k_proxy := p; k_entries := es; k_peer := peer; k_conn := c; k_hdrs := h; k_uri := u; k_obs := o |}.
