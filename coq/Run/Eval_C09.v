(** Evaluator of the C09 correspondence stream.  A case is one request served
    by the real decision or proxy handler stack, as the operator and the client
    supplied it: the mode, the two configured trusted_proxies options (strings as
    written to the configuration file), RemoteAddr, the request line, the header
    lines as sent; the answers of the net package, of net/http's parser and of
    url.Parse on exactly the strings of the case; and the observation (status,
    matched rule, echoed view with the complete header map, the forwarding
    headers the upstream received, and the two whole-observation results of the
    driver: sinks in which a piece of a forwarded value surfaced, sinks that
    differ from the same request without the seven headers).

    [v_corr]: the model ([handle] with the loader of the tree under test)
    predicts the projections the property talks about.
    [v_prop]: a predicate written from the specification on the observation
    alone: is the peer listed ([covers_str] over the mode's own option)?  If
    not: the view is the connection and request line, no header named like one
    of the seven is visible, nothing surfaced anywhere, nothing differs from the
    request without them.  If so: every component is its header's value when
    that is present and non-empty, else the actual request; the client list is
    the announced one, as a class.  In both cases the matched rule fits the
    view shown.  guard 1 = C09-F1 (pinned loader only: never raised under
    [check true]; the stream has `findings: {}`). *)
From HV Require Export Base.Prelude C09.Model C09.Proofs C09.Request.
Open Scope string_scope.

Record oview := {
  ov_method : string; ov_scheme : string; ov_host : string; ov_rawpath : string; ov_query : string;
  ov_ips : list string;
  ov_hdrs : list (string * string);   (* the complete Headers() map: key, values joined by "," *)
  ov_probes : list (string * string); (* Header(n) for the seven names (asked in assorted casings), where not empty *)
  ov_ok : bool                        (* Path = PathUnescape(RawPath) and URL.String() is made of the components shown *)
}.

Record oup := { ou_method : string; ou_hdrs : list (string * list string) }.

Record obs := { o_status : Z; o_rule : string; o_view : option oview; o_up : option oup;
                o_leaks : list string; o_pair : list string }.

Record case := {
  k_mode : mode;
  k_cfg : config;
  k_loaded : bool;                                          (* the loaded configuration carries the options as written *)
  k_net : list (string * (ip * option (ip * list N)));      (* net.ParseIP / net.ParseCIDR on each string *)
  k_split : option string;                                  (* net.SplitHostPort (RemoteAddr) *)
  k_req : reqline;
  k_raw : raw_hdrs;
  k_parsed : hdrs;                                          (* net/http's parse of the header lines *)
  k_uri : option (string * string * string);                (* url.Parse of the X-Forwarded-Uri value: EscapedPath(),
                                                               Query().Encode(), RawQuery *)
  k_obs : obs
}.

(* ------------------------------------------------------------------ the oracles of a case *)

Definition o_parse_ip (c : case) : string -> ip := tbl_ip (k_net c).
Definition o_parse_cidr (c : case) : string -> option (ip * list N) := tbl_cidr (k_net c).
Definition o_split (c : case) : string -> option string := one_split (r_remote (k_req c)) (k_split c).
(** url.Parse was asked about exactly one string: the first X-Forwarded-Uri value *)
Definition o_parse_uri3 (c : case) : string -> option (string * string * string) :=
  fun s => match hdr_ci XFU (k_raw c) with
           | Some v => if String.eqb s v then k_uri c else None
           | None => None
           end.
(** extractURL takes the query as sent (RawQuery; before fix: f446e16 it was Query().Encode()); [None] = url.Parse
    refuses the value ([read_uri] then cuts it at the first "?", fix: d3f6cd7) *)
Definition o_parse_uri (c : case) : string -> option (string * string) :=
  fun s => option_map (fun t => (fst (fst t), snd t)) (o_parse_uri3 c s).

(** the well-formedness the theorems assume of the net package's answers ([net_ok], by
    [Request.table_net_ok]), checked on the answers of the case; and every string the model asks about
    has its answer in the case *)
Definition asked (c : case) (s : string) : bool :=
  match assoc s (k_net c) with Some _ => true | None => false end.

Definition oracles_ok (c : case) : bool :=
  forallb net_row_ok (k_net c) && split_answer_ok (k_split c) &&
  forallb (asked c) (configured (k_mode c) (k_cfg c)) &&
  asked c (peer_host (o_split c) (r_remote (k_req c))) && asked c "".

(** ... so the theorems of Properties/C09.v apply to the oracles of every case that passes the check *)
Lemma oracles_ok_net_ok c : oracles_ok c = true -> net_ok (o_parse_ip c) (o_parse_cidr c) (o_split c).
Proof.
  unfold oracles_ok. intro H. repeat (apply andb_true_iff in H as [H ?]).
  apply table_net_ok; assumption.
Qed.

(** the model of net/http's header parsing agrees with net/http on the lines of the case *)
Definition same_values (a b : hdrs) (k : string) : bool := list_eqb String.eqb (values k a) (values k b).
Definition headers_ok (c : case) : bool :=
  let m := parse_headers (k_raw c) in
  forallb (fun kv => same_values m (k_parsed c) (fst kv)) m &&
  forallb (fun kv => same_values m (k_parsed c) (fst kv)) (k_parsed c).

(* ------------------------------------------------------------------ the rule set of the harness *)

(** harness/c09/c09_test.go c09Rules: literal paths with one constraint each, backtracking to the
    catch-all "/**"; "/" has its own rule.  [ci]: compare method, scheme and host without regard to
    case (the property does not say which it is: both answers are accepted) *)
Definition eqs (ci : bool) (a b : string) : bool := if ci then eq_ci a b else String.eqb a b.

(** an encoded slash in the path: whether such a request is matched or refused (400) is the rule's
    encoded-slash policy (C08), the harness's rule set gives no certain answer *)
Definition starts_2f (r : string) : bool :=
  match r with
  | String "2" (String c _) => Ascii.eqb c "F" || Ascii.eqb c "f"
  | _ => false
  end.

Fixpoint has_enc_slash (p : string) : bool :=
  match p with
  | String a r => (Ascii.eqb a "%" && starts_2f r) || has_enc_slash r
  | EmptyString => false
  end.

Definition rule_of (ci : bool) (method scheme host rawpath : string) : option string :=
  let p := rawpath in
  if has_enc_slash p then None
  else if String.eqb p "/pub/a" && eqs ci method "GET" then Some "pub"
  else if String.eqb p "/pst/a" && eqs ci method "POST" then Some "pst"
  else if String.eqb p "/sec/a" && eqs ci scheme "https" then Some "sec"
  else if String.eqb p "/hst/a" && eqs ci host "a.example.com" then Some "hst"
  else if String.eqb p "/any/a" then Some "any"
  else if String.eqb p "/" then Some "root"
  else match p with
       | String "/" (String _ _) => Some "other"
       | _ => None
       end.

Definition rule_cands (method scheme host rawpath : string) : list (option string) :=
  [rule_of false method scheme host rawpath; rule_of true method scheme host rawpath].

Definition is_some {A} (o : option A) : bool := match o with Some _ => true | None => false end.
Definition ok2xx (s : Z) : bool := (200 <=? s)%Z && (s <? 300)%Z.

(** the matched rule fits the view that is shown (matching used what the mechanisms see); views for which
    the harness's rule set gives no certain answer (a path without leading "/") fit anything *)
Definition rule_fits (o : obs) : bool :=
  match o_view o with
  | Some v => let cands := rule_cands (ov_method v) (ov_scheme v) (ov_host v) (ov_rawpath v) in
              negb (forallb is_some cands) ||
              existsb (fun c => match c with Some r => String.eqb r (o_rule o) | None => false end) cands
  | None => true
  end.

(* ------------------------------------------------------------------ correspondence: the model predicts the observation *)

(** Headers(): "Host" plus every header name the middleware left, values joined by "," *)
Definition visible_ok (host : string) (h : hdrs) (seen : list (string * string)) : bool :=
  forallb (fun kv => (String.eqb (fst kv) "Host" && String.eqb (snd kv) host) ||
                     (has (fst kv) h && String.eqb (join "," (values (fst kv) h)) (snd kv))) seen &&
  forallb (fun kv => is_some (assoc (fst kv) seen)) h &&
  is_some (assoc "Host" seen).

(** separators of a comma separated value do not count *)
Definition canon_list (v : string) : string := join ", " (map trim_space (split_on "," v)).

Definition up_projection (uh : hdrs) : list (string * list string) :=
  map (fun nvs => (fst nvs, if String.eqb (fst nvs) FWD || String.eqb (fst nvs) XFF
                            then map canon_list (snd nvs) else snd nvs))
      (fwd_projection uh).

Definition pair_eqb (a b : string * string) : bool := String.eqb (fst a) (fst b) && String.eqb (snd a) (snd b).

(** Header(n) for the seven names: the values of the name joined by "," *)
Definition fwd_visible (h : hdrs) : list (string * string) :=
  flat_map (fun n => if has n h && nonempty (join "," (values n h)) then [(n, join "," (values n h))] else []) untrusted_header.

Definition pairl_eqb (a b : string * list string) : bool :=
  String.eqb (fst a) (fst b) && list_eqb String.eqb (snd a) (snd b).

Definition view_corr (v : view) (host : string) (ov : oview) : bool :=
  String.eqb (ov_method ov) (v_method v) && String.eqb (ov_scheme ov) (v_scheme v) &&
  String.eqb (ov_host ov) (v_host v) && String.eqb (ov_rawpath ov) (v_rawpath v) &&
  String.eqb (ov_query ov) (v_query v) && list_eqb String.eqb (ov_ips ov) (v_ips v) &&
  visible_ok host (v_hdrs v) (ov_hdrs ov) &&
  list_eqb pair_eqb (ov_probes ov) (fwd_visible (v_hdrs v)) && ov_ok ov.

Definition corr (impl_fixed : bool) (c : case) : bool :=
  let s := handle (o_parse_uri c) (o_parse_ip c) (o_parse_cidr c) (o_split c) impl_fixed
                  (k_mode c) (k_cfg c) (k_req c) (k_raw c) in
  let v := s_view s in
  let o := k_obs c in
  let trusted := trusted_peer impl_fixed (map (entry_of (o_parse_ip c) (o_parse_cidr c)) (configured (k_mode c) (k_cfg c)))
                              (o_parse_ip c (ip_from_host_port (o_split c) (r_remote (k_req c)))) in
  let cands := rule_cands (v_method v) (v_scheme v) (v_host v) (v_rawpath v) in
  (* a rule certainly matches: the request passes, the rule is one of the candidates, the view is echoed *)
  (if forallb is_some cands
   then ok2xx (o_status o) && is_some (o_view o) &&
        existsb (fun cd => match cd with Some r => String.eqb r (o_rule o) | None => false end) cands
   else true) &&
  match o_view o with
  | Some ov => view_corr v (r_host (k_req c)) ov
  | None => true
  end &&
  match k_mode c, o_view o with
  | Proxy, Some _ =>
    match o_up o with
    | Some u => String.eqb (ou_method u) (s_up_method s) &&
                list_eqb pairl_eqb (ou_hdrs u) (up_projection (s_up_hdrs s))
    | None => false
    end
  | Decision, _ => negb (is_some (o_up o))
  | _, _ => true
  end &&
  (* the model is non-interfering for a peer it does not trust: so must the implementation be *)
  (trusted || (is_nil (o_leaks o) && is_nil (o_pair o))).

(* ------------------------------------------------------------------ the property, on the observation *)

Definition listed_cfgb (c : case) : bool :=
  existsb (fun s => covers_str (o_parse_ip c) (o_parse_cidr c) s (peer_addr (o_parse_ip c) (o_split c) (r_remote (k_req c))))
          (match (match k_mode c with Decision => cfg_decision (k_cfg c) | Proxy => cfg_proxy (k_cfg c) end) with
           | Some l => l
           | None => []
           end).

Definition scheme_ofb (r : reqline) : string := if r_tls r then "https" else "http".

(** not listed: only the connection and the request line *)
Definition prop_untrusted (c : case) : bool :=
  let r := k_req c in
  let o := k_obs c in
  match o_view o with
  | Some ov =>
    String.eqb (ov_method ov) (r_method r) && String.eqb (ov_scheme ov) (scheme_ofb r) &&
    String.eqb (ov_host ov) (r_host r) && String.eqb (ov_rawpath ov) (r_escpath r) &&
    String.eqb (ov_query ov) (r_rawquery r) &&
    list_eqb String.eqb (ov_ips ov) [peer_host (o_split c) (r_remote r)] &&
    forallb (fun kv => negb (is_forwarded_ci (fst kv))) (ov_hdrs ov) && is_nil (ov_probes ov)
  | None => true
  end &&
  is_nil (o_leaks o) && is_nil (o_pair o).

Fixpoint forallb2 {A B} (f : A -> B -> bool) (l : list A) (m : list B) : bool :=
  match l, m with
  | [], [] => true
  | a :: l', b :: m' => f a b && forallb2 f l' m'
  | _, _ => false
  end.

(** the client list a trusted proxy announces, as a class: one entry per comma separated element;
    Forwarded: nothing or the value of a for= parameter of the element; X-Forwarded-For: the element *)
Definition announced_b (raw : raw_hdrs) (xs : list string) : bool :=
  let xff := match hdr_ci XFF raw with
             | Some x => if nonempty x then forallb2 (fun e y => String.eqb (trim_space e) y) (split_on "," x) xs
                         else is_nil xs
             | None => is_nil xs
             end in
  match hdr_ci FWD raw with
  | Some f => if nonempty f then forallb2 for_class_b (split_on "," f) xs else xff
  | None => xff
  end.

(** listed: each present, non-empty header overrides exactly its component *)
Definition prop_trusted (c : case) : bool :=
  let r := k_req c in
  let raw := k_raw c in
  match o_view (k_obs c) with
  | Some ov =>
    let xfu := match hdr_ci XFU raw with Some v => if nonempty v then Some v else None | None => None end in
    let uri := match xfu with Some v => o_parse_uri3 c v | None => None end in
    (* a value url.Parse refuses: used as received (cut at the first "?") or ignored - the property does not say which *)
    let asis := match xfu, uri with Some v, None => Some (cut_at "?" v) | _, _ => None end in
    String.eqb (ov_method ov) (override (hdr_ci XFM raw) (r_method r)) &&
    String.eqb (ov_scheme ov) (override (hdr_ci XFP raw) (scheme_ofb r)) &&
    String.eqb (ov_host ov) (override (hdr_ci XFH raw) (r_host r)) &&
    (String.eqb (ov_rawpath ov) (override (option_map (fun t => fst (fst t)) uri) (r_escpath r)) ||
     String.eqb (ov_rawpath ov) (override (option_map fst asis) (r_escpath r))) &&
    (* the query of the header, re-encoded or as written: the property does not say which *)
    (String.eqb (ov_query ov) (override (option_map (fun t => snd (fst t)) uri) (r_rawquery r)) ||
     String.eqb (ov_query ov) (override (option_map snd uri) (r_rawquery r)) ||
     String.eqb (ov_query ov) (override (option_map snd asis) (r_rawquery r))) &&
    match rev (ov_ips ov) with
    | last :: front => String.eqb last (peer_host (o_split c) (r_remote r)) && announced_b raw (rev front)
    | [] => false
    end
  | None => true
  end.

Definition prop (c : case) : bool :=
  (if listed_cfgb c then prop_trusted c else prop_untrusted c) &&
  rule_fits (k_obs c) &&
  match o_view (k_obs c) with Some ov => ov_ok ov | None => true end.

(** the inputs of the repaired finding C09-F1, at the level of a case *)
Definition guard_F1_case (c : case) : bool :=
  guard_F1 (map (entry_of (o_parse_ip c) (o_parse_cidr c)) (configured (k_mode c) (k_cfg c)))
           (o_parse_ip c (ip_from_host_port (o_split c) (r_remote (k_req c)))).

(** one request.  [impl_fixed]: true = the tree since fix: e501d3a (what the stream runs: [check true]);
    false = the loader before it *)
Definition check1 (impl_fixed : bool) (c : case) : verdict :=
  {| v_corr := oracles_ok c && headers_ok c && k_loaded c && corr impl_fixed c;
     v_prop := prop c;
     v_guards := guards [(1%Z, guard_F1_case c && negb impl_fixed)] |}.

(** A case of the stream is a HISTORY: the requests one freshly started instance served, in this order
    (a single request is the history of length one).  The model of an instance has no state
    ([run_instance] = [map handle]), so every step is predicted and judged on its own; all steps must have been
    served by the same instance (mode and configuration agree).  An implementation that lets an earlier request
    change what a later one gets fails at that later step. *)
Definition opt_list_eqb (a b : option (list string)) : bool := option_eqb (list_eqb String.eqb) a b.
Definition mode_eqb (a b : mode) : bool :=
  match a, b with Decision, Decision => true | Proxy, Proxy => true | _, _ => false end.
Definition same_instance (h : list case) : bool :=
  match h with
  | [] => true
  | c0 :: r => forallb (fun c => mode_eqb (k_mode c) (k_mode c0) &&
                                 opt_list_eqb (cfg_decision (k_cfg c)) (cfg_decision (k_cfg c0)) &&
                                 opt_list_eqb (cfg_proxy (k_cfg c)) (cfg_proxy (k_cfg c0))) r
  end.

Fixpoint dedup_z (l : list Z) : list Z :=
  match l with
  | [] => []
  | x :: r => if existsb (Z.eqb x) r then dedup_z r else x :: dedup_z r
  end.

Definition check (impl_fixed : bool) (h : list case) : verdict :=
  {| v_corr := same_instance h && forallb (fun c => v_corr (check1 impl_fixed c)) h;
     v_prop := forallb (fun c => v_prop (check1 impl_fixed c)) h;
     v_guards := dedup_z (flat_map (fun c => v_guards (check1 impl_fixed c)) h) |}.

(* BEGIN aliases (generated from harness/c09/c09_test.go c09Aliases; the driver refuses to run when the two differ) *)
Definition q0 : string := "Forwarded".
Definition q1 : string := "forwarded".
Definition q2 : string := "FORWARDED".
Definition q3 : string := "X-Forwarded-For".
Definition q4 : string := "x-forwarded-for".
Definition q5 : string := "X-FORWARDED-FOR".
Definition q6 : string := "X-Forwarded-Proto".
Definition q7 : string := "x-forwarded-proto".
Definition q8 : string := "X-FORWARDED-PROTO".
Definition q9 : string := "X-Forwarded-Host".
Definition q10 : string := "x-forwarded-host".
Definition q11 : string := "X-FORWARDED-HOST".
Definition q12 : string := "X-Forwarded-Uri".
Definition q13 : string := "x-forwarded-uri".
Definition q14 : string := "X-FORWARDED-URI".
Definition q15 : string := "X-Forwarded-Path".
Definition q16 : string := "x-forwarded-path".
Definition q17 : string := "X-FORWARDED-PATH".
Definition q18 : string := "X-Forwarded-Method".
Definition q19 : string := "x-forwarded-method".
Definition q20 : string := "X-FORWARDED-METHOD".
Definition q21 : string := "Cf-Connecting-Ip".
Definition q22 : string := "cf-connecting-ip".
Definition q23 : string := "CF-CONNECTING-IP".
Definition q24 : string := "7.7.7.11".
Definition q25 : string := "Forwarded-For".
Definition q26 : string := "forwarded-for".
Definition q27 : string := "FORWARDED-FOR".
Definition q28 : string := "7.7.7.7".
Definition q29 : string := "Front-End-Https".
Definition q30 : string := "front-end-https".
Definition q31 : string := "FRONT-END-HTTPS".
Definition q32 : string := "on".
Definition q33 : string := "True-Client-Ip".
Definition q34 : string := "true-client-ip".
Definition q35 : string := "TRUE-CLIENT-IP".
Definition q36 : string := "7.7.7.10".
Definition q37 : string := "Via".
Definition q38 : string := "via".
Definition q39 : string := "VIA".
Definition q40 : string := "1.1 evil-via".
Definition q41 : string := "X-Client-Ip".
Definition q42 : string := "x-client-ip".
Definition q43 : string := "X-CLIENT-IP".
Definition q44 : string := "7.7.7.8".
Definition q45 : string := "X-Cluster-Client-Ip".
Definition q46 : string := "x-cluster-client-ip".
Definition q47 : string := "X-CLUSTER-CLIENT-IP".
Definition q48 : string := "7.7.7.9".
Definition q49 : string := "X-Forwarded".
Definition q50 : string := "x-forwarded".
Definition q51 : string := "X-FORWARDED".
Definition q52 : string := "for=7.7.7.7;proto=https".
Definition q53 : string := "X-Forwarded-Port".
Definition q54 : string := "x-forwarded-port".
Definition q55 : string := "X-FORWARDED-PORT".
Definition q56 : string := "8443".
Definition q57 : string := "443".
Definition q58 : string := "X-Forwarded-Prefix".
Definition q59 : string := "x-forwarded-prefix".
Definition q60 : string := "X-FORWARDED-PREFIX".
Definition q61 : string := "/pst".
Definition q62 : string := "/sec/a".
Definition q63 : string := "X-Forwarded-Protocol".
Definition q64 : string := "x-forwarded-protocol".
Definition q65 : string := "X-FORWARDED-PROTOCOL".
Definition q66 : string := "https".
Definition q67 : string := "X-Forwarded-Scheme".
Definition q68 : string := "x-forwarded-scheme".
Definition q69 : string := "X-FORWARDED-SCHEME".
Definition q70 : string := "X-Forwarded-Server".
Definition q71 : string := "x-forwarded-server".
Definition q72 : string := "X-FORWARDED-SERVER".
Definition q73 : string := "evil-server.example.com".
Definition q74 : string := "X-Forwarded-Ssl".
Definition q75 : string := "x-forwarded-ssl".
Definition q76 : string := "X-FORWARDED-SSL".
Definition q77 : string := "X-Host".
Definition q78 : string := "x-host".
Definition q79 : string := "X-HOST".
Definition q80 : string := "evil-xhost.example.com".
Definition q81 : string := "X-Http-Method".
Definition q82 : string := "x-http-method".
Definition q83 : string := "X-HTTP-METHOD".
Definition q84 : string := "POST".
Definition q85 : string := "X-Http-Method-Override".
Definition q86 : string := "x-http-method-override".
Definition q87 : string := "X-HTTP-METHOD-OVERRIDE".
Definition q88 : string := "DELETE".
Definition q89 : string := "X-Method-Override".
Definition q90 : string := "x-method-override".
Definition q91 : string := "X-METHOD-OVERRIDE".
Definition q92 : string := "X-Original-Forwarded-For".
Definition q93 : string := "x-original-forwarded-for".
Definition q94 : string := "X-ORIGINAL-FORWARDED-FOR".
Definition q95 : string := "7.7.7.12".
Definition q96 : string := "X-Original-Forwarded-Host".
Definition q97 : string := "x-original-forwarded-host".
Definition q98 : string := "X-ORIGINAL-FORWARDED-HOST".
Definition q99 : string := "evil-xofh.example.com".
Definition q100 : string := "X-Original-Host".
Definition q101 : string := "x-original-host".
Definition q102 : string := "X-ORIGINAL-HOST".
Definition q103 : string := "evil-orig.example.com".
Definition q104 : string := "X-Original-Method".
Definition q105 : string := "x-original-method".
Definition q106 : string := "X-ORIGINAL-METHOD".
Definition q107 : string := "X-Original-Uri".
Definition q108 : string := "x-original-uri".
Definition q109 : string := "X-ORIGINAL-URI".
Definition q110 : string := "/pst/a".
Definition q111 : string := "X-Original-Url".
Definition q112 : string := "x-original-url".
Definition q113 : string := "X-ORIGINAL-URL".
Definition q114 : string := "/pst/a?o=1".
Definition q115 : string := "X-Real-Ip".
Definition q116 : string := "x-real-ip".
Definition q117 : string := "X-REAL-IP".
Definition q118 : string := "X-Rewrite-Url".
Definition q119 : string := "x-rewrite-url".
Definition q120 : string := "X-REWRITE-URL".
Definition q121 : string := "X-Scheme".
Definition q122 : string := "x-scheme".
Definition q123 : string := "X-SCHEME".
Definition q124 : string := "X-Url-Scheme".
Definition q125 : string := "x-url-scheme".
Definition q126 : string := "X-URL-SCHEME".
Definition q127 : string := "Host".
Definition q128 : string := "X-Custom".
Definition q129 : string := "x-custom".
Definition q130 : string := "X-CUSTOM".
Definition q131 : string := "c1".
Definition q132 : string := "Cookie".
Definition q133 : string := "a=b".
Definition q134 : string := "Connection".
Definition q135 : string := "close".
Definition q136 : string := "Upgrade".
Definition q137 : string := "websocket".
Definition q138 : string := "Content-Type".
Definition q139 : string := "Content-Length".
Definition q140 : string := "application/json".
Definition q141 : string := "text/plain".
Definition q142 : string := "http".
Definition q143 : string := "GET".
Definition q144 : string := "PUT".
Definition q145 : string := "PATCH".
Definition q146 : string := "HEAD".
Definition q147 : string := "OPTIONS".
Definition q148 : string := "a.example.com".
Definition q149 : string := "b.example.com:8080".
Definition q150 : string := "heimdall.local".
Definition q151 : string := "/pub/a".
Definition q152 : string := "/hst/a".
Definition q153 : string := "/any/a".
Definition q154 : string := "/other".
Definition q155 : string := "/x%20y".
Definition q156 : string := "/".
Definition q157 : string := "/pub/a/b".
Definition q158 : string := "x=1".
Definition q159 : string := "b=2&a=1".
Definition q160 : string := "q=a%20b".
Definition q161 : string := "for=1.2.3.4".
Definition q162 : string := "for=1.2.3.4;proto=https;host=x, for=5.6.7.8".
Definition q163 : string := "For=9.9.9.9".
Definition q164 : string := "proto=https".
Definition q165 : string := "for=a ; for=b ,host=h".
Definition q166 : string := "for=".
Definition q167 : string := ";;".
Definition q168 : string := "by=x;for=y".
Definition q169 : string := "for=1.1.1.1,proto=http,for=2.2.2.2".
Definition q170 : string := "for = 1.1.1.1".
Definition q171 : string := "FOR=1.1.1.1;for=2.2.2.2".
Definition q172 : string := "1.1.1.1".
Definition q173 : string := "1.1.1.1, 2.2.2.2".
Definition q174 : string := "3.3.3.3 ,4.4.4.4".
Definition q175 : string := "unknown".
Definition q176 : string := ",".
Definition q177 : string := "a,,b".
Definition q178 : string := "2001:db8::9".
Definition q179 : string := "ftp".
Definition q180 : string := "HTTPS".
Definition q181 : string := "https, http".
Definition q182 : string := "https,http".
Definition q183 : string := "evil.example.com".
Definition q184 : string := "admin.example.com:443".
Definition q185 : string := "A.example.com".
Definition q186 : string := "evil.example.com, a.example.com".
Definition q187 : string := "a.example.com,evil.example.com".
Definition q188 : string := "/pst/a?x=1".
Definition q189 : string := "/sec/a?b=2&a=1".
Definition q190 : string := "?q=1".
Definition q191 : string := "%zz".
Definition q192 : string := "http://other.example.com/pst/a?z=1".
Definition q193 : string := "//evil/path".
Definition q194 : string := "/a b".
Definition q195 : string := "/pub/a#frag".
Definition q196 : string := "/any/a?x=1;y=2".
Definition q197 : string := "any/a".
Definition q198 : string := "/sec/a?".
Definition q199 : string := "/hst/a?%zz=1".
Definition q200 : string := "*".
Definition q201 : string := "/pst/a%zz".
Definition q202 : string := "/a%2Fb%zz?x=1".
Definition q203 : string := "/any/a?q=%zz".
Definition q204 : string := "/sec/a%?y=2".
Definition q205 : string := "%zz?x=1".
Definition q206 : string := "/x".
Definition q207 : string := "get".
Definition q208 : string := "pub".
Definition q209 : string := "pst".
Definition q210 : string := "sec".
Definition q211 : string := "hst".
Definition q212 : string := "any".
Definition q213 : string := "root".
Definition q214 : string := "other".
Definition q215 : string := "status".
Definition q216 : string := "rule".
Definition q217 : string := "view".
Definition q218 : string := "resp.headers".
Definition q219 : string := "resp.body".
Definition q220 : string := "up.line".
Definition q221 : string := "up.host".
Definition q222 : string := "up.headers".
Definition q223 : string := "up.body".
Definition q224 : string := "log.pair".
Definition q225 : string := "log".
(* END aliases *)

(* short constructors for the generated case files *)
Definition rq p t m h e q := {| r_remote := p; r_tls := t; r_method := m; r_host := h; r_escpath := e; r_rawquery := q |}.
Definition cf d p := {| cfg_decision := d; cfg_proxy := p |}.
Definition vw m s h p q i hs pr ok :=
  {| ov_method := m; ov_scheme := s; ov_host := h; ov_rawpath := p; ov_query := q; ov_ips := i; ov_hdrs := hs;
     ov_probes := pr; ov_ok := ok |}.
Definition upv m hs := {| ou_method := m; ou_hdrs := hs |}.
Definition ob s r v u l p := {| o_status := s; o_rule := r; o_view := v; o_up := u; o_leaks := l; o_pair := p |}.
Definition cs m cfg ld net sp r raw parsed u o :=
  {| k_mode := m; k_cfg := cfg; k_loaded := ld; k_net := net; k_split := sp; k_req := r; k_raw := raw;
     k_parsed := parsed; k_uri := u; k_obs := o |}.
