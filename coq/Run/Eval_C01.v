(** Evaluator of the C01 correspondence streams.  A case carries the service
    configuration, the lookup result with the complete rule (every step's
    outcome ON THIS REQUEST is data), the request, and the observed answers of the
    three real entry-point stacks together with the number of requests that
    reached the counting upstream while each was served.

    [check] computes
    (i)  [v_corr]: model and observation agree on the PROJECTION the property talks
         about — is the answer a success (1xx/2xx status / gRPC OK), is it the
         accepted status (decision service), did anything reach the upstream —
         not on exact status codes, which belong to C12;
    (ii) [v_prop]: the statement itself, built from the specification
         ([completed_b] = [pipeline_completed]) and evaluated on the
         implementation's observation: a request whose pipeline did not complete
         (or that no rule applied to) is observed as a non-success with zero
         upstream hits and is not positive; any other request is observed as a
         non-success or as exactly the positive answer; the decision and Envoy
         services never contact the upstream and the proxy at most once.
         It does not refer to [serve].
    [check_stats] (not fatal, reported in the evidence): exact agreement of status /
    gRPC code / hit count with the model ("C12 drift") and whether [v_prop] was
    vacuous on the case because a hypothesis of the theorems does not hold, and on
    which cases (a 1xx/2xx status override in force) not even the projection was
    compared, so that only the upstream hit bound was checked. *)
From HV Require Export Base.Prelude Base.ErrChain C12.Model C12.Proofs C01.Model C01.Proofs.
Local Open Scope Z_scope.

(** ** observations as rendered by the Go drivers *)
Inductive ogc := OG (g : gcode) | OGOther (s : string).

Inductive oans :=
| OHttp (status : Z) (hits : nat)
| OAbort (hits : nat)                         (* the connection was dropped / the handler panicked *)
| OEnvOk (g : ogc) (hits : nat)               (* CheckResponse with OkHttpResponse *)
| OEnvDenied (g : ogc) (status : Z) (hits : nat)
| OEnvStatus (g : ogc) (hits : nat)           (* gRPC status error *)
| OOther (s : string).

Record case := {
  k_cfg : config; k_l : lookup; k_q : request;
  k_dec : oans; k_prx : oans; k_env : oans }.

Definition ogc_is (g : gcode) (o : ogc) : bool :=
  match o with OG g' => gcode_eqb g g' | OGOther _ => false end.

(** ** correspondence on the projection *)

(** (success?, accepted status?, something reached the upstream?) *)
Definition proj_model (c : config) (a : answer) : bool * bool * bool :=
  match a with
  | AHttp s h => (success_like s, s =? accepted_code c, Nat.ltb 0 h)
  | AAbort h => (false, false, Nat.ltb 0 h)
  | AEnvoyOk => (true, true, false)
  | AEnvoyDenied g s => (gcode_eqb g GOk || success_like s, false, false)
  | AEnvoyStatus g => (gcode_eqb g GOk, false, false)
  end.

Definition proj_obs (c : config) (o : oans) : option (bool * bool * bool) :=
  match o with
  | OHttp s h => Some (success_like s, s =? accepted_code c, Nat.ltb 0 h)
  | OAbort h => Some (false, false, Nat.ltb 0 h)
  | OEnvOk g h => Some (ogc_is GOk g, ogc_is GOk g, Nat.ltb 0 h)
  | OEnvDenied g s h => Some (ogc_is GOk g || success_like s, false, Nat.ltb 0 h)
  | OEnvStatus g h => Some (ogc_is GOk g, false, Nat.ltb 0 h)
  | OOther _ => None
  end.

Definition triple_eqb (a b : bool * bool * bool) : bool :=
  Bool.eqb (fst (fst a)) (fst (fst b)) && Bool.eqb (snd (fst a)) (snd (fst b)) && Bool.eqb (snd a) (snd b).

Definition proj_match (en : entry) (c : config) (m : answer) (o : oans) : bool :=
  match proj_obs c o with
  | Some p =>
      let q := proj_model c m in
      (* the accepted status only matters for the decision service *)
      match en with
      | Decision => triple_eqb q p
      | _ => Bool.eqb (fst (fst q)) (fst (fst p)) && Bool.eqb (snd q) (snd p)
      end
  | None => false
  end.

(** the projection "success status or not" presupposes that the configured error
    statuses are not success statuses themselves: with a 1xx/2xx override in force
    the comparison is left to the (non-fatal) exact statistics *)
Definition corr_skipped (k : case) : bool :=
  negb (forallb (fun z => negb (success_like z))
          [ov_authn (c_respond (k_cfg k)); ov_authz (c_respond (k_cfg k)); ov_comm (c_respond (k_cfg k));
           ov_precond (c_respond (k_cfg k)); ov_norule (c_respond (k_cfg k)); ov_internal (c_respond (k_cfg k))]).

Definition corr (k : case) : bool :=
  corr_skipped k ||
  proj_match Decision (k_cfg k) (serve Decision (k_cfg k) (k_l k) (k_q k)) (k_dec k) &&
  proj_match Proxy (k_cfg k) (serve Proxy (k_cfg k) (k_l k) (k_q k)) (k_prx k) &&
  proj_match Envoy (k_cfg k) (serve Envoy (k_cfg k) (k_l k) (k_q k)) (k_env k).

(** exact agreement (status, gRPC code, hit count): reported, never fatal *)
Definition ans_match (m : answer) (o : oans) : bool :=
  match m, o with
  | AHttp s h, OHttp s' h' => (s =? s') && Nat.eqb h h'
  | AAbort h, OAbort h' => Nat.eqb h h'
  | AEnvoyOk, OEnvOk g h => ogc_is GOk g && Nat.eqb h 0
  | AEnvoyDenied g s, OEnvDenied g' s' h => ogc_is g g' && (s =? s') && Nat.eqb h 0
  | AEnvoyStatus g, OEnvStatus g' h => ogc_is g g' && Nat.eqb h 0
  | _, _ => false
  end.

Definition corr_exact (k : case) : bool :=
  ans_match (serve Decision (k_cfg k) (k_l k) (k_q k)) (k_dec k) &&
  ans_match (serve Proxy (k_cfg k) (k_l k) (k_q k)) (k_prx k) &&
  ans_match (serve Envoy (k_cfg k) (k_l k) (k_q k)) (k_env k).

(** ** the property on the observations *)

(** executable hypotheses *)
Definition overrides_not_success_b (c : cfg) : bool :=
  negb (success_like (ov_authn c)) && negb (success_like (ov_authz c)) && negb (success_like (ov_comm c)) &&
  negb (success_like (ov_precond c)) && negb (success_like (ov_norule c)) && negb (success_like (ov_internal c)).

Definition good_err_b (e : err) : bool := forallb (fun z => negb (success_like z)) (redirect_codes e).
Definition good_panic_b (v : option err) : bool := match v with Some e => good_err_b e | None => true end.
Definition good_outcome_b (o : outcome) : bool :=
  match o with Ok => true | Fail e => good_err_b e | Panics v => good_panic_b v end.
Definition good_cond_b (c : option cond) : bool :=
  match c with Some (CErr e) => good_err_b e | Some (CPanics v) => good_panic_b v | _ => true end.
Definition good_step_b (s : step) : bool := good_cond_b (s_if s) && good_outcome_b (s_out s).
Definition good_eh_b (h : ehstep) : bool :=
  good_cond_b (e_if h) &&
  match e_kind h with
  | EhReal (MRedirect code _) => negb (success_like (redirect_status code))
  | EhReal _ => true
  | EhFails e => good_err_b e
  | EhPanics v => good_panic_b v
  | EhSilent => true
  | EhAny _ => false          (* never generated *)
  end.
Definition redirects_ok_b (r : rule) : bool :=
  forallb (fun a => good_outcome_b (a_out a)) (sc r) && forallb good_step_b (sh r) &&
  forallb good_step_b (fi r) && forallb good_eh_b (eh r).
Definition handlers_record_b (r : rule) : bool :=
  forallb (fun h => match e_kind h with EhSilent | EhAny _ => false | _ => true end) (eh r).
Definition sane_b (c : config) (r : rule) : bool :=
  overrides_not_success_b (c_respond c) && redirects_ok_b r && negb (is_nil (sc r)) && handlers_record_b r.

Definition applied_rule (l : lookup) : option rule :=
  match l with Matched r | Default r => Some r | NoRule => None end.

Definition ohits (o : oans) : nat :=
  match o with OHttp _ h | OAbort h | OEnvOk _ h | OEnvDenied _ _ h | OEnvStatus _ h => h | OOther _ => 0%nat end.

Definition non_success_b (o : oans) : bool :=
  match o with
  | OHttp s h => negb (success_like s) && Nat.eqb h 0
  | OAbort h => Nat.eqb h 0
  | OEnvOk _ _ => false
  | OEnvDenied g s h => negb (ogc_is GOk g) && negb (success_like s) && Nat.eqb h 0
  | OEnvStatus g h => negb (ogc_is GOk g) && Nat.eqb h 0
  | OOther _ => false
  end.

Definition positive_b (en : entry) (c : config) (o : oans) : bool :=
  match en, o with
  | Decision, OHttp s _ => s =? accepted_code c
  | Proxy, _ => Nat.ltb 0 (ohits o)
  | Envoy, OEnvOk _ _ => true
  | _, _ => false
  end.

Definition positive_shape_b (en : entry) (c : config) (o : oans) : bool :=
  match en, o with
  | Decision, OHttp s h => (s =? accepted_code c) && Nat.eqb h 0
  | Proxy, OHttp _ h | Proxy, OAbort h => Nat.eqb h 1
  | Envoy, OEnvOk g h => ogc_is GOk g && Nat.eqb h 0
  | _, _ => false
  end.

(** "nothing reaches the upstream" unless the proxy forwards, and then once *)
Definition hits_ok (en : entry) (o : oans) : bool :=
  match en with Proxy => Nat.leb (ohits o) 1 | _ => Nat.eqb (ohits o) 0 end &&
  match o with OOther _ => false | _ => true end.

(** the hypotheses of the theorems for entry point [en] *)
Definition hyps_b (en : entry) (k : case) : bool :=
  let c := k_cfg k in
  overrides_not_success_b (c_respond c) &&
  match applied_rule (k_l k) with Some r => sane_b c r | None => true end &&
  match en with Decision => success_like (accepted_code c) | _ => true end.

Definition prop_entry (en : entry) (k : case) (o : oans) : bool :=
  let c := k_cfg k in
  hits_ok en o &&
  if hyps_b en k then
    match applied_rule (k_l k) with
    | Some r =>
        if completed_b r
        then non_success_b o || positive_shape_b en c o                  (* no third kind of answer *)
        else non_success_b o && negb (positive_b en c o)                 (* "in every other case" *)
    | None => non_success_b o && negb (positive_b en c o)                (* no applicable rule *)
    end
  else true.

Definition prop (k : case) : bool :=
  prop_entry Decision k (k_dec k) && prop_entry Proxy k (k_prx k) && prop_entry Envoy k (k_env k).

Definition check (k : case) : verdict :=
  {| v_corr := corr k; v_prop := prop k; v_guards := [] |}.

(** statistics: exact agreement with the model; the property predicate was not
    vacuous on the case (all three entry points) *)
Definition check_stats (k : case) : verdict :=
  {| v_corr := corr_exact k;
     v_prop := hyps_b Decision k && hyps_b Proxy k && hyps_b Envoy k;
     v_guards := guards [(7, corr_skipped k)] |}.   (* 7 = neither projection nor property compared: only the hit bound *)

(* constructors with short names for the generated case files *)
Definition mkresp v a z m p n i :=
  {| c_verbose := v; ov_authn := a; ov_authz := z; ov_comm := m; ov_precond := p; ov_norule := n; ov_internal := i |}.
Definition mkc r a := {| c_respond := r; c_accepted := a |}.
Definition au o f := {| a_out := o; a_fallback := f |}.
Definition stp i o c := {| s_if := i; s_out := o; s_continue := c |}.
Definition ehs i k := {| e_if := i; e_kind := k |}.
Definition rl a h f e b s := {| sc := a; sh := h; fi := f; eh := e; backend := b; slashes_off := s |}.
Definition rq s u := {| q_encoded_slash := s; q_upstream := u |}.
Definition mkcase c l q d p e := {| k_cfg := c; k_l := l; k_q := q; k_dec := d; k_prx := p; k_env := e |}.
