(** Evaluator of the C01 correspondence stream.  A case carries the service
    configuration, the lookup result with the complete rule (every step's
    outcome is data), the request, and the observed answers of the three real
    entry-point stacks together with the number of requests that reached the
    counting upstream while each was served.  [check] computes
    (i) model = observation for all three, and (ii) the property on the
    observations: under the hypotheses of the theorems a failed / absent
    pipeline is answered by a non-success response with zero upstream hits, a
    completed one by exactly the positive answer.  C01 has no open finding. *)
From HV Require Export Base.Prelude Base.ErrChain C12.Model C12.Proofs C01.Model C01.Proofs.
Local Open Scope Z_scope.

(** ** observations as rendered by the Go driver *)
Inductive ogc := OG (g : gcode) | OGOther (s : string).

Inductive oans :=
| OHttp (status : Z) (hits : nat)
| OAbort (hits : nat)                         (* the panic escaped the recovery middleware *)
| OEnvOk (g : ogc) (hits : nat)               (* CheckResponse with OkHttpResponse *)
| OEnvDenied (g : ogc) (status : Z) (hits : nat)
| OEnvStatus (g : ogc) (hits : nat)           (* gRPC status error *)
| OOther (s : string).

Record case := {
  k_cfg : config; k_l : lookup; k_q : request;
  k_dec : oans; k_prx : oans; k_env : oans }.

(** ** correspondence *)
Definition ogc_is (g : gcode) (o : ogc) : bool :=
  match o with OG g' => gcode_eqb g g' | OGOther _ => false end.

Definition ans_match (m : answer) (o : oans) : bool :=
  match m, o with
  | AHttp s h, OHttp s' h' => (s =? s') && Nat.eqb h h'
  | AAbort, OAbort h => Nat.eqb h 0
  | AEnvoyOk, OEnvOk g h => ogc_is GOk g && Nat.eqb h 0
  | AEnvoyDenied g s, OEnvDenied g' s' h => ogc_is g g' && (s =? s') && Nat.eqb h 0
  | AEnvoyStatus g, OEnvStatus g' h => ogc_is g g' && Nat.eqb h 0
  | _, _ => false
  end.

Definition corr (k : case) : bool :=
  ans_match (serve Decision (k_cfg k) (k_l k) (k_q k)) (k_dec k) &&
  ans_match (serve Proxy (k_cfg k) (k_l k) (k_q k)) (k_prx k) &&
  ans_match (serve Envoy (k_cfg k) (k_l k) (k_q k)) (k_env k).

(** ** the property on the observations *)

(** executable hypotheses *)
Definition overrides_not_success_b (c : cfg) : bool :=
  negb (success_like (ov_authn c)) && negb (success_like (ov_authz c)) && negb (success_like (ov_comm c)) &&
  negb (success_like (ov_precond c)) && negb (success_like (ov_norule c)) && negb (success_like (ov_internal c)).

Definition good_err_b (e : err) : bool := forallb (fun z => negb (success_like z)) (redirect_codes e).
Definition good_panic_b (v : option err) : bool := match v with Some e => good_err_b e | None => true end.
Definition good_outcome_b (o : outcome) : bool :=
  match o with Ok => true | Fail e => good_err_b e | Panics v => good_panic_b v end.
Definition good_cond_b (c : option cond) : bool :=
  match c with Some (CErr e) => good_err_b e | Some (CPanics v) => good_panic_b v | _ => true end.
Definition good_step_b (s : step) : bool := good_cond_b (s_if s) && good_outcome_b (s_out s).
Definition good_eh_b (h : ehstep) : bool :=
  good_cond_b (e_if h) &&
  match e_kind h with
  | EhReal (MRedirect code _) => negb (success_like (redirect_status code))
  | EhReal _ => true
  | EhFails e => good_err_b e
  | EhPanics v => good_panic_b v
  | EhSilent => true
  end.
Definition redirects_ok_b (r : rule) : bool :=
  forallb (fun a => good_outcome_b (a_out a)) (sc r) && forallb good_step_b (sh r) &&
  forallb good_step_b (fi r) && forallb good_eh_b (eh r).
Definition real_handlers_b (r : rule) : bool :=
  forallb (fun h => match e_kind h with EhSilent => false | _ => true end) (eh r).
Definition sane_b (c : config) (r : rule) : bool :=
  overrides_not_success_b (c_respond c) && redirects_ok_b r && negb (is_nil (sc r)) && real_handlers_b r.

Definition step_quiet_b (s : step) : bool :=
  match s_if s with
  | Some (CPanics _) => false
  | None | Some (CVal true) => match s_out s with Panics _ => false | _ => true end
  | _ => true
  end.
Definition quiet_b (r : rule) : bool := forallb step_quiet_b (sh r) && forallb step_quiet_b (fi r).

Definition applied_rule (l : lookup) : option rule :=
  match l with Matched r | Default r => Some r | NoRule => None end.

Definition non_success_b (o : oans) : bool :=
  match o with
  | OHttp s h => negb (success_like s) && Nat.eqb h 0
  | OAbort h => Nat.eqb h 0
  | OEnvOk _ _ => false
  | OEnvDenied g s h => negb (ogc_is GOk g) && negb (success_like s) && Nat.eqb h 0
  | OEnvStatus g h => negb (ogc_is GOk g) && Nat.eqb h 0
  | OOther _ => false
  end.

Definition positive_b (en : entry) (c : config) (o : oans) : bool :=
  match en, o with
  | Decision, OHttp s _ => s =? accepted_code c
  | Proxy, OHttp _ h => Nat.ltb 0 h
  | Envoy, OEnvOk _ _ => true
  | _, _ => false
  end.

(** the positive answer in full: accepted status / the upstream's 200 after
    exactly one forwarded request / OK; the decision and Envoy services never
    contact the upstream *)
Definition is_positive_answer (en : entry) (c : config) (o : oans) : bool :=
  match en, o with
  | Decision, OHttp s h => (s =? accepted_code c) && Nat.eqb h 0
  | Proxy, OHttp s h => (s =? upstream_status) && Nat.eqb h 1
  | Envoy, OEnvOk g h => ogc_is GOk g && Nat.eqb h 0
  | _, _ => false
  end.

Definition prop_entry (en : entry) (k : case) (o : oans) : bool :=
  let c := k_cfg k in
  match applied_rule (k_l k) with
  | None => if overrides_not_success_b (c_respond c) then non_success_b o else true
  | Some r =>
      if sane_b c r && success_like (accepted_code c) then
        if succeeded_b r then
          (* liveness, under the side conditions of C01_success_is_positive *)
          if quiet_b r && negb (slash_rejected en r (k_q k)) &&
             match en with
             | Decision => valid_code (accepted_code c)
             | Proxy => backend r
             | Envoy => true
             end
          then is_positive_answer en c o
          else true
        else non_success_b o && negb (positive_b en c o)
      else true
  end.

Definition prop (k : case) : bool :=
  prop_entry Decision k (k_dec k) && prop_entry Proxy k (k_prx k) && prop_entry Envoy k (k_env k).

Definition check (k : case) : verdict :=
  {| v_corr := corr k; v_prop := prop k; v_guards := [] |}.

(* constructors with short names for the generated case files *)
Definition mkresp v a z m p n i :=
  {| c_verbose := v; ov_authn := a; ov_authz := z; ov_comm := m; ov_precond := p; ov_norule := n; ov_internal := i |}.
Definition mkc r a := {| c_respond := r; c_accepted := a |}.
Definition au o f := {| a_out := o; a_fallback := f |}.
Definition stp i o c := {| s_if := i; s_out := o; s_continue := c |}.
Definition ehs i k := {| e_if := i; e_kind := k |}.
Definition rl a h f e b s := {| sc := a; sh := h; fi := f; eh := e; backend := b; slashes_off := s |}.
Definition rq s := {| q_encoded_slash := s |}.
Definition mkcase c l q d p e := {| k_cfg := c; k_l := l; k_q := q; k_dec := d; k_prx := p; k_env := e |}.
