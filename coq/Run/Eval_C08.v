(** Evaluator of the C08 correspondence streams.

    Stream "requests": a rule set, a request path and an equivalent re-encoding
    of it, and what the real server + requestcontext + repository + rule did with
    both.  Stream "units": rule_impl.go's unescape on byte strings. *)
From HV Require Export Base.Prelude Base.GoUrl C08.Model C08.Spec.

Local Open Scope char_scope.

(** * requests *)

Record case := {
  c_rules : list rule; c_dflt : bool; c_host : string; c_raw : string; c_raw2 : string; c_query : string;
  o_a : outcome; o_auri : string; o_b : outcome; o_buri : string }.

Definition c8 rs d h r r2 q oa ua ob ub :=
  {| c_rules := rs; c_dflt := d; c_host := h; c_raw := r; c_raw2 := r2; c_query := q;
     o_a := oa; o_auri := ua; o_b := ob; o_buri := ub |}.
Definition rt p ps := {| rt_pat := p; rt_params := ps |}.
Definition rwr s c a q := {| rw_scheme := s; rw_cut := c; rw_add := a; rw_strip_q := q |}.
Definition be h r := {| b_host := h; b_rw := r |}.
Definition rl i s r b := {| r_id := i; r_setting := s; r_routes := r; r_backend := b |}.
Definition hu s h p rp q := {| u_scheme := s; u_host := h; u_path := p; u_rawpath := rp; u_query := q |}.

(** ** the property on the implementation's observation (vocabulary of C08/Spec.v) *)

(** the model's answer and the request line of its upstream URL against the observation *)
Definition corr1 (fx : fixes) (c : case) (raw : string) (o : outcome) (uri : string) : bool :=
  let m := serve fx (c_rules c) (c_dflt c) (c_host c) raw (c_query c) in
  outcome_eqb m o &&
  match m with
  | Accepted _ _ _ (Some u) => String.eqb (wire_uri u) uri
  | _ => true
  end.

(** rule ids are unique in the generated rule sets *)
Definition rule_of (rules : list rule) (rid : string) : option rule :=
  find (fun r => String.eqb (r_id r) rid) rules.

(** an encoded slash is never accepted by a rule with setting off nor by the default rule *)
Definition off_ok (rules : list rule) (raw : string) (o : outcome) : bool :=
  match o with
  | Accepted rid d _ _ =>
    negb (enc_slash raw &&
          (d || match rule_of rules rid with Some r => setting_eqb (r_setting r) Off | None => true end))
  | _ => true
  end.

Definition spec_capture (st : setting) (v : string) : string :=
  match st with NoDecode => decode_keep_slash v | _ => unescape_or_empty v end.

(** every captured value is the decoding (per setting) of a piece of the request path *)
Definition caps_ok (rules : list rule) (raw : string) (o : outcome) : bool :=
  match o with
  | Accepted rid false cs _ =>
    match rule_of rules rid with
    | Some r => forallb (fun kv => existsb (fun v => String.eqb (snd kv) (spec_capture (r_setting r) v)) (pieces raw)) cs
    | None => false
    end
  | _ => true
  end.

(** an encoded slash stays encoded in the upstream path under no_decode and is
    decoded under on (rules that forward without rewriting) *)
Definition up_ok (rules : list rule) (raw query : string) (o : outcome) (uri : string) : bool :=
  match o with
  | Accepted rid false _ (Some u) =>
    match rule_of rules rid with
    | Some r =>
      match r_backend r with
      | Some b =>
        if negb (enc_slash raw) || match b_rw b with Some _ => true | None => false end then true
        else match r_setting r with
             | NoDecode => String.eqb (u_rawpath u) raw &&
                           String.eqb uri (if is_empty query then raw else raw ++ String "?" query)
             | On => is_empty (u_rawpath u) && String.eqb (u_path u) (unescape_or_empty raw) &&
                     negb (enc_slash (fst (cut_on "?" uri)))
             | Off => true
             end
      | None => true
      end
    | None => false
    end
  | _ => true
  end.

Definition prop (c : case) : bool :=
  (negb (equiv_paths (c_raw c) (c_raw2 c)) || same_decision (o_a c) (o_b c)) &&
  off_ok (c_rules c) (c_raw c) (o_a c) && off_ok (c_rules c) (c_raw2 c) (o_b c) &&
  caps_ok (c_rules c) (c_raw c) (o_a c) && caps_ok (c_rules c) (c_raw2 c) (o_b c) &&
  up_ok (c_rules c) (c_raw c) (c_query c) (o_a c) (o_auri c) &&
  up_ok (c_rules c) (c_raw2 c) (c_query c) (o_b c) (o_buri c).

(** ** guards of the findings on the generated input (C08/Spec.v) *)

Definition g_F1 (c : case) : bool := guard_F1 (c_rules c) (c_raw c) (c_raw2 c).

Definition g_F2 (c : case) : bool := guard_F2 (c_raw c) (c_raw2 c).

(** the path the repository looks up for a request target ("" if the target is refused) *)
Definition lookup_of (c : case) (raw : string) : string :=
  match view (c_host c) raw (c_query c) with
  | Some u => lookup_path u
  | None => EmptyString
  end.

(** C08-F3: an `off` rule with path_params (and an escape in the looked-up path,
    which may come from EscapedPath re-encoding the request path) *)
Definition g_F3 (c : case) : bool :=
  guard_F3 (c_rules c) &&
  (mem_ascii "%" (lookup_of c (c_raw c)) || mem_ascii "%" (lookup_of c (c_raw2 c))).

(** C08-F4: a byte net/url does not accept, together with an encoded slash *)
Definition g_F4 (c : case) : bool :=
  (guard_F4 (c_raw c) && enc_slash (c_raw c)) || (guard_F4 (c_raw2 c) && enc_slash (c_raw2 c)).

Definition g_F5 (c : case) : bool := guard_F5 (c_raw c) || guard_F5 (c_raw2 c).

Definition check (fx : fixes) (c : case) : verdict :=
  {| v_corr := corr1 fx c (c_raw c) (o_a c) (o_auri c) && corr1 fx c (c_raw2 c) (o_b c) (o_buri c);
     v_prop := prop c;
     v_guards := guards [(1%Z, g_F1 c); (2%Z, g_F2 c && negb (fx2 fx)); (3%Z, g_F3 c && negb (fx3 fx));
                         (4%Z, g_F4 c); (5%Z, g_F5 c && negb (fx5 fx))] |}.

(** * requests through the Envoy entry point *)

Definition corr1_envoy (fx : fixes) (c : case) (raw : string) (o : outcome) (uri : string) : bool :=
  let m := serve_envoy fx (c_rules c) (c_dflt c) (c_host c) raw (c_query c) in
  outcome_eqb m o &&
  match m with
  | Accepted _ _ _ (Some u) => String.eqb (wire_uri u) uri
  | _ => true
  end.

(** the same predicates; captured values are only specified for well-formed paths
    (a malformed escape reaches heimdall only through Envoy: the value is then "") *)
Definition prop_envoy (c : case) : bool :=
  (negb (equiv_paths (c_raw c) (c_raw2 c)) || same_decision (o_a c) (o_b c)) &&
  off_ok (c_rules c) (c_raw c) (o_a c) && off_ok (c_rules c) (c_raw2 c) (o_b c) &&
  (negb (wellformed (c_raw c)) || caps_ok (c_rules c) (c_raw c) (o_a c)) &&
  (negb (wellformed (c_raw2 c)) || caps_ok (c_rules c) (c_raw2 c) (o_b c)) &&
  (negb (wellformed (c_raw c)) || up_ok (c_rules c) (c_raw c) (c_query c) (o_a c) (o_auri c)) &&
  (negb (wellformed (c_raw2 c)) || up_ok (c_rules c) (c_raw2 c) (c_query c) (o_b c) (o_buri c)).

Definition g_F3_envoy (c : case) : bool :=
  guard_F3 (c_rules c) && (mem_ascii "%" (c_raw c) || mem_ascii "%" (c_raw2 c)).

Definition check_envoy (fx : fixes) (c : case) : verdict :=
  {| v_corr := corr1_envoy fx c (c_raw c) (o_a c) (o_auri c) && corr1_envoy fx c (c_raw2 c) (o_b c) (o_buri c);
     v_prop := prop_envoy c;
     v_guards := guards [(1%Z, g_F1 c); (2%Z, g_F2 c && negb (fx2 fx)); (3%Z, g_F3_envoy c && negb (fx3 fx));
                         (4%Z, g_F4 c); (5%Z, g_F5 c && negb (fx5 fx))] |}.

(** * units: rule_impl.go unescape *)

Record ucase := { uc_v : string; uo_off : string; uo_nodecode : string; uo_on : string }.
Definition c8u v a b c := {| uc_v := v; uo_off := a; uo_nodecode := b; uo_on := c |}.

Definition ucheck (fx : fixes) (c : ucase) : verdict :=
  let v := uc_v c in
  {| v_corr := String.eqb (unescape_capture fx Off v) (uo_off c) &&
               String.eqb (unescape_capture fx NoDecode v) (uo_nodecode c) &&
               String.eqb (unescape_capture fx On v) (uo_on c);
     v_prop := negb (wellformed v) ||
               (String.eqb (uo_off c) (decode_keep_slash v) &&
                String.eqb (uo_nodecode c) (decode_keep_slash v) &&
                String.eqb (uo_on c) (unescape_or_empty v));
     v_guards := guards [(2%Z, contains "%2f" v && negb (fx2 fx)); (5%Z, guard_F5 v && negb (fx5 fx))] |}.
