(** Evaluators of the C08 correspondence streams.

    Streams "requests" (heimdall's own HTTP server), "envoy" (grpcv3 request context) and
    "xfu" (target handed over in X-Forwarded-Uri): a rule set (path_params exact, or glob /
    regex as oracle tables recorded from the real matchers), a request path and an equivalent
    re-encoding of it, what the real entry point + repository + rule executor did with both
    on a fresh repository, and whether the repeated requests on a second repository after a
    history of other requests got the same answers ([o_stable]).  Correspondence compares
    the projection the property talks about ([proj_eqb]); the property predicate is built
    from C08/Spec.v.  Stream "units": rule_impl.go's unescape on byte strings
    (supplementary to "requests": the same decoding is observed end to end there). *)
From HV Require Export Base.Prelude Base.GoUrl C08.Model C08.Spec.

Local Open Scope char_scope.

(** * requests *)

Record case := {
  c_rules : list rule; c_dflt : bool; c_host : string; c_raw : string; c_raw2 : string; c_query : string;
  o_a : outcome; o_auri : string; o_b : outcome; o_buri : string;
  (* the same two requests, sent again to the same repository after other requests (the decoded and the
     double-encoded twin of the path, a miss), got the same answers as on the fresh repository *)
  o_stable : bool }.

Definition c8 rs d h r r2 q oa ua ob ub st :=
  {| c_rules := rs; c_dflt := d; c_host := h; c_raw := r; c_raw2 := r2; c_query := q;
     o_a := oa; o_auri := ua; o_b := ob; o_buri := ub; o_stable := st |}.
Definition px v := PExact v.
Definition pt t := PTable t.
Definition rt p ps := {| rt_pat := p; rt_params := ps |}.
Definition rwr s c a q := {| rw_scheme := s; rw_cut := c; rw_add := a; rw_strip_q := q |}.
Definition be h r := {| b_host := h; b_rw := r |}.
Definition rl i s r b := {| r_id := i; r_setting := s; r_routes := r; r_backend := b |}.
Definition hu s h p rp q := {| u_scheme := s; u_host := h; u_path := p; u_rawpath := rp; u_query := q |}.

(** ** the property on the implementation's observation (vocabulary of C08/Spec.v) *)

(** correspondence compares the projection of the answer the property talks about:
    its kind, the rule, the captured values (as a map) and the PATH of the request line
    sent upstream (what URL.RequestURI() writes before '?').  The other parts of the
    upstream URL (scheme, host, query, the RawPath field as such) are C15's. *)
Definition proj_eqb (m o : outcome) (uri : string) : bool :=
  match m, o with
  | BadRequest, BadRequest | NoRule, NoRule | Precondition, Precondition => true
  | Accepted r1 d1 c1 u1, Accepted r2 d2 c2 u2 =>
    String.eqb r1 r2 && Bool.eqb d1 d2 && list_eqb cap_eqb (sort_caps c1) (sort_caps c2) &&
    match u1, u2 with
    | Some u, Some _ =>
      let w := wire_path u in
      String.eqb (if is_empty w then "/"%string else w) (fst (cut_on "?" uri))
    | None, None => true
    | _, _ => false
    end
  | _, _ => false
  end.

Definition corr1 (fx : fixes) (c : case) (raw : string) (o : outcome) (uri : string) : bool :=
  proj_eqb (serve fx (c_rules c) (c_dflt c) (c_host c) raw (c_query c)) o uri.

(** rule ids are unique in the generated rule sets *)
Definition rule_of (rules : list rule) (rid : string) : option rule :=
  find (fun r => String.eqb (r_id r) rid) rules.

(** an encoded slash is never accepted by a rule with setting off nor by the default rule *)
Definition off_ok (rules : list rule) (raw : string) (o : outcome) : bool :=
  match o with
  | Accepted rid d _ _ =>
    negb (enc_slash raw &&
          (d || match rule_of rules rid with Some r => setting_eqb (r_setting r) Off | None => true end))
  | _ => true
  end.

(** every captured value is the decoding (per setting) of the segment at the
    wildcard's position — for one of the path expressions of the matched rule *)
Definition caps_ok (rules : list rule) (raw : string) (o : outcome) : bool :=
  match o with
  | Accepted rid false cs _ =>
    match rule_of rules rid with
    | Some r =>
      existsb (fun t => match route_caps (rt_pat t) (segs_of raw) with
                        | Some exp => list_eqb cap_eqb
                                        (sort_caps (map (fun kv => (fst kv, spec_capture (r_setting r) (snd kv))) exp))
                                        (sort_caps cs)
                        | None => false
                        end) (r_routes r)
    | None => false
    end
  | Accepted _ true cs _ => is_nil cs
  | _ => true
  end.

(** the path of the request line sent upstream (observed as URL.RequestURI()): under
    `no_decode` the request path as it is, under `on` the decoded path in canonical
    escaping — after the rule's prefix rewriting, if any.  Applies when the path has
    an encoded slash and the expected path is one net/url writes unchanged. *)
Definition up_ok (rules : list rule) (raw : string) (o : outcome) (uri : string) : bool :=
  match o with
  | Accepted rid false _ (Some _) =>
    match rule_of rules rid with
    | Some r =>
      match r_backend r with
      | Some b =>
        let base := match r_setting r with
                    | On => escape MPath (unescape_or_empty raw)
                    | _ => raw
                    end in
        let exp := match b_rw b with Some rw => transform_path rw base | None => base end in
        if enc_slash raw && valid_encoded exp && wellformed exp && negb (is_empty exp) &&
           negb (setting_eqb (r_setting r) Off)
        then String.eqb (fst (cut_on "?" uri)) exp
        else true
      | None => true
      end
    | None => false
    end
  | _ => true
  end.

(** the precondition answer: when every path expression that matches the path as it
    is spelled belongs to an `off` rule, a path with an encoded slash is answered with
    the precondition error (or, without default rule and with path_params on all of
    them, possibly with "no rule") *)
Definition live_routes (rules : list rule) (raw : string) : list (rule * route) :=
  flat_map (fun r => map (fun t => (r, t)) (filter (fun t => rmatch (rt_pat t) (segs_of raw)) (r_routes r))) rules.

Definition precond_ok (rules : list rule) (dflt : bool) (raw : string) (o : outcome) : bool :=
  if enc_slash raw && valid_encoded raw && wellformed raw && has_prefix "/" raw &&
     forallb (fun rt => setting_eqb (r_setting (fst rt)) Off) (live_routes rules raw)
  then match o with
       | Precondition => true
       | BadRequest => true
       | NoRule => negb dflt && forallb (fun rt => negb (is_nil (rt_params (snd rt)))) (live_routes rules raw)
       | Accepted _ _ _ _ => false
       end
  else true.

Definition prop (c : case) : bool :=
  (negb (equiv_paths (c_raw c) (c_raw2 c)) || same_decision (o_a c) (o_b c)) &&
  off_ok (c_rules c) (c_raw c) (o_a c) && off_ok (c_rules c) (c_raw2 c) (o_b c) &&
  caps_ok (c_rules c) (c_raw c) (o_a c) && caps_ok (c_rules c) (c_raw2 c) (o_b c) &&
  up_ok (c_rules c) (c_raw c) (o_a c) (o_auri c) &&
  up_ok (c_rules c) (c_raw2 c) (o_b c) (o_buri c) &&
  precond_ok (c_rules c) (c_dflt c) (c_raw c) (o_a c) && precond_ok (c_rules c) (c_dflt c) (c_raw2 c) (o_b c) &&
  o_stable c.

(** ** guards of the findings on the generated input (C08/Spec.v) *)

Definition g_F1 (c : case) : bool := guard_F1 (c_rules c) (c_raw c) (c_raw2 c).

Definition g_F2 (c : case) : bool := guard_F2 (c_raw c) (c_raw2 c).

(** the path the repository looks up for a request target ("" if the target is refused) *)
Definition lookup_of (c : case) (raw : string) : string :=
  match view (c_host c) raw (c_query c) with
  | Some u => lookup_path u
  | None => EmptyString
  end.

(** C08-F3: an `off` rule with path_params (and an escape in the looked-up path,
    which may come from EscapedPath re-encoding the request path) *)
Definition g_F3 (c : case) : bool :=
  guard_F3 (c_rules c) &&
  (mem_ascii "%" (lookup_of c (c_raw c)) || mem_ascii "%" (lookup_of c (c_raw2 c))).

(** C08-F4: a byte net/url does not accept, together with an encoded slash *)
Definition g_F4 (c : case) : bool :=
  (guard_F4 (c_raw c) && enc_slash (c_raw c)) || (guard_F4 (c_raw2 c) && enc_slash (c_raw2 c)).

Definition g_F5 (c : case) : bool := guard_F5 (c_raw c) || guard_F5 (c_raw2 c).

Definition check (fx : fixes) (c : case) : verdict :=
  {| v_corr := corr1 fx c (c_raw c) (o_a c) (o_auri c) && corr1 fx c (c_raw2 c) (o_b c) (o_buri c) && o_stable c;
     v_prop := prop c;
     v_guards := guards [(1%Z, g_F1 c); (2%Z, g_F2 c && negb (fx2 fx)); (3%Z, g_F3 c && negb (fx3 fx));
                         (4%Z, g_F4 c); (5%Z, g_F5 c && negb (fx5 fx))] |}.

(** * requests through the Envoy entry point *)

Definition corr1_envoy (fx : fixes) (c : case) (raw : string) (o : outcome) (uri : string) : bool :=
  proj_eqb (serve_envoy fx (c_rules c) (c_dflt c) (c_host c) raw (c_query c)) o uri.

(** the same predicates; captured values are only specified for well-formed paths
    (a malformed escape reaches heimdall only through Envoy: the value is then "") *)
Definition prop_envoy (c : case) : bool :=
  (negb (equiv_paths (c_raw c) (c_raw2 c)) || same_decision (o_a c) (o_b c)) &&
  off_ok (c_rules c) (c_raw c) (o_a c) && off_ok (c_rules c) (c_raw2 c) (o_b c) &&
  (negb (wellformed (c_raw c)) || caps_ok (c_rules c) (c_raw c) (o_a c)) &&
  (negb (wellformed (c_raw2 c)) || caps_ok (c_rules c) (c_raw2 c) (o_b c)) &&
  (negb (wellformed (c_raw c)) || up_ok (c_rules c) (c_raw c) (o_a c) (o_auri c)) &&
  (negb (wellformed (c_raw2 c)) || up_ok (c_rules c) (c_raw2 c) (o_b c) (o_buri c)) &&
  precond_ok (c_rules c) (c_dflt c) (c_raw c) (o_a c) && precond_ok (c_rules c) (c_dflt c) (c_raw2 c) (o_b c) &&
  o_stable c.

Definition g_F3_envoy (c : case) : bool :=
  guard_F3 (c_rules c) && (mem_ascii "%" (c_raw c) || mem_ascii "%" (c_raw2 c)).

Definition check_envoy (fx : fixes) (c : case) : verdict :=
  {| v_corr := corr1_envoy fx c (c_raw c) (o_a c) (o_auri c) && corr1_envoy fx c (c_raw2 c) (o_b c) (o_buri c) && o_stable c;
     v_prop := prop_envoy c;
     v_guards := guards [(1%Z, g_F1 c); (2%Z, g_F2 c && negb (fx2 fx)); (3%Z, g_F3_envoy c && negb (fx3 fx));
                         (4%Z, g_F4 c); (5%Z, g_F5 c && negb (fx5 fx))] |}.

(** * requests delivered through X-Forwarded-Uri (the proxy's own request goes to /zz-own) *)

Definition own_path : string := "/zz-own".

Definition corr1_xfu (fx : fixes) (c : case) (raw : string) (o : outcome) (uri : string) : bool :=
  proj_eqb (serve_xfu fx (c_rules c) (c_dflt c) (c_host c) own_path raw (c_query c)) o uri.

(** C08-F6: an X-Forwarded-Uri that does not parse *)
Definition g_F6 (c : case) : bool := negb (wellformed (c_raw c)) || negb (wellformed (c_raw2 c)).

Definition check_xfu (fx : fixes) (c : case) : verdict :=
  {| v_corr := corr1_xfu fx c (c_raw c) (o_a c) (o_auri c) && corr1_xfu fx c (c_raw2 c) (o_b c) (o_buri c) && o_stable c;
     v_prop := prop_envoy c;
     v_guards := guards [(1%Z, g_F1 c); (4%Z, g_F4 c); (6%Z, g_F6 c && negb (fx6 fx))] |}.

(** * units: rule_impl.go unescape *)

Record ucase := { uc_v : string; uo_off : string; uo_nodecode : string; uo_on : string }.
Definition c8u v a b c := {| uc_v := v; uo_off := a; uo_nodecode := b; uo_on := c |}.

Definition ucheck (fx : fixes) (c : ucase) : verdict :=
  let v := uc_v c in
  {| v_corr := String.eqb (unescape_capture fx Off v) (uo_off c) &&
               String.eqb (unescape_capture fx NoDecode v) (uo_nodecode c) &&
               String.eqb (unescape_capture fx On v) (uo_on c);
     v_prop := negb (wellformed v) ||
               (String.eqb (uo_off c) (decode_keep_slash v) &&
                String.eqb (uo_nodecode c) (decode_keep_slash v) &&
                String.eqb (uo_on c) (unescape_or_empty v));
     v_guards := guards [(2%Z, contains "%2f" v && negb (fx2 fx)); (5%Z, guard_F5 v && negb (fx5 fx))] |}.
