(** Evaluator of the C08 correspondence streams.

    Stream "requests": a rule set, a request path and an equivalent re-encoding
    of it, and what the real server + requestcontext + repository + rule did with
    both.  Stream "units": rule_impl.go's unescape on byte strings. *)
From HV Require Export Base.Prelude Base.GoUrl C08.Model.

Local Open Scope char_scope.

(** * requests *)

Record case := {
  c_rules : list rule; c_dflt : bool; c_host : string; c_raw : string; c_raw2 : string; c_query : string;
  o_a : outcome; o_auri : string; o_b : outcome; o_buri : string }.

Definition c8 rs d h r r2 q oa ua ob ub :=
  {| c_rules := rs; c_dflt := d; c_host := h; c_raw := r; c_raw2 := r2; c_query := q;
     o_a := oa; o_auri := ua; o_b := ob; o_buri := ub |}.
Definition rt p ps := {| rt_pat := p; rt_params := ps |}.
Definition rwr s c a q := {| rw_scheme := s; rw_cut := c; rw_add := a; rw_strip_q := q |}.
Definition be h r := {| b_host := h; b_rw := r |}.
Definition rl i s r b := {| r_id := i; r_setting := s; r_routes := r; r_backend := b |}.
Definition hu s h p rp q := {| u_scheme := s; u_host := h; u_path := p; u_rawpath := rp; u_query := q |}.

(** RFC 3986 §6.2.2 normal form: escapes of unreserved octets decoded, hex digits
    of the others in upper case.  Two well-formed paths are equivalent
    re-encodings of each other iff their normal forms are equal. *)
Fixpoint norm (s : string) : string :=
  match s with
  | EmptyString => EmptyString
  | String c r =>
    match r with
    | String a (String b r') =>
      if Ascii.eqb c "%" && ishex a && ishex b then
        let v := hexbyte a b in
        if unreserved v then String v (norm r')
        else String "%" (String (hexdig (unhex a)) (String (hexdig (unhex b)) (norm r')))
      else String c (norm r)
    | _ => String c (norm r)
    end
  end.

Definition wellformed (s : string) : bool := match unescape s with Some _ => true | None => false end.

Definition equiv_paths (a b : string) : bool :=
  wellformed a && wellformed b && String.eqb (norm a) (norm b).

Definition enc_slash_ci (s : string) : bool := contains "%2F" s || contains "%2f" s.

(** the model's answer and the request line of its upstream URL against the observation *)
Definition corr1 (fx : fixes) (c : case) (raw : string) (o : outcome) (uri : string) : bool :=
  let m := serve fx (c_rules c) (c_dflt c) (c_host c) raw (c_query c) in
  outcome_eqb m o &&
  match m with
  | Accepted _ _ _ (Some u) => String.eqb (wire_uri u) uri
  | _ => true
  end.

(** what the property compares between a request and its re-encoding *)
Definition same_decision (a b : outcome) : bool :=
  match a, b with
  | BadRequest, BadRequest | NoRule, NoRule | Precondition, Precondition => true
  | Accepted r1 d1 c1 _, Accepted r2 d2 c2 _ =>
    String.eqb r1 r2 && Bool.eqb d1 d2 && list_eqb cap_eqb (sort_caps c1) (sort_caps c2)
  | _, _ => false
  end.

Definition setting_of (rules : list rule) (rid : string) : setting :=
  match find (fun r => String.eqb (r_id r) rid) rules with
  | Some r => r_setting r
  | None => Off
  end.

(** an encoded slash is never accepted by a rule with setting off nor by the default rule *)
Definition off_ok (rules : list rule) (raw : string) (o : outcome) : bool :=
  match o with
  | Accepted rid d _ _ =>
    negb (enc_slash_ci raw && (d || setting_eqb (setting_of rules rid) Off))
  | _ => true
  end.

(** a captured value shows "%2F" only if the request contained an encoded slash
    (or an encoded "%" in front of "2F") *)
Definition caps_ok (raw : string) (o : outcome) : bool :=
  match o with
  | Accepted _ _ cs _ =>
    negb (existsb (fun kv => contains "%2F" (snd kv)) cs) ||
    enc_slash_ci raw || contains "%2F" (unescape_or_empty raw)
  | _ => true
  end.

Definition prop (c : case) : bool :=
  (negb (equiv_paths (c_raw c) (c_raw2 c)) || same_decision (o_a c) (o_b c)) &&
  off_ok (c_rules c) (c_raw c) (o_a c) && off_ok (c_rules c) (c_raw2 c) (o_b c) &&
  caps_ok (c_raw c) (o_a c) && caps_ok (c_raw2 c) (o_b c) &&
  outcome_eqb (serve repaired (c_rules c) (c_dflt c) (c_host c) (c_raw c) (c_query c)) (o_a c) &&
  outcome_eqb (serve repaired (c_rules c) (c_dflt c) (c_host c) (c_raw2 c) (c_query c)) (o_b c).

(** ** guards of the findings on the generated input *)

(** C08-F1: a segment that was re-encoded meets a literal segment of some route (in either spelling) *)
Fixpoint f1_pat (pat : list seg) (segs segs' : list string) : bool :=
  match pat, segs, segs' with
  | Lit l :: p, s :: r, s' :: r' =>
    (negb (String.eqb s s') && (String.eqb l s || String.eqb l s')) || f1_pat p r r'
  | Wild _ :: p, _ :: r, _ :: r' => f1_pat p r r'
  | _, _, _ => false
  end.

Definition segs_of (raw : string) : list string :=
  match path_segs raw with Some l => l | None => [] end.

Definition g_F1 (c : case) : bool :=
  existsb (fun r => existsb (fun t => f1_pat (rt_pat t) (segs_of (c_raw c)) (segs_of (c_raw2 c))) (r_routes r))
          (c_rules c).

Definition g_F2 (c : case) : bool := contains "%2f" (c_raw c) || contains "%2f" (c_raw2 c).

Definition has_off_params (rules : list rule) : bool :=
  existsb (fun r => setting_eqb (r_setting r) Off && existsb (fun t => negb (is_nil (rt_params t))) (r_routes r)) rules.

Definition g_F3 (c : case) : bool :=
  has_off_params (c_rules c) && (mem_ascii "%" (c_raw c) || mem_ascii "%" (c_raw2 c)).

Definition g_F4 (c : case) : bool :=
  (negb (valid_encoded (c_raw c)) && enc_slash_ci (c_raw c)) ||
  (negb (valid_encoded (c_raw2 c)) && enc_slash_ci (c_raw2 c)).

Definition g_F5 (c : case) : bool :=
  contains slash_ph (unescape_or_empty (c_raw c)) || contains slash_ph (unescape_or_empty (c_raw2 c)).

Definition check (fx : fixes) (c : case) : verdict :=
  {| v_corr := corr1 fx c (c_raw c) (o_a c) (o_auri c) && corr1 fx c (c_raw2 c) (o_b c) (o_buri c);
     v_prop := prop c;
     v_guards := guards [(1%Z, g_F1 c); (2%Z, g_F2 c && negb (fx2 fx)); (3%Z, g_F3 c && negb (fx3 fx));
                         (4%Z, g_F4 c); (5%Z, g_F5 c)] |}.

(** * units: rule_impl.go unescape *)

Record ucase := { uc_v : string; uo_off : string; uo_nodecode : string; uo_on : string }.
Definition c8u v a b c := {| uc_v := v; uo_off := a; uo_nodecode := b; uo_on := c |}.

Definition ucheck (fx : fixes) (c : ucase) : verdict :=
  let v := uc_v c in
  {| v_corr := String.eqb (unescape_capture fx Off v) (uo_off c) &&
               String.eqb (unescape_capture fx NoDecode v) (uo_nodecode c) &&
               String.eqb (unescape_capture fx On v) (uo_on c);
     v_prop := String.eqb (unescape_capture repaired Off v) (uo_off c) &&
               String.eqb (unescape_capture repaired NoDecode v) (uo_nodecode c) &&
               String.eqb (unescape_capture repaired On v) (uo_on c) &&
               (negb (contains "%2F" (uo_nodecode c)) || enc_slash_ci v || contains "%2F" (unescape_or_empty v)
                || negb (wellformed v));
     v_guards := guards [(2%Z, contains "%2f" v && negb (fx2 fx));
                         (5%Z, contains slash_ph (unescape_or_empty v) || contains "$$$" v)] |}.
