(** Evaluator of the C06 correspondence stream.

    A case is a history of rule-set operations, a probe set (method, path) and,
    for every prefix of the history, what the implementation did:
    the outcome of the operation (ok / error kind / panic), the rule found for
    every probe in the repository that went through the history, and the rule
    found for every probe in a real repository freshly loaded with the rule sets
    the implementation has accepted so far.

    [v_corr]  the transcribed tree (C06/Tree.v) gives the same outcome class
              (applied / rejected / crashed) and the same answers, for the history
              and for the fresh load; so does the abstract index (C06/Model.v) —
              except, for a tree with the repair of C06-F3 / C06-F5 reverted, inside
              the guards of those two findings.
    [v_prop]  the property on the implementation's observation, judged for every
              prefix up to (excluding) the first re-creation of an existing rule
              set: the operation was accepted iff the specification says it can be
              applied; the implementation's own fresh load of what it holds
              succeeded; the history repository and that fresh repository find the
              same rule and leave the same captures in the request, for every
              probe.  No model is part of this predicate. *)
From HV Require Export Base.Prelude C06.Pat C06.Model C06.Spec C06.Tree.

Record step_obs := { o_res : option err; o_hist : list (option nat); o_fresh_ok : bool; o_fresh : list (option nat);
                     o_hcap : list nat; o_fcap : list nat }.

Record case := { c_ops : list op; c_probes : list (nat * str); c_obs : list step_obs }.

Definition uid_of (r : option rule) : option nat :=
  match r with Some x => Some (d_uid (r_def x)) | None => None end.

Definition ans_eqb : list (option nat) -> list (option nat) -> bool := list_eqb (option_eqb Nat.eqb).

(** the outcome of an operation as far as the property talks about it: applied,
    rejected (whatever the error says), or a crash *)
Definition res_class (r : option err) : nat :=
  match r with None => 0 | Some EPanic => 2 | Some _ => 1 end.

Definition res_eqb (a b : option err) : bool := Nat.eqb (res_class a) (res_class b).

(** the abstract index has no node paths, hence no slice expression that can go
    out of range: where the tree panics inside Delete it reports a failed delete *)
Definition res_eqb_m (m o : option err) : bool :=
  res_eqb m (match o with Some EPanic => Some EDelete | x => x end).

Section Eval.
Variable faithful : bool.   (* false: lookups as the code is now; true: as before e897fef (C02-F1) *)
Variable fx : fixes.        (* which of fixes/C06-F3/F4/F5.diff the implementation contains *)
Variable f6 : bool.         (* fixes/C06-F6.diff: the processor refuses rule sets with a duplicate rule id *)

(** what the processor makes of an operation (C06/Processor.v [san1]) *)
Definition via_processor (o : op) : op :=
  if f6 && dupid_set (op_set o) then Refused (op_src o) else o.

Definition t_answers (t : tree) (probes : list (nat * str)) : list (option nat) :=
  map (fun pr => uid_of (t_find_rule faithful t (snd pr) (accepts (fst pr)))) probes.

Definition m_answers (d : db) (probes : list (nat * str)) : list (option nat) :=
  map (fun pr => uid_of (find_rule faithful d (snd pr) (accepts (fst pr)))) probes.

(** load rule sets into an empty tree repository; false if one of them is rejected *)
Fixpoint t_load (st : trepo) (S : sets) : trepo * bool :=
  match S with
  | [] => (st, true)
  | (s, ds) :: r =>
    match t_step fx st (Add s ds) with
    | (st', None) => t_load st' r
    | (st', Some _) => let (st'', _) := t_load st' r in (st'', false)
    end
  end.

(** the rule sets the implementation holds, from its own accept / reject answers *)
Definition real_step (S : sets) (o : op) (accepted : bool) : sets :=
  if accepted then
    match o with
    | Add s ds | Update s ds => put_set S s ds
    | Delete s => del_set S s
    | Refused _ => S
    end
  else S.

Definition is_ok (r : option err) : bool := match r with None => true | Some _ => false end.

Definition sets_eqb : sets -> sets -> bool :=
  list_eqb (fun a b => Nat.eqb (fst a) (fst b) && list_eqb rdef_eqb (snd a) (snd b)).

(** two equal rule objects are loaded at once *)
Fixpoint has_dup (l : list rule) : bool :=
  match l with
  | [] => false
  | r :: t => mem_rule r t || has_dup t
  end.

Definition non_nil {A} (l : list A) : bool := negb (is_nil l).

(** the guards that fire on the prefix walked so far *)
Definition guards_now (d1 d2 : list nat) (dup : bool) : list Z :=
  guards [(1%Z, non_nil d1); (2%Z, non_nil d2); (6%Z, dup)].

Definition first_some {A} (a b : option A) : option A := match a with Some _ => a | None => b end.

(** walk along the history.  Returns
    - correspondence with the tree, with the abstract index;
    - the guards at the first JUDGED step at which the property predicate fails on
      the implementation's observation (None: it holds at every judged step);
    - the same for the predicate evaluated on the tree model's own answers (which
      tells whether the model predicts a failure on this history).

    A step is judged until the history creates a rule set that exists (the steps
    before it are judged).

    The property predicate of a step uses the specification and the observation
    only: the operation was applied iff the specification says it can be; the
    implementation's own fresh load of what it holds succeeded; history and fresh
    repository give the same rule and leave the same captures in the request, for
    every probe.

    [bl]: since fix 003095f the repository deletes the very route OBJECT; the models
    compare routes structurally, which is the same unless two equal rule objects
    were loaded at once (possible with duplicate ids in a set, or when an existing
    set is created again); from the step after that happened the models are no
    longer compared with the implementation (the property still is evaluated). *)
Fixpoint walk (probes : list (nat * str)) (ops : list op) (obs : list step_obs)
         (tr : trepo) (mr : repo) (Sreal Sspec ST : sets) (d1 d2 : list nat) (dup ill bl : bool)
  : bool * bool * option (list Z) * option (list Z) :=
  match ops, obs with
  | [], [] => (true, true, None, None)
  | o0 :: ops', ob :: obs' =>
    let o := via_processor o0 in
    let (tr', tres) := t_step fx tr o in
    let (mr', mres) := step fx mr o in
    let Sreal' := real_step Sreal o0 (is_ok (o_res ob)) in
    let ST' := real_step ST o (is_ok tres) in
    let Sspec' := spec_step Sspec o in
    let (fr, fok) := t_load t_empty_repo Sreal' in
    let (ft, ftok) := if sets_eqb Sreal' ST' then (fr, fok) else t_load t_empty_repo ST' in
    let hist_t := t_answers (index tr') probes in
    let ct := bl ||
              (res_eqb tres (o_res ob) && ans_eqb hist_t (o_hist ob) &&
               Bool.eqb fok (o_fresh_ok ob) && ans_eqb (t_answers (index fr) probes) (o_fresh ob)) in
    let cm := bl || (res_eqb_m mres (o_res ob) && ans_eqb (m_answers (index mr') probes) (o_hist ob)) in
    let ill' := ill || match o with Add s _ => has_set Sspec s | _ => false end in
    let dup' := dup || dupid_set (op_set o) in
    let d1' := dirty1_step Sspec o d1 in
    let d2' := dirty2_step Sspec o d2 in
    let pr := Bool.eqb (is_ok (o_res ob)) (spec_ok Sspec o) &&
              o_fresh_ok ob && ans_eqb (o_hist ob) (o_fresh ob) && list_eqb Nat.eqb (o_hcap ob) (o_fcap ob) in
    let prT := Bool.eqb (is_ok tres) (spec_ok Sspec o) && ftok && ans_eqb hist_t (t_answers (index ft) probes) in
    let g := guards_now d1' d2' dup' in
    let here (p : bool) : option (list Z) := if ill' || p then None else Some g in
    let bl' := bl || (fix_F4 fx && has_dup (known tr')) in
    let '(a, b, f, t) := walk probes ops' obs' tr' mr' Sreal' Sspec' ST' d1' d2' dup' ill' bl' in
    (ct && a, cm && b, first_some (here pr) f, first_some (here prT) t)
  | _, _ => (false, false, Some [], Some [])
  end.

Definition check (c : case) : verdict :=
  let ops := c_ops c in
  let '(ct, cm, f, t) := walk (c_probes c) ops (c_obs c) t_empty_repo empty [] [] [] [] [] false false false in
  (* where the abstract index is not claimed to behave like the code: node
     compression (C06-F3) and stale key names (C06-F5), unless repaired *)
  let g3 := negb (fix_F3 fx) && guard_F3 ops in
  let g5 := negb (fix_F5 fx) && guard_F5 ops in
  let pinned := guards [(3%Z, g3); (4%Z, negb (fix_F4 fx) && guard_F4 ops); (5%Z, g5)] in
  {| v_corr := ct && (g3 || g5 || cm);
     v_prop := match f with None => true | Some _ => false end;
     (* the guards are reported only where they explain something: at the first
        failing step, or where the tree model predicts a failure the implementation
        does not show (a repaired finding); a deviation from the model on a history
        on which neither fails is an unexplained correspondence break *)
     v_guards := match f, t with
                 | Some g, _ => g ++ pinned
                 | None, Some g => g ++ pinned
                 | None, None => []
                 end |}.

End Eval.

(* short constructors for the generated case files *)
Definition sl (s : string) : str := list_ascii_of_string s.
Definition rd (id uid body : nat) (bt : bool) (meth : list nat) (paths : list string) : rdef :=
  {| d_id := id; d_uid := uid; d_body := body; d_bt := bt; d_meth := meth; d_paths := map sl paths |}.
Definition A := Add.
Definition U := Update.
Definition D := Delete.
Definition R := Refused.
Definition er (n : nat) : option err :=
  match n with
  | 0 => None | 1 => Some EInvalidPath | 2 => Some EConstraint | 3 => Some EDelete | 4 => Some EPanic | _ => Some ELoad
  end.
(* answers: 0 = no rule, n+1 = rule with label n *)
Definition an (l : list nat) : list (option nat) := map (fun n => match n with 0 => None | S k => Some k end) l.
Definition so (r : nat) (hist : list nat) (fok : bool) (fresh : list nat) (hcap fcap : list nat) : step_obs :=
  {| o_res := er r; o_hist := an hist; o_fresh_ok := fok; o_fresh := an fresh; o_hcap := hcap; o_fcap := fcap |}.
Definition pb (m : nat) (p : string) : nat * str := (m, sl p).
Definition cs (ops : list op) (probes : list (nat * str)) (obs : list step_obs) : case :=
  {| c_ops := ops; c_probes := probes; c_obs := obs |}.
