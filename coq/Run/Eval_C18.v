(** Evaluators of the C18 correspondence streams.  For each generated history
    and the implementation's observation (per event: the processor calls with
    their results, the returned error, the provider's stored hashes afterwards)
    they compute (i) model = observation, (ii) the property predicate
    [trace_ok] on the IMPLEMENTATION's calls, (iii) the finding guards that fire
    on the history. *)
From HV Require Export Base.Prelude C18.Model C18.ModelBlob C18.ModelK8s C18.Spec C18.Proofs C18.ProofsBlob C18.ProofsK8s
  C18.Accept C18.AcceptProviders C18.AcceptFs C18.AcceptK8s C18.Quiesce.

(** the processor oracle of a case: contents it rejects, sources whose deletion it refuses *)
Definition mk_oracle (rej : list cid) (undel : list nat) : oracle :=
  {| accepts := fun c => negb (existsb (Nat.eqb c) rej);
     deletable := fun s => negb (existsb (Nat.eqb (s_n s)) undel) |}.

(** what was observed of one event *)
(** [o_err] (the error the handler returned: it is only logged by the callers) is
    recorded but not compared — the property does not talk about it; [o_known] are the
    "known content hashes" the property's record names as its state; [o_panic]: the
    handler panicked (recovered by the driver) — the models never do. *)
Record ostep := { o_calls : list pcall; o_err : bool; o_known : list (option cid); o_panic : bool }.

Definition ostep_eqb (a b : ostep) : bool :=
  list_eqb pcall_eqb (o_calls a) (o_calls b) &&
  list_eqb (option_eqb Nat.eqb) (o_known a) (o_known b) && Bool.eqb (o_panic a) (o_panic b).

Definition no_panic (l : list ostep) : bool := negb (existsb o_panic l).

(* [snapshot] (stored hashes of sources 0..n-1) comes from C18.AcceptProviders *)

Definition to_ostep (n : nat) (h : hres) : ostep :=
  {| o_calls := h_calls h; o_err := h_err h; o_known := snapshot (h_st h) n; o_panic := false |}.

(** ** file system *)
Record fs_case := {
  fc_n : nat;                 (* number of files in the directory's universe *)
  fc_rej : list cid; fc_undel : list nat;
  fc_hist : list fs_event;
  fc_obs : list ostep }.

Definition check_fs (impl_fixed : bool) (c : fs_case) : verdict :=
  let O := mk_oracle (fc_rej c) (fc_undel c) in
  let model := map (to_ostep (fc_n c)) (snd (fs_run O impl_fixed (fc_hist c))) in
  {| v_corr := list_eqb ostep_eqb model (fc_obs c);
     v_prop := negb (is_nil (fc_undel c)) ||
               (no_panic (fc_obs c) && Nat.eqb (length (fc_obs c)) (length (fc_hist c)) &&
                trace_ok (accepts O) (mk_trace (fs_views (accepts O) (fc_hist c)) (map o_calls (fc_obs c))));
     v_guards := guards [(2%Z, negb impl_fixed && fs_guard_F2 (fc_hist c));
                         (4%Z, negb impl_fixed && fs_guard_F4 (fc_hist c))] |}.

(** ** file system provider -> real processor -> real repository *)
Record fsr_case := { fr_case : fs_case; fr_active : list (list (option cid)) }.

(** what the ideal repository holds per file after each event, according to the model's calls *)
Fixpoint active_steps (a : amap) (n : nat) (hs : list hres) : list (list (option cid)) :=
  match hs with
  | [] => []
  | h :: r => let a' := apply_calls a (h_calls h) in map (fun f => a' (Sid f)) (seq 0 n) :: active_steps a' n r
  end.

(** and according to the specification: the latest valid content seen, per file *)
Fixpoint spec_active_steps (acc : cid -> bool) (m : seen_map) (n : nat) (views : list (list (sid * sobs)))
  : list (list (option cid)) :=
  match views with
  | [] => []
  | v :: r => let m' := seen_step m {| t_obs := v; t_calls := [] |} in
              map (fun f => latest_valid acc (m' (Sid f))) (seq 0 n) :: spec_active_steps acc m' n r
  end.

Definition check_fsr (impl_fixed : bool) (c : fsr_case) : verdict :=
  let fc := fr_case c in
  let O := mk_oracle (fc_rej fc) (fc_undel fc) in
  let v := check_fs impl_fixed fc in
  let lo := list_eqb (option_eqb Nat.eqb) in
  {| v_corr := v_corr v &&
               list_eqb lo (active_steps a_empty (fc_n fc) (snd (fs_run O impl_fixed (fc_hist fc)))) (fr_active c);
     v_prop := v_prop v &&
               list_eqb lo (spec_active_steps (accepts O) seen_empty (fc_n fc) (fs_views (accepts O) (fc_hist fc)))
                        (fr_active c);
     v_guards := v_guards v |}.

Definition fsr c a := {| fr_case := c; fr_active := a |}.

(** ** file system provider with real event delivery (Start, fsnotify, watchFiles) *)
Record fsw_case := {
  fw_n : nat; fw_rej : list cid;
  fw_hist : list fs_event;              (* the operations that were carried out, as changes + notifications *)
  fw_obs : list (list pcall);           (* ACCEPTED calls per event of [fw_hist] *)
  fw_start_err : bool;                  (* Start returned an error *)
  fw_stalled : bool;                    (* the watcher stopped delivering events *)
  fw_nops : nat }.                      (* operations the case wanted to carry out *)

Definition count_notifies (h : list fs_event) : nat :=
  length (filter (fun e => match e with FsNotify _ _ => true | _ => false end) h).

Definition check_fsw (c : fsw_case) : verdict :=
  let O := mk_oracle (fw_rej c) [] in
  let run := snd (fs_run O true (fw_hist c)) in
  let model := map (fun h => filter p_ok (h_calls h)) run in
  (* Start fails exactly when the initial load meets a file it cannot load *)
  let scan_err := existsb (fun eh => match fst eh with FsScan _ => h_err (snd eh) | _ => false end)
                          (combine (fw_hist c) run) in
  let complete := negb (fw_stalled c) &&
                  (if fw_start_err c then true else Nat.eqb (count_notifies (fw_hist c)) (fw_nops c)) in
  {| v_corr := list_eqb (list_eqb pcall_eqb) model (fw_obs c) && Bool.eqb scan_err (fw_start_err c) && complete;
     v_prop := complete && Nat.eqb (length (fw_obs c)) (length (fw_hist c)) &&
               trace_ok (accepts O) (mk_trace (fs_views (accepts O) (fw_hist c)) (fw_obs c));
     v_guards := [] |}.

Definition fwc n rej h o se st k :=
  {| fw_n := n; fw_rej := rej; fw_hist := h; fw_obs := o; fw_start_err := se; fw_stalled := st; fw_nops := k |}.

(** ** HTTP endpoint *)
Record http_case := {
  hc_n : nat;
  hc_rej : list cid; hc_undel : list nat;
  hc_hist : list http_event;
  hc_obs : list ostep }.

Definition check_http (c : http_case) : verdict :=
  let O := mk_oracle (hc_rej c) (hc_undel c) in
  let model := map (to_ostep (hc_n c)) (snd (http_run O (hc_hist c))) in
  {| v_corr := list_eqb ostep_eqb model (hc_obs c);
     v_prop := negb (is_nil (hc_undel c)) ||
               (no_panic (hc_obs c) && Nat.eqb (length (hc_obs c)) (length (hc_hist c)) &&
                (* either reading of "the endpoint cannot be reached" is accepted: the statement fixes neither *)
                (trace_ok (accepts O) (mk_trace (http_views_r true (hc_hist c)) (map o_calls (hc_obs c))) ||
                 trace_ok (accepts O) (mk_trace (http_views_r false (hc_hist c)) (map o_calls (hc_obs c)))));
     v_guards := [] |}.

(** ** HTTP endpoint polled by the provider's own scheduler (newProvider, Start, gocron) *)
Record hsched_case := {
  hs_rej : list cid;
  hs_hist : list http_event;          (* two polls per phase that was observed *)
  hs_obs : list (list pcall);         (* the ACCEPTED calls of each phase, attributed to its first poll *)
  hs_stalled : bool;                  (* the provider stopped polling *)
  hs_overlap : bool;                  (* two polls of the endpoint overlapped *)
  hs_phases : nat }.

Definition check_hsched (c : hsched_case) : verdict :=
  let O := mk_oracle (hs_rej c) [] in
  let model := map (fun h => filter p_ok (h_calls h)) (snd (http_run O (hs_hist c))) in
  let complete := negb (hs_stalled c) && negb (hs_overlap c) && Nat.eqb (length (hs_hist c)) (2 * hs_phases c) in
  {| v_corr := list_eqb (list_eqb pcall_eqb) model (hs_obs c) && complete;
     v_prop := complete &&
               (trace_ok (accepts O) (mk_trace (http_views_r true (hs_hist c)) (hs_obs c)) ||
                trace_ok (accepts O) (mk_trace (http_views_r false (hs_hist c)) (hs_obs c)));
     v_guards := [] |}.

Definition hsc rej h o st ov n :=
  {| hs_rej := rej; hs_hist := h; hs_obs := o; hs_stalled := st; hs_overlap := ov; hs_phases := n |}.

(** ** cloud blob *)
Record blob_case := {
  bc_nb : nat; bc_nk : nat;
  bc_rej : list cid; bc_undel : list nat;
  bc_hist : list blob_event;
  bc_obs : list ostep }.

Definition bsnapshot (s : bstates) (nb nk : nat) : list (option cid) :=
  flat_map (fun b => map (s b) (seq 0 nk)) (seq 0 nb).

Fixpoint blob_steps (O : oracle) (fixed : bool) (nb nk : nat) (s : bstates) (h : list blob_event) : list ostep :=
  match h with
  | [] => []
  | bp :: rest =>
    let x := blob_watch O fixed nk (fst bp) (s (fst bp)) (snd bp) in
    let s' := bst_set s (fst bp) (h_st x) in
    {| o_calls := h_calls x; o_err := h_err x; o_known := bsnapshot s' nb nk; o_panic := false |} :: blob_steps O fixed nb nk s' rest
  end.

Definition check_blob (impl_fixed : bool) (c : blob_case) : verdict :=
  let O := mk_oracle (bc_rej c) (bc_undel c) in
  let model := blob_steps O impl_fixed (bc_nb c) (bc_nk c) bst_empty (bc_hist c) in
  {| v_corr := list_eqb ostep_eqb model (bc_obs c);
     v_prop := negb (is_nil (bc_undel c)) ||
               (no_panic (bc_obs c) && Nat.eqb (length (bc_obs c)) (length (bc_hist c)) &&
                (trace_ok (accepts O) (mk_trace (blob_views_r true (bc_nk c) (bc_hist c)) (map o_calls (bc_obs c))) ||
                 trace_ok (accepts O) (mk_trace (blob_views_r false (bc_nk c) (bc_hist c)) (map o_calls (bc_obs c)))));
     v_guards := guards [(1%Z, negb impl_fixed && blob_guard_F1 (bc_nk c) (bc_hist c));
                         (5%Z, blob_guard_F5 (accepts O) (bc_nk c) (bc_hist c));
                         (6%Z, blob_guard_F6 (accepts O) (bc_nk c) (bc_hist c))] |}.

Definition blc nb nk rej undel h o := {| bc_nb := nb; bc_nk := nk; bc_rej := rej; bc_undel := undel; bc_hist := h; bc_obs := o |}.

(** ** HTTP endpoint / cloud blob provider -> real processor -> real repository, with route conflicts *)

(** Contents of one conflict class share a path ([pclass], [pclash] of C18/Accept.v); the repository refuses a rule set
    whose path is held by ANOTHER source.  Whether a content can be applied therefore depends on what is loaded.
    Everything these two evaluators use is what the theorems C18_accept_* / C18_http_accept_* / C18_blob_accept_* are
    about: the processor [dyn_oracle], THE SPECIFICATION [spec_look] / [spec_repo_steps] (C18/Accept.v) and the runs
    [http_real_steps] / [blob_real_steps] of the provider models against that processor (C18/AcceptProviders.v), here
    with [ok0 := ok_rej rej] and [clash := pclash]. *)

Record hreal_case := { hr_n : nat; hr_rej : list cid; hr_hist : list http_event; hr_obs : list rstep }.

Definition check_hreal (c : hreal_case) : verdict :=
  let srcs := map Sid (seq 0 (hr_n c)) in
  let lo := list_eqb (list_eqb (option_eqb Nat.eqb)) in
  let repo := map r_repo (hr_obs c) in
  let ok := ok_rej (hr_rej c) in
  {| v_corr := list_eqb rstep_eqb (http_real_steps ok pclash srcs (hr_n c) st_empty a_empty (hr_hist c)) (hr_obs c);
     v_prop := lo (spec_repo_steps ok pclash srcs a_empty (http_views_r true (hr_hist c))) repo ||
               lo (spec_repo_steps ok pclash srcs a_empty (http_views_r false (hr_hist c))) repo;
     v_guards := [] |}.

Record breal_case := { br_n : nat; br_rej : list cid; br_hist : list blob_event; br_obs : list rstep }.

Definition check_breal (c : breal_case) : verdict :=
  let srcs := map (fun b => bsid false b 0) (seq 0 (br_n c)) in
  let lo := list_eqb (list_eqb (option_eqb Nat.eqb)) in
  let repo := map r_repo (br_obs c) in
  let ok := ok_rej (br_rej c) in
  (* the polls are those the theorem C18_blob_accept_all_histories is about (single key 0, no blob listed/named but absent) *)
  {| v_corr := forallb (fun e => blob1_poll_ok (snd e)) (br_hist c) &&
               list_eqb rstep_eqb (blob_real_steps ok pclash srcs (br_n c) bst_empty a_empty (br_hist c)) (br_obs c);
     v_prop := lo (spec_repo_steps ok pclash srcs a_empty (blob_views_r true 1 (br_hist c))) repo ||
               lo (spec_repo_steps ok pclash srcs a_empty (blob_views_r false 1 (br_hist c))) repo;
     v_guards := [] |}.

Definition rs calls known repo := {| r_calls := calls; r_known := known; r_repo := repo |}.
Definition hrc n rej h o := {| hr_n := n; hr_rej := rej; hr_hist := h; hr_obs := o |}.
Definition brc n rej h o := {| br_n := n; br_rej := rej; br_hist := h; br_obs := o |}.

(** ** Kubernetes *)
(** observed per object handed to the handlers: the processor calls, or a handler panic *)
Inductive kstep := KS (calls : list pcall) | KP.

Record k8s_case := {
  kc_nn : nat;
  kc_rej : list cid; kc_undel : list nat;
  kc_hist : list k8s_event;
  kc_obs : list kstep }.

Definition kstep_eqb (a b : kstep) : bool :=
  match a, b with
  | KS x, KS y => list_eqb pcall_eqb x y
  | KP, KP => true
  | _, _ => false
  end.

Definition kstep_calls (k : kstep) : list pcall := match k with KS c => c | KP => [] end.
Definition kstep_panic (k : kstep) : bool := match k with KP => true | KS _ => false end.

Definition check_k8s (f7 f8 : bool) (c : k8s_case) : verdict :=
  let O := mk_oracle (kc_rej c) (kc_undel c) in
  let nn := kc_nn c in
  let model := map (fun x => match snd x with Some cs => KS cs | None => KP end) (snd (k8s_run O f7 f8 nn (kc_hist c))) in
  let atoms := k8s_atoms_from nn ks_empty (kc_hist c) in
  {| v_corr := list_eqb kstep_eqb model (kc_obs c);
     (* no handler panics; every object handed over was handled; the calls track the latest valid content *)
     v_prop := negb (k8s_wf nn (kc_hist c)) || negb (is_nil (kc_undel c)) ||
               (negb (existsb kstep_panic (kc_obs c)) &&
                Nat.eqb (length (kc_obs c)) (length atoms) &&
                trace_ok (accepts O) (norm_trace (mk_trace (k8s_atom_views ks_empty atoms) (map kstep_calls (kc_obs c)))));
     v_guards := guards [(7%Z, negb f7 && k8s_guard_F7 nn (kc_hist c));
                         (8%Z, negb f8 && k8s_guard_F8 nn (kc_hist c))] |}.

(** ** Kubernetes provider -> real processor -> real factory -> real repository *)
Record k8r_case := {
  kr_case : k8s_case;
  kr_skip : nat;                              (* leading events (initial list) without a snapshot of their own *)
  kr_active : list (list (option cid)) }.     (* what the repository holds per UID after each further event *)


(** after the events [h]: what the ideal repository holds according to the model's calls ... *)
Definition k8s_model_active (O : oracle) (f7 f8 : bool) (nn : nat) (h : list k8s_event) : list (option cid) :=
  let tr := k8s_raw_trace O f7 f8 nn h in map (fun u => active_of tr (Sid u)) k8r_uids.

(** ... and according to the specification: the latest valid content seen of each object (from the history alone) *)
Definition k8s_spec_active (acc : cid -> bool) (nn : nat) (h : list k8s_event) : list (option cid) :=
  let atoms := k8s_atoms_from nn ks_empty h in
  let tr := mk_trace (k8s_atom_views ks_empty atoms) (map (fun _ => []) atoms) in
  map (fun u => latest_valid acc (seen_of tr (Sid u))) k8r_uids.

Definition check_k8sr (f7 f8 : bool) (c : k8r_case) : verdict :=
  let kc := kr_case c in
  let O := mk_oracle (kc_rej kc) (kc_undel kc) in
  let v := check_k8s f7 f8 kc in
  let lo := list_eqb (option_eqb Nat.eqb) in
  let pre := prefixes_from (kr_skip c) (kc_hist kc) in
  (* outside k8s_wf (deliveries an API server does not make, e.g. a second creation of a loaded object) the real
     repository is not the ideal one (AddRuleSet appends): only the calls are compared there *)
  {| v_corr := v_corr v && (negb (k8s_wf (kc_nn kc) (kc_hist kc)) ||
                            list_eqb lo (map (k8s_model_active O f7 f8 (kc_nn kc)) pre) (kr_active c));
     (* after every event the repository holds, for every object, the latest valid content seen of it *)
     v_prop := negb (k8s_wf (kc_nn kc) (kc_hist kc)) ||
               (v_prop v && list_eqb lo (map (k8s_spec_active (accepts O) (kc_nn kc)) pre) (kr_active c));
     v_guards := v_guards v |}.

Definition k8r c k a := {| kr_case := c; kr_skip := k; kr_active := a |}.

Definition ko n u cls gen c := {| k_name := n; k_uid := u; k_cls := cls; k_gen := gen; k_cid := c |}.
Definition wA := KWatch WAdded. Definition wM := KWatch WModified. Definition wD := KWatch WDeleted.
Definition wR := KRelist.
Definition k8c nn rej undel h o := {| kc_nn := nn; kc_rej := rej; kc_undel := undel; kc_hist := h; kc_obs := o |}.

(** ** event-driven providers against a processor whose answer depends on what is loaded (competing rule sets) *)

(** *** Kubernetes *)
Record k8c_case := { kq_case : k8s_case; kq_skip : nat; kq_repo : list (list (option cid)) }.

Definition check_k8sc (c : k8c_case) : verdict :=
  let kc := kq_case c in
  let nn := kc_nn kc in
  let ok := ok_rej (kc_rej kc) in
  let lo := list_eqb (option_eqb Nat.eqb) in
  let pre := prefixes_from (kq_skip c) (kc_hist kc) in
  let model_calls := map fst (k8s_dyn_steps ok pclash k8c_srcs nn ks_empty a_empty (kc_hist kc)) in
  let model_repo := map (k8s_dyn_repo_after ok nn) pre in
  let wf := k8s_wf nn (kc_hist kc) in
  let quiet := fun repos => forallb (fun hr => quiescent ok k8c_srcs (k8s_seen_after nn (fst hr)) (repo_fun k8c_srcs (snd hr)))
                                    (combine pre repos) in
  {| v_corr := list_eqb (list_eqb pcall_eqb) model_calls (map kstep_calls (kc_obs kc)) &&
               negb (existsb kstep_panic (kc_obs kc)) &&
               (negb wf || list_eqb lo model_repo (kq_repo c));
     v_prop := negb wf || (negb (existsb kstep_panic (kc_obs kc)) && Nat.eqb (length (kq_repo c)) (length pre) && quiet (kq_repo c));
     (* C18-F10: a RuleSet that could be applied now is not loaded (it was refused while another source held its
        path, the other source is gone or changed, and the provider does not offer it again) *)
     v_guards := guards [(10%Z, k8s_guard_F10 ok nn (kq_skip c) (kc_hist kc))] |}.

Definition k8q c k a := {| kq_case := c; kq_skip := k; kq_repo := a |}.

(** *** file system *)
Record fsc_case := { fq_n : nat; fq_rej : list cid; fq_hist : list fs_event; fq_obs : list rstep }.

Definition check_fsc (c : fsc_case) : verdict :=
  let srcs := map Sid (seq 0 (fq_n c)) in
  let ok := ok_rej (fq_rej c) in
  let model := fs_dyn_steps ok pclash srcs world0 st_empty a_empty (fq_hist c) in
  let lo := list_eqb (option_eqb Nat.eqb) in
  let pre := prefixes_from 0 (fq_hist c) in
  let seen_after := fun h => seen_of (mk_trace (fs_views (fun _ => true) h) (map (fun _ => []) h)) in
  let quiet := fun repos => forallb (fun hr => quiescent ok srcs (seen_after (fst hr)) (repo_fun srcs (snd hr))) (combine pre repos) in
  {| v_corr := list_eqb (list_eqb pcall_eqb) (map fst model) (map r_calls (fq_obs c)) &&
               list_eqb lo (map snd model) (map r_repo (fq_obs c));
     v_prop := Nat.eqb (length (fq_obs c)) (length (fq_hist c)) && quiet (map r_repo (fq_obs c));
     (* C18-F11: a rule file that could be applied now is not loaded (refused while another file held its path; that
        file is gone or changed; there has been no event for the refused file since) *)
     v_guards := guards [(11%Z, fs_guard_F11 ok (fq_n c) (fq_hist c))] |}.

Definition fcc n rej h o := {| fq_n := n; fq_rej := rej; fq_hist := h; fq_obs := o |}.

(** ** short constructors for the generated case files *)
Definition CA := CAbsent. Definition CE := CEmpty. Definition CI := CInvalid. Definition CV := CValid.
Definition oC := OpCreate. Definition oW := OpWrite. Definition oR := OpRemove.
Definition oN := OpRename. Definition oH := OpChmod.
Definition eS := FsSet. Definition eN := FsNotify. Definition eSc := FsScan.
Definition kC := KCreated. Definition kU := KUpdated. Definition kD := KDeleted.
(** [pc kind blob-prefixed? ns n content ok] *)
Definition pc (k : pkind) (pfx : bool) (ns n : nat) (c : option cid) (ok : bool) : pcall :=
  {| p_kind := k; p_src := {| s_blobpfx := pfx; s_ns := ns; s_n := n |}; p_cid := c; p_ok := ok |}.
Definition os (calls : list pcall) (err : bool) (known : list (option cid)) : ostep :=
  {| o_calls := calls; o_err := err; o_known := known; o_panic := false |}.
Definition osx (calls : list pcall) (err : bool) (known : list (option cid)) : ostep :=
  {| o_calls := calls; o_err := err; o_known := known; o_panic := true |}.
Definition fsc n rej undel h o := {| fc_n := n; fc_rej := rej; fc_undel := undel; fc_hist := h; fc_obs := o |}.
Definition yaml := CtYaml. Definition json := CtJson. Definition other := CtOther.
Definition RH := RHttp. Definition RX := RConnErr. Definition RT := RTimeout. Definition RC := RCanceled.
Definition htc n rej undel h o := {| hc_n := n; hc_rej := rej; hc_undel := undel; hc_hist := h; hc_obs := o |}.
