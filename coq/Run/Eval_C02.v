(** Evaluator of the C02 correspondence streams.

    Stream "tree": a sequence of [Add]s on a fresh radixtree.Tree (with the
    repository's values constraint) followed by lookups.  Stream "repo": rule
    sets loaded into a fresh repository followed by [FindRule]s.  Stream "processor":
    the same rule sets written as configuration and loaded through the real rule-set processor
    and rule factory; it is evaluated by the same [check_repo].  Stream "history":
    create / update / delete of rule sets, then [FindRule]s (see below).  A case holds
    the inputs and what the implementation answered.  Per case:

    - the index content is built from the Adds / rule sets the IMPLEMENTATION
      accepted ([spec_db_from]: expression -> values in insertion order, flag of the
      last Add, key names).  Which Adds are accepted is not part of the property and
      not part of the verdict; a difference between the model's and the
      implementation's acceptance only raises the inert indicator 9;
    - correspondence: every lookup answer equals what the machine of Radix/Machine.v
      ([lookup false] = the code as it is since fix e897fef) and the compressed tree of
      Radix/Tree.v (the transcription of tree.go, built from the accepted Adds) compute
      (the tree model only when its own acceptance agrees with the implementation's);
    - property: every lookup answer equals [spec_lookup] on that content with every
      expression's flag as the PROPERTY states it ([respec]: the conjunction of the
      flags of its rules);
    - conditions are data, capture-aware ([m_cap]): the acceptable ids and, per id, a
      test on the key names / captured values handed to the matcher;
    - guard 2 (C02-F2: the flag in force is the last Add's) / guard 3 (C02-F3, stream
      "history" only: a matching expression holds other routes, or the same in another order,
      than a fresh load of the rule sets in force) / guard 1 (C02-F1, pinned tree only)
      fire for the case iff they fire for some lookup that is not a plain pass and
      every lookup that is not a plain pass is covered by a guard — an unrelated failure
      in the same case is never excused by a finding. *)
From HV Require Export Base.Prelude Radix.Spec Radix.Machine Radix.Load Radix.Tree C02.Model.
From HV Require Import C06.TreeDel C02.HistTree.

Definition s2l : string -> str := list_ascii_of_string.

(** conditions as data (harness/c02/gen.go [Accept] is the same function) *)
Definition has (needle : str) (l : list str) : bool := existsb (str_eqb needle) l.

Definition m_cap (ok : list nat) (modes : list (nat * nat)) (needle : str) : matcher rval :=
  fun v ks caps =>
    existsb (Nat.eqb (fst v)) ok &&
    match find (fun x => Nat.eqb (fst x) (fst v)) modes with
    | Some (_, 1) => has needle caps
    | Some (_, 2) => negb (has needle caps)
    | Some (_, 3) => Nat.eqb (length ks) (length caps)
    | Some (_, 4) => has needle ks
    | _ => true
    end.

(** the backtracking_enabled of the rule a value belongs to *)
Definition vflag_of (tbl : list (nat * bool)) (v : rval) : bool :=
  match find (fun x => Nat.eqb (fst x) (fst v)) tbl with Some (_, b) => b | None => true end.

Definition found_id (f : found rval) : option nat :=
  match f with Found v _ _ => Some (fst v) | NoMatch => None end.

(** ** what the implementation accepted, as an index content *)

Fixpoint spec_db_from (d : db rval) (l : list (addop rval)) : option (db rval) :=
  match l with
  | [] => Some d
  | a :: r =>
    match parse_expr (ao_expr a) with
    | Some (p, ks) => spec_db_from (upsert d p ks (ao_val a) (ao_bt a)) r
    | None => None   (* the implementation accepted an expression that is not one *)
    end
  end.

(** ** the compressed tree (Radix/Tree.v) next to the machine: same Adds, its shape
    invariant [wfb] and its abstraction [abs] must be the machine's index *)

Definition node_eqb (a b : node rval) : bool :=
  list_eqb rval_eqb (vals a) (vals b) && Bool.eqb (flag a) (flag b) && keys_eqb (keys a) (keys b).

Definition db_sub (d1 d2 : db rval) : bool :=
  forallb (fun e => match assoc (fst e) d2 with Some n => node_eqb (snd e) n | None => false end) d1.

Definition db_equiv (d1 d2 : db rval) : bool :=
  Nat.eqb (length d1) (length d2) && db_sub d1 d2 && db_sub d2 d1.

Definition tstep (t : tree rval) (a : addop rval) : tree rval * tres rval :=
  let r := tree_add same_src t (ao_expr a) (ao_val a) (ao_bt a) in
  (match r with TOk t' => t' | _ => t end, r).

Fixpoint tload (t : tree rval) (l : list (addop rval)) : tree rval * list (tres rval) :=
  match l with
  | [] => (t, [])
  | a :: r => let (t1, x) := tstep t a in let (t2, xs) := tload t1 r in (t2, x :: xs)
  end.

(** [impl_fixed] = the C02-F1 repair (commit e897fef); the switches of C03-F2 / C03-F5
    (commits 88da16a, 16cf34b) are on *)
Definition tfind (impl_fixed : bool) (t : tree rval) (path : str) (m : matcher rval) : found rval :=
  tree_find impl_fixed true true m t path.

Definition tree_ok (t : tree rval) (d : db rval) : bool := wfb t && db_equiv (abs t) d.

(** ** per-lookup verdicts, combined *)

Record lv := { lv_corr : bool; lv_prop : bool; lv_g1 : bool; lv_g2 : bool; lv_g3 : bool }.

Definition plain (x : lv) : bool := lv_corr x && lv_prop x.

Definition combine (acceptance_same : bool) (l : list lv) : verdict :=
  let covered := forallb (fun x => plain x || lv_g1 x || lv_g2 x || lv_g3 x) l in
  {| v_corr := forallb lv_corr l;
     v_prop := forallb lv_prop l;
     v_guards := guards [(1%Z, covered && existsb (fun x => lv_g1 x && negb (plain x)) l);
                         (2%Z, covered && existsb (fun x => lv_g2 x && negb (plain x)) l);
                         (3%Z, covered && existsb (fun x => lv_g3 x && negb (plain x)) l);
                         (9%Z, negb acceptance_same)] |}.

(** ** stream "tree" *)

Inductive add_obs := OAdded | OInvalid | OConstraint | OOther.

Definition add_obs_eqb (a b : add_obs) : bool :=
  match a, b with
  | OAdded, OAdded | OInvalid, OInvalid | OConstraint, OConstraint => true
  | _, _ => false          (* [OOther]: a result class the model does not know *)
  end.

Record add_in := { a_expr : string; a_id : nat; a_src : nat; a_bt : bool; a_obs : add_obs }.
Record lk := { l_path : string; l_ok : list nat; l_modes : list (nat * nat); l_needle : string; l_obs : option nat }.
Record case := { c_adds : list add_in; c_lks : list lk }.

Definition op_of (a : add_in) : addop rval :=
  {| ao_expr := s2l (a_expr a); ao_val := (a_id a, a_src a); ao_bt := a_bt a |}.

Definition kind_of (r : aresult rval) : add_obs :=
  match r with AOk _ => OAdded | AInvalidPath => OInvalid | AConstraint => OConstraint end.

Definition tkind_of (r : tres rval) : option add_obs :=
  match r with TOk _ => Some OAdded | TInvalid => Some OInvalid | TConstraint => Some OConstraint | TFuel => None end.

Definition accepted (l : list add_in) : list (addop rval) :=
  map op_of (filter (fun a => add_obs_eqb (a_obs a) OAdded) l).

Definition onat_eqb : option nat -> option nat -> bool := option_eqb Nat.eqb.

Definition check_lk (impl_fixed : bool) (sd : option (db rval)) (t : tree rval) (tree_in : bool) (tbl : list (nat * bool)) (l : lk) : lv :=
  let path := s2l (l_path l) in
  let m := m_cap (l_ok l) (l_modes l) (s2l (l_needle l)) in
  match sd with
  | None => {| lv_corr := false; lv_prop := false; lv_g1 := false; lv_g2 := false; lv_g3 := false |}
  | Some d =>
    {| lv_corr := onat_eqb (found_id (find_in (negb impl_fixed) d path m)) (l_obs l)
                  && (negb tree_in || onat_eqb (found_id (tfind impl_fixed t path m)) (l_obs l));
       lv_prop := onat_eqb (found_id (spec_lookup (respec (vflag_of tbl) d) path m)) (l_obs l);
       lv_g1 := negb impl_fixed && guard_F1 d path m;
       lv_g2 := guard_F2 (vflag_of tbl) d path m;
       lv_g3 := false |}
  end.

Definition check_tree (impl_fixed : bool) (c : case) : verdict :=
  let ops := map op_of (c_adds c) in
  let acc := accepted (c_adds c) in
  let sd := spec_db_from [] acc in
  let t := fst (tload empty_tree acc) in
  let tbl := map (fun a => (a_id a, a_bt a)) (c_adds c) in
  (* acceptance, not part of the verdict: the machine's and the tree model's own results on ALL Adds *)
  let adds_same := list_eqb add_obs_eqb (map kind_of (load_results same_src [] ops)) (map a_obs (c_adds c)) in
  let tadds_same := list_eqb (option_eqb add_obs_eqb) (map tkind_of (snd (tload empty_tree ops)))
                             (map (fun a => Some (a_obs a)) (c_adds c)) in
  let shape_same := match sd with Some d => tree_ok t d | None => false end in
  (* the tree model takes part in the correspondence only if it accepted what the implementation accepted *)
  combine (adds_same && tadds_same && shape_same) (map (check_lk impl_fixed sd t (tadds_same && shape_same) tbl) (c_lks c)).

(** ** stream "repo" *)

Record rs_in := { s_src : nat; s_rules : list rule_def; s_obs : bool }.
Record rlk := { rl_path : string; rl_ok : list nat; rl_modes : list (nat * nat); rl_needle : string; rl_obs : outcome }.
Record rcase := { rc_default : bool; rc_sets : list rs_in; rc_lks : list rlk }.

Fixpoint load_sets (d : db rval) (l : list rs_in) : db rval * list bool :=
  match l with
  | [] => (d, [])
  | s :: r =>
    let (d', ok) := add_ruleset d (s_src s) (s_rules s) in
    let (d'', oks) := load_sets d' r in
    (d'', ok :: oks)
  end.

Fixpoint tload_sets (t : tree rval) (l : list rs_in) : tree rval * list bool :=
  match l with
  | [] => (t, [])
  | s :: r =>
    let (t1, ok) := tree_add_ruleset t (s_src s) (s_rules s) in
    let (t2, oks) := tload_sets t1 r in
    (t2, ok :: oks)
  end.

Definition accepted_sets (l : list rs_in) : list (addop rval) :=
  flat_map (fun s => if s_obs s then ruleset_adds (s_src s) (s_rules s) else []) l.

Definition rule_flags (l : list rs_in) : list (nat * bool) :=
  flat_map (fun s => map (fun r => (r_id r, r_bt r)) (s_rules s)) l.

Definition check_rlk (impl_fixed : bool) (dflt : bool) (sd : option (db rval)) (t : tree rval) (tree_in : bool) (tbl : list (nat * bool)) (l : rlk) : lv :=
  let path := s2l (rl_path l) in
  let m := m_cap (rl_ok l) (rl_modes l) (s2l (rl_needle l)) in
  match sd with
  | None => {| lv_corr := false; lv_prop := false; lv_g1 := false; lv_g2 := false; lv_g3 := false |}
  | Some d =>
    {| lv_corr := outcome_eqb (find_rule (negb impl_fixed) d dflt path m) (rl_obs l)
                  && (negb tree_in || outcome_eqb (outcome_of dflt (tfind impl_fixed t path m)) (rl_obs l));
       lv_prop := outcome_eqb (spec_find_rule (respec (vflag_of tbl) d) dflt path m) (rl_obs l);
       lv_g1 := negb impl_fixed && guard_F1 d path m;
       lv_g2 := guard_F2 (vflag_of tbl) d path m;
       lv_g3 := false |}
  end.

Definition check_repo (impl_fixed : bool) (c : rcase) : verdict :=
  let acc := accepted_sets (rc_sets c) in
  let sd := spec_db_from [] acc in
  let t := fst (tload empty_tree acc) in
  let tbl := rule_flags (rc_sets c) in
  let sets_same := list_eqb Bool.eqb (snd (load_sets [] (rc_sets c))) (map s_obs (rc_sets c)) in
  let tsets_same := list_eqb Bool.eqb (snd (tload_sets empty_tree (rc_sets c))) (map s_obs (rc_sets c)) in
  let shape_same := match sd with Some d => tree_ok t d | None => false end in
  combine (sets_same && tsets_same && shape_same) (map (check_rlk impl_fixed (rc_default c) sd t (tsets_same && shape_same) tbl) (rc_lks c)).

(** ** stream "history": create / update / delete of rule sets through the real rule-set
    processor, then lookups.  Correspondence: the history model of C02/Model.v (pattern-map
    machine, the code as it is) AND the compressed tree after the same history
    (C02/HistTree.v [hist_tree]: Radix/Tree.v's Add and C06/TreeDel.v's Delete / delNode /
    deleteChild as the repository issues them) — the tree takes part when it followed the
    implementation through every accepted operation ([ts_ok]), satisfies [wfd] and holds the
    machine model's content ([hist_tree_in]; otherwise the inert indicator 9 is raised).
    Property: the specification on a FRESH load of the rule sets in force. *)

Record hcase := { hc_default : bool; hc_ops : list hop; hc_lks : list rlk }.

Definition final_flags (ops : list hop) : list (nat * bool) :=
  flat_map (fun x => map (fun r => (r_id r, r_bt r)) (snd x)) (final_sets ops).

Definition hist_tree_in (ops : list hop) : bool :=
  let ts := hist_tree ops in
  ts_ok ts && wfd (ts_tree ts) && db_equiv (proj_db (abs (ts_tree ts))) (hist_db ops).

Definition check_hlk (dflt : bool) (hd fd : db rval) (t : tree uval) (tree_in : bool) (tbl : list (nat * bool)) (l : rlk) : lv :=
  let path := s2l (rl_path l) in
  let m := m_cap (rl_ok l) (rl_modes l) (s2l (rl_needle l)) in
  {| lv_corr := outcome_eqb (find_rule false hd dflt path m) (rl_obs l)
                && (negb tree_in || outcome_eqb (utree_find_rule t dflt path m) (rl_obs l));
     lv_prop := outcome_eqb (spec_find_rule (respec (vflag_of tbl) fd) dflt path m) (rl_obs l);
     lv_g1 := false;
     lv_g2 := guard_F2 (vflag_of tbl) hd path m;
     lv_g3 := guard_F3 hd fd path |}.

Definition check_hist (c : hcase) : verdict :=
  let hd := hist_db (hc_ops c) in
  let fd := fresh_db (hc_ops c) in
  let tree_in := hist_tree_in (hc_ops c) in
  combine tree_in (map (check_hlk (hc_default c) hd fd (ts_tree (hist_tree (hc_ops c))) tree_in (final_flags (hc_ops c))) (hc_lks c)).

(** ** short constructors for the generated case files *)
Definition ad e i s b o := {| a_expr := e; a_id := i; a_src := s; a_bt := b; a_obs := o |}.
Definition lu p ok ms nd o := {| l_path := p; l_ok := ok; l_modes := ms; l_needle := nd; l_obs := o |}.
Definition tc a l := {| c_adds := a; c_lks := l |}.
Definition rd i b (routes : list string) := {| r_id := i; r_bt := b; r_routes := map s2l routes |}.
Definition rs s r o := {| s_src := s; s_rules := r; s_obs := o |}.
Definition rl p ok ms nd o := {| rl_path := p; rl_ok := ok; rl_modes := ms; rl_needle := nd; rl_obs := o |}.
Definition rc d s l := {| rc_default := d; rc_sets := s; rc_lks := l |}.
Definition hr r sm eq := {| h_rule := r; h_same := sm; h_equal := eq |}.
Definition hc d o l := {| hc_default := d; hc_ops := o; hc_lks := l |}.
