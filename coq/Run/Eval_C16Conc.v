(** Evaluators of the C16 concurrency streams.

    Stream "conc": one case = a finalizer configuration, the initial key-store file, 2-4 calls of Execute
    (on the catalogue finalizer or a rule-level variant) and a schedule — which call performs its next
    critical-section step, a reload, a JWKS read, the cache clock advancing — that the driver forced onto the
    REAL finalizer (one goroutine per call, parked between its steps by a gating cache double), and what
    every call returned.
      v_corr   the machine of C16/Conc.v, run on the same schedule, returns the same tokens / errors, the same
               verdict "verifies against the key set of its own section's moment", and the same JWKS answers
      v_prop   from the specification only: every returned token was verified (go-jose) against the JWKS body
               served right after the call's own Hash/Sign step, carries the system claims, and there is a
               moment between the call's first and last step at which the specification's active entry is the
               one the token names and is signed by and the published set contains it; every JWKS answer is
               free of private material and has the current store's keys

    Stream "exec-skeleton": one case = the lock skeleton of jwt_signer.go and the event skeleton (one event
    list per path) of jwtFinalizer.Execute extracted from jwt_finalizer.go.
      v_corr = v_prop   Execute has exactly the critical-section structure the machine assumes
                        ([exec_shape] = the variant named by the fixes the tree is expected to have) and the programs
                        of the sections, read off the skeleton, satisfy [progs_ok] (hypothesis of C16_fine_...) *)
From HV Require Export Run.Eval_C16.
From HV Require Export C16.ConcSkel C16.ConcGen C16.Conc.

Record ccall := { cc_ov : option override; cc_req : req; cc_now : Z }.

Inductive cres := RTok (t : token) (verified_lin : bool) | RErr | RPanic | RNone.

Record conc_case := {
  k_cfg : config; k_file : pem_file;
  k_created : bool;              (* newJWTFinalizer succeeded *)
  k_calls : list ccall; k_sched : list sev;
  k_res : list cres;             (* per call *)
  k_span : list (nat * nat);     (* per call: positions in the schedule of its first step and of the step it returned at *)
  k_jwks : list (list jwk) }.    (* the answers to the SJwks events, in order *)

Definition cres_eqb (a b : cres) : bool :=
  match a, b with
  | RTok t v, RTok t' v' => token_eqb t t' && Bool.eqb v v'
  | RErr, RErr | RPanic, RPanic | RNone, RNone => true
  | _, _ => false
  end.

Definition lin_state (th : Conc.thread) : option state :=
  match th_st1 th with Some s => Some s | None => th_st0 th end.

Definition model_res (c : config) (th : Conc.thread) : cres :=
  match th_pc th with
  | PDone (Ok t) => RTok t (match lin_state th with Some st => verifies t (published c st) | None => false end)
  | PDone Err => RErr
  | PDone Panic => RPanic
  | _ => RNone
  end.

Fixpoint all_ok {A} (l : list (res A)) : option (list A) :=
  match l with
  | [] => Some []
  | Ok a :: r => match all_ok r with Some x => Some (a :: x) | None => None end
  | _ :: _ => None
  end.

Definition model_calls (c : config) (cs : list ccall) : option (list call) :=
  all_ok (map (fun k => match target c false (cc_ov k) with
                        | Ok ce => Ok {| cl_cfg := ce; cl_req := cc_req k; cl_now := cc_now k |}
                        | Err => Err | Panic => Panic end) cs).

(* ---- the specification side: the current store along the schedule *)

Definition cur_t := (raw_entry * list raw_entry)%type.

(** the store after each event of the schedule *)
Fixpoint spec_trace (kid : string) (cur : cur_t) (s : list sev) : list cur_t :=
  match s with
  | [] => []
  | SReload f :: r => let cur' := match spec_accept kid f with Some x => x | None => cur end in cur' :: spec_trace kid cur' r
  | _ :: r => cur :: spec_trace kid cur r
  end.

Definition slice {A} (a b : nat) (l : list A) : list A := firstn (S b - a) (skipn a l).

Definition token_at (c : config) (t : token) (cur : cur_t) : bool :=
  header_ok (fst cur) t && verifies t (spec_published (c_before c) (c_after c) (snd cur)).

Fixpoint calls_prop (c : config) (trace : list cur_t) (cs : list ccall) (rs : list cres) (spans : list (nat * nat)) : bool :=
  match cs, rs, spans with
  | [], [], [] => true
  | k :: cs', r :: rs', (a, b) :: sp' =>
      match r, spec_target c false (cc_ov k) with
      | RTok t v, Some ce =>
          v && claims_sys ce (cc_req k) (t_claims t) && Nat.leb a b && existsb (token_at c t) (slice a b trace)
      | RTok _ _, None => false
      | _, _ => true
      end && calls_prop c trace cs' rs' sp'
  | _, _, _ => false
  end.

Fixpoint jwks_along (c : config) (trace : list cur_t) (s : list sev) (answers : list (list jwk)) : bool :=
  match s, trace with
  | [], _ => is_nil answers
  | SJwks :: r, cur :: tr =>
      match answers with
      | ks :: rest => jwks_prop c cur ks && jwks_along c tr r rest
      | [] => false
      end
  | _ :: r, _ :: tr => jwks_along c tr r answers
  | _ :: _, [] => false
  end.

Definition conc_prop (c : conc_case) : bool :=
  match (if ttl_valid (k_cfg c) then spec_accept (c_keyid (k_cfg c)) (k_file c) else None) with
  | None => true
  | Some cur =>
      negb (k_created c) ||
      let trace := spec_trace (c_keyid (k_cfg c)) cur (k_sched c) in
      calls_prop (k_cfg c) trace (k_calls c) (k_res c) (k_span c) && jwks_along (k_cfg c) trace (k_sched c) (k_jwks c)
  end.

Definition conc_corr (impl : fixes) (c : conc_case) : bool :=
  match create (k_cfg c) (k_file c), model_calls (k_cfg c) (k_calls c) with
  | Ok w, Some calls =>
      let g := crun impl (k_cfg c) (k_sched c) (cinit (w_st w) calls) in
      k_created c && list_eqb cres_eqb (map (model_res (k_cfg c)) (g_ths g)) (k_res c)
      && list_eqb (list_eqb jwk_eqb) (rev (g_jwks g)) (k_jwks c)
  | Ok _, None => false
  | _, _ => negb (k_created c) && is_nil (k_res c) && is_nil (k_jwks c)
  end.

Definition check_conc (impl : fixes) (c : conc_case) : verdict :=
  {| v_corr := conc_corr impl c; v_prop := conc_prop c; v_guards := [] |}.

Definition CL ov q now := {| cc_ov := ov; cc_req := q; cc_now := now |}.
Definition CC cfg f cr calls sched res span jw :=
  {| k_cfg := cfg; k_file := f; k_created := cr; k_calls := calls; k_sched := sched; k_res := res; k_span := span; k_jwks := jw |}.

(* ------------------------------------------------------------------ exec-skeleton stream *)

Record xskel_case := { x_skel : skeleton; x_exec : list (list xev) }.
Definition XS s x := {| x_skel := s; x_exec := x |}.

(** Execute has the shape of the machine (of the variant the tree is expected to be), and the sections of the
    signer methods it calls, of the reader of the published set and of the writer are programs the refinement
    theorem covers ([progs_ok]) *)
Definition check_xskel (impl : fixes) (c : xskel_case) : verdict :=
  let ok := match exec_shape (x_skel c) (x_exec c) with Some b => Bool.eqb b (fx_F2 impl) | None => false end
            && match programs (x_skel c) (x_exec c) with Some P => progs_ok P | None => false end in
  {| v_corr := ok; v_prop := ok; v_guards := [] |}.
