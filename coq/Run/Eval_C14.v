(** Evaluators of the C14 correspondence streams.  For each generated input
    and the implementation's observation they compute
    (i)   [v_corr]: the model's observation = the implementation's observation,
    (ii)  [v_prop]: the property's predicate (C14/Spec.v): the implementation's
          observation is the observation of the SPECIFICATION's effective rule, as
          projected by the model's [run] / [lookup] / [observe_ids],
    (iii) [v_guards]: no finding is open, so no guard.
    [C14_corr_implies_prop] (check), [C14_corr_implies_prop_ids] (check_ids) and
    [C14_corr_implies_prop_set] (check_rs) (Properties/C14.v) show that (i)
    implies (ii) for every input. *)
From HV Require Export Base.Prelude C14.Model C14.Spec C14.Proofs.

(** the CEL oracle: the truth table of the driver's four condition expressions
    (0: Request.Method == "GET", 1: == "POST", 2: != "GET", 3: true == true) on
    its three probe methods (0 GET, 1 POST, 2 PUT).  The driver checks the real
    CEL library against this table before it generates anything. *)
Definition holds (c m : nat) : bool :=
  match c, m with
  | 0, 0 | 1, 1 | 2, 1 | 2, 2 => true
  | 3, _ => true
  | _, _ => false
  end.

Definition res_eqb {O} (eqb : O -> O -> bool) (a b : res O) : bool :=
  match a, b with
  | Ok x, Ok y => eqb x y
  | Rejected, Rejected | Panic, Panic => true
  | _, _ => false
  end.

Definition load_res_eqb {O} (eqb : O -> O -> bool) (a b : load_res O) : bool :=
  match a, b with
  | FactoryFailed, FactoryFailed | FactoryPanic, FactoryPanic => true
  | Loaded x, Loaded y => res_eqb eqb x y
  | _, _ => false
  end.

(** streams "factory", "history" and "realfactory": default rule x rule definition x mode *)
Record gcase (O : Type) := {
  c_proxy : bool; c_def : option default_def; c_rule : rule_def; c_obs : load_res O }.
Arguments c_proxy {O}. Arguments c_def {O}. Arguments c_rule {O}. Arguments c_obs {O}.

Definition gcheck {O} (obs_of : effective -> O) (eqb : O -> O -> bool) (c : gcase O) : verdict :=
  {| v_corr := load_res_eqb eqb (map_load obs_of (load (c_proxy c) (c_def c) (c_rule c))) (c_obs c);
     v_prop := prop_rule obs_of eqb (c_proxy c) (c_def c) (c_rule c) (c_obs c);
     v_guards := [] |}.

(** streams "factory" and "history" (one case per CreateRule call of a history): executed traces *)
Definition check : gcase robs -> verdict := gcheck (observe holds) robs_eqb.
(** stream "realfactory": mechanism ids per stage *)
Definition check_ids : gcase iobs -> verdict := gcheck observe_ids iobs_eqb.

(** streams "ruleset" and "wiring" (the latter: preload 0, through the fx Module, the real
    file_system provider and rule executor): rule sets as YAML text through the real parser,
    processor (OnCreated / OnUpdated over [s_preload] preloaded rules) and repository *)
Record case_rs := {
  s_proxy : bool; s_def : option default_def; s_preload : nat; s_set : set_def; s_obs : set_res }.

Definition set_res_eqb (a b : set_res) : bool :=
  match a, b with
  | SFactoryFailed, SFactoryFailed | SFactoryPanic, SFactoryPanic | SPanic, SPanic => true
  | SDone x sx, SDone y sy => Bool.eqb x y && list_eqb served_eqb sx sy
  | _, _ => false
  end.

Definition check_rs (c : case_rs) : verdict :=
  {| v_corr := set_res_eqb (run_set holds (s_proxy c) (s_def c) (s_preload c) (s_set c)) (s_obs c);
     v_prop := prop_set holds (s_proxy c) (s_def c) (s_preload c) (s_set c) (s_obs c);
     v_guards := [] |}.

(* constructors with short names for the generated case files *)
Definition kv (id : option nat) (ok : bool) := {| k_id := id; k_ok := ok |}.
Definition st a z c f i g := {| s_authn := a; s_authz := z; s_ctx := c; s_fin := f; s_if := i; s_cfg := g |}.
Definition eh k i g := {| e_key := k; e_if := i; e_cfg := g |}.
Definition dd x e b := {| d_exec := x; d_eh := e; d_bt := b |}.
Definition rd x e b k m := {| r_exec := x; r_eh := e; r_bt := b; r_backend := k; r_matchers_ok := m |}.
(* trace entries: kind, id, override marker + 1 (0 = created without override) *)
Definition tk (k : kind) (id cfg : nat) : tmech := (k, id, match cfg with 0 => None | S n => Some n end).
Definition ta := tk KAuthn. Definition tz := tk KAuthz. Definition tc := tk KCtx.
Definition tf := tk KFin. Definition te := tk KEh.
Definition rt (tr : list tmech) : bool * list tmech := (true, tr).
Definition rf (tr : list tmech) : bool * list tmech := (false, tr).
Definition ro runs b := {| o_runs := runs; o_bt := b |}.
Definition io a h f e b := {| i_sc := a; i_sh := h; i_fi := f; i_eh := e; i_bt := b |}.
Definition cs p d r (o : load_res robs) := {| c_proxy := p; c_def := d; c_rule := r; c_obs := o |}.
Definition csi p d r (o : load_res iobs) := {| c_proxy := p; c_def := d; c_rule := r; c_obs := o |}.
Definition crs p d k v rs o :=
  {| s_proxy := p; s_def := d; s_preload := k; s_set := {| sd_version_ok := v; sd_rules := rs |}; s_obs := o |}.
