(** Evaluator of the C14 correspondence stream: for each generated (default
    rule, rule definition, mode) and the implementation's observation it
    computes (i) model = observation, (ii) the property's predicate on the
    observation, (iii) the finding guards that fire on the input. *)
From HV Require Export Base.Prelude C14.Model C14.Proofs.

Record case := {
  c_proxy : bool; c_def : option default_def; c_rule : rule_def;
  c_obs : load_res }.

Definition res_eqb (a b : res effective) : bool :=
  match a, b with
  | Ok x, Ok y => effective_eqb x y
  | Rejected, Rejected | Panic, Panic => true
  | _, _ => false
  end.

Definition load_res_eqb (a b : load_res) : bool :=
  match a, b with
  | FactoryFailed, FactoryFailed | FactoryPanic, FactoryPanic => true
  | Loaded x, Loaded y => res_eqb x y
  | _, _ => false
  end.

(** the guard of C14-F1 on the generated input (needs the default rule to load) *)
Definition g_F1 (c : case) : bool :=
  match c_def c, r_bt (c_rule c) with None, Some true => true | _, _ => false end.

(** [impl_fixed]: which factory the implementation is expected to be
    (true after the fix: commit).  The property predicate always uses the
    specification, i.e. the repaired function, whose agreement with
    [spec_effective] is theorem C14_stagewise_inheritance. *)
Definition check (impl_fixed : bool) (c : case) : verdict :=
  {| v_corr := load_res_eqb (load impl_fixed (c_proxy c) (c_def c) (c_rule c)) (c_obs c);
     v_prop := load_res_eqb (load true (c_proxy c) (c_def c) (c_rule c)) (c_obs c);
     v_guards := guards [(1%Z, g_F1 c && negb impl_fixed)] |}.

(* constructors with short names for the generated case files *)
Definition kv (id : option nat) (ok : bool) := {| k_id := id; k_ok := ok |}.
Definition st a z c f i g := {| s_authn := a; s_authz := z; s_ctx := c; s_fin := f; s_if := i; s_cfg := g |}.
Definition eh k i g := {| e_key := k; e_if := i; e_cfg := g |}.
Definition mk k id c := {| m_kind := k; m_id := id; m_cond := c |}.
Definition eff a h f e b := {| f_sc := a; f_sh := h; f_fi := f; f_eh := e; f_bt := b |}.
Definition dd x e b := {| d_exec := x; d_eh := e; d_bt := b |}.
Definition rd x e b k m := {| r_exec := x; r_eh := e; r_bt := b; r_backend := k; r_matchers_ok := m |}.
Definition cs p d r o := {| c_proxy := p; c_def := d; c_rule := r; c_obs := o |}.

(** second stream: rule sets of 1..3 definitions as YAML text through the real
    rule-set parser, rule-set processor and repository.  The parser's validation
    rejects a rule without any `execute` step, or with an empty method name,
    before the factory sees any rule of the set. *)
Inductive set_res := SFactoryFailed | SFactoryPanic | SLoaded (r : res (list effective)).

Record case_rs := {
  s_proxy : bool; s_def : option default_def; s_rules : list rule_def; s_obs : set_res }.

Definition parse_ok (r : rule_def) : bool := negb (is_nil (r_exec r)) && r_matchers_ok r.

Definition load_ruleset (impl_fixed : bool) (c : case_rs) : set_res :=
  let go (def : option effective) :=
    if forallb parse_ok (s_rules c) then SLoaded (load_rules impl_fixed (s_proxy c) def (s_rules c))
    else SLoaded Rejected in
  match s_def c with
  | None => go None
  | Some dd => match init_default dd with
               | Ok e => go (Some e)
               | Rejected => SFactoryFailed
               | Panic => SFactoryPanic
               end
  end.

Definition set_res_eqb (a b : set_res) : bool :=
  match a, b with
  | SFactoryFailed, SFactoryFailed | SFactoryPanic, SFactoryPanic => true
  | SLoaded (Ok x), SLoaded (Ok y) => list_eqb effective_eqb x y
  | SLoaded Rejected, SLoaded Rejected | SLoaded Panic, SLoaded Panic => true
  | _, _ => false
  end.

Definition g_F1_rs (c : case_rs) : bool :=
  match s_def c with
  | None => existsb (fun r => match r_bt r with Some true => true | _ => false end) (s_rules c)
  | Some _ => false
  end.

Definition check_rs (impl_fixed : bool) (c : case_rs) : verdict :=
  {| v_corr := set_res_eqb (load_ruleset impl_fixed c) (s_obs c);
     v_prop := set_res_eqb (load_ruleset true c) (s_obs c);
     v_guards := guards [(1%Z, g_F1_rs c && negb impl_fixed)] |}.

Definition crs p d rs o := {| s_proxy := p; s_def := d; s_rules := rs; s_obs := o |}.
