(** Evaluator of the C15 correspondence streams.

    Stream "proxy": a request as written on the wire, the pipeline's output, the
    rule's forward_to / allow_encoded_slashes, and what the upstream test server
    received (or that nothing arrived and which status the client saw). *)
From HV Require Export Base.Prelude Base.GoUrl C15.Model C15.Spec.

Record case := { c_req : request; c_pl : pipeline; c_rule : rule; c_obs : outcome }.

(* constructors with short names for the generated case files *)
Definition rq m raw qry host hs body peer tr xfu :=
  {| q_method := m; q_raw := raw; q_query := qry; q_host := host; q_headers := hs; q_body := body;
     q_peer := peer; q_trusted := tr; q_xfu := xfu |}.
Definition pln hs cs := {| p_headers := hs; p_cookies := cs |}.
Definition rwr s c a q := {| rw_scheme := s; rw_cut := c; rw_add := a; rw_strip_q := q |}.
Definition rul st host rw tls := {| r_setting := st; r_backend := {| b_host := host; b_rw := rw |}; r_up_tls := tls |}.
Definition cs q p r o := {| c_req := q; c_pl := p; c_rule := r; c_obs := o |}.

Definition check (fx : fixes) (c : case) : verdict :=
  let q := c_req c in
  {| v_corr := oracle_ok q && outcome_eqb (serve fx q (c_pl c) (c_rule c)) (c_obs c);
     v_prop := spec_ok q (c_pl c) (c_rule c) (c_obs c);
     v_guards := guards [(1%Z, guard_F1 q (c_rule c) && negb (fx_f1 fx)); (2%Z, guard_F2 q); (3%Z, guard_F3 q (c_rule c));
                         (4%Z, guard_F4 q (c_pl c) && negb (fx_f4 fx)); (5%Z, guard_F5 (c_rule c))] |}.
