(** Evaluator of the C15 correspondence streams.

    Stream "proxy": a request as written on the wire, the pipeline's output, the
    rule's forward_to / allow_encoded_slashes, and what the upstream test server
    received (or that nothing arrived and which status the client saw). *)
From HV Require Export Base.Prelude Base.GoUrl C15.Model C15.Spec.

Record case := { c_req : request; c_pl : pipeline; c_rule : rule; c_obs : outcome }.

(* constructors with short names for the generated case files *)
Definition rq m raw qry host hs body fault tls peer tr xfu :=
  {| q_method := m; q_raw := raw; q_query := qry; q_host := host; q_headers := hs; q_body := body;
     q_fault := fault; q_tls := tls; q_peer := peer; q_trusted := tr; q_xfu := xfu |}.
Definition pln hs cs := {| p_headers := hs; p_cookies := cs |}.
Definition rwr s c a q := {| rw_scheme := s; rw_cut := c; rw_add := a; rw_strip_q := q |}.
Definition rul st host rw tls tracing :=
  {| r_setting := st; r_backend := {| b_host := host; b_rw := rw |}; r_up_tls := tls; r_tracing := tracing |}.
Definition cs q p r o := {| c_req := q; c_pl := p; c_rule := r; c_obs := o |}.

(** ** correspondence: the projection that is compared

    Fields nobody sent (what Go's HTTP client or an instrumentation adds on its
    own: Accept-Encoding: gzip, a default User-Agent, Via, trace context) are not
    part of the property and are left out on both sides; so are the trace
    propagation fields when tracing is on; a trailing transport-added `gzip` and
    further User-Agent lines likewise.  Refusals are compared by status class. *)
Definition strip_gzip (vs : list string) : list string :=
  match rev vs with
  | g :: r => if String.eqb g "gzip" && is_empty (first_or_empty (rev r)) then rev r else vs
  | [] => vs
  end.

Definition project_entry (names : list string) (tracing : bool) (e : string * list string) : list (string * list string) :=
  let k := fst e in
  if negb (mem_str k names || is_forwarding_name k) then []
  else if tracing && mem_str k propagation_names then []
  else if String.eqb k "Accept-Encoding" then match strip_gzip (snd e) with [] => [] | vs => [(k, vs)] end
  else if String.eqb k "User-Agent" then [(k, firstn 1 (snd e))]
  else [e].

Definition project (names : list string) (r : rule) (o : outcome) : outcome :=
  match o with
  | NotForwarded st => NotForwarded (st / 100)
  | Forwarded tls m uri host hs body =>
    Forwarded tls m uri host (flat_map (project_entry names (r_tracing r)) hs) body
  end.

Definition check (fx : fixes) (c : case) : verdict :=
  let q := c_req c in
  let r := c_rule c in
  let names := statement_names q (c_pl c) in
  let v := view_url q in
  {| v_corr := outcome_eqb (project names r (serve fx q (c_pl c) r)) (project names r (c_obs c));
     v_prop := spec_ok q (c_pl c) r (c_obs c);
     v_guards := guards [(1%Z, negb (fx_f1 fx) && guard_F1_v v r); (2%Z, guard_F2 q); (3%Z, guard_F3_v v r);
                         (4%Z, negb (fx_f4 fx) && guard_F4 q (c_pl c)); (5%Z, guard_F5 r);
                         (6%Z, negb (fx_f6 fx) && guard_F6_v v r); (7%Z, negb (fx_f7 fx) && guard_F7 q);
                         (8%Z, guard_F8 (c_pl c) r); (9%Z, guard_F9 q)] |}.

(** * units: Backend.CreateURL on arbitrary url.URL values *)

Record ucase := { uc_in : hurl; uc_host : string; uc_rw : option rewriter;
                  uo_url : hurl; uo_escaped : string; uo_uri : string }.
Definition hu s h p rp q := {| u_scheme := s; u_host := h; u_path := p; u_rawpath := rp; u_query := q |}.
Definition ucs i h rw o e u := {| uc_in := i; uc_host := h; uc_rw := rw; uo_url := o; uo_escaped := e; uo_uri := u |}.

(** C15-F6 on a bare query *)
Definition uguard_F6 (names : list string) (qs : string) : bool :=
  negb (is_nil names) && negb (is_empty qs) && negb (snd (parse_query qs)) &&
  negb (String.eqb (values_encode (del_all names (fst (parse_query qs)))) (kept_settings names qs)).

(** the property on the observation: the scheme is the rewrite's or the
    original; the host is forward_to.host; what the upstream decodes is what
    the transformed path decodes to (no double encoding, C15_decoded_path); the
    query is the original without the removed parameters (key by key and byte for byte) *)
Definition uprop (c : ucase) : bool :=
  let u := uc_in c in
  let o := uo_url c in
  String.eqb (u_host o) (uc_host c) &&
  match uc_rw c with
  | None =>
    String.eqb (u_scheme o) (u_scheme u) && String.eqb (u_query o) (u_query u) &&
    option_eqb String.eqb (unescape (uo_escaped c)) (Some (u_path u))
  | Some rw =>
    String.eqb (u_scheme o) (if is_empty (rw_scheme rw) then u_scheme u else rw_scheme rw) &&
    query_removed (rw_strip_q rw) (u_query u) (u_query o) &&
    query_clause (rw_strip_q rw) (u_query u) (u_query o) &&
    let raw' := (rw_add rw ++ strip_prefix (rw_cut rw) (escaped_path (u_path u) (u_rawpath u)))%string in
    (negb (wellformed raw') || option_eqb String.eqb (unescape (uo_escaped c)) (unescape raw'))
  end.

Definition ucheck (fx : fixes) (c : ucase) : verdict :=
  let m := create_url_q (fx_q fx) {| b_host := uc_host c; b_rw := uc_rw c |} (uc_in c) in
  {| v_corr := hurl_eqb m (uo_url c) && String.eqb (wire_path m) (uo_escaped c) && String.eqb (wire_uri m) (uo_uri c);
     v_prop := uprop c;
     v_guards := guards [(6%Z, match uc_rw c with
                               | Some rw => uguard_F6 (rw_strip_q rw) (u_query (uc_in c)) && negb (fx_f6 fx)
                               | None => false
                               end)] |}.
