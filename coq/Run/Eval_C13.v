(** Evaluator of the C13 correspondence stream.  A case is one logical request
    sent to the three real assembled applications (HTTP decision service, proxy
    service, Envoy ext_authz gRPC service) that were loaded with the same
    generated rule set: the request, the rule it was aimed at (pipeline as data,
    raw captures by construction), the oracles (net/http's EscapedPath, the body
    decoders' answers) and the three observations (decision, matched rule, the
    answers to the rule's probe queries, the hand-over to the upstream side).

    [v_corr]: the model predicts all three observations;
    [v_prop]: the three observations are equal (the property itself: same
    decision, same view, same hand-over);
    guards 1..9, 11 = C13-F1..F9, F11, evaluated on the queries the pipeline asks. *)
From HV Require Export Base.Prelude Base.GoUrl C13.Http C13.Model C13.Proofs.
Open Scope string_scope.

Record eobs := {
  eo_status : Z;                       (* 0 = allowed, otherwise the HTTP status of the denial *)
  eo_rule : string;
  eo_view : option (list value);       (* answers to the probes *)
  eo_ho : option handover;
  eo_ok : bool;                        (* the driver could read the observation *)
  eo_loc : string                      (* Location of a denial (redirect error handler), "" otherwise *)
}.

Record krule := {
  kr_id : string; kr_slashes : slashes; kr_authz : option cond; kr_steps : list step;
  kr_probes : list query; kr_caps : list (string * string);
  kr_redirect : option (string * option query)   (* on_error: redirect error handler, `to` = prefix ++ echo *)
}.

Record case := {
  k_fx : fixes;                        (* what the driver's sentinel requests found out about the tree under test:
                                          which of the repairs (fix: commits of C13-F1..F11) are in it *)
  k_L : lreq;
  k_rule : option krule;               (* the rule that matches by construction, with the raw captures *)
  k_env_rule : option krule;           (* the same for a lookup with the query string glued to the path (C13-F11): a trailing
                                          wildcard swallows "?query" into its capture, a literal last segment misses *)
  k_escpath : string;                  (* net/http: req.URL.EscapedPath() *)
  k_ct : string;                       (* the Content-Type the decoders were asked with *)
  k_dec_body : string;                 (* decoder's answer on the body, JSON text *)
  k_dec_empty : string;                (* decoder's answer on the empty body *)
  k_dec : eobs; k_prx : eobs; k_env : eobs
}.

Definition pair_eqb (a b : string * string) : bool := String.eqb (fst a) (fst b) && String.eqb (snd a) (snd b).

(** Go maps: equality as sets of pairs *)
Definition pairs_subset (a b : list (string * string)) : bool := forallb (fun x => existsb (pair_eqb x) b) a.
Definition pairs_eqb (a b : list (string * string)) : bool :=
  Nat.eqb (length a) (length b) && pairs_subset a b && pairs_subset b a.

Definition value_eqb (a b : value) : bool :=
  match a, b with
  | VStr x, VStr y => String.eqb x y
  | VNone, VNone => true
  | VMap x, VMap y => pairs_eqb x y
  | VList x, VList y => list_eqb String.eqb x y
  | VJson x, VJson y => String.eqb x y
  | _, _ => false
  end.

Definition handover_eqb (a b : handover) : bool :=
  pairs_eqb (ho_headers a) (ho_headers b) && pairs_eqb (ho_cookies a) (ho_cookies b).

(** model vs observation: the decision is compared as allowed / denied — which status number a
    denial of a given kind is answered with is C12's subject, not C13's *)
Definition same_class (x y : Z) : bool := Bool.eqb (Z.eqb x 0) (Z.eqb y 0).

Definition eobs_corr (a b : eobs) : bool :=
  same_class (eo_status a) (eo_status b) && String.eqb (eo_rule a) (eo_rule b) &&
  option_eqb (list_eqb value_eqb) (eo_view a) (eo_view b) &&
  option_eqb handover_eqb (eo_ho a) (eo_ho b) && Bool.eqb (eo_ok a) (eo_ok b) && String.eqb (eo_loc a) (eo_loc b).

(** observation vs observation (the property): the entry points answer alike, status included *)
Definition eobs_eqb (a b : eobs) : bool :=
  Z.eqb (eo_status a) (eo_status b) && String.eqb (eo_rule a) (eo_rule b) &&
  option_eqb (list_eqb value_eqb) (eo_view a) (eo_view b) &&
  option_eqb handover_eqb (eo_ho a) (eo_ho b) && Bool.eqb (eo_ok a) (eo_ok b) && String.eqb (eo_loc a) (eo_loc b).

Definition status_of (e : option errkind) : Z :=
  match e with
  | None => 0
  | Some EAuthn => 401
  | Some EAuthz => 403
  | Some EArgument => 400
  | Some ENoRule => 404
  | Some EInternal => 500
  | Some (ERedirect _) => 302
  end%Z.

Definition loc_of (e : option errkind) : string := match e with Some (ERedirect to) => to | _ => "" end.

(** the oracles of the case *)
Definition decode_of (c : case) : string -> string -> value :=
  fun ct body =>
    if String.eqb ct (k_ct c) then
      if String.eqb body (l_body (k_L c)) then VJson (k_dec_body c)
      else if String.eqb body "" then VJson (k_dec_empty c)
      else VJson "?unasked"
    else VJson "?unasked-content-type".

Definition rule_of (kr : krule) : rule :=
  {| r_id := kr_id kr; r_slashes := kr_slashes kr; r_prog := pipeline_prog (kr_authz kr) (kr_steps kr);
     r_on_error := option_map (fun pe => redirect_prog (fst pe) (snd pe)) (kr_redirect kr) |}.

Definition find_of (c : case) : lview -> option (rule * list (string * string)) :=
  fun lv =>
    if String.eqb (lk_path lv) (l_rawpath (k_L c)) then
      match k_rule c with Some kr => Some (rule_of kr, kr_caps kr) | None => None end
    else if String.eqb (lk_path lv) (forwarded_uri (k_L c)) then
      match k_env_rule c with Some kr => Some (rule_of kr, kr_caps kr) | None => None end
    else None.

Definition probes_of (c : case) : list query := match k_rule c with Some kr => kr_probes kr | None => [] end.

(** what one entry point is expected to show *)
Definition expected (c : case) (caches : bool) (build : rview) (a : accessors) (fin : list add -> handover) : eobs :=
  let s := serve_with fin (execute (find_of c) caches build a) in
  {| eo_status := status_of (s_err s); eo_rule := s_rule s;
     eo_view := match s_err s, mech_view (find_of c) caches build with
                | None, inr (_, v) => Some (map (answer a v) (probes_of c))
                | _, _ => None
                end;
     eo_ho := s_handover s; eo_ok := true; eo_loc := loc_of (s_err s) |}.

Definition expected_dec (fx : fixes) (c : case) : eobs :=
  expected c true (build_http (k_L c)) (acc_http (decode_of c) (k_L c)) (finalize_decision (fx_F3 fx)).
Definition expected_prx (fx : fixes) (c : case) : eobs :=
  expected c true (build_http (k_L c)) (acc_http (decode_of c) (k_L c)) (finalize_proxy (fx_F3 fx)).
Definition expected_env (fx : fixes) (c : case) : eobs :=
  let E := mk_envoy (k_L c) in
  expected c (fx_F1 fx) (build_envoy (fx_F4 fx) (norm_envoy (fx_F11 fx) E)) (acc_envoy (decode_of c) fx E) finalize_envoy.

(** the queries the HTTP run asks (conditions, templates) and the probes; the pipeline's adds *)
Definition asked (c : case) : slashes * list query * list add :=
  match k_rule c with
  | None => (SOff, [], [])
  | Some kr =>
    let a := acc_http (decode_of c) (k_L c) in
    match mech_view (find_of c) true (build_http (k_L c)) with
    | inr (rl, v) =>
      (kr_slashes kr, (trace (answer a v) (rule_prog rl) ++ kr_probes kr)%list, snd (run_prog (answer a v) (rule_prog rl)))
    | inl _ => (kr_slashes kr, [], [])
    end
  end.

Definition caps_of (c : case) : list (string * string) := match k_rule c with Some kr => kr_caps kr | None => [] end.

Definition matched (c : case) : bool := match k_rule c with Some _ => true | None => false end.

(** well-formedness the theorems assume of a logical request, checked on every case *)
Definition wf_case (c : case) : bool :=
  String.eqb (k_escpath c) (escpath_of_wire (l_rawpath (k_L c))) && wf_lreqb (k_L c).

Definition check (fx : fixes) (c : case) : verdict :=
  let '(sl, qs, adds) := asked c in
  let L := k_L c in
  {| v_corr := wf_case c && eobs_corr (expected_dec fx c) (k_dec c) && eobs_corr (expected_prx fx c) (k_prx c) &&
               eobs_corr (expected_env fx c) (k_env c);
     v_prop := eobs_eqb (k_dec c) (k_prx c) && eobs_eqb (k_dec c) (k_env c) && eo_ok (k_dec c);
     v_guards := guards [
       (1%Z, negb (fx_F1 fx) && existsb (g_F1_query (caps_of c) sl (fx_F4 fx)) qs);
       (2%Z, negb (fx_F2 fx) && existsb (g_F2_query (fx_F6 fx) L) qs);
       (3%Z, g_F3_adds (fx_F3 fx) adds);
       (4%Z, negb (fx_F4 fx) && (existsb (g_F4_query sl L) qs || (matched c && g_F4_decision sl L)));
       (5%Z, existsb (g_F5_query L) qs || g_F5_adds adds);
       (6%Z, negb (fx_F6 fx) && existsb g_F6_query qs);
       (7%Z, negb (fx_F7 fx) && existsb (g_F7_query (decode_of c) L) qs);
       (8%Z, existsb g_F8_query qs);
       (9%Z, negb (fx_F9 fx) && existsb (g_F9_query L) qs);
       (11%Z, negb (fx_F11 fx) && g_F11 L) ] |}.

(** [check (k_fx c) c] would run the variant the driver's sentinel requests observed (useful for trees
    before one of the fix: commits); the streams of bin/check use [check_repo]. *)

(** /repo: all eight repairs are in (F1 b2286d8, F2 7c3e9fc, F3 a5ef279, F4 ae6db4f, F6 06faa19, F7 19923cd,
    F9 58408fc, F11 9fe653a): the fully repaired variant is expected whatever the sentinels say (a
    regression is an ordinary VIOLATION) *)
Definition check_repo (c : case) : verdict := check repo_now c.

(* short constructors for the generated case files *)
Definition lrq m t h p q hs b pe pk qp :=
  {| l_method := m; l_tls := t; l_host := h; l_rawpath := p; l_query := q; l_hdrs := hs; l_body := b; l_peer := pe; l_pack := pk;
     l_qpath := qp |}.
Definition cnd q c := {| cd_q := q; cd_c := c |}.
Definition stp i ck items := {| st_if := i; st_cookie := ck; st_items := items |}.
Definition rul id sl az steps probes caps rd :=
  {| kr_id := id; kr_slashes := sl; kr_authz := az; kr_steps := steps; kr_probes := probes; kr_caps := caps; kr_redirect := rd |}.
Definition hov hs cs := {| ho_headers := hs; ho_cookies := cs |}.
Definition eob s r v h ok loc := {| eo_status := s; eo_rule := r; eo_view := v; eo_ho := h; eo_ok := ok; eo_loc := loc |}.
Definition fxs f1 f2 f3 f4 f6 f7 f9 f11 :=
  {| fx_F1 := f1; fx_F2 := f2; fx_F3 := f3; fx_F4 := f4; fx_F6 := f6; fx_F7 := f7; fx_F9 := f9; fx_F11 := f11 |}.
Definition cs fx L r er ep ct db de d p e :=
  {| k_fx := fx; k_L := L; k_rule := r; k_env_rule := er; k_escpath := ep; k_ct := ct; k_dec_body := db; k_dec_empty := de; k_dec := d; k_prx := p; k_env := e |}.

(* ------------------------------------------------------------------ second stream: the decision service as deployed *)

(** A case: one logical request (method, scheme, host, path, query) sent to a decision service
    directly and, described by X-Forwarded-Method/-Proto/-Host/-Uri from a trusted proxy, to a decision
    service with trusted_proxies; both echo method and URL parts through the same rule.
    [v_corr]: the model ([view_direct], [view_tp]) predicts both echoes; [v_prop]: the two echoes are
    equal; guard 10 = C13-F10 (the query is not its own re-encoding).  [t_fixed_F10]: the driver's
    sentinel found the repair of C13-F10 (fix: f446e16) in the tree; the stream uses [check_tp_repo]. *)
Record tobs := { to_status : Z; to_parts : string * string * string * string * string }.
Record tcase := { t_fixed_F10 : bool; t_L : lreq; t_direct : tobs; t_tp : tobs }.

Definition parts_eqb (a b : string * string * string * string * string) : bool :=
  let '(a1, a2, a3, a4, a5) := a in let '(b1, b2, b3, b4, b5) := b in
  String.eqb a1 b1 && String.eqb a2 b2 && String.eqb a3 b3 && String.eqb a4 b4 && String.eqb a5 b5.

Definition tobs_eqb (a b : tobs) : bool := Z.eqb (to_status a) (to_status b) && parts_eqb (to_parts a) (to_parts b).

Definition check_tp (c : tcase) : verdict :=
  let L := t_L c in
  {| v_corr := wf_lreqb L && nonempty (l_method L) &&
               tobs_eqb {| to_status := 0; to_parts := url_parts (view_direct L) |} (t_direct c) &&
               tobs_eqb {| to_status := 0; to_parts := url_parts (view_tp (t_fixed_F10 c) L) |} (t_tp c);
     v_prop := tobs_eqb (t_direct c) (t_tp c);
     v_guards := guards [(10%Z, negb (t_fixed_F10 c) && g_F10 L)] |}.

(** /repo since fix: f446e16 — C13-F10 is repaired: the repaired variant is expected whatever the sentinel
    says (a regression is an ordinary VIOLATION) *)
Definition check_tp_repo (c : tcase) : verdict :=
  check_tp {| t_fixed_F10 := true; t_L := t_L c; t_direct := t_direct c; t_tp := t_tp c |}.

Definition tob s m sc h rp q := {| to_status := s; to_parts := (m, sc, h, rp, q) |}.
Definition tcs fx L d t := {| t_fixed_F10 := fx; t_L := L; t_direct := d; t_tp := t |}.

(* ------------------------------------------------------------------ third stream: requests in flight at the same time *)

(** A case: request 1 through each of the three entry points; its pipeline reads the body (first read,
    reported to the driver's hook), another request with a body of the same shape is served while it
    waits, then it reads the body again.  [i_expected]: the decoder's answer on request 1's own bytes
    (oracle).  The model ([read_body], theorem [C13_body_reads_stable]): both reads return that.
    [v_corr]: they do, at all three entry points;  [v_prop]: what the pipeline sees does not change over
    time and is the same at all entry points (no reference to the model or the oracle). *)
Record iobs := { io_status : Z; io_b1 : string; io_b2 : string; io_ok : bool }.
Record icase := { i_expected : string; i_obs : list iobs }.

Definition il_model (expected : string) : list (nat * option value) :=
  run_reads (fun _ => VJson expected) [0; 0]%nat [(lrq "" false "" "" "" [] "" "" PackRaw false, None)].

Definition check_il (c : icase) : verdict :=
  let want := match il_model (i_expected c) with
              | [(_, Some (VJson a)); (_, Some (VJson b))] => Some (a, b)
              | _ => None
              end in
  {| v_corr := match want with
               | Some (a, b) => forallb (fun o => Z.eqb (io_status o) 0 && io_ok o && String.eqb (io_b1 o) a && String.eqb (io_b2 o) b) (i_obs c)
               | None => false
               end && Nat.eqb (length (i_obs c)) 3;
     v_prop := forallb (fun o => Z.eqb (io_status o) 0 && io_ok o && String.eqb (io_b1 o) (io_b2 o)) (i_obs c) &&
               match i_obs c with
               | o :: r => forallb (fun o' => String.eqb (io_b1 o') (io_b1 o)) r
               | [] => false
               end;
     v_guards := [] |}.

Definition iob s b1 b2 ok := {| io_status := s; io_b1 := b1; io_b2 := b2; io_ok := ok |}.
Definition ics e os := {| i_expected := e; i_obs := os |}.
