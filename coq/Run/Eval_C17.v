(** Evaluator of the C17 correspondence streams.

    Stream "variants": a case is a catalogue (mechanism type and field-wise deep-hash view of
    each prototype), a table view -> behaviour digest, and a history of operations on the real
    mechanisms, each with what was observed after it: the view of the instance it created, the
    instances whose view CHANGED (with the new view), the behaviour digest of an execution.

    (i)  correspondence: the store-of-cells model (C17/Model.v, driven by the effect table
         regenerated from the current source, Gen/Effects.v) is run on the same history with
         [run_op] and must predict exactly these observations;
    (ii) property: on the implementation's observations alone — no instance that existed
         changed, a new variant shows the specification's view (catalogue configuration of its
         prototype overlaid with its own chain of overrides, [fold_left overlay]), an execution
         behaves as that view prescribes.  The specification side never looks at the store.

    Stream "race": the observation is what the race detector / the runtime reported while 16
    goroutines executed prototype and variants. *)
From HV Require Export Base.Prelude C17.Model Gen.Effects.
Open Scope string_scope.
Open Scope list_scope.

Inductive xop :=
| XWith (src : nat) (ovr : list (option val))   (* factory.Create / WithConfig accepted the override *)
| XReject (src : nat)                           (* WithConfig rejected the override: nothing is created *)
| XCall (i : nat)                               (* accessors (ID, IsFallbackOnErrorAllowed / ContinueOnError) *)
| XExec (i : nat)                               (* Execute *)
| XCross (i j : nat).                           (* Execute of i, then of j, on ONE shared real cache: outcome of j *)

Record ostep := { o_new : option (list val); o_changed : list (nat * list val); o_beh : option val }.

Record case := {
  c_cat : list (string * list val);             (* Go type and view of every prototype *)
  c_beh : list (list val * (val * val));        (* behaviour of an instance as a function of its view: (full behaviour
                                                   on an always-missing cache, outcome alone) — taken from the reference *)
  c_ops : list (xop * ostep) }.

(* ---- equality tests *)
Definition zs_eqb : list val -> list val -> bool := list_eqb Z.eqb.
Definition ozs_eqb (a b : option (list val)) : bool :=
  match a, b with Some x, Some y => zs_eqb x y | None, None => true | _, _ => false end.
Definition oz_eqb (a b : option val) : bool :=
  match a, b with Some x, Some y => Z.eqb x y | None, None => true | _, _ => false end.
Definition chg_eqb : list (nat * list val) -> list (nat * list val) -> bool :=
  list_eqb (fun a b => Nat.eqb (fst a) (fst b) && zs_eqb (snd a) (snd b)).
Definition ostep_eqb (a b : ostep) : bool :=
  ozs_eqb (o_new a) (o_new b) && chg_eqb (o_changed a) (o_changed b) && oz_eqb (o_beh a) (o_beh b).

Fixpoint lookup_both (tbl : list (list val * (val * val))) (v : list val) : option (val * val) :=
  match tbl with
  | [] => None
  | (k, d) :: r => if zs_eqb k v then Some d else lookup_both r v
  end.
Definition lookup_beh tbl v := option_map fst (lookup_both tbl v).
Definition lookup_out tbl v := option_map snd (lookup_both tbl v).

(* ---- the model side *)
Fixpoint row_index (tbl : list mech_row) (ty : string) : nat :=
  match tbl with
  | [] => 0
  | r :: rest => if String.eqb (r_type r) ty then 0 else S (row_index rest ty)
  end.

(** the catalogue laid out in a store: prototype [k] gets consecutive cells *)
Fixpoint layout (tbl : list mech_row) (cat : list (string * list val)) (k off : nat) : store * list inst :=
  match cat with
  | [] => ([], [])
  | (ty, v) :: rest =>
      let '(s, is) := layout tbl rest (S k) (off + length v) in
      (v ++ s, {| i_row := row_index tbl ty; i_cells := seq off (length v); i_origin := k; i_ovrs := [] |} :: is)
  end.

Definition to_op (x : xop) : op :=
  match x with
  | XWith s o => OWith s o
  | XReject s => OCall s "WithConfig"
  | XCall i => OCall i "ID"
  | XExec i => OCall i "Execute"
  | XCross _ j => OCall j "Execute"
  end.

Fixpoint changed_from (s s' : store) (insts : list inst) (j : nat) : list (nat * list val) :=
  match insts with
  | [] => []
  | i :: r => let rest := changed_from s s' r (S j) in
              if zs_eqb (view s i) (view s' i) then rest else (j, view s' i) :: rest
  end.

(** what the model predicts to be observed after operation [x] took it from [st] to [st'] *)
Definition predict (beh : list (list val * (val * val))) (st st' : store * list inst) (x : xop) : ostep :=
  let '(s, insts) := st in
  let '(s', insts') := st' in
  {| o_new := match x with
              | XWith _ _ => match nth_error insts' (length insts) with Some v => Some (view s' v) | None => None end
              | _ => None
              end;
     o_changed := changed_from s s' insts 0;
     o_beh := match x with
              | XExec i => match nth_error insts' i with Some v => lookup_beh beh (view s' v) | None => None end
              | XCross _ j => match nth_error insts' j with Some v => lookup_out beh (view s' v) | None => None end
              | _ => None
              end |}.

Fixpoint model_ok (tbl : list mech_row) (beh : list (list val * (val * val))) (st : store * list inst)
         (ops : list (xop * ostep)) : bool :=
  match ops with
  | [] => true
  | (x, o) :: r =>
      let st1 := match x with XCross i _ => run_op tbl st (OCall i "Execute") | _ => Some st end in
      match st1 with
      | Some st1 =>
          match run_op tbl st1 (to_op x) with
          | Some st' => ostep_eqb (predict beh st st' x) o && model_ok tbl beh st' r
          | None => false
          end
      | None => false
      end
  end.

(* ---- the specification side: an instance is (prototype, own chain of overrides) *)
Definition sinst := (nat * list (list (option val)))%type.

Definition sview (cat : list (string * list val)) (i : sinst) : option (list val) :=
  match nth_error cat (fst i) with
  | Some (_, base) => Some (fold_left overlay (snd i) base)
  | None => None
  end.

Definition expect (cat : list (string * list val)) (beh : list (list val * (val * val))) (is : list sinst) (x : xop)
  : option (ostep * list sinst) :=
  match x with
  | XWith src ovr =>
      match nth_error is src with
      | Some i => let i' := (fst i, snd i ++ [ovr]) in
                  Some ({| o_new := sview cat i'; o_changed := []; o_beh := None |}, is ++ [i'])
      | None => None
      end
  | XReject src =>
      match nth_error is src with
      | Some _ => Some ({| o_new := None; o_changed := []; o_beh := None |}, is)
      | None => None
      end
  | XCall k =>
      match nth_error is k with
      | Some _ => Some ({| o_new := None; o_changed := []; o_beh := None |}, is)
      | None => None
      end
  | XExec k =>
      match nth_error is k with
      | Some i => match sview cat i with
                  | Some v => Some ({| o_new := None; o_changed := []; o_beh := lookup_beh beh v |}, is)
                  | None => None
                  end
      | None => None
      end
  | XCross a k =>
      (* whatever rule [a] left in the cache, rule [k] does what its own configuration prescribes *)
      match nth_error is a, nth_error is k with
      | Some _, Some i => match sview cat i with
                          | Some v => Some ({| o_new := None; o_changed := []; o_beh := lookup_out beh v |}, is)
                          | None => None
                          end
      | _, _ => None
      end
  end.

(** a new variant must have a view ([o_new = None] for an accepted override is a failure) and an
    execution a behaviour *)
Definition well_observed (x : xop) (o : ostep) : bool :=
  match x with
  | XWith _ _ => match o_new o with Some _ => true | None => false end
  | XExec _ | XCross _ _ => match o_beh o with Some _ => true | None => false end
  | _ => true
  end.

Fixpoint spec_ok (cat : list (string * list val)) (beh : list (list val * (val * val))) (is : list sinst)
         (ops : list (xop * ostep)) : bool :=
  match ops with
  | [] => true
  | (x, o) :: r =>
      match expect cat beh is x with
      | Some (e, is') => ostep_eqb e o && well_observed x o && spec_ok cat beh is' r
      | None => false
      end
  end.

Definition protos (cat : list (string * list val)) : list sinst :=
  map (fun k => (k, [])) (seq 0 (length cat)).

Definition check_with (tbl : list mech_row) (c : case) : verdict :=
  {| v_corr := model_ok tbl (c_beh c) (layout tbl (c_cat c) 0 0) (c_ops c);
     v_prop := spec_ok (c_cat c) (c_beh c) (protos (c_cat c)) (c_ops c);
     v_guards := [] |}.

Definition check (c : case) : verdict := check_with generated_table c.

(* ---- race stream *)
Inductive robs := RaceFree | Raced | Changed | Crashed.

Record rcase := { r_types : list string; r_obs : robs }.

Definition robs_free (o : robs) : bool := match o with RaceFree => true | _ => false end.

(** the model predicts freedom from races for mechanism types whose row is read-only
    (theorem C17_race_free); for any other row it predicts nothing *)
Definition type_read_only (tbl : list mech_row) (ty : string) : option bool :=
  match find_row tbl ty with Some r => Some (read_only r) | None => None end.

Definition check_race_with (tbl : list mech_row) (c : rcase) : verdict :=
  {| v_corr := forallb (fun ty => match type_read_only tbl ty with
                                  | Some true => robs_free (r_obs c)
                                  | Some false => true
                                  | None => false
                                  end) (r_types c);
     v_prop := robs_free (r_obs c);
     v_guards := [] |}.

Definition check_race (c : rcase) : verdict := check_race_with generated_table c.

(* short constructors for the generated case files *)
Definition os n c b := {| o_new := n; o_changed := c; o_beh := b |}.
Definition cs cat beh ops := {| c_cat := cat; c_beh := beh; c_ops := ops |}.
Definition rc tys o := {| r_types := tys; r_obs := o |}.
