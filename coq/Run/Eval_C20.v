(** Evaluator of the C20 correspondence streams.

    A case is one load: defaults tree, optional file tree, environment (names
    and values as the process saw them) and the set of distinct outcomes the
    real loader produced over the driver's repetitions (Go's map iteration order
    is random, so a load that depends on it shows several outcomes).

    v_corr : every observed outcome is an outcome of the model of the code as it
             is for some iteration order (permutation of the environment list and
             reversal of the model's map iteration sites; two orders suffice when no
             finding guard fires and the load is in the property's domain, by
             C20_env_order_independent)
    v_prop : the load is outside the property's domain (two variables for one
             leaf, a variable that is a prefix of another, a type clash), or
             the loader produced exactly the specification's tree
    guards : 3 = C20-F3 shape, 4 = C20-F4 narrowed to where the defect shows ([guard_F4n]) *)
From HV Require Export Base.Prelude C20.Model C20.Spec.

Inductive outcome := OPanic | OErr | OTree (t : list (key * cfg)).

Record case := {
  c_pfx : string;
  c_types : list (string * cfg);               (* toRealType on every value of the case (oracle, observed) *)
  c_d : list (key * cfg);
  c_f : option (list (key * cfg));              (* the file as koanfFromYaml read it *)
  c_flog : option (list (key * cfg));           (* the file as the generator meant it (built from its logical leaves) *)
  c_env : list (string * string);
  c_obs : list outcome }.

Fixpoint assoc_str (s : string) (l : list (string * cfg)) : cfg :=
  match l with
  | [] => Nil
  | (k, v) :: r => if String.eqb k s then v else assoc_str s r
  end.

Definition oracle (c : case) : string -> cfg := fun s => assoc_str s (c_types c).

(** equality of trees up to the order of map entries (keys are unique) *)
Fixpoint cfg_equivb (a b : cfg) {struct a} : bool :=
  match a, b with
  | Nil, Nil => true
  | Leaf x, Leaf y => String.eqb x y
  | Map m1, Map m2 =>
      Nat.eqb (length m1) (length m2) &&
      (fix all (m : list (key * cfg)) : bool :=
         match m with
         | [] => true
         | (k, v) :: r => match lookup k m2 with
                          | Some v' => cfg_equivb v v'
                          | None => false
                          end && all r
         end) m1
  | Lst l1, Lst l2 =>
      (fix all2 (l1 l2 : list cfg) : bool :=
         match l1, l2 with
         | [], [] => true
         | x :: r1, y :: r2 => cfg_equivb x y && all2 r1 r2
         | _, _ => false
         end) l1 l2
  | _, _ => false
  end.

(** the driver observes the merged tree where the loader hands it to the decoder *)
Definition observe (r : res (list (key * cfg))) : outcome :=
  match r with Panic => OPanic | Ok m => OTree m end.

Definition outcome_eqb (a b : outcome) : bool :=
  match a, b with
  | OPanic, OPanic | OErr, OErr => true
  | OTree x, OTree y => cfg_equivb (Map x) (Map y)
  | _, _ => false
  end.

Fixpoint insert_all {A} (x : A) (l : list A) : list (list A) :=
  match l with
  | [] => [[x]]
  | y :: r => (x :: l) :: map (cons y) (insert_all x r)
  end.

Fixpoint perms {A} (l : list A) : list (list A) :=
  match l with
  | [] => [[]]
  | x :: r => flat_map (insert_all x) (perms r)
  end.

Fixpoint bitvecs (n : nat) : list (list bool) :=
  match n with
  | O => [[]]
  | S k => flat_map (fun v => [false :: v; true :: v]) (bitvecs k)
  end.

(** iteration orders tried: every permutation of the environment (when it is
    small) combined with reversal of the map iteration sites of the model *)
Definition orders (c : case) (all_orders : bool) : list (list bool * list (string * string)) :=
  let n := length (c_env c) in
  if all_orders && (n <=? 3)
  then list_prod (bitvecs 4) (perms (c_env c))
  else if all_orders && (n <=? 5)
  then list_prod [[]; [true; true; true; true]; [true]; [false; true; true; true]] (perms (c_env c))
  else [([], c_env c); ([true; true; true; true], rev (c_env c))].

Definition model_outcomes (fix3 fix4 : bool) (c : case) (all_orders : bool) : list outcome :=
  map (fun o => observe
                  (load (sh_bits (fst o)) (oracle c) fix3 fix4 (c_pfx c) (c_d c) (c_f c) (snd o)))
      (orders c all_orders).

Definition subset_outcomes (obs model : list outcome) : bool :=
  forallb (fun o => existsb (outcome_eqb o) model) obs.

Definition g_F3 (c : case) : bool := guard_F3 (norm_env (c_pfx c) (c_env c)).
Definition g_F4 (c : case) : bool := guard_F4 (norm_env (c_pfx c) (c_env c)).

Definition check (fix3 fix4 : bool) (c : case) : verdict :=
  let ne := norm_env (c_pfx c) (c_env c) in
  let g3 := g_F3 c && negb fix3 in
  let te := typed_env (oracle c) ne in
  let fm := match c_f c with Some m => m | None => [] end in
  let g4 := guard_F4n (c_d c) fm ne && negb fix4 in
  let scope := in_scope_b (c_d c) fm te in
  (* inside the domain every observed outcome must be an outcome of the model (all orders where no theorem
     says that two suffice: finding shapes, and names of the C20-F4 shape whose element exists); outside the
     domain the property says nothing and the exact outcome (panic, error, leftover keys) is not compared *)
  {| v_corr := negb (is_nil (c_obs c)) &&
               (* yaml.go: the file front end returns the tree that was written *)
               match c_f c, c_flog c with
               | Some a, Some b => cfg_equivb (Map a) (Map b)
               | None, None => true
               | _, _ => false
               end &&
               (negb scope ||
                subset_outcomes (c_obs c) (model_outcomes fix3 fix4 c (g3 || g4 || (g_F4 c && negb fix4))));
     v_prop := match scope, te with
               | true, Some env =>
                   match c_obs c with
                   | [OTree t] => meets_spec (c_d c) fm env t
                   | _ => false
                   end
               | _, _ => true
               end;
     v_guards := guards [(3%Z, g3); (4%Z, g4)] |}.

(* short constructors for the generated case files *)
Definition cs p t d f fl e o :=
  {| c_pfx := p; c_types := t; c_d := d; c_f := f; c_flog := fl; c_env := e; c_obs := o |}.
Definition kt (s : string) (nk val : string) : key := ([s], Some (nk, val)).
Definition kf (l : list string) : key := (l, None).

(* ------------------------------------------------------------------ stream "schema" *)

(** one probe of the schema/loader replay: the verdict of the real schema
    validation on a file holding the mechanism definition, and the verdict of
    the real loader on the same definition.
    v_corr : (controlled probes) both verdicts are what the regenerated tables predict
    v_prop : the two verdicts coincide ("usable from a file iff usable from the environment")
    guards : 1 = the probe touches a recorded disagreement row (C20-F1) of a group
             that is not repaired yet ([fa]/[fb] = repair of group a/b applied).
             Only group f is left, its rows are of kind "section" and no probe of
             this stream is (probes are mechanism definitions): guard 1 cannot fire
             here any more; C20-F1f is observed by stream meta (guard 7)
             6 = the probe sets a duration-valued option (C20-F6) *)
From HV Require Export C20.SchemaModel Gen.SchemaTables.

Record scase := { s_probe : probe; s_controlled : bool; s_schema : bool; s_loader : bool }.

Definition check_schema (fa fb : bool) (c : scase) : verdict :=
  {| v_corr := negb (s_controlled c) ||
               (Bool.eqb (accepts schema_tbl (s_probe c)) (s_schema c) &&
                Bool.eqb (accepts loader_tbl (s_probe c)) (s_loader c));
     v_prop := Bool.eqb (s_schema c) (s_loader c);
     v_guards := guards [(1%Z, probe_guard fa fb (s_probe c));
                         (6%Z, probe_guard_F6 schema_tbl loader_tbl (s_probe c))] |}.

Definition sc k t cf o mi c s l :=
  {| s_probe := {| p_kind := k; p_type := t; p_config := cf; p_opts := o; p_missing := mi |};
     s_controlled := c; s_schema := s; s_loader := l |}.

(* ------------------------------------------------------------------ stream "meta" *)

(** model-free: three related loads of one configuration through the real
    config.NewConfiguration (A: all in the file, S: the selected leaves in the
    environment, E: every nameable leaf in the environment), compared at the
    decoded Configuration.  There is no model output to compare with, so
    v_corr = true; v_prop is the property itself on the observation.
    guards : 4 = a variable continues with two or more name segments below a list
                 index and the file holds no map at that element (C20-F4)
             5 = the file of a split is not valid for the schema on its own
                 although the whole configuration is (C20-F5)
             6 = the schema rejects the all-file configuration, the loader
                 without the validator accepts it (C20-F6), and guard 7 does not fire
             7 = the same, for a configuration that sets something below one of the
                 four serve.* rows of C20-F1f (names the shared ServiceConfig struct
                 has and the schema does not allow for that service) *)
Record mcase := {
  mc_pfx : string;
  mc_vars : list (string * bool);       (* variable name, file holds a map at the list element(s) it addresses *)
  mc_all : list (string * bool);        (* the same for the all-environment load *)
  mc_okA : bool; mc_okS : bool; mc_okE : bool; mc_eqAS : bool; mc_eqAE : bool;
  mc_split_valid : bool; mc_rest_valid : bool; mc_schema_all : bool; mc_loader_all : bool }.

Definition f4_var (pfx : string) (v : string * bool) : bool :=
  flat_after_index (split_dot (normalise_key pfx (fst v))) && negb (snd v).

(** "serve.decision.cors" ... : the rows of [known_F1f] that name a setting (not the `[].if` rows, not `version`) *)
Definition f1f_paths : list string :=
  flat_map (fun r => match r with
                     | ROpt k sec n =>
                         if String.eqb k "section"%string && negb (existsb (String.eqb "if"%string) (split_dot n))
                         then [String.append sec (String.append "."%string (String.append n "."%string))] else []
                     | _ => []
                     end) known_F1f.

Definition f1f_var (pfx : string) (v : string * bool) : bool :=
  existsb (fun p => prefix p (normalise_key pfx (fst v))) f1f_paths.

Definition guard_meta_F1f (c : mcase) : bool :=
  negb fixed_F1f && negb (mc_schema_all c) && mc_loader_all c &&
  (existsb (f1f_var (mc_pfx c)) (mc_vars c) || existsb (f1f_var (mc_pfx c)) (mc_all c)).

Definition check_meta (c : mcase) : verdict :=
  {| v_corr := true;
     v_prop := if mc_okA c then mc_okS c && mc_eqAS c && mc_okE c && mc_eqAE c
               else negb (mc_okS c || mc_okE c);
     v_guards := guards [(4%Z, existsb (f4_var (mc_pfx c)) (mc_vars c) || existsb (f4_var (mc_pfx c)) (mc_all c));
                         (5%Z, mc_schema_all c && (negb (mc_split_valid c) || negb (mc_rest_valid c)));
                         (6%Z, negb (mc_schema_all c) && mc_loader_all c && negb (guard_meta_F1f c));
                         (7%Z, guard_meta_F1f c)] |}.

Definition mc p v a oa os oe es ee sv rv sa la :=
  {| mc_pfx := p; mc_vars := v; mc_all := a; mc_okA := oa; mc_okS := os; mc_okE := oe; mc_eqAS := es; mc_eqAE := ee;
     mc_split_valid := sv; mc_rest_valid := rv; mc_schema_all := sa; mc_loader_all := la |}.

(* ------------------------------------------------------------------ stream "seq" *)

(** model-free: a SEQUENCE of 2-4 different loads through the real
    config.NewConfiguration in one fresh process; per load the digest of the
    canonical deep rendering of the decoded Configuration right after the load,
    the digests of the same result looked at again after each later load, and
    the same (file, environment) loaded ALONE in a fresh process, twice.
    This is the conclusion of C20_history_independent on the observation
    (C20/History.v is the model of why it holds for the code as it is).
    v_corr : the two references of every load agree (a load alone is stable)
    v_prop : every load succeeds iff it does alone and renders as alone (the n-th
             load inherits nothing); every later look at it renders the same
             (earlier results do not change)
    guards : none *)
Record qload := {
  q_ok : bool; q_digest : string; q_later : list string;
  q_ref_ok : bool; q_ref : string; q_ref2_ok : bool; q_ref2 : string }.

Definition ql a b c d e f g :=
  {| q_ok := a; q_digest := b; q_later := c; q_ref_ok := d; q_ref := e; q_ref2_ok := f; q_ref2 := g |}.

Definition check_seq (c : list qload) : verdict :=
  {| v_corr := forallb (fun l => Bool.eqb (q_ref_ok l) (q_ref2_ok l) && String.eqb (q_ref l) (q_ref2 l)) c;
     v_prop := forallb (fun l => Bool.eqb (q_ok l) (q_ref_ok l) && String.eqb (q_digest l) (q_ref l) &&
                                 forallb (String.eqb (q_digest l)) (q_later l)) c;
     v_guards := [] |}.

Definition qc (l : list qload) : list qload := l.
