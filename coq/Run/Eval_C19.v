(** Evaluators of the C19 correspondence streams.  For every case: (i) model =
    observation, (ii) the property's predicate on the implementation's
    observation (no process exit; a failed load leaves the state as it was),
    (iii) the numbers of the finding guards that fire on the input. *)
From HV Require Export Base.Prelude C19.Model C19.Proofs.

(** the repairs present in the tree the check runs against: all of them, since the
    `fix:` commits bac6229 b43bb0a f8fe9cb 7262936 c263a86 63a8b58 b504821 b69f65b b37641c 9709c71
    7bff27d e0c0f15 (C19-F1 … F10, F12, F13), 07a625c (C18-F2) and 5e2c60e (C06-F6).  [no_fixes] is the pinned tree. *)
Definition impl_fixes : fixes :=
  {| fx1 := true; fx2 := true; fx3 := true; fx4 := true; fx5 := true; fx6 := true; fx7 := true; fx8 := true;
     fx9 := true;     (* C19-F9 repaired by fix: commit b37641c *)
     fx10 := true;    (* C19-F10 repaired by fix: commit 9709c71 *)
     fx12 := true;     (* C19-F12 repaired by fix: commit 7bff27d *)
     fx13 := true;     (* C19-F13 repaired by fix: commit e0c0f15 *)
     fxdup := true;   (* C06-F6 repaired by fix: commit 5e2c60e *)
     fx18 := true |}.

Definition memn (l : list nat) (n : nat) : bool := existsb (Nat.eqb n) l.
Definition mkc id pub subj iss aki ski :=
  {| c_id := id; c_pub := pub; c_subj := subj; c_iss := iss; c_aki := aki; c_ski := ski |}.
Definition mkst kid a pub keys chain :=
  {| st_kid := kid; st_alg := a; st_pub := pub; st_keys := keys; st_chain := chain |}.

Definition str_pair_eqb (a b : string * string) : bool := String.eqb (fst a) (fst b) && String.eqb (snd a) (snd b).

Definition kstate_eqb (a b : kstate) : bool :=
  String.eqb (st_kid a) (st_kid b) && String.eqb (st_alg a) (st_alg b) &&
  option_eqb Nat.eqb (st_pub a) (st_pub b) && list_eqb str_pair_eqb (st_keys a) (st_keys b) &&
  list_eqb Nat.eqb (st_chain a) (st_chain b).

Definition reload_eqb (a b : reload) : bool :=
  match a, b with
  | Reloaded x, Reloaded y | Kept x, Kept y => kstate_eqb x y
  | ProcessExit s, ProcessExit s' => site_eqb s s'
  | _, _ => false
  end.

(** ** reload streams (signer, tls, httpsig) *)
Record rcase := {
  rc_comp : comp; rc_input : kinput; rc_pre : kstate; rc_obs : reload }.

Definition rc c nopath keyid file trailing chain_ok usable pre obs :=
  {| rc_comp := c;
     rc_input := {| i_path_empty := nopath; i_keyid := keyid; i_file := file; i_trailing := trailing;
                    i_chain_ok := chain_ok; i_usable := usable |};
     rc_pre := pre; rc_obs := obs |}.

(** the property on the observation, from the statement alone: the process lives; unless the
    load succeeded the component's state is the one it had; and a PARTIAL file (undecodable
    tail) is not loaded.  [Reloaded] / [Kept] is the return value of the component's load. *)
Definition reload_prop (partial : bool) (pre : kstate) (o : reload) : bool :=
  match o with
  | Reloaded _ => negb partial
  | Kept st => kstate_eqb st pre
  | ProcessExit _ => false
  end.

(** correspondence on what the property talks about: the outcome class, the exit site, the state
    kept by a rejected reload.  WHICH state a successful reload produces (key selection, kid
    generation, chain order) is not C19's business and is not compared. *)
Definition reload_corr (a b : reload) : bool :=
  match a, b with
  | Reloaded _, Reloaded _ => true
  | Kept x, Kept y => kstate_eqb x y
  | ProcessExit s, ProcessExit s' => site_eqb s s'
  | _, _ => false
  end.

Definition check_reload (impl : fixes) (c : rcase) : verdict :=
  {| v_corr := reload_corr (on_changed (rc_comp c) impl (rc_pre c) (rc_input c)) (rc_obs c);
     v_prop := reload_prop (i_trailing (rc_input c)) (rc_pre c) (rc_obs c);
     v_guards := guards [(1%Z, guard_F1 (rc_comp c) impl (rc_input c));
                         (* also where only the repair of F2 (createEntry rejects the size) would change the outcome *)
                         (2%Z, guard_F2 (rc_comp c) impl (rc_input c) ||
                               match ks_of (rc_comp c) impl (rc_input c) with Ok es => existsb unsupported es | _ => false end);
                         (5%Z, guard_F5 (rc_comp c) impl (rc_input c));
                         (6%Z, guard_F6 (rc_comp c) impl (rc_input c));
                         (10%Z, guard_F10 (rc_comp c) impl (rc_input c))] |}.

(** ** key store stream: createKeyStore + Entry.JWK of every entry *)
Record oentry := { oe_entry : entry; oe_jwk : res string }.
Definition oe kid a z pub chain jwk :=
  {| oe_entry := {| e_kid := kid; e_alg := a; e_size := z; e_pub := pub;
                    e_chain := map (fun n => mkc n 0 "" "" "" "") chain |};
     oe_jwk := jwk |}.

Record kcase := { kc_blocks : list block; kc_trailing : bool; kc_chain_ok : nat -> bool; kc_obs : res (list oentry) }.
Definition kc bl trailing ok obs := {| kc_blocks := bl; kc_trailing := trailing; kc_chain_ok := ok; kc_obs := obs |}.

Definition res_eqb {A} (eqb : A -> A -> bool) (a b : res A) : bool :=
  match a, b with
  | Ok x, Ok y => eqb x y
  | Err, Err => true
  | Panic s, Panic s' => site_eqb s s'
  | _, _ => false
  end.

Definition entry_eqb (a b : entry) : bool :=
  String.eqb (e_kid a) (e_kid b) && alg_eqb (e_alg a) (e_alg b) && Z.eqb (e_size a) (e_size b) &&
  Nat.eqb (e_pub a) (e_pub b) && list_eqb Nat.eqb (map c_id (e_chain a)) (map c_id (e_chain b)).

Definition is_panic {A} (r : res A) : bool := match r with Panic _ => true | _ => false end.

(* per entry: the key (algorithm, size) and whether JWK() panics; kid / chain are C16's business *)
Definition oentry_eqb (a b : oentry) : bool :=
  alg_eqb (e_alg (oe_entry a)) (e_alg (oe_entry b)) && Z.eqb (e_size (oe_entry a)) (e_size (oe_entry b)) &&
  Bool.eqb (is_panic (oe_jwk a)) (is_panic (oe_jwk b)).

Definition ks_result (impl : fixes) (c : kcase) : res (list entry) :=
  if fx10 impl && kc_trailing c then Err else create_key_store impl (kc_chain_ok c) (kc_blocks c).

Definition ks_model (impl : fixes) (c : kcase) : res (list oentry) :=
  match ks_result impl c with
  | Ok es => Ok (map (fun e => {| oe_entry := e; oe_jwk := jose_alg e |}) es)
  | Err => Err
  | Panic s => Panic s
  end.


Definition check_ks (impl : fixes) (c : kcase) : verdict :=
  {| v_corr := res_eqb (list_eqb oentry_eqb) (ks_model impl c) (kc_obs c);
     (* no panic, every entry has a JWK, and a partial file (undecodable tail) is not accepted *)
     v_prop := match kc_obs c with
               | Ok es => negb (existsb (fun e => is_panic (oe_jwk e)) es) && negb (kc_trailing c)
               | Err => true
               | Panic _ => false
               end;
     v_guards := guards [(1%Z, match ks_result impl c with Ok [] => true | _ => false end);
                         (2%Z, match ks_result impl c with Ok es => existsb unsupported es | _ => false end);
                         (6%Z, match ks_result impl c with Panic SChainLoop => true | _ => false end);
                         (10%Z, negb (fx10 impl) && kc_trailing c &&
                                match ks_result impl c with Ok _ => true | _ => false end)] |}.

(** ** trust store stream *)
Record tcase := { tc_strict : bool; tc_input : ts_input; tc_obs : res (list nat) }.
Definition tc strict bl trailing obs :=
  {| tc_strict := strict; tc_input := {| ts_blocks := bl; ts_trailing := trailing |}; tc_obs := obs |}.

(* the certificates themselves are not the property's business: their number is compared *)
Definition len_eqb (a b : list nat) : bool := Nat.eqb (length a) (length b).

Definition check_ts (impl : fixes) (c : tcase) : verdict :=
  let partial := is_nil (ts_blocks (tc_input c)) || ts_trailing (tc_input c) in
  {| v_corr := res_eqb len_eqb (trust_store impl (tc_strict c) (tc_input c)) (tc_obs c);
     (* no panic; a file without any block or with an undecodable tail is not accepted *)
     v_prop := match tc_obs c with Ok _ => negb partial | Err => true | Panic _ => false end;
     v_guards := guards [(7%Z, guard_F7 impl (tc_strict c) (tc_input c));
                         (10%Z, negb (fx10 impl) && partial &&
                                match trust_store impl (tc_strict c) (tc_input c) with Ok _ => true | _ => false end)] |}.

(** ** rule-set stream *)
Definition stp m mr cel := {| s_map := m; s_mech := mr; s_cel := cel |}.
Definition rl name id ex eh backend rest :=
  {| r_name := name; r_id := id; r_exec := ex; r_eh := eh; r_backend := backend; r_rest := rest |}.

Record rscase := { rs_proxy : bool; rs_default : bool; rs_pre : list string; rs_ev : rs_event; rs_obs : rs_out }.
Definition rsc proxy def pre op version rules repo_ok obs :=
  {| rs_proxy := proxy; rs_default := def; rs_pre := pre;
     rs_ev := {| ev_op := op; ev_version := version; ev_parse := rules; ev_repo_ok := repo_ok |};
     rs_obs := obs |}.

(** rule ids as a set (the repository's order of rules is C06's business) *)
Definition subset (a b : list string) : bool := forallb (fun x => existsb (String.eqb x) b) a.
(* mutual inclusion only: what the repository does with two rules of the same id is C06's business *)
Definition ids_eqb (a b : list string) : bool := subset a b && subset b a.

Definition rs_out_eqb (a b : rs_out) : bool :=
  match a, b with
  | RsApplied _, RsApplied _ => true           (* what an accepted rule set looks like in the repository: C06 *)
  | RsRejected x, RsRejected y => ids_eqb x y
  | RsExit s, RsExit s' => site_eqb s s'
  | _, _ => false
  end.

(** the input of C19-F9 inside a rule set: some step has config.assertions.scopes on which the decode hook panics *)
Definition step_scopes_bad (impl : fixes) (st : step) : bool :=
  match lookup "config" (s_map st) with
  | Some (YMap c) => match lookup "assertions" c with
                     | Some (YMap a) => match lookup "scopes" a with Some v => guard_F9 impl v | None => false end
                     | _ => false
                     end
  | _ => false
  end.

Definition rules_scopes_bad (impl : fixes) (e : rs_event) : bool :=
  match ev_parse e with
  | PParsed rs => existsb (fun r => existsb (step_scopes_bad impl) (r_exec r)) rs
  | _ => false
  end.

Definition check_rules (impl : fixes) (c : rscase) : verdict :=
  {| v_corr := rs_out_eqb (process impl (rs_proxy c) (rs_default c) (rs_pre c) (rs_ev c)) (rs_obs c);
     v_prop := match rs_obs c with
               | RsApplied _ => true
               | RsRejected st => ids_eqb st (rs_pre c)
               | RsExit _ => false
               end;
     v_guards := guards [(3%Z, guard_F3 impl (rs_proxy c) (rs_default c) (rs_ev c));
                         (8%Z, match process impl (rs_proxy c) (rs_default c) [] (rs_ev c) with RsExit SDecode => true | _ => false end);
                         (* a collaborator taken as data panicked: with the parser's key check (fx8) in place this is
                            the scopes decode hook of C19-F9, whose repair changes the oracle's answer *)
                         (9%Z, rules_scopes_bad impl (rs_ev c) &&
                               match process impl (rs_proxy c) (rs_default c) [] (rs_ev c) with RsExit SMech => true | _ => false end)] |}.

(** ** file-system provider stream *)
Definition bits c w m r n := {| o_create := c; o_write := w; o_chmod := m; o_remove := r; o_rename := n |}.
Definition fsr st calls err := {| fr_state := st; fr_calls := calls; fr_err := err |}.

Record fscase := { fs_pre : option nat; fs_ev : fs_event; fs_obs : fs_out }.
Definition fsc pre b read stat_ok proc_ok obs :=
  {| fs_pre := pre; fs_ev := {| fe_bits := b; fe_read := read; fe_stat_ok := stat_ok; fe_proc_ok := proc_ok |}; fs_obs := obs |}.

Definition pcall_eqb (a b : pcall) : bool :=
  match a, b with PCreated, PCreated | PUpdated, PUpdated | PDeleted, PDeleted => true | _, _ => false end.

(* stored state and whether an error was returned; the processor calls are reported, not compared *)
Definition fs_out_eqb (a b : fs_out) : bool :=
  match a, b with
  | FsDone x, FsDone y => option_eqb Nat.eqb (fr_state x) (fr_state y) && Bool.eqb (fr_err x) (fr_err y)
  | FsExit s, FsExit s' => site_eqb s s'
  | _, _ => false
  end.

Definition check_fs (impl : fixes) (c : fscase) : verdict :=
  {| v_corr := fs_out_eqb (fs_changed impl (fs_pre c) (fs_ev c)) (fs_obs c);
     (* the loop survives; an event that ends in an error leaves the stored state; and so does an event that
        finds the rule file EMPTY (truncation at offset 0) *)
     v_prop := match fs_obs c with
               | FsDone x => (negb (fr_err x) || option_eqb Nat.eqb (fr_state x) (fs_pre c)) &&
                             (match fe_read (fs_ev c) with RdEmpty => option_eqb Nat.eqb (fr_state x) (fs_pre c) | _ => true end)
               | FsExit _ => false
               end;
     v_guards := guards [(4%Z, guard_F4 impl (fs_ev c)); (11%Z, guard_F11 impl (fs_pre c) (fs_ev c))] |}.

(** ** request stream: composite extractor and recovery middleware *)
Inductive qcase :=
| QExtract (l : list (option string)) (obs : res string)
| QRecover (h : handled) (obs : Z).

Definition check_req (impl : fixes) (c : qcase) : verdict :=
  match c with
  | QExtract l obs =>
    {| v_corr := res_eqb String.eqb (composite_extract l) obs;
       v_prop := true;   (* a panic here is on a request goroutine: the property is about what recovery makes of it *)
       v_guards := [] |}
  | QRecover h obs =>
    {| v_corr := Z.eqb (recovery_mw h) obs;
       (* the driver reports -1 when the panic escaped the middleware: no response at all *)
       v_prop := match h with
                 | Panicked _ => negb (success obs) && Z.leb 100 obs
                 | PanickedAfter _ => Z.leb 100 obs        (* a response there is; its status was sent before the panic *)
                 | Answered _ => true
                 end;
       v_guards := [] |}
  end.

(** ** remote documents and tokens on request goroutines: the complete valid
    document must be accepted; a cut (or otherwise certainly invalid) one must
    never end in success — an error or a panic, which the recovery middleware
    answers with an error status *)
Inductive robs := ROk | RErr | RPanics.
Record rmcase := { rm_expect : option bool; rm_obs : robs }.
Definition rmc e o := {| rm_expect := e; rm_obs := o |}.

Definition check_remote (impl : fixes) (c : rmcase) : verdict :=
  let ok := match rm_obs c with ROk => true | _ => false end in
  let final_status := match rm_obs c with ROk => 200%Z | RErr => 401%Z | RPanics => recovery_mw (Panicked PkOther) end in
  {| v_corr := match rm_obs c with RPanics => false | _ => match rm_expect c with Some b => Bool.eqb ok b | None => true end end;
     v_prop := match rm_expect c with Some false => negb (success final_status) | _ => true end;
     v_guards := [] |}.

(** ** the scopes-matcher decode hook on list / map values *)
Record scase := { sc_val : yv; sc_obs : res unit }.
Definition scs v o := {| sc_val := v; sc_obs := o |}.
Definition unit_eqb (a b : unit) : bool := true.
Definition check_scopes (impl : fixes) (c : scase) : verdict :=
  {| v_corr := res_eqb unit_eqb (decode_scopes impl (sc_val c)) (sc_obs c);
     v_prop := negb (is_panic (sc_obs c));
     v_guards := guards [(9%Z, guard_F9 impl (sc_val c))] |}.

(** ** the streams without in-package access share one driver binary *)
Inductive mcase := MK (c : kcase) | MT (c : tcase) | MQ (c : qcase) | MR (c : rmcase) | ME (c : rcase) | MS (c : scase).
Definition check_misc (impl : fixes) (c : mcase) : verdict :=
  match c with
  | MK c => check_ks impl c
  | MT c => check_ts impl c
  | MQ c => check_req impl c
  | MR c => check_remote impl c
  | ME c => check_reload impl c     (* end-to-end through the real watcher, in a child process *)
  | MS c => check_scopes impl c
  end.

(** ** the key-store watcher's loop: every rewrite (with watcher errors in between) is delivered to the
    listeners — the loop has no decision of its own to model, "alive" is the whole property *)
Inductive wlcase := WL (delivered : list bool).
Definition check_wloop (impl : fixes) (c : wlcase) : verdict :=
  match c with WL l => {| v_corr := forallb (fun b => b) l; v_prop := forallb (fun b => b) l; v_guards := [] |} end.

(** ** kubernetes provider: informer callbacks ending in updateStatus *)
Record k8case := { k8_tries : list us_try; k8_obs : res nat }.
Definition tr parts patch get_ok := {| t_parts := parts; t_patch := patch; t_get_ok := get_ok |}.
Definition k8c tries obs := {| k8_tries := tries; k8_obs := obs |}.
Definition check_k8s (impl : fixes) (c : k8case) : verdict :=
  {| v_corr := res_eqb Nat.eqb (update_status impl (k8_tries c)) (k8_obs c);
     v_prop := negb (is_panic (k8_obs c));
     v_guards := guards [(12%Z, guard_F12 impl (k8_tries c)); (13%Z, guard_F13 impl (k8_tries c))] |}.
