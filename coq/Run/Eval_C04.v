(** Evaluator of the C04 correspondence streams.  A case is a rule's chain of
    real authenticator instances and a sequence of requests (credential shapes)
    sent through it with one cache; per request the driver saw, for every
    authenticator whose Execute ran: its position in the configured chain, what
    IsFallbackOnErrorAllowed() answered, whether its cache lookup hit, and its
    outcome; then the composite's answer and — when the request went through a
    complete service — status class and forwarded subject of the response. *)
From HV Require Export Base.Prelude C04.Model C04.Proofs.

Record seen1 := { s_pos : nat; s_fb : bool; s_hit : lookup; s_out : outcome }.

(** answer of the decision / Envoy ext_authz service *)
Inductive e2e :=
| E2None                          (* the composite was called directly *)
| E2Ok (sub : option string)      (* 2xx / OK; value of the header the finalizer fills with Subject.ID *)
| E2Denied.                       (* any other answer *)

Record step := { st_req : request; st_seen : list seen1; st_res : result; st_e2e : e2e }.
Record case := { c_chain : list authn; c_steps : list step }.

(* ------------------------------------------------------------------ what the property talks about *)

(** outcome classes: accepted (with the subject), "no credentials", any other failure *)
Inductive ocls := CAcc (s : string) | CNoCreds | CFail.

Definition cls (o : outcome) : ocls :=
  match o with Accepted s => CAcc s | Failed ENoCreds => CNoCreds | Failed _ => CFail end.

Definition cls_eqb (a b : ocls) : bool :=
  match a, b with
  | CAcc x, CAcc y => String.eqb x y
  | CNoCreds, CNoCreds | CFail, CFail => true
  | _, _ => false
  end.

(** answer classes: a subject, an error, nothing *)
Definition res_cls_eqb (a b : result) : bool :=
  match a, b with
  | RSubject x, RSubject y => String.eqb x y
  | RError _, RError _ | RNil, RNil => true
  | _, _ => false
  end.

(** the service answered what the composite answered *)
Definition e2e_ok (r : result) (e : e2e) : bool :=
  match e, r with
  | E2None, _ => true
  | E2Ok (Some s'), RSubject s => String.eqb s s'
  | E2Denied, RError _ => true
  | _, _ => false
  end.

(* ------------------------------------------------------------------ the property on the observation *)

(** "explicitly allows fallback on error", decided *)
Definition opts_inb (a : authn) : bool :=
  match a_over_fb a with Some b => b | None => a_proto_fb a end.

Lemma opts_inb_spec a : opts_inb a = true <-> opts_in a.
Proof.
  unfold opts_inb. split.
  - destruct (a_over_fb a) as [[|]|] eqn:E; intro H; try discriminate.
    + apply optin_rule; assumption.
    + apply optin_proto; assumption.
  - intros [H | H1 H2]; rewrite ?H, ?H1; auto.
Qed.

(** the request carries credentials of the authenticator's kind, decided *)
Definition presentsb (q : request) (a : authn) : bool :=
  match kind_of (a_type a) with Some k => presented k q | None => true end.

Lemma presentsb_spec q a : presentsb q a = true <-> presents q a.
Proof. unfold presentsb, presents. destruct (kind_of (a_type a)); split; auto. Qed.

(** one consulted authenticator respects the statement:
    it found credentials of its kind => its failure is not of the "no credentials" kind;
    it says it allows fallback => the step is opted in explicitly *)
Definition sound1 (q : request) (a : authn) (s : seen1) : bool :=
  match s_out s with Failed ENoCreds => negb (presentsb q a) | _ => true end &&
  implb (s_fb s) (opts_inb a).

(** the property on the implementation's observation: the consulted
    authenticators are the configured ones in their order; each but the last
    found no credentials or allows fallback; the run ends with the first
    acceptance (its subject is the answer), with a failure that neither lacks
    credentials nor allows fallback (the answer is an error), or with the end of
    the chain (the answer is an error; nothing for the empty chain) *)
Fixpoint prop_chain (q : request) (pos : nat) (ca : list authn) (seen : list seen1) (res last : result) : bool :=
  match seen, ca with
  | [], [] => res_cls_eqb res last
  | s :: seen', a :: ca' =>
      Nat.eqb (s_pos s) pos && sound1 q a s &&
      match s_out s with
      | Accepted sub => is_nil seen' && res_cls_eqb res (RSubject sub)
      | Failed e =>
          if is_argument e || s_fb s
          then prop_chain q (S pos) ca' seen' res (RError e)
          else is_nil seen' && res_cls_eqb res (RError e)
      end
  | _, _ => false
  end.

Definition prop_step (ca : list authn) (s : step) : bool :=
  prop_chain (st_req s) 0 ca (st_seen s) (st_res s) RNil && e2e_ok (st_res s) (st_e2e s).

(* ------------------------------------------------------------------ correspondence with the model *)

(** the model on the same request, with the cache lookups the driver saw; compared
    are: number consulted, outcome classes (subjects included), flags, positions,
    class of the answer, answer of the service *)
Definition corr_step (ca : list authn) (s : step) : bool :=
  let ch := to_chain (st_req s) ca (map s_hit (st_seen s)) in
  let '(n, r) := execute ch in
  Nat.eqb n (length (st_seen s)) &&
  list_eqb cls_eqb (map (fun c => cls (c_out c)) (firstn n ch)) (map (fun o => cls (s_out o)) (st_seen s)) &&
  list_eqb Bool.eqb (map c_fb (firstn n ch)) (map s_fb (st_seen s)) &&
  list_eqb Nat.eqb (seq 0 n) (map s_pos (st_seen s)) &&
  res_cls_eqb r (st_res s) && e2e_ok r (st_e2e s).

Definition check (c : case) : verdict :=
  {| v_corr := forallb (corr_step (c_chain c)) (c_steps c);
     v_prop := forallb (prop_step (c_chain c)) (c_steps c);
     v_guards := [] |}.

(* short constructors for the generated case files *)
Definition au t pfb ov := {| a_type := t; a_proto_fb := pfb; a_over_fb := ov |}.
Definition tk j i := {| t_jwt := j; t_intro := i |}.
Definition rq a xt qu b c x sw :=
  {| q_auth := a; q_xtok := xt; q_query := qu; q_body := b; q_cookie := c; q_xsess := x; q_sw := sw |}.
Definition sn p fb h o := {| s_pos := p; s_fb := fb; s_hit := h; s_out := o |}.
Definition stp q seen res e := {| st_req := q; st_seen := seen; st_res := res; st_e2e := e |}.
Definition cs ch steps := {| c_chain := ch; c_steps := steps |}.
