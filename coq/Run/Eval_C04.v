(** Evaluator of the C04 correspondence streams.  A case is a rule's chain of
    real authenticator instances and a sequence of requests (credential shapes)
    sent through it with one cache; per request the driver saw, for every
    authenticator whose Execute ran: its position in the configured chain, what
    IsFallbackOnErrorAllowed() answered, whether its cache lookup hit, and its
    outcome; then the composite's answer and — when the request went through a
    complete service — status class and forwarded subject of the response. *)
From HV Require Export Base.Prelude C04.Model C04.Proofs C04.Checker.

(** answer of the decision / Envoy ext_authz service *)
Inductive e2e :=
| E2None                          (* the composite was called directly *)
| E2Ok (sub : option string)      (* 2xx / OK; value of the header the finalizer fills with Subject.ID *)
| E2Denied.                       (* any other answer *)

(** [st_rule]: which of the case's rules handled the request *)
Record step := { st_rule : nat; st_req : request; st_seen : list seen1; st_res : result; st_e2e : e2e }.

(** the rules of the case were created by one rule factory from one set of
    prototypes, in some order; each is given as its steps resolved against the
    prototypes: (type with the rule-level settings applied, flag of the prototype,
    rule-level flag).  That the flag in force for a step is a function of these two
    alone — whatever other rules were created before or after from the same
    prototypes — is theorem [C04_flag_history_independent]; here it is what the
    observed IsFallbackOnErrorAllowed() of every rule's steps is compared with. *)
Record case := { c_rules : list (list authn); c_steps : list step }.

(* ------------------------------------------------------------------ what the property talks about *)

(** outcome classes: accepted (with the subject), "no credentials", any other failure *)
Inductive ocls := CAcc (s : string) | CNoCreds | CFail.

Definition cls (o : outcome) : ocls :=
  match o with Accepted s => CAcc s | Failed ENoCreds => CNoCreds | Failed _ => CFail end.

Definition cls_eqb (a b : ocls) : bool :=
  match a, b with
  | CAcc x, CAcc y => String.eqb x y
  | CNoCreds, CNoCreds | CFail, CFail => true
  | _, _ => false
  end.

(** the service answered what the composite answered *)
Definition e2e_ok (r : result) (e : e2e) : bool :=
  match e, r with
  | E2None, _ => true
  | E2Ok (Some s'), RSubject s => String.eqb s s'
  | E2Denied, RError _ => true
  | _, _ => false
  end.

(* ------------------------------------------------------------------ the property on the observation *)

(** [prop_chain] (C04/Checker.v) on the composite's observation, and the service answered what the composite answered *)
Definition prop_step (ca : list authn) (s : step) : bool :=
  prop_chain (st_req s) 0 ca (st_seen s) (st_res s) RNil && e2e_ok (st_res s) (st_e2e s).

(* ------------------------------------------------------------------ correspondence with the model *)

(** the model on the same request, with the cache lookups the driver saw; compared
    are: number consulted, outcome classes (subjects included), flags, positions,
    class of the answer, answer of the service *)
Definition corr_step (ca : list authn) (s : step) : bool :=
  let ch := to_chain (st_req s) ca (map s_hit (st_seen s)) in
  let '(n, r) := execute ch in
  Nat.eqb n (length (st_seen s)) &&
  list_eqb cls_eqb (map (fun c => cls (c_out c)) (firstn n ch)) (map (fun o => cls (s_out o)) (st_seen s)) &&
  list_eqb Bool.eqb (map c_fb (firstn n ch)) (map s_fb (st_seen s)) &&
  list_eqb Nat.eqb (seq 0 n) (map s_pos (st_seen s)) &&
  res_cls_eqb r (st_res s) && e2e_ok r (st_e2e s).

Definition on_rule (f : list authn -> step -> bool) (c : case) (s : step) : bool :=
  match nth_error (c_rules c) (st_rule s) with Some ca => f ca s | None => false end.

Definition check (c : case) : verdict :=
  {| v_corr := forallb (on_rule corr_step c) (c_steps c);
     v_prop := forallb (on_rule prop_step c) (c_steps c);
     v_guards := [] |}.

(* short constructors for the generated case files *)
Definition au t pfb ov := {| a_type := t; a_proto_fb := pfb; a_over_fb := ov |}.
Definition tk j i := {| t_jwt := j; t_intro := i |}.
Definition rq a xt qu b c x sw :=
  {| q_auth := a; q_xtok := xt; q_query := qu; q_body := b; q_cookie := c; q_xsess := x; q_sw := sw |}.
Definition sn p fb h o := {| s_pos := p; s_fb := fb; s_hit := h; s_out := o |}.
Definition stp k q seen res e := {| st_rule := k; st_req := q; st_seen := seen; st_res := res; st_e2e := e |}.
Definition cs rules steps := {| c_rules := rules; c_steps := steps |}.
