(** Evaluator of the C04 correspondence stream: a chain of real authenticator
    instances, a request described by its credential shapes, the outcome the
    driver saw for every consulted authenticator and the composite's answer. *)
From HV Require Export Base.Prelude C04.Model C04.Proofs.

Record case := {
  c_chain : list authn;
  c_req : request;
  c_seen : list outcome;     (* outcome of each authenticator whose Execute ran, in order *)
  c_res : result }.          (* what compositeSubjectCreator.Execute returned *)

(** a "no credentials" answer exactly when no credentials of the kind are in the request *)
Definition sound_class (a : authn) (q : request) (o : outcome) : bool :=
  Bool.eqb (outcome_eqb o (Failed ENoCreds)) (negb (presented (a_type a) q)).

(** the property on the implementation's observation: consulted authenticators
    are a prefix; each but the last lets pass (no credentials or opt-in); the
    run ends with an acceptance, a blocking failure, or the end of the chain;
    the answer is the last consulted authenticator's; classification is sound *)
Fixpoint prop_chain (q : request) (ca : list authn) (seen : list outcome) (res last : result) : bool :=
  match seen, ca with
  | [], [] => result_eqb res last
  | o :: seen', a :: ca' =>
      sound_class a q o &&
      match o with
      | Accepted s => is_nil seen' && result_eqb res (RSubject s)
      | Failed e =>
          if is_argument e || fallback_allowed a
          then prop_chain q ca' seen' res (RError e)
          else is_nil seen' && result_eqb res (RError e)
      end
  | _, _ => false
  end.

Definition check (c : case) : verdict :=
  let '(n, r) := authenticate (c_chain c) (c_req c) in
  {| v_corr := Nat.eqb n (length (c_seen c)) &&
               list_eqb outcome_eqb (firstn n (map (fun a => classify (a_type a) (c_req c)) (c_chain c))) (c_seen c) &&
               result_eqb r (c_res c);
     v_prop := prop_chain (c_req c) (c_chain c) (c_seen c) (c_res c) RNil;
     v_guards := [] |}.

(* short constructors for the generated case files *)
Definition au t fb := {| a_type := t; a_fb := fb |}.
Definition tk j i := {| t_jwt := j; t_intro := i |}.
Definition rq a qu b c x := {| q_auth := a; q_query := qu; q_body := b; q_cookie := c; q_xsess := x |}.
Definition cs ch q seen res := {| c_chain := ch; c_req := q; c_seen := seen; c_res := res |}.
