(** Evaluator of the C05 correspondence stream: a generated configuration
    (mechanism + optional rule-level assertions), the published key set, the
    clock, what the request carries, and what the real jwt authenticator
    answered (subject id or error class; whether the subject's attributes are
    the payload that was sent). *)
From HV Require Export Base.Prelude Base.Time C05.Model C05.Spec.

Record case := {
  c_cf : config;
  c_keys : list jwk;
  c_now : Z;               (* Unix seconds of the clock during Execute *)
  c_cred : cred;
  c_obs : obs;
  c_attrs_ok : bool }.

Definition eclass_eqb (a b : eclass) : bool :=
  match a, b with
  | KArgument, KArgument | KAuthn, KAuthn | KAuthnAssertion, KAuthnAssertion | KAuthnScopes, KAuthnScopes
  | KComm, KComm | KInternal, KInternal | KPanic, KPanic | KOther, KOther | KOtherError, KOtherError => true
  | _, _ => false
  end.

(** Correspondence is compared on what the property talks about: which subject was created, or that the
    request was rejected with an error (of whatever kind: the error kinds are C04's and C12's subject; the
    class stays in the observation for the record), or that the authenticator broke (panic, no answer). *)
Definition broken (k : eclass) : bool := match k with KPanic | KOther => true | _ => false end.

Definition obs_eqb (a b : obs) : bool :=
  match a, b with
  | OSubject s, OSubject s' => String.eqb s s'
  | OError k, OError k' => Bool.eqb (broken k) (broken k')
  | _, _ => false
  end.

(** the property on the implementation's answer: a subject is produced exactly
    when the specification accepts, its id is the one the specification
    derives from the verified claims, its attributes are the verified payload *)
Definition prop_holds (c : case) : bool :=
  match c_obs c, spec_accepts (c_cf c) (c_keys c) (secs (c_now c)) (c_cred c) with
  | OSubject s, Some s' => String.eqb s s' && c_attrs_ok c
  | OError k, None => negb (broken k)
  | _, _ => false
  end.

(** [f1], [f2]: whether the implementation is expected to carry the repairs of C05-F1 / C05-F2
    (/repo does since a3a89b7 / f16c3cc: the check runs [check true true]) *)
Definition check (f1 f2 : bool) (c : case) : verdict :=
  {| v_corr := obs_eqb (obs_of (authenticate_gen f1 f2 (c_cf c) (c_keys c) (secs (c_now c)) (c_cred c))) (c_obs c);
     v_prop := prop_holds c;
     v_guards := guards [(1%Z, guard_F1 (c_cred c) && negb f1);
                         (2%Z, guard_F2 (c_cred c) && negb f2);
                         (3%Z, guard_F3 (c_cred c) && f1)] |}.   (* C05-F5: repaired, the model is not parametric in it *)

(* short constructors for the generated case files *)
Definition ex i s a g l := {| e_issuers := i; e_scopes := s; e_aud := a; e_algs := g; e_leeway := l |}.
Definition cfg p r md vj idf rem :=
  {| cf_proto := p; cf_rule := r; cf_md_issuer := md; cf_validate_jwk := vj; cf_id_from := idf; cf_remote := rem |}.
Definition cl iss aud scp scope exp nbf iat mal fields :=
  {| c_iss := iss; c_aud := aud; c_scp := scp; c_scope := scope; c_exp := exp; c_nbf := nbf; c_iat := iat;
     c_malformed := mal; c_fields := fields |}.
Definition tk alg kid pobj claims sig :=
  {| t_alg := alg; t_kid := kid; t_payload_obj := pobj; t_claims := claims; t_sig := sig |}.
Definition jk kid alg mat cert := {| k_kid := kid; k_alg := alg; k_mat := mat; k_cert := cert |}.
Definition cs cf keys now cred o attrs :=
  {| c_cf := cf; c_keys := keys; c_now := now; c_cred := cred; c_obs := o; c_attrs_ok := attrs |}.

(* ------------------------------------------------------------------ second stream: histories with the JWK cache *)
From HV Require Export C05.Cache C05.CacheProofs.

Record hstep := { h_step : kstep; h_obs : obs; h_attrs : bool }.
Record hcase := { hc_steps : list hstep }.

Definition is_some {A} (o : option A) : bool := match o with Some _ => true | None => false end.

(** the property on the implementation's answers (theorem C05_cache_history_spec): a subject only if the
    specification accepts the token against what is or was published at its own rendered key-set URL (now,
    if the request cannot be served from the cache), with that subject and the sent payload as attributes;
    an error only if the specification rejects it in at least one of those worlds *)
Fixpoint prop_steps (pre : list kstep) (l : list hstep) : bool :=
  match l with
  | [] => true
  | x :: r =>
    let s := h_step x in
    let ws := if fresh s then [s_env s] else worlds pre s in
    match h_obs x with
    | OSubject sub => existsb (fun env => option_eqb String.eqb (spec_in s env) (Some sub)) ws && h_attrs x
    | OError k => negb (broken k) && negb (forallb (fun env => is_some (spec_in s env)) ws)
    end && prop_steps (pre ++ [s]) r
  end.

Definition check_hist (f1 f2 f4 f6 : bool) (c : hcase) : verdict :=
  let steps := map h_step (hc_steps c) in
  {| v_corr := list_eqb obs_eqb (map obs_of (run_history f1 f2 f4 f6 steps)) (map h_obs (hc_steps c));
     v_prop := prop_steps [] (hc_steps c);
     v_guards := guards [(1%Z, existsb (fun s => guard_F1 (s_cred s)) steps && negb f1);
                         (2%Z, existsb (fun s => guard_F2 (s_cred s)) steps && negb f2);
                         (3%Z, existsb (fun s => guard_F3 (s_cred s)) steps && f1);
                         (4%Z, guard_F4 f1 f2 steps && negb f4);
                         (6%Z, guard_F6 f1 f2 steps && negb f6)] |}.

Definition hs cf con ttl tpl tplurl env now cred o attrs :=
  {| h_step := {| s_cf := cf; s_cache_on := con; s_ttl := ttl; s_templated := tpl; s_tpl_url := tplurl; s_env := env; s_now := secs now; s_cred := cred |};
     h_obs := o; h_attrs := attrs |}.
Definition hc steps := {| hc_steps := steps |}.
