(** C08 — model of the path handling between the HTTP server and the upstream URL:

      net/http server        request target -> URL.Path / URL.RawPath      ([set_path])
      requestcontext.extractURL   RawPath := EscapedPath(), Path := PathUnescape(RawPath)   ([view])
      repository.FindRule    lookup on RawPath if non-empty else Path      ([lookup_path])
      radixtree.Find         here: a LOCAL matcher over segment patterns   ([dfs]; the tree itself is C02's)
      pathParamMatcher.Matches  per-setting decoding of the captured value ([param_value])
      ruleImpl.Execute       slashesHandling switch, capture unescaping    ([execute], [unescape_capture])
      config.Backend.CreateURL   upstream URL                              (C15/Rewrite.v)

    The model is parametric in the repairs that were applied to the tree as fix:
    commits (C08-F2 a779db8, C08-F3 72ba5d4, C08-F5 6d0a3af, C08-F6 d3f6cd7, C15-F1 41fd1db,
    C15-F6 5270ed2; f446e16: the query of X-Forwarded-Uri is taken as sent); [fixes] says
    which of them the modelled tree contains, [repaired] is the tree as it is now. *)
From HV Require Import Base.Prelude Base.GoUrl.
From HV Require Export C15.Rewrite.

Local Open Scope char_scope.

(** [fx2]: C08-F2 repaired (a779db8); [fx3]: C08-F3 repaired (72ba5d4); [fxq]: C15-F1 repaired
    (41fd1db: QueryParamsRemover also works on a query that does not parse; it only
    concerns the query of the upstream URL, which no C08 theorem talks about);
    [fxq6]: C15-F6 (5270ed2: the query parameters are always removed setting by setting);
    [fx6]: C08-F6 repaired (d3f6cd7: an X-Forwarded-Uri that does not parse is used as it is);
    [fx5]: C08-F5 repaired (6d0a3af: captured values are decoded piece by piece around the
    encoded slashes, without a place-holder) *)
Record fixes := { fx2 : bool; fx3 : bool; fxq : bool; fx5 : bool; fxq6 : bool; fx6 : bool }.
Definition pinned : fixes := {| fx2 := false; fx3 := false; fxq := false; fx5 := false; fxq6 := false; fx6 := false |}.
(** the tree as it is now *)
Definition repaired : fixes := {| fx2 := true; fx3 := true; fxq := true; fx5 := true; fxq6 := true; fx6 := true |}.
(** the same under the name the check configuration uses since fix: commit d3f6cd7 (C08-F6) *)
Definition repaired_F6 : fixes := repaired.
(** the tree before d3f6cd7 (kept to document finding C08-F6) *)
Definition before_F6 : fixes := {| fx2 := true; fx3 := true; fxq := true; fx5 := true; fxq6 := true; fx6 := false |}.
(** the tree before 6d0a3af (kept to document finding C08-F5) *)
Definition before_F5 : fixes := {| fx2 := true; fx3 := true; fxq := true; fx5 := false; fxq6 := false; fx6 := false |}.
(** the tree after a779db8 alone *)
Definition fixed_F2 : fixes := {| fx2 := true; fx3 := false; fxq := false; fx5 := false; fxq6 := false; fx6 := false |}.

Inductive setting := Off | On | NoDecode.

Definition setting_eqb (a b : setting) : bool :=
  match a, b with Off, Off | On, On | NoDecode, NoDecode => true | _, _ => false end.

(** one segment of a path expression: literal, `:name`, `*name` (last only) *)
Inductive seg := Lit (s : string) | Wild (n : string) | CatchAll (n : string).

(** a typed matcher of path_params: `exact` is modelled; a glob / regex matcher is an
    oracle — the table of the real matcher's answers on the values of the case
    (recorded by the driver from gobwas/glob and regexp; a value that is not in the
    table does not match) *)
Inductive pmatcher := PExact (v : string) | PTable (answers : list (string * bool)).

Fixpoint table_get (v : string) (t : list (string * bool)) : bool :=
  match t with
  | [] => false
  | (k, b) :: r => if String.eqb v k then b else table_get v r
  end.

Definition pm_match (m : pmatcher) (v : string) : bool :=
  match m with
  | PExact e => String.eqb v e
  | PTable t => table_get v t
  end.

(** path_params: (name, typed matcher) *)
Record route := { rt_pat : list seg; rt_params : list (string * pmatcher) }.

Record rule := {
  r_id : string; r_setting : setting; r_routes : list route; r_backend : option backend }.

(** * the request as heimdall sees it *)

(** [None]: net/http answers 400 itself (the request target does not parse) *)
Definition view_of (host p rp query : string) : hurl :=
  let raw_path := escaped_path p rp in
  {| u_scheme := "http"; u_host := host; u_path := unescape_or_empty raw_path;
     u_rawpath := raw_path; u_query := query |}.

(** a byte that cannot be part of a request target: SP ends the target in the
    request line, control bytes are refused by url.ParseRequestURI *)
Definition bad_target_byte (c : ascii) : bool := (nb c <=? 32)%N || (nb c =? 127)%N.

Fixpoint has_bad_target_byte (s : string) : bool :=
  match s with
  | EmptyString => false
  | String c r => bad_target_byte c || has_bad_target_byte r
  end.

(** [raw] is the request target up to the first '?', [query] the rest (the
    target is [raw] alone when [query] is empty).  url.ParseRequestURI accepts the
    target "*" (as Path "*", without going through setPath) and otherwise only
    targets that start with '/' (heimdall's servers never see CONNECT or
    absolute-form targets in this model). *)
Definition view (host raw query : string) : option hurl :=
  if String.eqb raw "*" && is_empty query then Some (view_of host "*" "" query)
  else if negb (has_prefix "/" raw) || has_bad_target_byte raw then None
  else match set_path raw with
       | None => None
       | Some (p, rp) => Some (view_of host p rp query)
       end.

(** repository.FindRule *)
Definition lookup_path (u : hurl) : string :=
  if is_empty (u_rawpath u) then u_path u else u_rawpath u.

(** the segments after the leading '/'; paths that do not start with '/' match nothing *)
Definition path_segs (p : string) : option (list string) :=
  match p with
  | String c r => if Ascii.eqb c "/" then Some (split_on "/" r) else None
  | EmptyString => None
  end.

(** * encoded slashes *)

Definition slash_ph : string := "$$$escaped-slash$$$".

(** [strings.Contains(p, "%2F")], after C08-F2 also "%2f" *)
Definition has_enc_slash (ci : bool) (p : string) : bool :=
  contains "%2F" p || (ci && contains "%2f" p).

Definition is_enc_slash (ci : bool) (c a b : ascii) : bool :=
  Ascii.eqb c "%" && Ascii.eqb a "2" && (Ascii.eqb b "F" || (ci && Ascii.eqb b "f")).

(** [strings.ReplaceAll(v, "%2F", placeholder)]; with [ci] the replacer of the
    repaired code, which also takes "%2f" (one left-to-right pass) *)
Fixpoint protect (ci : bool) (s : string) : string :=
  match s with
  | EmptyString => EmptyString
  | String c r =>
    match r with
    | String a (String b r') =>
      if is_enc_slash ci c a b then (slash_ph ++ protect ci r')%string
      else String c (protect ci r)
    | _ => String c (protect ci r)
    end
  end.

Definition unprotect (s : string) : string := replace_all slash_ph "%2F" s.

(** rule_impl.go [unescapeExceptSlashes] (since 6d0a3af): the value is cut at the
    encoded slashes (either spelling; the code first rewrites %2f to %2F and then
    splits at %2F — occurrences of a three-byte pattern starting with '%' cannot
    overlap, so this is one left-to-right pass), every piece is decoded, and the
    pieces are joined with %2F again; "" if a piece does not decode. *)
Fixpoint ues_pieces (s : string) : string * list string :=
  match s with
  | EmptyString => (EmptyString, [])
  | String c r =>
    match r with
    | String a (String b r') =>
      if is_enc_slash true c a b then let '(h, t) := ues_pieces r' in (EmptyString, h :: t)
      else let '(h, t) := ues_pieces r in (String c h, t)
    | _ => let '(h, t) := ues_pieces r in (String c h, t)
    end
  end.

Fixpoint unescape_all (l : list string) : option (list string) :=
  match l with
  | [] => Some []
  | s :: r => match unescape s, unescape_all r with
              | Some d, Some dr => Some (d :: dr)
              | _, _ => None
              end
  end.

Definition unescape_except_slashes (v : string) : string :=
  match unescape_all (fst (ues_pieces v) :: snd (ues_pieces v)) with
  | Some l => join_with "%2F" l
  | None => EmptyString
  end.

(** "decode everything but the encoded slash" as the code does it: with the
    place-holder before 6d0a3af, piece by piece since *)
Definition decode_except_slash (fx : fixes) (v : string) : string :=
  if fx5 fx then unescape_except_slashes v
  else unprotect (unescape_or_empty (protect (fx2 fx) v)).

(** rule_impl.go [unescape(value, handling)] *)
Definition unescape_capture (fx : fixes) (st : setting) (v : string) : string :=
  match st with
  | On => unescape_or_empty v
  | _ => decode_except_slash fx v
  end.

(** * matching *)

Definition caps := list (string * string).

Fixpoint assoc (k : string) (l : caps) : option string :=
  match l with
  | [] => None
  | (k', v) :: r => if String.eqb k k' then Some v else assoc k r
  end.

(** pathParamMatcher.Matches: the value handed to the typed matcher, [None] =
    mismatch because of an encoded slash under `off` *)
Definition param_value (fx : fixes) (st : setting) (rawpath v : string) : option string :=
  if is_empty rawpath then Some v
  else match st with
       | Off => if has_enc_slash (fx2 fx) rawpath then None
                else Some (if fx3 fx then unescape_or_empty v else v)
       | On => Some (unescape_or_empty v)
       | NoDecode => Some (decode_except_slash fx v)
       end.

Definition param_ok (fx : fixes) (st : setting) (rawpath : string) (cs : caps) (p : string * pmatcher) : bool :=
  match assoc (fst p) cs with
  | None => false
  | Some v => match param_value fx st rawpath v with
              | None => false
              | Some v' => pm_match (snd p) v'
              end
  end.

Definition route_ok (fx : fixes) (rawpath : string) (r : rule) (rt : route) (cs : caps) : bool :=
  forallb (param_ok fx (r_setting r) rawpath cs) (rt_params rt).

(** a candidate: rule, route, the part of the pattern still to match, captures so far *)
Record cand := { cd_rule : rule; cd_route : route; cd_pat : list seg; cd_caps : caps }.

Definition step_lit (s : string) (c : cand) : option cand :=
  match cd_pat c with
  | Lit l :: p => if String.eqb l s
                  then Some {| cd_rule := cd_rule c; cd_route := cd_route c; cd_pat := p; cd_caps := cd_caps c |}
                  else None
  | _ => None
  end.

Definition step_wild (s : string) (c : cand) : option cand :=
  match cd_pat c with
  | Wild n :: p => Some {| cd_rule := cd_rule c; cd_route := cd_route c; cd_pat := p;
                           cd_caps := cd_caps c ++ [(n, s)] |}
  | _ => None
  end.

Definition step_catch_all (rest : string) (c : cand) : option cand :=
  match cd_pat c with
  | [CatchAll n] => Some {| cd_rule := cd_rule c; cd_route := cd_route c; cd_pat := [];
                            cd_caps := cd_caps c ++ [(n, rest)] |}
  | _ => None
  end.

Definition at_end (c : cand) : option cand :=
  match cd_pat c with [] => Some c | _ => None end.

Fixpoint filter_map {A B} (f : A -> option B) (l : list A) : list B :=
  match l with
  | [] => []
  | x :: r => match f x with Some y => y :: filter_map f r | None => filter_map f r end
  end.

Definition first_ok (ok : cand -> bool) (cs : list cand) : option cand := find ok cs.

(** the lookup: static segment first, then the wildcard (non-empty token), then
    the catch-all with the whole non-empty rest; within a node the routes in
    insertion order; a route is taken only if its matcher accepts, otherwise the
    search goes on (every rule of the modelled rule sets allows backtracking) *)
Fixpoint dfs (ok : cand -> bool) (cs : list cand) (segs : list string) : option cand :=
  match segs with
  | [] => first_ok ok (filter_map at_end cs)
  | s :: r =>
    match dfs ok (filter_map (step_lit s) cs) r with
    | Some x => Some x
    | None =>
      match (if is_empty s then None else dfs ok (filter_map (step_wild s) cs) r) with
      | Some x => Some x
      | None =>
        let rest := join_with "/" segs in
        if is_empty rest then None else first_ok ok (filter_map (step_catch_all rest) cs)
      end
    end
  end.

(** the same search, giving up as soon as no candidate is left (the tree has no node
    to descend into); [dfs_fast ok cs segs = dfs ok cs segs] is proved in C08/Proofs.v.
    Without this the evaluation of [dfs] on an empty candidate list still tries the
    static and the wildcard branch at every level (2^n steps on a path of n segments). *)
Fixpoint dfs_fast (ok : cand -> bool) (cs : list cand) (segs : list string) : option cand :=
  match cs with
  | [] => None
  | _ =>
    match segs with
    | [] => first_ok ok (filter_map at_end cs)
    | s :: r =>
      match dfs_fast ok (filter_map (step_lit s) cs) r with
      | Some x => Some x
      | None =>
        match (if is_empty s then None else dfs_fast ok (filter_map (step_wild s) cs) r) with
        | Some x => Some x
        | None =>
          let rest := join_with "/" segs in
          if is_empty rest then None else first_ok ok (filter_map (step_catch_all rest) cs)
        end
      end
    end
  end.

Definition cands_of (rules : list rule) : list cand :=
  flat_map (fun r => map (fun rt => {| cd_rule := r; cd_route := rt; cd_pat := rt_pat rt; cd_caps := [] |})
                         (r_routes r)) rules.

Definition cand_ok (fx : fixes) (rawpath : string) (c : cand) : bool :=
  route_ok fx rawpath (cd_rule c) (cd_route c) (cd_caps c).

Definition find_rule (fx : fixes) (rules : list rule) (u : hurl) : option cand :=
  match path_segs (lookup_path u) with
  | None => None
  | Some segs => dfs_fast (cand_ok fx (u_rawpath u)) (cands_of rules) segs
  end.

(** * execution *)

Inductive outcome :=
| BadRequest                       (* net/http: 400, heimdall never sees the request *)
| NoRule                           (* ErrNoRuleFound *)
| Precondition                     (* ErrArgument: "path contains encoded slash" *)
| Accepted (rid : string) (is_default : bool) (cs : caps) (up : option hurl).

(** ruleImpl.Execute with a pipeline that accepts; [cs] are the captures of the lookup *)
Definition execute (fx : fixes) (rid : string) (is_default : bool) (st : setting)
           (be : option backend) (u : hurl) (cs : caps) : outcome :=
  let go (u' : hurl) :=
    Accepted rid is_default (map (fun kv => (fst kv, unescape_capture fx st (snd kv))) cs)
             (option_map (fun b => create_url_q {| qf1 := fxq fx; qf6 := fxq6 fx |} b u') be) in
  match st with
  | On => go {| u_scheme := u_scheme u; u_host := u_host u; u_path := u_path u;
                u_rawpath := EmptyString; u_query := u_query u |}
  | Off => if has_enc_slash (fx2 fx) (u_rawpath u) then Precondition else go u
  | NoDecode => go u
  end.

(** FindRule + Execute on a request view: [dflt] = a default rule is configured (it
    has setting `off`, no captures and no backend) *)
Definition serve_view (fx : fixes) (rules : list rule) (dflt : bool) (u : hurl) : outcome :=
  match find_rule fx rules u with
  | Some c => execute fx (r_id (cd_rule c)) false (r_setting (cd_rule c)) (r_backend (cd_rule c)) u (cd_caps c)
  | None => if dflt then execute fx "default" true Off None u [] else NoRule
  end.

(** the whole way of one request received by heimdall's own HTTP server *)
Definition serve (fx : fixes) (rules : list rule) (dflt : bool) (host raw query : string) : outcome :=
  match view host raw query with
  | None => BadRequest
  | Some u => serve_view fx rules dflt u
  end.

(** the Envoy ext_authz entry point (grpcv3.NewRequestContext, since fix: commit
    ae6db4f): the received path is the raw path as it is — no validation, no
    EscapedPath round trip —, the path its decoding ("" if that fails) *)
Definition view_envoy (host raw query : string) : hurl :=
  {| u_scheme := "http"; u_host := host; u_path := unescape_or_empty raw; u_rawpath := raw; u_query := query |}.

Definition serve_envoy (fx : fixes) (rules : list rule) (dflt : bool) (host raw query : string) : outcome :=
  serve_view fx rules dflt (view_envoy host raw query).

(** requestcontext.extractURL when the request carries X-Forwarded-Uri (decision
    mode behind a proxy: the proxy asks heimdall at the path [own] and hands the
    original request target over in the header).  The header value is parsed with
    url.Parse; modelled for values [raw]?[query] whose path starts with one '/' and
    has no '#'.  If it does not parse (malformed escape) the code
    before d3f6cd7 silently fell back to the target of the proxy's own request (finding
    C08-F6); [fx6] = with that fix: the value is taken as it is, like the Envoy entry
    does.  The query is taken as sent (since f446e16). *)
Definition ctl_byte (c : ascii) : bool := (nb c <? 32)%N || (nb c =? 127)%N.

Fixpoint has_ctl (s : string) : bool :=
  match s with
  | EmptyString => false
  | String c r => ctl_byte c || has_ctl r
  end.

Definition view_xfu (fx6 : bool) (host own raw query : string) : option hurl :=
  let fallback := if fx6 then Some (view_envoy host raw query) else view host own "" in
  if has_ctl raw || has_ctl query then None   (* net/http refuses the header field: 400 *)
  else match set_path raw with
       | None => fallback
       | Some (p, rp) => Some (view_of host p rp query)
       end.

Definition serve_xfu (fx : fixes) (rules : list rule) (dflt : bool) (host own raw query : string) : outcome :=
  match view_xfu (fx6 fx) host own raw query with
  | None => BadRequest
  | Some u => serve_view fx rules dflt u
  end.

(** * equality tests for the evaluator *)

Definition cap_eqb (a b : string * string) : bool :=
  String.eqb (fst a) (fst b) && String.eqb (snd a) (snd b).

Fixpoint insert_cap (e : string * string) (l : caps) : caps :=
  match l with
  | [] => [e]
  | e' :: r => if String.leb (fst e) (fst e') then e :: l else e' :: insert_cap e r
  end.

(** captures are a Go map: compared sorted by name *)
Definition sort_caps (l : caps) : caps := fold_right insert_cap [] l.

Definition outcome_eqb (a b : outcome) : bool :=
  match a, b with
  | BadRequest, BadRequest | NoRule, NoRule | Precondition, Precondition => true
  | Accepted r1 d1 c1 u1, Accepted r2 d2 c2 u2 =>
    String.eqb r1 r2 && Bool.eqb d1 d2 && list_eqb cap_eqb (sort_caps c1) (sort_caps c2) &&
    option_eqb hurl_eqb u1 u2
  | _, _ => false
  end.
