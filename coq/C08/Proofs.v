(** C08 — specification vocabulary and proofs.

    Part A  byte-string facts: well-formed escapes, encoded slashes, the
            place-holder trick of rule_impl.go's unescape.
    Part B  the request view of a re-encoded target.
    Part C  the lookup is invariant under re-encoding (outside C08-F1/F2/F3).
    Part D  the property theorems (restated in Properties/C08.v). *)
From HV Require Import Base.Prelude Base.GoUrl Base.GoUrlFacts C08.Model.
From HV Require Export C08.Spec.

Local Open Scope string_scope.

Ltac splits := repeat match goal with |- _ /\ _ => split end.

(** * Part A — byte strings *)

(** ** well-formed percent-encoding *)

Lemma reenc_wf_l s s' : reenc s s' -> wfenc s.
Proof.
  induction 1.
  - constructor.
  - apply wf_plain; assumption.
  - apply wf_plain; [apply unreserved_not_pct|]; assumption.
  - apply wf_trip; assumption.
  - apply wf_trip; assumption.
Qed.

Lemma reenc_wf_r s s' : reenc s s' -> wfenc s'.
Proof. intro H. apply reenc_sym in H. eapply reenc_wf_l; eassumption. Qed.

Lemma wfenc_of_unescape s p : unescape s = Some p -> wfenc s.
Proof. intro H. eapply reenc_wf_l. eapply reenc_refl. eassumption. Qed.

Lemma wfenc_unescape s : wfenc s -> exists p, unescape s = Some p.
Proof.
  unfold unescape. induction 1 as [|c s Hc _ [p IH]|a b s Ha Hb _ [p IH]].
  - eexists; reflexivity.
  - rewrite unescape_gen_cons_plain by (assumption || reflexivity). rewrite IH. eexists; reflexivity.
  - rewrite unescape_gen_triplet by assumption. rewrite IH. eexists; reflexivity.
Qed.

Lemma wfenc_reenc s : wfenc s -> reenc s s.
Proof. intro H. destruct (wfenc_unescape s H) as [p Hp]. eapply reenc_refl; eassumption. Qed.

Lemma unescape_or_empty_plain c s : Ascii.eqb c "%"%char = false -> wfenc s ->
  unescape_or_empty (String c s) = String c (unescape_or_empty s).
Proof.
  intros Hc Hs. unfold unescape_or_empty, unescape.
  rewrite unescape_gen_cons_plain by (assumption || reflexivity).
  destruct (wfenc_unescape s Hs) as [p Hp]. unfold unescape in Hp. rewrite Hp. reflexivity.
Qed.

Lemma unescape_or_empty_trip a b s : ishex a = true -> ishex b = true -> wfenc s ->
  unescape_or_empty (String "%"%char (String a (String b s))) = String (hexbyte a b) (unescape_or_empty s).
Proof.
  intros Ha Hb Hs. unfold unescape_or_empty, unescape.
  rewrite unescape_gen_triplet by assumption.
  destruct (wfenc_unescape s Hs) as [p Hp]. unfold unescape in Hp. rewrite Hp. reflexivity.
Qed.

Lemma reenc_unescape_or_empty s s' : reenc s s' -> unescape_or_empty s = unescape_or_empty s'.
Proof. intro H. unfold unescape_or_empty. rewrite (reenc_unescape _ _ H). reflexivity. Qed.

(** ** occurrences of an escape in a well-formed string *)

Lemma ascii_eqb_sym a b : Ascii.eqb a b = Ascii.eqb b a.
Proof. apply Ascii.eqb_sym. Qed.

Lemma contains_pct_plain sub c r : Ascii.eqb c "%"%char = false ->
  contains (String "%"%char sub) (String c r) = contains (String "%"%char sub) r.
Proof.
  intro H.
  change (contains (String "%"%char sub) (String c r))
    with ((Ascii.eqb "%"%char c && has_prefix sub r) || contains (String "%"%char sub) r).
  rewrite (ascii_eqb_sym "%"%char c), H. reflexivity.
Qed.

Lemma contains_esc_trip x y a b r : ishex a = true -> ishex b = true ->
  contains (String "%"%char (String x (String y ""))) (String "%"%char (String a (String b r))) =
  (Ascii.eqb x a && Ascii.eqb y b) || contains (String "%"%char (String x (String y ""))) r.
Proof.
  intros Ha Hb.
  change (contains (String "%"%char (String x (String y ""))) (String "%"%char (String a (String b r))))
    with (has_prefix (String "%"%char (String x (String y ""))) (String "%"%char (String a (String b r))) ||
          contains (String "%"%char (String x (String y ""))) (String a (String b r))).
  rewrite (contains_pct_plain _ a) by (apply ishex_not_pct; assumption).
  rewrite (contains_pct_plain _ b) by (apply ishex_not_pct; assumption).
  change (has_prefix (String "%"%char (String x (String y ""))) (String "%"%char (String a (String b r))))
    with (Ascii.eqb "%"%char "%"%char && (Ascii.eqb x a && (Ascii.eqb y b && true))).
  rewrite Ascii.eqb_refl, andb_true_r. reflexivity.
Qed.

(** a triplet spells '/' iff it is %2F or %2f *)
Lemma slash_triplet a b : ishex a = true -> ishex b = true ->
  Ascii.eqb (hexbyte a b) "/"%char =
  (Ascii.eqb "2"%char a && Ascii.eqb "F"%char b) || (Ascii.eqb "2"%char a && Ascii.eqb "f"%char b).
Proof.
  intros Ha Hb. rewrite enc_slash_by_value by assumption.
  rewrite (ascii_eqb_sym a), (ascii_eqb_sym b "F"%char), (ascii_eqb_sym b "f"%char).
  destruct (Ascii.eqb "2"%char a), (Ascii.eqb "F"%char b), (Ascii.eqb "f"%char b); reflexivity.
Qed.

Lemma unreserved_not_slash_b c : unreserved c = true -> Ascii.eqb c "/"%char = false.
Proof. apply unreserved_not_slash. Qed.

(** under re-encoding an upper-case %2F can only turn into a lower-case %2f and back *)
Lemma reenc_contains_2F s s' : reenc s s' ->
  contains "%2f" s = false -> contains "%2f" s' = false ->
  contains "%2F" s = contains "%2F" s'.
Proof.
  induction 1 as [|c s s' Hc _ IH|c a b s s' Hu Ha Hb Hv _ IH|c a b s s' Hu Ha Hb Hv _ IH
                  |a b a' b' s s' Ha Hb Ha' Hb' Hv _ IH]; intros G G'.
  - reflexivity.
  - rewrite !contains_pct_plain in * by assumption. auto.
  - rewrite !contains_pct_plain in * by (apply unreserved_not_pct; assumption).
    rewrite !contains_esc_trip in * by assumption.
    apply orb_false_iff in G' as [G1 G2]. rewrite (IH G G2).
    assert (E : Ascii.eqb (hexbyte a b) "/"%char = false) by (rewrite Hv; apply unreserved_not_slash; assumption).
    rewrite slash_triplet in E by assumption. apply orb_false_iff in E as [E1 _]. rewrite E1. reflexivity.
  - rewrite !(contains_pct_plain _ c) in * by (apply unreserved_not_pct; assumption).
    rewrite !contains_esc_trip in * by assumption.
    apply orb_false_iff in G as [G1 G2]. rewrite (IH G2 G').
    assert (E : Ascii.eqb (hexbyte a b) "/"%char = false) by (rewrite Hv; apply unreserved_not_slash; assumption).
    rewrite slash_triplet in E by assumption. apply orb_false_iff in E as [E1 _]. rewrite E1. reflexivity.
  - rewrite !contains_esc_trip in * by assumption.
    apply orb_false_iff in G as [G1 G2]. apply orb_false_iff in G' as [G1' G2']. rewrite (IH G2 G2').
    pose proof (slash_triplet a b Ha Hb) as S. pose proof (slash_triplet a' b' Ha' Hb') as S'.
    rewrite Hv in S. rewrite S' in S. rewrite G1, G1', !orb_false_r in S. rewrite S. reflexivity.
Qed.

(** whatever the spelling, re-encoding keeps the presence of an encoded slash *)
Lemma reenc_enc_slash s s' : reenc s s' -> enc_slash s = enc_slash s'.
Proof.
  unfold enc_slash.
  induction 1 as [|c s s' Hc _ IH|c a b s s' Hu Ha Hb Hv _ IH|c a b s s' Hu Ha Hb Hv _ IH
                  |a b a' b' s s' Ha Hb Ha' Hb' Hv _ IH].
  - reflexivity.
  - rewrite !contains_pct_plain by assumption. exact IH.
  - rewrite !(contains_pct_plain _ c) by (apply unreserved_not_pct; assumption).
    rewrite !contains_esc_trip by assumption.
    assert (E : Ascii.eqb (hexbyte a b) "/"%char = false) by (rewrite Hv; apply unreserved_not_slash; assumption).
    rewrite slash_triplet in E by assumption. apply orb_false_iff in E as [E1 E2]. rewrite E1, E2. exact IH.
  - rewrite !(contains_pct_plain _ c) by (apply unreserved_not_pct; assumption).
    rewrite !contains_esc_trip by assumption.
    assert (E : Ascii.eqb (hexbyte a b) "/"%char = false) by (rewrite Hv; apply unreserved_not_slash; assumption).
    rewrite slash_triplet in E by assumption. apply orb_false_iff in E as [E1 E2]. rewrite E1, E2. exact IH.
  - rewrite !contains_esc_trip by assumption.
    pose proof (slash_triplet a b Ha Hb) as S. pose proof (slash_triplet a' b' Ha' Hb') as S'.
    rewrite Hv in S. rewrite S' in S.
    destruct (Ascii.eqb "2"%char a && Ascii.eqb "F"%char b), (Ascii.eqb "2"%char a && Ascii.eqb "f"%char b),
             (Ascii.eqb "2"%char a' && Ascii.eqb "F"%char b'), (Ascii.eqb "2"%char a' && Ascii.eqb "f"%char b');
      simpl in *; try discriminate; rewrite ?orb_true_r; try reflexivity; exact IH.
Qed.

(** ** the place-holder trick of rule_impl.go's unescape *)

Lemma wfenc_app a b : wfenc a -> wfenc b -> wfenc (a ++ b).
Proof. induction 1; simpl; intros; [assumption | apply wf_plain; auto | apply wf_trip; auto]. Qed.

Fixpoint no_pct (s : string) : bool :=
  match s with
  | "" => true
  | String c r => negb (Ascii.eqb c "%"%char) && no_pct r
  end.

Lemma no_pct_wf s : no_pct s = true -> wfenc s.
Proof.
  induction s as [|c r IH]; simpl; intro H; [constructor|].
  apply andb_true_iff in H as [H1 H2]. apply wf_plain; [apply negb_true_iff in H1; exact H1 | auto].
Qed.

Lemma unescape_or_empty_app_plain p x : no_pct p = true -> wfenc x ->
  unescape_or_empty (p ++ x) = p ++ unescape_or_empty x.
Proof.
  intros Hp Hx. induction p as [|c r IH]; simpl in *; [reflexivity|].
  apply andb_true_iff in Hp as [H1 H2]. apply negb_true_iff in H1.
  rewrite unescape_or_empty_plain by first [assumption | apply wfenc_app; [apply no_pct_wf|]; assumption].
  rewrite IH by assumption. reflexivity.
Qed.

Lemma protect_plain ci c r : Ascii.eqb c "%"%char = false -> protect ci (String c r) = String c (protect ci r).
Proof.
  intro H. destruct r as [|a [|b r']]; try reflexivity.
  change (protect ci (String c (String a (String b r'))))
    with (if is_enc_slash ci c a b then slash_ph ++ protect ci r'
          else String c (protect ci (String a (String b r')))).
  unfold is_enc_slash. rewrite H. reflexivity.
Qed.

Lemma protect_trip ci a b r : ishex a = true -> ishex b = true ->
  protect ci (String "%"%char (String a (String b r))) =
  if is_enc_slash ci "%"%char a b then slash_ph ++ protect ci r
  else String "%"%char (String a (String b (protect ci r))).
Proof.
  intros Ha Hb.
  change (protect ci (String "%"%char (String a (String b r))))
    with (if is_enc_slash ci "%"%char a b then slash_ph ++ protect ci r
          else String "%"%char (protect ci (String a (String b r)))).
  destruct (is_enc_slash ci "%"%char a b); [reflexivity|].
  rewrite (protect_plain ci a) by (apply ishex_not_pct; assumption).
  rewrite (protect_plain ci b) by (apply ishex_not_pct; assumption). reflexivity.
Qed.

(** [ci] is the repaired, case-insensitive test; without it the lower-case
    spelling must be absent (C08-F2) *)
Definition lc_ok (ci : bool) (v : string) : bool := ci || negb (contains "%2f" v).

Lemma lc_ok_plain ci c r : Ascii.eqb c "%"%char = false -> lc_ok ci (String c r) = lc_ok ci r.
Proof. intro H. unfold lc_ok. rewrite contains_pct_plain by assumption. reflexivity. Qed.

Lemma lc_ok_trip ci a b r : ishex a = true -> ishex b = true ->
  lc_ok ci (String "%"%char (String a (String b r))) = true ->
  lc_ok ci r = true /\ (ci = true \/ Ascii.eqb "2"%char a && Ascii.eqb "f"%char b = false).
Proof.
  intros Ha Hb. unfold lc_ok. rewrite contains_esc_trip by assumption.
  destruct ci; simpl; [auto|]. intro H. apply negb_true_iff in H. apply orb_false_iff in H as [H1 H2].
  rewrite H2. auto.
Qed.

Lemma enc_slash_ci_value ci a b : ishex a = true -> ishex b = true ->
  (ci = true \/ Ascii.eqb "2"%char a && Ascii.eqb "f"%char b = false) ->
  is_enc_slash ci "%"%char a b = Ascii.eqb (hexbyte a b) "/"%char.
Proof.
  intros Ha Hb G. rewrite slash_triplet by assumption. unfold is_enc_slash.
  rewrite (ascii_eqb_sym a), (ascii_eqb_sym b "F"%char), (ascii_eqb_sym b "f"%char), Ascii.eqb_refl.
  set (x := Ascii.eqb "2"%char a) in *. set (y := Ascii.eqb "F"%char b) in *. set (z := Ascii.eqb "f"%char b) in *.
  destruct G as [->|G]; [|destruct ci]; destruct x, y, z; cbn [andb orb] in *; congruence.
Qed.

Lemma slash_ph_no_pct : no_pct slash_ph = true.
Proof. reflexivity. Qed.

Lemma wfenc_protect ci v : wfenc v -> wfenc (protect ci v).
Proof.
  induction 1 as [|c s Hc _ IH|a b s Ha Hb _ IH].
  - constructor.
  - rewrite protect_plain by assumption. apply wf_plain; assumption.
  - rewrite protect_trip by assumption. destruct (is_enc_slash ci "%"%char a b).
    + apply wfenc_app; [apply no_pct_wf, slash_ph_no_pct | assumption].
    + apply wf_trip; assumption.
Qed.

Lemma reenc_protect ci v v' : reenc v v' -> lc_ok ci v = true -> lc_ok ci v' = true ->
  reenc (protect ci v) (protect ci v').
Proof.
  induction 1 as [|c s s' Hc _ IH|c a b s s' Hu Ha Hb Hv _ IH|c a b s s' Hu Ha Hb Hv _ IH
                  |a b a' b' s s' Ha Hb Ha' Hb' Hv _ IH]; intros G G'.
  - constructor.
  - rewrite lc_ok_plain in G, G' by assumption. rewrite !protect_plain by assumption.
    apply reenc_keep; auto.
  - pose proof (unreserved_not_pct c Hu) as Hc. rewrite lc_ok_plain in G by assumption.
    apply lc_ok_trip in G' as [G1 G2]; try assumption.
    rewrite protect_plain by assumption. rewrite protect_trip by assumption.
    rewrite enc_slash_ci_value by assumption. rewrite Hv, (unreserved_not_slash c Hu).
    eapply reenc_enc; eauto.
  - pose proof (unreserved_not_pct c Hu) as Hc. rewrite lc_ok_plain in G' by assumption.
    apply lc_ok_trip in G as [G1 G2]; try assumption.
    rewrite (protect_plain ci c) by assumption. rewrite protect_trip by assumption.
    rewrite enc_slash_ci_value by assumption. rewrite Hv, (unreserved_not_slash c Hu).
    eapply reenc_dec; eauto.
  - apply lc_ok_trip in G as [G1 G2]; try assumption. apply lc_ok_trip in G' as [G1' G2']; try assumption.
    rewrite !protect_trip by assumption. rewrite !enc_slash_ci_value by assumption. rewrite <- Hv.
    destruct (Ascii.eqb (hexbyte a b) "/"%char).
    + apply reenc_app; [apply wfenc_reenc, no_pct_wf, slash_ph_no_pct | auto].
    + apply reenc_trip; auto.
Qed.

(** strings.ReplaceAll on a string that starts with the pattern *)
Lemma replace_skip old new w y :
  replace_all_from old new (String.length w) (w ++ y) = replace_all_from old new O y.
Proof. induction w as [|c r IH]; simpl; [destruct y; reflexivity | exact IH]. Qed.

Lemma has_prefix_app p y : has_prefix p (p ++ y) = true.
Proof. induction p as [|c r IH]; simpl; [reflexivity | rewrite Ascii.eqb_refl; exact IH]. Qed.

Lemma replace_all_prefix c old' new y :
  replace_all (String c old') new (String c old' ++ y) = new ++ replace_all (String c old') new y.
Proof.
  unfold replace_all. cbn [is_empty].
  change (String c old' ++ y) with (String c (old' ++ y)).
  cbn [replace_all_from].
  change (String c (old' ++ y)) with (String c old' ++ y). rewrite has_prefix_app.
  cbn [String.length Nat.pred]. rewrite replace_skip. reflexivity.
Qed.

Lemma unprotect_ph y : unprotect (slash_ph ++ y) = "%2F" ++ unprotect y.
Proof. unfold unprotect, slash_ph. apply replace_all_prefix. Qed.

Lemma has_prefix_cons a p b s : has_prefix (String a p) (String b s) = Ascii.eqb a b && has_prefix p s.
Proof. reflexivity. Qed.

Lemma unprotect_cons c y : Ascii.eqb c "$"%char = false -> unprotect (String c y) = String c (unprotect y).
Proof.
  intro H. unfold unprotect, replace_all, slash_ph. cbn [is_empty replace_all_from].
  rewrite has_prefix_cons, (ascii_eqb_sym "$"%char c), H. reflexivity.
Qed.

Lemma dks_plain c r : Ascii.eqb c "%"%char = false -> decode_keep_slash (String c r) = String c (decode_keep_slash r).
Proof. intro H. cbn [decode_keep_slash]. rewrite H. reflexivity. Qed.

Lemma dks_trip a b r :
  decode_keep_slash (String "%"%char (String a (String b r))) =
  if Ascii.eqb (hexbyte a b) "/"%char then "%2F" ++ decode_keep_slash r
  else String (hexbyte a b) (decode_keep_slash r).
Proof. reflexivity. Qed.

Lemma mem_ascii_cons c d r : mem_ascii c (String d r) = Ascii.eqb c d || mem_ascii c r.
Proof. reflexivity. Qed.

(** correctness of the place-holder trick: outside C08-F2 (lower-case %2f) and
    C08-F5 (a '$' in the decoded value) *)
Theorem placeholder_correct ci v : wfenc v -> lc_ok ci v = true ->
  mem_ascii "$"%char (unescape_or_empty v) = false ->
  unprotect (unescape_or_empty (protect ci v)) = decode_keep_slash v.
Proof.
  induction 1 as [|c s Hc Hs IH|a b s Ha Hb Hs IH]; intros G D.
  - reflexivity.
  - rewrite lc_ok_plain in G by assumption.
    rewrite unescape_or_empty_plain in D by assumption. rewrite mem_ascii_cons in D.
    apply orb_false_iff in D as [D1 D2].
    rewrite protect_plain by assumption.
    rewrite unescape_or_empty_plain by first [assumption | apply wfenc_protect; assumption].
    rewrite unprotect_cons by (rewrite ascii_eqb_sym; assumption).
    rewrite dks_plain by assumption. rewrite IH by assumption. reflexivity.
  - apply lc_ok_trip in G as [G1 G2]; try assumption.
    rewrite unescape_or_empty_trip in D by assumption. rewrite mem_ascii_cons in D.
    apply orb_false_iff in D as [D1 D2].
    rewrite protect_trip by assumption. rewrite enc_slash_ci_value by assumption. rewrite dks_trip.
    destruct (Ascii.eqb (hexbyte a b) "/"%char).
    + rewrite unescape_or_empty_app_plain by first [apply slash_ph_no_pct | apply wfenc_protect; assumption].
      rewrite unprotect_ph. rewrite IH by assumption. reflexivity.
    + rewrite unescape_or_empty_trip by first [assumption | apply wfenc_protect; assumption].
      rewrite unprotect_cons by (rewrite ascii_eqb_sym; assumption).
      rewrite IH by assumption. reflexivity.
Qed.

(** without an encoded slash, keeping slashes is plain decoding *)
Lemma dks_no_slash v : wfenc v -> enc_slash v = false -> decode_keep_slash v = unescape_or_empty v.
Proof.
  unfold enc_slash. induction 1 as [|c s Hc Hs IH|a b s Ha Hb Hs IH]; intro E.
  - reflexivity.
  - rewrite !contains_pct_plain in E by assumption.
    rewrite dks_plain, unescape_or_empty_plain by assumption. rewrite IH by assumption. reflexivity.
  - rewrite !contains_esc_trip in E by assumption.
    rewrite dks_trip, unescape_or_empty_trip by assumption.
    rewrite slash_triplet by assumption.
    destruct (Ascii.eqb "2"%char a && Ascii.eqb "F"%char b), (Ascii.eqb "2"%char a && Ascii.eqb "f"%char b);
      simpl in E; try discriminate; rewrite ?orb_true_r in E; try discriminate.
    simpl. rewrite IH by assumption. reflexivity.
Qed.

(** ** the repaired decoding (6d0a3af): piece by piece around the encoded slashes *)

Lemma ues_pieces_plain c r : Ascii.eqb c "%"%char = false ->
  ues_pieces (String c r) = (String c (fst (ues_pieces r)), snd (ues_pieces r)).
Proof.
  intro H. destruct r as [|a [|b r']].
  - reflexivity.
  - reflexivity.
  - change (ues_pieces (String c (String a (String b r'))))
      with (if is_enc_slash true c a b then let '(h, t) := ues_pieces r' in (EmptyString, h :: t)
            else let '(h, t) := ues_pieces (String a (String b r')) in (String c h, t)).
    unfold is_enc_slash. rewrite H. cbn [andb]. destruct (ues_pieces (String a (String b r'))). reflexivity.
Qed.

Lemma ues_pieces_trip a b r : ishex a = true -> ishex b = true ->
  ues_pieces (String "%"%char (String a (String b r))) =
  if Ascii.eqb (hexbyte a b) "/"%char then (EmptyString, fst (ues_pieces r) :: snd (ues_pieces r))
  else (String "%"%char (String a (String b (fst (ues_pieces r)))), snd (ues_pieces r)).
Proof.
  intros Ha Hb.
  change (ues_pieces (String "%"%char (String a (String b r))))
    with (if is_enc_slash true "%"%char a b then let '(h, t) := ues_pieces r in (EmptyString, h :: t)
          else let '(h, t) := ues_pieces (String a (String b r)) in (String "%"%char h, t)).
  rewrite enc_slash_ci_value by auto.
  destruct (Ascii.eqb (hexbyte a b) "/"%char).
  - destruct (ues_pieces r). reflexivity.
  - rewrite (ues_pieces_plain a) by (apply ishex_not_pct; assumption).
    rewrite (ues_pieces_plain b) by (apply ishex_not_pct; assumption). reflexivity.
Qed.

Lemma join_cons_head sep c x r : join_with sep (String c x :: r) = String c (join_with sep (x :: r)).
Proof. destruct r; reflexivity. Qed.

(** the pieces of a well-formed value decode, and joined with %2F they are
    "everything decoded except the encoded slash" — whatever the value contains *)
Lemma ues_pieces_correct v : wfenc v ->
  exists dh dt, unescape (fst (ues_pieces v)) = Some dh /\ unescape_all (snd (ues_pieces v)) = Some dt /\
                decode_keep_slash v = join_with "%2F" (dh :: dt).
Proof.
  induction 1 as [|c s Hc Hs (dh & dt & E1 & E2 & E3)|a b s Ha Hb Hs (dh & dt & E1 & E2 & E3)].
  - exists "", []. auto.
  - rewrite ues_pieces_plain by assumption. cbn [fst snd].
    exists (String c dh), dt. splits; [|assumption|].
    + unfold unescape in *. rewrite unescape_gen_cons_plain by (assumption || reflexivity). rewrite E1. reflexivity.
    + rewrite dks_plain by assumption. rewrite E3, join_cons_head. reflexivity.
  - rewrite ues_pieces_trip by assumption. rewrite dks_trip. destruct (Ascii.eqb (hexbyte a b) "/"%char); cbn [fst snd].
    + exists "", (dh :: dt). splits; [reflexivity | |].
      * cbn [unescape_all]. rewrite E1, E2. reflexivity.
      * rewrite E3. reflexivity.
    + exists (String (hexbyte a b) dh), dt. splits; [|assumption|].
      * unfold unescape in *. rewrite unescape_gen_triplet by assumption. rewrite E1. reflexivity.
      * rewrite E3, join_cons_head. reflexivity.
Qed.

Theorem unescape_except_slashes_correct v : wfenc v -> unescape_except_slashes v = decode_keep_slash v.
Proof.
  intro W. destruct (ues_pieces_correct v W) as (dh & dt & E1 & E2 & E3).
  unfold unescape_except_slashes. cbn [unescape_all]. rewrite E1, E2. symmetry. exact E3.
Qed.

Lemma reenc_dks v v' : reenc v v' -> decode_keep_slash v = decode_keep_slash v'.
Proof.
  induction 1 as [|c s s' Hc _ IH|c a b s s' Hu Ha Hb Hv _ IH|c a b s s' Hu Ha Hb Hv _ IH
                  |a b a' b' s s' Ha Hb Ha' Hb' Hv _ IH].
  - reflexivity.
  - rewrite !dks_plain by assumption. rewrite IH. reflexivity.
  - rewrite dks_plain by (apply unreserved_not_pct; assumption). rewrite dks_trip.
    rewrite Hv, (unreserved_not_slash c Hu), IH. reflexivity.
  - rewrite (dks_plain c) by (apply unreserved_not_pct; assumption). rewrite dks_trip.
    rewrite Hv, (unreserved_not_slash c Hu), IH. reflexivity.
  - rewrite !dks_trip. rewrite Hv, IH. reflexivity.
Qed.

Lemma decode_except_slash_agree fx v v' : reenc v v' ->
  lc_ok (fx2 fx) v = true -> lc_ok (fx2 fx) v' = true ->
  decode_except_slash fx v = decode_except_slash fx v'.
Proof.
  intros R G G'. unfold decode_except_slash. destruct (fx5 fx).
  - rewrite !unescape_except_slashes_correct by (first [eapply reenc_wf_l; eassumption | eapply reenc_wf_r; eassumption]).
    apply reenc_dks; assumption.
  - f_equal. apply reenc_unescape_or_empty. apply reenc_protect; assumption.
Qed.

Lemma lc_ok_trip_eq ci a b r : ishex a = true -> ishex b = true ->
  lc_ok ci (String "%"%char (String a (String b r))) =
  lc_ok ci r && (ci || negb (Ascii.eqb "2"%char a && Ascii.eqb "f"%char b)).
Proof.
  intros Ha Hb. unfold lc_ok. rewrite contains_esc_trip by assumption.
  destruct ci, (Ascii.eqb "2"%char a && Ascii.eqb "f"%char b), (contains "%2f" r); reflexivity.
Qed.

Lemma lc_ok_nil ci : lc_ok ci "" = true.
Proof. destruct ci; reflexivity. Qed.

Lemma lc_ok_app ci a b : wfenc a -> lc_ok ci (a ++ b) = lc_ok ci a && lc_ok ci b.
Proof.
  induction 1 as [|c s Hc _ IH|x y s Hx Hy _ IH]; simpl.
  - rewrite lc_ok_nil. reflexivity.
  - rewrite !lc_ok_plain by assumption. exact IH.
  - rewrite !lc_ok_trip_eq by assumption. rewrite IH.
    destruct (lc_ok ci s), (lc_ok ci b), (ci || negb (Ascii.eqb "2"%char x && Ascii.eqb "f"%char y)); reflexivity.
Qed.

Lemma lc_ok_split1 ci p : wfenc p -> lc_ok ci p = true ->
  lc_ok ci (fst (split1 "/"%char p)) = true /\
  Forall (fun s => lc_ok ci s = true) (snd (split1 "/"%char p)).
Proof.
  induction 1 as [|c s Hc _ IH|a b s Ha Hb _ IH]; intro G.
  - simpl. split; [apply lc_ok_nil | constructor].
  - rewrite lc_ok_plain in G by assumption. destruct (IH G) as [I1 I2].
    destruct (Ascii.eqb c "/"%char) eqn:E.
    + apply ascii_eqb_true in E. subst c. rewrite split1_cons_sep. simpl.
      split; [apply lc_ok_nil | constructor; assumption].
    + rewrite split1_cons_other by assumption. simpl. rewrite lc_ok_plain by assumption. auto.
  - rewrite lc_ok_trip_eq in G by assumption. apply andb_true_iff in G as [G1 G2].
    destruct (IH G1) as [I1 I2]. rewrite split1_triplet by assumption. simpl.
    rewrite lc_ok_trip_eq by assumption. rewrite I1, G2. auto.
Qed.

Lemma lc_ok_split ci p : wfenc p -> lc_ok ci p = true ->
  Forall (fun s => lc_ok ci s = true) (split_on "/"%char p).
Proof.
  intros H G. rewrite split_on_eq. destruct (lc_ok_split1 ci p H G). constructor; assumption.
Qed.

Lemma lc_ok_join ci l : Forall wfenc l -> Forall (fun s => lc_ok ci s = true) l ->
  lc_ok ci (join_with "/" l) = true.
Proof.
  induction 1 as [|x r Hx Hr IH]; intro G; [apply lc_ok_nil|].
  inversion G as [|? ? G1 G2]; subst. simpl. destruct r as [|y r'].
  - assumption.
  - rewrite lc_ok_app by assumption. rewrite G1. simpl.
    change ("/" ++ join_with "/" (y :: r')) with (String "/"%char (join_with "/" (y :: r'))).
    rewrite lc_ok_plain by reflexivity. apply IH. assumption.
Qed.

(** [strings.Contains(p, "%2F")] of the code (with the repair: either case) is
    invariant under re-encoding outside C08-F2 *)
Lemma has_enc_slash_reenc ci p p' : reenc p p' -> lc_ok ci p = true -> lc_ok ci p' = true ->
  has_enc_slash ci p = has_enc_slash ci p'.
Proof.
  intros R G G'. unfold has_enc_slash. destruct ci; simpl.
  - apply (reenc_enc_slash _ _ R).
  - unfold lc_ok in G, G'. simpl in G, G'. apply negb_true_iff in G. apply negb_true_iff in G'.
    rewrite !orb_false_r. apply reenc_contains_2F; assumption.
Qed.

Lemma has_enc_slash_ci p : has_enc_slash true p = enc_slash p.
Proof. reflexivity. Qed.

Lemma has_enc_slash_lc ci p : lc_ok ci p = true -> has_enc_slash ci p = enc_slash p.
Proof.
  unfold lc_ok, has_enc_slash, enc_slash. destruct ci; simpl; [reflexivity|].
  intro H. apply negb_true_iff in H. rewrite H. reflexivity.
Qed.

(** * Part B — the request view *)

Definition mk_view (host rp query : string) : hurl :=
  {| u_scheme := "http"; u_host := host; u_path := unescape_or_empty rp; u_rawpath := rp; u_query := query |}.

Lemma unescape_keeps_slash p pa : has_prefix "/" p = true -> unescape p = Some pa -> pa <> "*".
Proof.
  destruct p as [|c r]; [discriminate|]. rewrite has_prefix_cons. intro H.
  apply andb_true_iff in H as [H _]. apply ascii_eqb_true in H. subst c.
  unfold unescape. rewrite unescape_gen_cons_plain by reflexivity.
  destruct (unescape_gen false r); simpl; intro E; inversion E. discriminate.
Qed.

(** normal form of [view]: the raw path heimdall works with is the request path
    itself when net/url accepts it as an encoded path, otherwise the re-encoded
    decoded path *)
Lemma view_eq host p q :
  view host p q =
  if String.eqb p "*" && is_empty q then Some (mk_view host "*" q)
  else if negb (has_prefix "/" p) || has_bad_target_byte p then None
  else match unescape p with
       | None => None
       | Some pa => Some (mk_view host (if valid_encoded p then p else escape MPath pa) q)
       end.
Proof.
  unfold view. destruct (String.eqb p "*" && is_empty q); [reflexivity|].
  destruct (has_prefix "/" p) eqn:Hp; simpl; [|reflexivity].
  destruct (has_bad_target_byte p); [reflexivity|].
  destruct (set_path p) as [[pa rp]|] eqn:Hs.
  - rewrite (set_path_unescape _ _ _ Hs). unfold view_of.
    rewrite (set_path_escaped _ _ _ Hs) by (eapply unescape_keeps_slash; [eassumption | eapply set_path_unescape; eassumption]).
    reflexivity.
  - apply set_path_none in Hs. rewrite Hs. reflexivity.
Qed.

Lemma bad_byte_facts_b : forall c, implb (unreserved c) (negb (bad_target_byte c) && negb (Ascii.eqb c "*"%char)) = true.
Proof. by_ascii. Qed.

Lemma unreserved_not_bad c : unreserved c = true -> bad_target_byte c = false.
Proof.
  intro H. pose proof (bad_byte_facts_b c) as B. rewrite H in B. simpl in B.
  apply andb_true_iff in B as [B _]. apply negb_true_iff in B. exact B.
Qed.

Lemma unreserved_not_star c : unreserved c = true -> Ascii.eqb c "*"%char = false.
Proof.
  intro H. pose proof (bad_byte_facts_b c) as B. rewrite H in B. simpl in B.
  apply andb_true_iff in B as [_ B]. apply negb_true_iff in B. exact B.
Qed.

Lemma has_bad_cons c r : has_bad_target_byte (String c r) = bad_target_byte c || has_bad_target_byte r.
Proof. reflexivity. Qed.

Lemma has_bad_trip a b r : ishex a = true -> ishex b = true ->
  has_bad_target_byte (String "%"%char (String a (String b r))) = has_bad_target_byte r.
Proof.
  intros Ha Hb. rewrite !has_bad_cons.
  rewrite (unreserved_not_bad a) by (apply ishex_unreserved; assumption).
  rewrite (unreserved_not_bad b) by (apply ishex_unreserved; assumption). reflexivity.
Qed.

Lemma reenc_bad_bytes p p' : reenc p p' -> has_bad_target_byte p = has_bad_target_byte p'.
Proof.
  induction 1 as [|c s s' Hc _ IH|c a b s s' Hu Ha Hb Hv _ IH|c a b s s' Hu Ha Hb Hv _ IH
                  |a b a' b' s s' Ha Hb Ha' Hb' Hv _ IH].
  - reflexivity.
  - rewrite !has_bad_cons, IH. reflexivity.
  - rewrite has_bad_trip by assumption. rewrite has_bad_cons, (unreserved_not_bad c Hu). exact IH.
  - rewrite has_bad_trip by assumption. rewrite has_bad_cons, (unreserved_not_bad c Hu). exact IH.
  - rewrite !has_bad_trip by assumption. exact IH.
Qed.

Lemma reenc_first_byte x p p' : reenc p p' -> unreserved x = false -> Ascii.eqb x "%"%char = false ->
  has_prefix (String x "") p = has_prefix (String x "") p'.
Proof.
  intros R Hx Hp. destruct R as [|c s s' Hc _|c a b s s' Hu Ha Hb Hv _|c a b s s' Hu Ha Hb Hv _|a b a' b' s s' Ha Hb Ha' Hb' Hv _];
    rewrite ?has_prefix_cons; try reflexivity.
  - assert (E : Ascii.eqb x c = false) by (apply ascii_eqb_false; intro; subst; congruence).
    rewrite E, Hp. reflexivity.
  - assert (E : Ascii.eqb x c = false) by (apply ascii_eqb_false; intro; subst; congruence).
    rewrite E, Hp. reflexivity.
Qed.

Lemma string_eqb_cons c s d t : String.eqb (String c s) (String d t) = Ascii.eqb c d && String.eqb s t.
Proof.
  simpl. destruct (Ascii.eqb c d) eqn:E; [reflexivity|].
  destruct (String.eqb s t); reflexivity.
Qed.

Lemma reenc_is_empty s s' : reenc s s' -> is_empty s = is_empty s'.
Proof. destruct 1; reflexivity. Qed.

Lemma reenc_star p p' : reenc p p' -> String.eqb p "*" = String.eqb p' "*".
Proof.
  intro R. destruct R as [|c s s' Hc R|c a b s s' Hu Ha Hb Hv _|c a b s s' Hu Ha Hb Hv _|a b a' b' s s' Ha Hb Ha' Hb' Hv _];
    rewrite ?string_eqb_cons; try reflexivity.
  - f_equal. destruct R; reflexivity.
  - rewrite (unreserved_not_star c Hu). reflexivity.
  - rewrite (unreserved_not_star c Hu). reflexivity.
Qed.

(** two views are related when everything but the spelling of the raw path is equal *)
Definition urel (u u' : hurl) : Prop :=
  u_scheme u = u_scheme u' /\ u_host u = u_host u' /\ u_path u = u_path u' /\ u_query u = u_query u' /\
  reenc (u_rawpath u) (u_rawpath u').

Lemma mk_view_rel host rp rp' q : reenc rp rp' -> urel (mk_view host rp q) (mk_view host rp' q).
Proof. intro R. unfold urel; simpl; splits; auto. apply reenc_unescape_or_empty; assumption. Qed.

Inductive orel {A B} (R : A -> B -> Prop) : option A -> option B -> Prop :=
| orel_none : orel R None None
| orel_some x y : R x y -> orel R (Some x) (Some y).

(** a re-encoded target is refused iff the original is; otherwise the views are
    related, and their raw paths are either the two targets or identical *)
Theorem view_reenc host p p' q : reenc p p' ->
  orel (fun u u' => urel u u' /\
                    ((u_rawpath u = p /\ u_rawpath u' = p') \/ u_rawpath u = u_rawpath u'))
       (view host p q) (view host p' q).
Proof.
  intro R. rewrite !view_eq.
  rewrite <- (reenc_star _ _ R).
  destruct (String.eqb p "*" && is_empty q).
  { constructor. split; [apply mk_view_rel; apply wfenc_reenc; repeat constructor | right; reflexivity]. }
  rewrite <- (reenc_first_byte "/"%char _ _ R) by reflexivity.
  rewrite <- (reenc_bad_bytes _ _ R).
  destruct (negb (has_prefix "/" p) || has_bad_target_byte p); [constructor|].
  rewrite <- (reenc_unescape _ _ R). destruct (unescape p) as [pa|] eqn:Hu; [|constructor].
  rewrite <- (reenc_valid_encoded _ _ R). constructor. destruct (valid_encoded p).
  - split; [apply mk_view_rel; assumption | left; split; reflexivity].
  - split; [apply mk_view_rel | right; reflexivity].
    apply wfenc_reenc. eapply wfenc_of_unescape. apply unescape_escape. discriminate.
Qed.

(** * Part C — the lookup under re-encoding *)



Lemma dfs_nil ok segs : dfs ok [] segs = None.
Proof.
  induction segs as [|s r IH]; [reflexivity|]. cbn [dfs filter_map]. rewrite IH.
  destruct (is_empty s); destruct (is_empty (join_with "/" (s :: r))); reflexivity.
Qed.

Lemma dfs_fast_eq ok segs : forall cs, dfs_fast ok cs segs = dfs ok cs segs.
Proof.
  induction segs as [|s r IH]; intros [|c cs]; try reflexivity.
  - symmetry. apply dfs_nil.
  - cbn [dfs_fast dfs]. rewrite !IH. reflexivity.
Qed.

Section Lookup.

Variable rules : list rule.
Variable ci : bool.

Definition cap_rel (kv kv' : string * string) : Prop :=
  fst kv = fst kv' /\ reenc (snd kv) (snd kv') /\ lc_ok ci (snd kv) = true /\ lc_ok ci (snd kv') = true.

Definition caps_rel : caps -> caps -> Prop := Forall2 cap_rel.

(** candidates that differ only in the spelling of what they captured *)
Definition crel0 (c c' : cand) : Prop :=
  cd_rule c = cd_rule c' /\ cd_route c = cd_route c' /\ caps_rel (cd_caps c) (cd_caps c') /\
  In (cd_rule c) rules /\ In (cd_route c) (r_routes (cd_rule c)).

Definition crel (segs segs' : list string) (c c' : cand) : Prop :=
  crel0 c c' /\ cd_pat c = cd_pat c' /\ rmatch (cd_pat c) segs = true /\ rmatch (cd_pat c) segs' = true.

Lemma filter_map_rel {A B A2 B2} (R : A -> B -> Prop) (R2 : A2 -> B2 -> Prop) f g l l' :
  Forall2 R l l' -> (forall x y, R x y -> orel R2 (f x) (g y)) ->
  Forall2 R2 (filter_map f l) (filter_map g l').
Proof.
  intros H Hf. induction H as [|x y l l' Hxy _ IH]; simpl; [constructor|].
  destruct (Hf x y Hxy); [assumption | constructor; assumption].
Qed.

Lemma find_rel {A B} (R : A -> B -> Prop) ok ok' l l' :
  Forall2 R l l' -> (forall x y, R x y -> ok x = ok' y) -> orel R (find ok l) (find ok' l').
Proof.
  intros H Hok. induction H as [|x y l l' Hxy _ IH]; simpl; [constructor|].
  rewrite <- (Hok x y Hxy). destruct (ok x); [constructor; assumption | assumption].
Qed.

Lemma step_lit_rel s s' r r' c c' : crel (s :: r) (s' :: r') c c' ->
  orel (crel r r') (step_lit s c) (step_lit s' c').
Proof.
  intros (H0 & Hp & Ha & Ha'). unfold step_lit. rewrite <- Hp.
  destruct (cd_pat c) as [|[l|n|n] p]; try constructor.
  cbn [rmatch] in Ha, Ha'. apply andb_true_iff in Ha as [A1 A2]. apply andb_true_iff in Ha' as [A1' A2'].
  rewrite A1, A1'. constructor.
  destruct H0 as (E1 & E2 & E3 & E4 & E5). unfold crel, crel0; simpl. rewrite <- E1, <- E2. splits; auto.
Qed.

Lemma step_wild_rel s s' r r' c c' : reenc s s' -> lc_ok ci s = true -> lc_ok ci s' = true ->
  crel (s :: r) (s' :: r') c c' -> orel (crel r r') (step_wild s c) (step_wild s' c').
Proof.
  intros Rs G G' (H0 & Hp & Ha & Ha'). unfold step_wild. rewrite <- Hp.
  destruct (cd_pat c) as [|[l|n|n] p]; try constructor.
  cbn [rmatch] in Ha, Ha'. apply andb_true_iff in Ha as [A1 A2]. apply andb_true_iff in Ha' as [A1' A2'].
  destruct H0 as (E1 & E2 & E3 & E4 & E5). unfold crel, crel0; simpl. rewrite <- E1, <- E2.
  splits; auto. apply Forall2_app; [assumption|]. constructor; [|constructor]. unfold cap_rel; simpl; auto.
Qed.

Lemma step_catch_all_rel rest rest' segs segs' c c' :
  reenc rest rest' -> lc_ok ci rest = true -> lc_ok ci rest' = true ->
  crel segs segs' c c' -> orel (crel [] []) (step_catch_all rest c) (step_catch_all rest' c').
Proof.
  intros Rs G G' (H0 & Hp & Ha & Ha'). unfold step_catch_all. rewrite <- Hp.
  destruct (cd_pat c) as [|[l|n|n] [|x p]]; try constructor.
  destruct H0 as (E1 & E2 & E3 & E4 & E5). unfold crel, crel0; simpl. rewrite <- E1, <- E2.
  splits; auto. apply Forall2_app; [assumption|]. constructor; [|constructor]. unfold cap_rel; simpl; auto.
Qed.

Lemma at_end_rel c c' : crel [] [] c c' -> orel (crel [] []) (at_end c) (at_end c').
Proof.
  intros H. pose proof H as (H0 & Hp & Ha). unfold at_end. rewrite <- Hp.
  destruct (cd_pat c); constructor. assumption.
Qed.

Lemma orel_weaken {A B} (R R2 : A -> B -> Prop) x y : (forall a b, R a b -> R2 a b) -> orel R x y -> orel R2 x y.
Proof. intros H []; constructor; auto. Qed.

Variables ok ok' : cand -> bool.
Hypothesis ok_agree : forall c c', crel0 c c' -> ok c = ok' c'.

Lemma first_ok_rel cs cs' : Forall2 (crel [] []) cs cs' -> orel crel0 (first_ok ok cs) (first_ok ok' cs').
Proof.
  intro H. unfold first_ok. eapply orel_weaken; [|apply (find_rel (crel [] []))].
  - intros a b (H0 & _). exact H0.
  - assumption.
  - intros x y (H0 & _). apply ok_agree; assumption.
Qed.

(** the lookup takes the same route for both spellings *)
Theorem dfs_rel segs segs' :
  Forall2 (fun s s' => reenc s s' /\ lc_ok ci s = true /\ lc_ok ci s' = true) segs segs' ->
  forall cs cs', Forall2 (crel segs segs') cs cs' ->
  orel crel0 (dfs ok cs segs) (dfs ok' cs' segs').
Proof.
  induction 1 as [|s s' r r' (Rs & G & G') Hr IH]; intros cs cs' Hcs.
  - simpl. apply first_ok_rel. eapply filter_map_rel; [eassumption|]. intros; apply at_end_rel; assumption.
  - cbn [dfs].
    assert (L : orel crel0 (dfs ok (filter_map (step_lit s) cs) r) (dfs ok' (filter_map (step_lit s') cs') r')).
    { apply IH. eapply filter_map_rel; [eassumption|]. intros; apply step_lit_rel; assumption. }
    destruct L as [|x y Hxy]; [|constructor; assumption].
    rewrite <- (reenc_is_empty _ _ Rs).
    assert (W : orel crel0 (if is_empty s then None else dfs ok (filter_map (step_wild s) cs) r)
                           (if is_empty s then None else dfs ok' (filter_map (step_wild s') cs') r')).
    { destruct (is_empty s); [constructor|]. apply IH. eapply filter_map_rel; [eassumption|].
      intros; apply step_wild_rel; assumption. }
    destruct W as [|x y Hxy]; [|constructor; assumption].
    assert (Rj : reenc (join_with "/" (s :: r)) (join_with "/" (s' :: r'))).
    { apply reenc_join. constructor; [assumption|]. clear -Hr. induction Hr as [|? ? ? ? (? & _)]; constructor; auto. }
    assert (Gj : lc_ok ci (join_with "/" (s :: r)) = true).
    { apply lc_ok_join.
      - constructor; [eapply reenc_wf_l; eassumption|]. clear -Hr.
        induction Hr as [|? ? ? ? (? & _)]; constructor; auto. eapply reenc_wf_l; eassumption.
      - constructor; [assumption|]. clear -Hr. induction Hr as [|? ? ? ? (_ & ? & _)]; constructor; auto. }
    assert (Gj' : lc_ok ci (join_with "/" (s' :: r')) = true).
    { apply lc_ok_join.
      - constructor; [eapply reenc_wf_r; eassumption|]. clear -Hr.
        induction Hr as [|? ? ? ? (? & _)]; constructor; auto. eapply reenc_wf_r; eassumption.
      - constructor; [assumption|]. clear -Hr. induction Hr as [|? ? ? ? (_ & _ & ?)]; constructor; auto. }
    rewrite <- (reenc_is_empty _ _ Rj). destruct (is_empty (join_with "/" (s :: r))); [constructor|].
    unfold first_ok. eapply orel_weaken; [|apply (find_rel (crel [] []))].
    + intros a b (H0 & _). exact H0.
    + eapply filter_map_rel; [eassumption|]. intros; eapply step_catch_all_rel; eassumption.
    + intros x y (H0 & _). apply ok_agree; assumption.
Qed.

(** candidates whose remaining path expression does not match the remaining
    segments never yield a result: the lookup may drop them at any time *)
Lemma filter_filter_map {A B} (g : A -> bool) (h : B -> bool) (f : A -> option B) l :
  (forall x y, f x = Some y -> g x = h y) ->
  filter h (filter_map f (filter g l)) = filter h (filter_map f l).
Proof.
  intro H. induction l as [|x l IH]; [reflexivity|]. simpl. destruct (g x) eqn:Eg; simpl.
  - destruct (f x); simpl; rewrite IH; reflexivity.
  - destruct (f x) as [y|] eqn:Ef; [|exact IH]. simpl. rewrite <- (H _ _ Ef), Eg. exact IH.
Qed.

Lemma filter_map_all {A B} (g : A -> bool) (f : A -> option B) l :
  (forall x y, f x = Some y -> g x = true) -> filter_map f (filter g l) = filter_map f l.
Proof.
  intro H. induction l as [|x l IH]; [reflexivity|]. simpl. destruct (g x) eqn:Eg; simpl.
  - rewrite IH. reflexivity.
  - destruct (f x) as [y|] eqn:Ef; [|exact IH]. rewrite (H _ _ Ef) in Eg. discriminate.
Qed.

Definition live (segs : list string) (c : cand) : bool := rmatch (cd_pat c) segs.

Lemma dfs_prune segs : forall cs, dfs ok cs segs = dfs ok (filter (live segs) cs) segs.
Proof.
  induction segs as [|s r IH]; intro cs.
  - simpl. f_equal. symmetry. apply filter_map_all. intros x y. unfold at_end, live.
    destruct (cd_pat x); [reflexivity | discriminate].
  - cbn [dfs].
    assert (E1 : dfs ok (filter_map (step_lit s) (filter (live (s :: r)) cs)) r = dfs ok (filter_map (step_lit s) cs) r).
    { rewrite (IH (filter_map (step_lit s) cs)), (IH (filter_map (step_lit s) (filter (live (s :: r)) cs))).
      f_equal. apply filter_filter_map. intros x y. unfold step_lit, live.
      destruct (cd_pat x) as [|[l|n|n] p]; try discriminate. destruct (String.eqb l s) eqn:El; [|discriminate].
      intro E; inversion E; subst; simpl. rewrite El. reflexivity. }
    assert (E2 : is_empty s = false ->
                 dfs ok (filter_map (step_wild s) (filter (live (s :: r)) cs)) r = dfs ok (filter_map (step_wild s) cs) r).
    { intro Ne. rewrite (IH (filter_map (step_wild s) cs)), (IH (filter_map (step_wild s) (filter (live (s :: r)) cs))).
      f_equal. apply filter_filter_map. intros x y. unfold step_wild, live.
      destruct (cd_pat x) as [|[l|n|n] p]; try discriminate.
      intro E; inversion E; subst; simpl. rewrite Ne. reflexivity. }
    rewrite E1. destruct (dfs ok (filter_map (step_lit s) cs) r); [reflexivity|].
    destruct (is_empty s) eqn:Ne.
    + destruct (is_empty (join_with "/" (s :: r))) eqn:Nj; [reflexivity|]. f_equal. symmetry. apply filter_map_all.
      intros x y. unfold step_catch_all, live. destruct (cd_pat x) as [|[l|n|n] [|? p]]; try discriminate.
      intros _. cbn [rmatch]. rewrite Nj. reflexivity.
    + rewrite (E2 eq_refl). destruct (dfs ok (filter_map (step_wild s) cs) r); [reflexivity|].
      destruct (is_empty (join_with "/" (s :: r))) eqn:Nj; [reflexivity|]. f_equal. symmetry. apply filter_map_all.
      intros x y. unfold step_catch_all, live. destruct (cd_pat x) as [|[l|n|n] [|? p]]; try discriminate.
      intros _. cbn [rmatch]. rewrite Nj. reflexivity.
Qed.

End Lookup.

(** ** the guards of the findings, as conditions on the input *)

Lemma existsb_false {A} (f : A -> bool) l : existsb f l = false -> forall x, In x l -> f x = false.
Proof.
  induction l as [|y l IH]; simpl; intros H x Hx; [contradiction|].
  apply orb_false_iff in H as [H1 H2]. destruct Hx as [->|Hx]; auto.
Qed.

Lemma guard_F3_false rules r t : guard_F3 rules = false -> In r rules -> r_setting r = Off ->
  In t (r_routes r) -> rt_params t = [].
Proof.
  intros G Hr Hs Ht. pose proof (existsb_false _ _ G r Hr) as H. simpl in H. rewrite Hs in H. simpl in H.
  pose proof (existsb_false _ _ H t Ht) as H2. simpl in H2. destruct (rt_params t); [reflexivity | discriminate].
Qed.

Lemma guard_F1_false rules p p' r t : guard_F1 rules p p' = false -> In r rules -> In t (r_routes r) ->
  rmatch (rt_pat t) (segs_of p) = rmatch (rt_pat t) (segs_of p').
Proof.
  intros G Hr Ht. pose proof (existsb_false _ _ G r Hr) as H. simpl in H.
  pose proof (existsb_false _ _ H t Ht) as H2. simpl in H2. apply negb_false_iff in H2.
  apply Bool.eqb_prop in H2. exact H2.
Qed.

Lemma Forall2_filter_diag {A} (R : A -> A -> Prop) (f g : A -> bool) l :
  (forall x, In x l -> f x = g x) -> (forall x, In x l -> f x = true -> g x = true -> R x x) ->
  Forall2 R (filter f l) (filter g l).
Proof.
  induction l as [|x l IH]; intros H1 H2; [constructor|]. simpl.
  rewrite <- (H1 x (or_introl eq_refl)). destruct (f x) eqn:Ef.
  - constructor; [apply H2; [left; reflexivity | assumption | rewrite <- (H1 x (or_introl eq_refl)); assumption] |].
    apply IH; intros; [apply H1 | apply H2]; auto; right; assumption.
  - apply IH; intros; [apply H1 | apply H2]; auto; right; assumption.
Qed.

(** ** the route matchers and Execute agree on related inputs *)

Lemma unescape_capture_agree fx st v v' : reenc v v' ->
  lc_ok (fx2 fx) v = true -> lc_ok (fx2 fx) v' = true ->
  unescape_capture fx st v = unescape_capture fx st v'.
Proof.
  intros R G G'. unfold unescape_capture.
  destruct st; try (apply decode_except_slash_agree; assumption). apply reenc_unescape_or_empty; assumption.
Qed.

Lemma assoc_rel ci k cs cs' : caps_rel ci cs cs' ->
  orel (fun v v' => reenc v v' /\ lc_ok ci v = true /\ lc_ok ci v' = true) (assoc k cs) (assoc k cs').
Proof.
  induction 1 as [|[n v] [n' v'] cs cs' (E & R & G & G') _ IH]; simpl; [constructor|].
  simpl in *. subst n'. destruct (String.eqb k n); [constructor; auto | exact IH].
Qed.

Lemma param_value_agree fx st rp rp' v v' : reenc rp rp' -> is_empty rp = false ->
  lc_ok (fx2 fx) rp = true -> lc_ok (fx2 fx) rp' = true ->
  reenc v v' -> lc_ok (fx2 fx) v = true -> lc_ok (fx2 fx) v' = true ->
  (st = Off -> fx3 fx = true) ->
  param_value fx st rp v = param_value fx st rp' v'.
Proof.
  intros R Hne G G' Rv Gv Gv' H3. unfold param_value.
  rewrite <- (reenc_is_empty _ _ R), Hne. destruct st.
  - rewrite <- (has_enc_slash_reenc _ _ _ R G G'). rewrite (H3 eq_refl).
    rewrite (reenc_unescape_or_empty _ _ Rv). reflexivity.
  - rewrite (reenc_unescape_or_empty _ _ Rv). reflexivity.
  - f_equal. apply decode_except_slash_agree; assumption.
Qed.

Lemma forallb_agree {A} (f g : A -> bool) l : (forall x, In x l -> f x = g x) -> forallb f l = forallb g l.
Proof.
  induction l as [|x l IH]; simpl; intro H; [reflexivity|].
  rewrite (H x) by auto. rewrite IH by auto. reflexivity.
Qed.

Lemma cand_ok_agree fx rules rp rp' : reenc rp rp' -> is_empty rp = false ->
  lc_ok (fx2 fx) rp = true -> lc_ok (fx2 fx) rp' = true ->
  (fx3 fx = true \/ guard_F3 rules = false) ->
  forall c c', crel0 rules (fx2 fx) c c' -> cand_ok fx rp c = cand_ok fx rp' c'.
Proof.
  intros R Hne G G' G3 c c' (E1 & E2 & E3 & E4 & E5). unfold cand_ok, route_ok. rewrite <- E1, <- E2.
  destruct (r_setting (cd_rule c)) eqn:Es.
  - destruct G3 as [G3|G3].
    + apply forallb_agree. intros p _. unfold param_ok.
      destruct (assoc_rel (fx2 fx) (fst p) _ _ E3) as [|v v' (Rv & Gv & Gv')]; [reflexivity|].
      rewrite (param_value_agree fx Off rp rp' v v') by auto. reflexivity.
    + rewrite (guard_F3_false rules _ _ G3 E4 Es E5). reflexivity.
  - apply forallb_agree. intros p _. unfold param_ok.
    destruct (assoc_rel (fx2 fx) (fst p) _ _ E3) as [|v v' (Rv & Gv & Gv')]; [reflexivity|].
    rewrite (param_value_agree fx On rp rp' v v') by (auto; discriminate). reflexivity.
  - apply forallb_agree. intros p _. unfold param_ok.
    destruct (assoc_rel (fx2 fx) (fst p) _ _ E3) as [|v v' (Rv & Gv & Gv')]; [reflexivity|].
    rewrite (param_value_agree fx NoDecode rp rp' v v') by (auto; discriminate). reflexivity.
Qed.

Lemma cap_eqb_spec x y : cap_eqb x y = true <-> x = y.
Proof.
  destruct x as [a b], y as [c d]. unfold cap_eqb; simpl. rewrite andb_true_iff, !String.eqb_eq.
  split; [intros [-> ->]; reflexivity | intro E; inversion E; auto].
Qed.

Lemma decision_eq_same a b : decision_eq a b -> same_decision a b = true.
Proof.
  destruct a, b; simpl; try tauto. intros (-> & -> & ->).
  rewrite String.eqb_refl, Bool.eqb_reflx. simpl. apply (list_eqb_spec cap_eqb cap_eqb_spec). reflexivity.
Qed.

Lemma decision_eq_refl a : decision_eq a a.
Proof. destruct a; simpl; auto. Qed.

Lemma captures_agree fx st cs cs' : caps_rel (fx2 fx) cs cs' ->
  map (fun kv => (fst kv, unescape_capture fx st (snd kv))) cs =
  map (fun kv => (fst kv, unescape_capture fx st (snd kv))) cs'.
Proof.
  induction 1 as [|[n v] [n' v'] cs cs' (E & R & G & G') _ IH]; simpl; [reflexivity|].
  simpl in *. subst n'. rewrite IH. rewrite (unescape_capture_agree fx st v v') by assumption. reflexivity.
Qed.

Lemma execute_agree fx rid d st be u u' cs cs' : urel u u' ->
  lc_ok (fx2 fx) (u_rawpath u) = true -> lc_ok (fx2 fx) (u_rawpath u') = true ->
  caps_rel (fx2 fx) cs cs' ->
  decision_eq (execute fx rid d st be u cs) (execute fx rid d st be u' cs').
Proof.
  intros (_ & _ & _ & _ & R) G G' Hc. unfold execute. rewrite (captures_agree fx st cs cs' Hc).
  destruct st; simpl; auto.
  rewrite <- (has_enc_slash_reenc _ _ _ R G G'). destruct (has_enc_slash (fx2 fx) (u_rawpath u)); simpl; auto.
Qed.

Lemma path_segs_reenc rp rp' : reenc rp rp' -> orel (Forall2 reenc) (path_segs rp) (path_segs rp').
Proof.
  intro R. destruct R as [|c s s' Hc R|c a b s s' Hu Ha Hb Hv _|c a b s s' Hu Ha Hb Hv _|a b a' b' s s' Ha Hb Ha' Hb' Hv _];
    unfold path_segs; try (constructor; fail).
  - destruct (Ascii.eqb c "/"%char); constructor. apply reenc_split; assumption.
  - rewrite (unreserved_not_slash c Hu). constructor.
  - rewrite (unreserved_not_slash c Hu). constructor.
Qed.

Lemma path_segs_lc ci rp segs : wfenc rp -> lc_ok ci rp = true -> path_segs rp = Some segs ->
  Forall (fun s => lc_ok ci s = true) segs.
Proof.
  intros W G. unfold path_segs. destruct rp as [|c r]; [discriminate|].
  destruct (Ascii.eqb c "/"%char) eqn:E; [|discriminate]. intro H; inversion H; subst.
  apply ascii_eqb_true in E. subst c. rewrite lc_ok_plain in G by reflexivity.
  apply lc_ok_split; [|assumption]. inversion W; subst; assumption.
Qed.

Lemma Forall2_with {A B} (R : A -> B -> Prop) (P : A -> Prop) (Q : B -> Prop) l l' :
  Forall2 R l l' -> Forall P l -> Forall Q l' -> Forall2 (fun x y => R x y /\ P x /\ Q y) l l'.
Proof.
  induction 1; intros HP HQ; [constructor|]. inversion HP; inversion HQ; subst. constructor; auto.
Qed.

Lemma Forall2_diag {A} (R : A -> A -> Prop) l : (forall x, In x l -> R x x) -> Forall2 R l l.
Proof. induction l; intro H; constructor; [apply H; left; reflexivity | apply IHl; intros; apply H; right; assumption]. Qed.

Lemma in_cands_of rules c : In c (cands_of rules) ->
  exists r t, In r rules /\ In t (r_routes r) /\
              c = {| cd_rule := r; cd_route := t; cd_pat := rt_pat t; cd_caps := [] |}.
Proof.
  unfold cands_of. intro H. apply in_flat_map in H as (r & Hr & H). apply in_map_iff in H as (t & E & Ht).
  exists r, t. auto.
Qed.

Lemma view_rawpath_nonempty host p q u : view host p q = Some u -> is_empty (u_rawpath u) = false.
Proof.
  rewrite view_eq. destruct (String.eqb p "*" && is_empty q).
  { intro H; inversion H; reflexivity. }
  destruct (has_prefix "/" p) eqn:Hp; simpl; [|discriminate].
  destruct (has_bad_target_byte p); [discriminate|].
  destruct (unescape p) as [pa|] eqn:Hu; [|discriminate].
  intro H; inversion H; subst; simpl. clear H.
  destruct p as [|c r]; [discriminate|]. rewrite has_prefix_cons in Hp. apply andb_true_iff in Hp as [Hp _].
  apply ascii_eqb_true in Hp. subst c.
  destruct (valid_encoded (String "/"%char r)); [reflexivity|].
  unfold unescape in Hu. rewrite unescape_gen_cons_plain in Hu by reflexivity.
  destruct (unescape_gen false r); inversion Hu. reflexivity.
Qed.

Lemma hurl_eta u : u = {| u_scheme := u_scheme u; u_host := u_host u; u_path := u_path u;
                          u_rawpath := u_rawpath u; u_query := u_query u |}.
Proof. destruct u; reflexivity. Qed.

(** * Part D — the property theorems *)

(** percent-encoding unreserved octets (in either hex case; any escape may change
    its hex case) changes neither the rule, nor the captured values, nor
    acceptance — outside the three findings *)
(** FindRule + Execute on two related views whose raw paths are [p] and [p'] *)
Lemma serve_view_rel fx rules dflt u u' p p' :
  reenc p p' -> u_rawpath u = p -> u_rawpath u' = p' -> urel u u' -> is_empty p = false ->
  guard_F1 rules p p' = false ->
  (fx2 fx = true \/ guard_F2 p p' = false) ->
  (fx3 fx = true \/ guard_F3 rules = false) ->
  decision_eq (serve_view fx rules dflt u) (serve_view fx rules dflt u').
Proof.
  intros R Ep Ep' U Ne G1 G2 G3. unfold serve_view.
  assert (Ne' : is_empty p' = false) by (rewrite <- (reenc_is_empty _ _ R); exact Ne).
  assert (L : lc_ok (fx2 fx) p = true /\ lc_ok (fx2 fx) p' = true).
  { unfold lc_ok. destruct G2 as [->|G2]; [auto|]. unfold guard_F2 in G2. apply orb_false_iff in G2 as [-> ->].
    rewrite !orb_true_r. auto. }
  destruct L as [L L'].
  assert (F : orel (crel0 rules (fx2 fx)) (find_rule fx rules u) (find_rule fx rules u')).
  { unfold find_rule, lookup_path. rewrite Ep, Ep', Ne, Ne'.
    pose proof (path_segs_reenc p p' R) as S.
    destruct (path_segs p) as [segs|] eqn:Sp; destruct (path_segs p') as [segs'|] eqn:Sp'; inversion S as [|? ? S2]; subst;
      [|constructor].
    rewrite !dfs_fast_eq. rewrite (dfs_prune _ segs), (dfs_prune _ segs').
    apply dfs_rel.
    - intros c c' Hc. eapply cand_ok_agree; eassumption.
    - apply Forall2_with; [assumption| |].
      + eapply path_segs_lc; [eapply reenc_wf_l; eassumption | eassumption | eassumption].
      + eapply path_segs_lc; [eapply reenc_wf_r; eassumption | eassumption | eassumption].
    - apply Forall2_filter_diag.
      + intros c Hc. apply in_cands_of in Hc as (r & t & Hr & Ht & ->). unfold live; simpl.
        pose proof (guard_F1_false rules _ _ r t G1 Hr Ht) as A. unfold segs_of in A. rewrite Sp, Sp' in A. exact A.
      + intros c Hc L1 L2. apply in_cands_of in Hc as (r & t & Hr & Ht & ->).
        unfold crel, crel0, live in *; simpl in *. splits; auto; constructor. }
  assert (Lu : lc_ok (fx2 fx) (u_rawpath u) = true) by (rewrite Ep; assumption).
  assert (Lu' : lc_ok (fx2 fx) (u_rawpath u') = true) by (rewrite Ep'; assumption).
  destruct F as [|c c' (E1 & E2 & E3 & _)].
  - destruct dflt; [|exact I]. apply execute_agree; try assumption. constructor.
  - rewrite <- E1. apply execute_agree; assumption.
Qed.

Theorem reencoding_invariant fx rules dflt host q p p' :
  reenc p p' ->
  guard_F1 rules p p' = false ->
  (fx2 fx = true \/ guard_F2 p p' = false) ->
  (fx3 fx = true \/ guard_F3 rules = false) ->
  decision_eq (serve fx rules dflt host p q) (serve fx rules dflt host p' q).
Proof.
  intros R G1 G2 G3. unfold serve.
  pose proof (view_reenc host p p' q R) as V.
  destruct (view host p q) as [u|] eqn:Vu; destruct (view host p' q) as [u'|] eqn:Vu'; inversion V as [|? ? (U & Hc)]; subst;
    [|exact I].
  destruct Hc as [[Ep Ep']|Eq].
  2:{ assert (u = u').
      { destruct U as (A1 & A2 & A3 & A4 & _). rewrite (hurl_eta u), (hurl_eta u'). congruence. }
      subst u'. apply decision_eq_refl. }
  pose proof (view_rawpath_nonempty _ _ _ _ Vu) as Ne. rewrite Ep in Ne.
  eapply serve_view_rel; eassumption.
Qed.

(** the same through the Envoy entry point (no guard for C08-F4 is ever needed
    there: the received path is used as it is) *)
Theorem reencoding_invariant_envoy fx rules dflt host q p p' :
  reenc p p' ->
  guard_F1 rules p p' = false ->
  (fx2 fx = true \/ guard_F2 p p' = false) ->
  (fx3 fx = true \/ guard_F3 rules = false) ->
  decision_eq (serve_envoy fx rules dflt host p q) (serve_envoy fx rules dflt host p' q).
Proof.
  intros R G1 G2 G3. unfold serve_envoy.
  destruct (is_empty p) eqn:Ne.
  - destruct p; [|discriminate]. inversion R; subst. apply decision_eq_refl.
  - eapply serve_view_rel; try eassumption; try reflexivity.
    unfold urel, view_envoy; simpl. splits; auto. apply reenc_unescape_or_empty; assumption.
Qed.

(** ** witnesses of the findings (on the pinned code) and non-vacuity *)

Ltac rk := apply reenc_keep; [reflexivity|].
Ltac re := eapply reenc_enc; [reflexivity|reflexivity|reflexivity|reflexivity|].
Ltac rt := apply reenc_trip; [reflexivity|reflexivity|reflexivity|reflexivity|reflexivity|].

Definition up_backend : option backend := Some {| b_host := "up"; b_rw := None |}.
Definition one_rule id st pat params :=
  {| r_id := id; r_setting := st; r_routes := [{| rt_pat := pat; rt_params := params |}]; r_backend := up_backend |}.

Definition w_rules_F1 := [one_rule "admin" Off [Lit "api"; Lit "admin"] []; one_rule "any" Off [Lit "api"; Wild "p1"] []].

(* superseded by its successor in Part E/F (stated for the current tree); kept, not listed in Properties *)
Theorem F1_refuted : exists rules p p',
  reenc p p' /\ guard_F1 rules p p' = true /\ guard_F2 p p' = false /\ guard_F3 rules = false /\
  ~ decision_eq (serve pinned rules false "h" p "") (serve pinned rules false "h" p' "").
Proof.
  exists w_rules_F1, "/api/admin", "/api/%61dmin". splits; try (vm_compute; reflexivity).
  - do 5 rk. re. do 4 rk. constructor.
  - vm_compute. intros (H & _). discriminate.
Qed.

Definition w_rules_F2 := [one_rule "w" Off [Wild "p0"] []].

Theorem F2_refuted : exists rules p p',
  reenc p p' /\ guard_F1 rules p p' = false /\ guard_F2 p p' = true /\ guard_F3 rules = false /\
  ~ decision_eq (serve pinned rules false "h" p "") (serve pinned rules false "h" p' "").
Proof.
  exists w_rules_F2, "/a%2Fb", "/a%2fb". splits; try (vm_compute; reflexivity).
  - do 2 rk. rt. rk. constructor.
  - vm_compute. tauto.
Qed.

Definition w_rules_F3 := [one_rule "pp" Off [Lit "api"; Wild "p1"] [("p1", PExact "admin")]].

(* superseded by its successor in Part E/F (stated for the current tree); kept, not listed in Properties *)
Theorem F3_refuted : exists rules p p',
  reenc p p' /\ guard_F1 rules p p' = false /\ guard_F2 p p' = false /\ guard_F3 rules = true /\
  ~ decision_eq (serve pinned rules false "h" p "") (serve pinned rules false "h" p' "").
Proof.
  exists w_rules_F3, "/api/admin", "/api/%61dmin". splits; try (vm_compute; reflexivity).
  - do 5 rk. re. do 4 rk. constructor.
  - vm_compute. tauto.
Qed.

(** with both repairs only C08-F1 is left *)
Theorem F2_F3_repaired_no_witness :
  decision_eq (serve repaired w_rules_F2 false "h" "/a%2Fb" "") (serve repaired w_rules_F2 false "h" "/a%2fb" "") /\
  decision_eq (serve repaired w_rules_F3 false "h" "/api/admin" "") (serve repaired w_rules_F3 false "h" "/api/%61dmin" "").
Proof. split; vm_compute; auto. Qed.

Definition w_rules_ok :=
  [one_rule "users" NoDecode [Lit "api"; Lit "users"; Wild "id"] [("id", PExact "j%2Fd")];
   one_rule "any" On [Lit "api"; CatchAll "rest"] []].

(** the hypotheses of [reencoding_invariant] are satisfiable by a request that is
    matched through literal and wildcard segments, with path_params, and accepted *)
(* superseded by its successor in Part E/F (stated for the current tree); kept, not listed in Properties *)
Example reencoding_invariant_nonvacuous :
  reenc "/api/users/j%2Fd" "/api/users/%6A%2F%64" /\
  guard_F1 w_rules_ok "/api/users/j%2Fd" "/api/users/%6A%2F%64" = false /\
  guard_F2 "/api/users/j%2Fd" "/api/users/%6A%2F%64" = false /\
  guard_F3 w_rules_ok = false /\
  exists up, serve pinned w_rules_ok false "h" "/api/users/%6A%2F%64" "" = Accepted "users" false [("id", "j%2Fd")] up.
Proof.
  splits; try (vm_compute; reflexivity).
  - do 11 rk. re. rt. re. constructor.
  - eexists. vm_compute. reflexivity.
Qed.

(** ** encoded slashes *)

Lemma view_valid host p q u : view host p q = Some u -> valid_encoded p = true -> u_rawpath u = p.
Proof.
  rewrite view_eq. destruct (String.eqb p "*" && is_empty q) eqn:E.
  - apply andb_true_iff in E as [E _]. apply String.eqb_eq in E. subst p. intro H; inversion H; reflexivity.
  - destruct (negb (has_prefix "/" p) || has_bad_target_byte p); [discriminate|].
    destruct (unescape p); [|discriminate]. intros H Hv; inversion H; subst; simpl. rewrite Hv. reflexivity.
Qed.

Section Invariants.
Variable ok : cand -> bool.

Lemma filter_map_Forall {A B} (P : A -> Prop) (Q : B -> Prop) (f : A -> option B) l :
  Forall P l -> (forall x y, P x -> f x = Some y -> Q y) -> Forall Q (filter_map f l).
Proof.
  intros H Hf. induction H as [|x l Hx _ IH]; simpl; [constructor|].
  destruct (f x) eqn:E; [constructor; [eapply Hf; eassumption | assumption] | assumption].
Qed.

Lemma find_Forall {A} (P : A -> Prop) f l x : Forall P l -> find f l = Some x -> P x.
Proof. intros H E. apply find_some in E as [E _]. rewrite Forall_forall in H. auto. Qed.

(** a property of (rule, route) is inherited by the candidate the lookup returns *)
Lemma dfs_rule_inv (Q : rule -> route -> Prop) segs : forall cs c,
  Forall (fun c => Q (cd_rule c) (cd_route c)) cs -> dfs ok cs segs = Some c -> Q (cd_rule c) (cd_route c).
Proof.
  set (P := fun c => Q (cd_rule c) (cd_route c)).
  assert (SL : forall s x y, P x -> step_lit s x = Some y -> P y).
  { intros s x y Hx. unfold step_lit. destruct (cd_pat x) as [|[l|n|n] p]; try discriminate.
    destruct (String.eqb l s); [|discriminate]. intro E; inversion E; subst. exact Hx. }
  assert (SW : forall s x y, P x -> step_wild s x = Some y -> P y).
  { intros s x y Hx. unfold step_wild. destruct (cd_pat x) as [|[l|n|n] p]; try discriminate.
    intro E; inversion E; subst. exact Hx. }
  assert (SC : forall s x y, P x -> step_catch_all s x = Some y -> P y).
  { intros s x y Hx. unfold step_catch_all. destruct (cd_pat x) as [|[l|n|n] [|? p]]; try discriminate.
    intro E; inversion E; subst. exact Hx. }
  assert (SE : forall x y, P x -> at_end x = Some y -> P y).
  { intros x y Hx. unfold at_end. destruct (cd_pat x); [|discriminate]. intro E; inversion E; subst. exact Hx. }
  induction segs as [|s r IH]; intros cs c Hcs.
  - simpl. unfold first_ok. apply (find_Forall P). eapply filter_map_Forall; [eassumption|]. apply SE.
  - cbn [dfs]. destruct (dfs ok (filter_map (step_lit s) cs) r) eqn:E1.
    { intro E; inversion E; subst. eapply IH; [|eassumption]. eapply filter_map_Forall; [eassumption|]. apply SL. }
    destruct (if is_empty s then None else dfs ok (filter_map (step_wild s) cs) r) eqn:E2.
    { intro E; inversion E; subst. destruct (is_empty s); [discriminate|].
      eapply IH; [|eassumption]. eapply filter_map_Forall; [eassumption|]. apply SW. }
    destruct (is_empty (join_with "/" (s :: r))); [discriminate|].
    unfold first_ok. apply (find_Forall P). eapply filter_map_Forall; [eassumption|]. apply SC.
Qed.

(** every captured value is a segment of the looked-up path or the rest of it
    from some segment on; [Pv] is any property of such pieces *)
Lemma dfs_caps_inv (Pv : string -> Prop) segs : forall cs c,
  (forall s, In s segs -> Pv s) ->
  (forall k, Pv (join_with "/" (skipn k segs))) ->
  Forall (fun c => Forall (fun kv => Pv (snd kv)) (cd_caps c)) cs ->
  dfs ok cs segs = Some c -> Forall (fun kv => Pv (snd kv)) (cd_caps c).
Proof.
  set (P := fun c => Forall (fun kv : string * string => Pv (snd kv)) (cd_caps c)).
  assert (SL : forall s x y, P x -> step_lit s x = Some y -> P y).
  { intros s x y Hx. unfold step_lit. destruct (cd_pat x) as [|[l|n|n] p]; try discriminate.
    destruct (String.eqb l s); [|discriminate]. intro E; inversion E; subst. exact Hx. }
  assert (SW : forall s x y, Pv s -> P x -> step_wild s x = Some y -> P y).
  { intros s x y Hs Hx. unfold step_wild. destruct (cd_pat x) as [|[l|n|n] p]; try discriminate.
    intro E; inversion E; subst. unfold P; simpl. apply Forall_app. split; [exact Hx | constructor; [exact Hs | constructor]]. }
  assert (SC : forall s x y, Pv s -> P x -> step_catch_all s x = Some y -> P y).
  { intros s x y Hs Hx. unfold step_catch_all. destruct (cd_pat x) as [|[l|n|n] [|? p]]; try discriminate.
    intro E; inversion E; subst. unfold P; simpl. apply Forall_app. split; [exact Hx | constructor; [exact Hs | constructor]]. }
  assert (SE : forall x y, P x -> at_end x = Some y -> P y).
  { intros x y Hx. unfold at_end. destruct (cd_pat x); [|discriminate]. intro E; inversion E; subst. exact Hx. }
  induction segs as [|s r IH]; intros cs c Hin Hjoin Hcs.
  - simpl. unfold first_ok. apply (find_Forall P). eapply filter_map_Forall; [eassumption|]. apply SE.
  - assert (Hin' : forall s0, In s0 r -> Pv s0) by (intros; apply Hin; right; assumption).
    assert (Hjoin' : forall k, Pv (join_with "/" (skipn k r))) by (intro k; apply (Hjoin (S k))).
    cbn [dfs]. destruct (dfs ok (filter_map (step_lit s) cs) r) eqn:E1.
    { intro E; inversion E; subst. eapply (IH _ _ Hin' Hjoin'); [|eassumption].
      eapply filter_map_Forall; [eassumption|]. apply SL. }
    destruct (if is_empty s then None else dfs ok (filter_map (step_wild s) cs) r) eqn:E2.
    { intro E; inversion E; subst. destruct (is_empty s); [discriminate|].
      eapply (IH _ _ Hin' Hjoin'); [|eassumption]. eapply filter_map_Forall; [eassumption|].
      intros x y. apply SW. apply Hin. left; reflexivity. }
    destruct (is_empty (join_with "/" (s :: r))); [discriminate|].
    unfold first_ok. apply (find_Forall P). eapply filter_map_Forall; [eassumption|].
    intros x y. apply SC. apply (Hjoin O).
Qed.

End Invariants.

Lemma cands_of_Forall (Q : rule -> route -> Prop) rules :
  (forall r t, In r rules -> In t (r_routes r) -> Q r t) ->
  Forall (fun c => Q (cd_rule c) (cd_route c)) (cands_of rules).
Proof.
  intro H. apply Forall_forall. intros c Hc. apply in_cands_of in Hc as (r & t & Hr & Ht & ->). simpl. auto.
Qed.

Lemma find_rule_in fx rules u c : find_rule fx rules u = Some c -> In (cd_rule c) rules.
Proof.
  unfold find_rule. destruct (path_segs (lookup_path u)); [|discriminate]. rewrite dfs_fast_eq. intro H.
  apply (dfs_rule_inv _ (fun r _ => In r rules) _ _ _ (cands_of_Forall _ rules (fun r t Hr _ => Hr)) H).
Qed.

(** `off` and the default rule: a request with an encoded slash (either hex
    case) is never accepted *)
Theorem off_rejects_encoded_slash fx rules dflt host q p rid d cs up :
  enc_slash p = true ->
  guard_F4 p = false ->
  (fx2 fx = true \/ contains "%2f" p = false) ->
  serve fx rules dflt host p q = Accepted rid d cs up ->
  d = false /\ exists r, In r rules /\ r_id r = rid /\ r_setting r <> Off.
Proof.
  intros Es G4 G2. unfold serve, serve_view. destruct (view host p q) as [u|] eqn:V; [|discriminate].
  assert (Ev : valid_encoded p = true) by (unfold guard_F4 in G4; apply negb_false_iff in G4; exact G4).
  pose proof (view_valid _ _ _ _ V Ev) as Er.
  assert (L : lc_ok (fx2 fx) p = true).
  { unfold lc_ok. destruct G2 as [->| ->]; [reflexivity | apply orb_true_r]. }
  assert (Hs : has_enc_slash (fx2 fx) (u_rawpath u) = true) by (rewrite Er, has_enc_slash_lc; assumption).
  destruct (find_rule fx rules u) as [c|] eqn:F.
  - unfold execute. destruct (r_setting (cd_rule c)) eqn:Est.
    + rewrite Hs. discriminate.
    + intro H; inversion H; subst. split; [reflexivity|]. exists (cd_rule c).
      splits; [eapply find_rule_in; eassumption | reflexivity | congruence].
    + intro H; inversion H; subst. split; [reflexivity|]. exists (cd_rule c).
      splits; [eapply find_rule_in; eassumption | reflexivity | congruence].
  - destruct dflt; [|discriminate]. unfold execute. rewrite Hs. discriminate.
Qed.

(** … it is answered with the precondition error when only `off` rules (and the
    default rule) could take it *)
Theorem off_answers_precondition fx rules host q p :
  enc_slash p = true ->
  guard_F4 p = false ->
  (fx2 fx = true \/ contains "%2f" p = false) ->
  (forall r, In r rules -> r_setting r = Off) ->
  serve fx rules true host p q = Precondition \/ serve fx rules true host p q = BadRequest.
Proof.
  intros Es G4 G2 Hoff. unfold serve, serve_view. destruct (view host p q) as [u|] eqn:V; [left|right; reflexivity].
  assert (Ev : valid_encoded p = true) by (unfold guard_F4 in G4; apply negb_false_iff in G4; exact G4).
  pose proof (view_valid _ _ _ _ V Ev) as Er.
  assert (L : lc_ok (fx2 fx) p = true).
  { unfold lc_ok. destruct G2 as [->| ->]; [reflexivity | apply orb_true_r]. }
  assert (Hs : has_enc_slash (fx2 fx) (u_rawpath u) = true) by (rewrite Er, has_enc_slash_lc; assumption).
  destruct (find_rule fx rules u) as [c|] eqn:F.
  - rewrite (Hoff _ (find_rule_in _ _ _ _ F)). unfold execute. rewrite Hs. reflexivity.
  - unfold execute. rewrite Hs. reflexivity.
Qed.

Theorem F2_off_refuted : exists rules p rid cs up,
  enc_slash p = true /\ guard_F4 p = false /\ contains "%2f" p = true /\
  (forall r, In r rules -> r_setting r = Off) /\
  serve pinned rules true "h" p "" = Accepted rid false cs up.
Proof.
  exists w_rules_F2, "/a%2fb". do 3 eexists. splits; try (vm_compute; reflexivity).
  intros r [<-|[]]. reflexivity.
Qed.

Definition w_rules_F4 := [one_rule "w" Off [Wild "x"; Wild "y"] []].

(* superseded by its successor in Part E/F (stated for the current tree); kept, not listed in Properties *)
Theorem F4_off_refuted : exists rules p rid cs up,
  enc_slash p = true /\ guard_F4 p = true /\ contains "%2f" p = false /\
  (forall r, In r rules -> r_setting r = Off) /\
  serve pinned rules true "h" p "" = Accepted rid false cs up.
Proof.
  exists w_rules_F4, "/a%2Fb""". do 3 eexists. splits; try (vm_compute; reflexivity).
  intros r [<-|[]]. reflexivity.
Qed.

Example off_rejects_nonvacuous :
  enc_slash "/files/a%2Fb" = true /\ guard_F4 "/files/a%2Fb" = false /\ contains "%2f" "/files/a%2Fb" = false /\
  serve pinned [one_rule "f" Off [Lit "files"; Wild "n"] []] false "h" "/files/a%2Fb" "" = Precondition /\
  serve pinned [one_rule "f" Off [Lit "files"; Wild "n"] []] false "h" "/files/ab" "" <> Precondition.
Proof. splits; try (vm_compute; reflexivity). vm_compute. discriminate. Qed.

(** ** captured values *)

Theorem capture_decoding fx st v :
  wfenc v ->
  (fx2 fx = true \/ contains "%2f" v = false) ->
  (fx5 fx = true \/ guard_F5 v = false) ->
  unescape_capture fx st v =
  match st with On => unescape_or_empty v | _ => decode_keep_slash v end.
Proof.
  intros W G2 G5.
  assert (E : decode_except_slash fx v = decode_keep_slash v).
  { unfold decode_except_slash. destruct (fx5 fx).
    - apply unescape_except_slashes_correct; assumption.
    - destruct G5 as [G5|G5]; [discriminate|].
      apply placeholder_correct; try assumption. unfold lc_ok. destruct G2 as [->| ->]; auto using orb_true_r. }
  destruct st; try exact E. reflexivity.
Qed.

(** ** token-wise predicates on well-formed strings survive splitting at '/' and joining *)

Fixpoint tok_all (fp : ascii -> bool) (ft : ascii -> ascii -> bool) (s : string) : bool :=
  match s with
  | "" => true
  | String c r =>
    if Ascii.eqb c "%"%char then
      match r with
      | String a (String b r') => ft a b && tok_all fp ft r'
      | _ => false
      end
    else fp c && tok_all fp ft r
  end.

Section Tok.
Variable fp : ascii -> bool.
Variable ft : ascii -> ascii -> bool.

Lemma tok_all_plain c r : Ascii.eqb c "%"%char = false -> tok_all fp ft (String c r) = fp c && tok_all fp ft r.
Proof. intro H. cbn [tok_all]. rewrite H. reflexivity. Qed.

Lemma tok_all_trip a b r : tok_all fp ft (String "%"%char (String a (String b r))) = ft a b && tok_all fp ft r.
Proof. reflexivity. Qed.

Lemma tok_all_app a b : wfenc a -> tok_all fp ft (a ++ b) = tok_all fp ft a && tok_all fp ft b.
Proof.
  induction 1 as [|c s Hc _ IH|x y s Hx Hy _ IH].
  - reflexivity.
  - change (String c s ++ b) with (String c (s ++ b)). rewrite !tok_all_plain by assumption.
    rewrite IH, andb_assoc. reflexivity.
  - change (String "%"%char (String x (String y s)) ++ b) with (String "%"%char (String x (String y (s ++ b)))).
    rewrite !tok_all_trip, IH, andb_assoc. reflexivity.
Qed.

Lemma tok_all_split1 p : wfenc p -> tok_all fp ft p = true ->
  tok_all fp ft (fst (split1 "/"%char p)) = true /\
  Forall (fun s => tok_all fp ft s = true) (snd (split1 "/"%char p)).
Proof.
  induction 1 as [|c s Hc _ IH|a b s Ha Hb _ IH]; intro G.
  - simpl. split; [reflexivity | constructor].
  - rewrite tok_all_plain in G by assumption. apply andb_true_iff in G as [G0 G].
    destruct (IH G) as [I1 I2]. destruct (Ascii.eqb c "/"%char) eqn:E.
    + apply ascii_eqb_true in E. subst c. rewrite split1_cons_sep. simpl.
      split; [reflexivity | constructor; assumption].
    + rewrite split1_cons_other by assumption. cbn [fst snd]. rewrite tok_all_plain by assumption. rewrite G0, I1. auto.
  - rewrite tok_all_trip in G. apply andb_true_iff in G as [G0 G].
    destruct (IH G) as [I1 I2]. rewrite split1_triplet by assumption. cbn [fst snd].
    rewrite tok_all_trip, G0, I1. auto.
Qed.

Lemma tok_all_join l : fp "/"%char = true -> Forall wfenc l -> Forall (fun s => tok_all fp ft s = true) l ->
  tok_all fp ft (join_with "/" l) = true.
Proof.
  intro Hs. induction 1 as [|x r Hx Hr IH]; intro G; [reflexivity|].
  inversion G as [|? ? G1 G2]; subst. destruct r as [|y r'].
  - exact G1.
  - change (join_with "/" (x :: y :: r')) with (x ++ String "/"%char (join_with "/" (y :: r'))).
    rewrite tok_all_app by assumption. rewrite G1. cbn [andb].
    rewrite tok_all_plain by reflexivity. rewrite Hs. apply IH. assumption.
Qed.
End Tok.

Definition nd_p (c : ascii) : bool := negb (Ascii.eqb "$"%char c).
Definition nd_t (a b : ascii) : bool := negb (Ascii.eqb "$"%char (hexbyte a b)).

Lemma guard_F5_tok v : wfenc v -> guard_F5 v = negb (tok_all nd_p nd_t v).
Proof.
  unfold guard_F5. induction 1 as [|c s Hc Hs IH|a b s Ha Hb Hs IH].
  - reflexivity.
  - rewrite unescape_or_empty_plain by assumption. rewrite mem_ascii_cons, tok_all_plain by assumption.
    rewrite IH. unfold nd_p. destruct (Ascii.eqb "$"%char c), (tok_all nd_p nd_t s); reflexivity.
  - rewrite unescape_or_empty_trip by assumption. rewrite mem_ascii_cons, tok_all_trip.
    rewrite IH. unfold nd_t. destruct (Ascii.eqb "$"%char (hexbyte a b)), (tok_all nd_p nd_t s); reflexivity.
Qed.

Lemma wfenc_join l : Forall wfenc l -> wfenc (join_with "/" l).
Proof.
  induction 1 as [|x r Hx Hr IH]; [constructor|]. simpl. destruct r as [|y r']; [assumption|].
  apply wfenc_app; [assumption|]. change ("/" ++ join_with "/" (y :: r')) with (String "/"%char (join_with "/" (y :: r'))).
  apply wf_plain; [reflexivity | assumption].
Qed.

Lemma Forall_skipn {A} (P : A -> Prop) k : forall l, Forall P l -> Forall P (skipn k l).
Proof. induction k as [|k IH]; intros l H; [exact H|]. destruct l; [constructor|]. inversion H; subst. simpl. auto. Qed.

(** what holds for every piece of a well-formed path outside C08-F2 / C08-F5 *)
Lemma pieces_ok (f5 : bool) ci p segs : wfenc p -> lc_ok ci p = true -> (f5 = true \/ guard_F5 p = false) ->
  path_segs p = Some segs ->
  (forall s, In s segs -> wfenc s /\ lc_ok ci s = true /\ (f5 = true \/ guard_F5 s = false) /\ piece_of p s) /\
  (forall k, let v := join_with "/" (skipn k segs) in
             wfenc v /\ lc_ok ci v = true /\ (f5 = true \/ guard_F5 v = false) /\ piece_of p v).
Proof.
  intros W L G5 Sp.
  assert (Ws : Forall wfenc segs).
  { pose proof (path_segs_reenc p p (wfenc_reenc p W)) as S. rewrite Sp in S. inversion S as [|? ? S2]; subst.
    clear -S2. induction S2 as [|a b l l' Hab _ IH]; [constructor|]. constructor; [first [eapply reenc_wf_r; exact Hab | eapply reenc_wf_l; exact Hab] | exact IH]. }
  assert (Ls : Forall (fun s => lc_ok ci s = true) segs) by (eapply path_segs_lc; eassumption).
  assert (Ts : f5 = true \/ Forall (fun s => tok_all nd_p nd_t s = true) segs).
  { destruct G5 as [G5|G5]; [left; exact G5 | right].
    rewrite guard_F5_tok in G5 by assumption. apply negb_false_iff in G5.
    unfold path_segs in Sp. destruct p as [|c r]; [discriminate|].
    destruct (Ascii.eqb c "/"%char) eqn:E; [|discriminate]. inversion Sp; subst.
    apply ascii_eqb_true in E. subst c. rewrite tok_all_plain in G5 by reflexivity.
    apply andb_true_iff in G5 as [_ G5]. inversion W; subst.
    rewrite split_on_eq. destruct (tok_all_split1 nd_p nd_t r) as [T1 T2]; try assumption. constructor; assumption. }
  split.
  - intros s Hs. rewrite Forall_forall in Ws, Ls. splits; auto.
    + destruct Ts as [Ts|Ts]; [left; exact Ts | right]. rewrite Forall_forall in Ts.
      rewrite guard_F5_tok by auto. rewrite Ts by assumption. reflexivity.
    + exists segs. auto.
  - intros k v. assert (Wk : Forall wfenc (skipn k segs)) by (apply Forall_skipn; assumption). splits.
    + apply wfenc_join; assumption.
    + apply lc_ok_join; [assumption | apply Forall_skipn; assumption].
    + destruct Ts as [Ts|Ts]; [left; exact Ts | right].
      rewrite guard_F5_tok by (apply wfenc_join; assumption).
      unfold v. rewrite tok_all_join; [reflexivity | reflexivity | assumption | apply Forall_skipn; assumption].
    + exists segs. split; [assumption | right; exists k; reflexivity].
Qed.

(** the raw values the lookup captured are pieces of the request path *)
Lemma find_rule_pieces (f5 : bool) fx rules ci u c p : u_rawpath u = p -> is_empty p = false ->
  wfenc p -> lc_ok ci p = true -> (f5 = true \/ guard_F5 p = false) ->
  find_rule fx rules u = Some c ->
  Forall (fun kv => wfenc (snd kv) /\ lc_ok ci (snd kv) = true /\ (f5 = true \/ guard_F5 (snd kv) = false) /\
                    piece_of p (snd kv)) (cd_caps c).
Proof.
  intros Er Ne W L G5. unfold find_rule, lookup_path. rewrite Er, Ne.
  destruct (path_segs p) as [segs|] eqn:Sp; [|discriminate]. rewrite dfs_fast_eq. intro H.
  destruct (pieces_ok f5 ci p segs W L G5 Sp) as [P1 P2].
  apply (dfs_caps_inv _ (fun v => wfenc v /\ lc_ok ci v = true /\ (f5 = true \/ guard_F5 v = false) /\ piece_of p v) segs _ _ P1 P2) in H;
    [exact H|].
  apply Forall_forall. intros x Hx. apply in_cands_of in Hx as (r & t & _ & _ & ->). constructor.
Qed.

(** no escape that [escape] writes in path mode is an encoded slash *)
Lemma escape_no_enc_slash s : enc_slash (escape MPath s) = false.
Proof.
  unfold enc_slash. induction s as [|c r IH]; [reflexivity|]. cbn [escape].
  destruct (should_escape MPath c) eqn:E.
  - unfold pct_triplet. destruct (hex_roundtrip c) as (H1 & H2 & H3).
    rewrite !contains_esc_trip by assumption.
    assert (Ns : Ascii.eqb (hexbyte (hexdig (nb c / 16)) (hexdig (nb c mod 16))) "/"%char = false).
    { rewrite H3. apply ascii_eqb_false. intro; subst c. discriminate. }
    rewrite slash_triplet in Ns by assumption. apply orb_false_iff in Ns as [N1 N2]. rewrite N1, N2. exact IH.
  - rewrite !contains_pct_plain by (eapply noesc_not_pct; eassumption). exact IH.
Qed.

Lemma view_wf host p q u : view host p q = Some u -> valid_encoded p = true -> p <> "*" ->
  wfenc p /\ u = mk_view host p q.
Proof.
  rewrite view_eq. destruct (String.eqb p "*" && is_empty q) eqn:E.
  { apply andb_true_iff in E as [E _]. apply String.eqb_eq in E. congruence. }
  destruct (negb (has_prefix "/" p) || has_bad_target_byte p); [discriminate|].
  destruct (unescape p) as [pa|] eqn:Hu; [|discriminate]. intros H Hv _. rewrite Hv in H. inversion H; subst.
  split; [eapply wfenc_of_unescape; eassumption | reflexivity].
Qed.

Lemma star_enc_slash p : enc_slash p = true -> p <> "*".
Proof. intros H ->. discriminate. Qed.

Lemma unescape_or_empty_some p pa : unescape p = Some pa -> unescape_or_empty p = pa.
Proof. unfold unescape_or_empty. intros ->. reflexivity. Qed.

(** `no_decode`: the encoded slash stays encoded in the captured values and in the
    path sent upstream *)
Theorem nodecode_keeps fx rules dflt host q p rid cs up :
  p <> "*" ->
  guard_F4 p = false ->
  (fx2 fx = true \/ contains "%2f" p = false) ->
  (fx5 fx = true \/ guard_F5 p = false) ->
  (forall r, In r rules -> r_id r = rid -> r_setting r = NoDecode) ->
  serve fx rules dflt host p q = Accepted rid false cs up ->
  Forall (fun kv => exists v, piece_of p v /\ snd kv = decode_keep_slash v) cs /\
  ((forall r, In r rules -> r_id r = rid -> exists h, r_backend r = Some {| b_host := h; b_rw := None |}) ->
   exists u', up = Some u' /\ u_rawpath u' = p /\ wire_path u' = p).
Proof.
  intros Hstar G4 G2 G5 Hst. unfold serve, serve_view. destruct (view host p q) as [u|] eqn:V; [|discriminate].
  assert (Ev : valid_encoded p = true) by (unfold guard_F4 in G4; apply negb_false_iff in G4; exact G4).
  destruct (view_wf _ _ _ _ V Ev Hstar) as [W Eu].
  pose proof (view_rawpath_nonempty _ _ _ _ V) as Ne. pose proof (view_valid _ _ _ _ V Ev) as Er. rewrite Er in Ne.
  assert (L : lc_ok (fx2 fx) p = true).
  { unfold lc_ok. destruct G2 as [->| ->]; [reflexivity | apply orb_true_r]. }
  destruct (find_rule fx rules u) as [c|] eqn:F.
  2:{ destruct dflt; [|discriminate]. unfold execute. destruct (has_enc_slash (fx2 fx) (u_rawpath u)); discriminate. }
  pose proof (find_rule_in _ _ _ _ F) as Hin.
  pose proof (find_rule_pieces (fx5 fx) fx rules (fx2 fx) u c p Er Ne W L G5 F) as Pc.
  unfold execute. intro H.
  assert (Erid : r_id (cd_rule c) = rid).
  { destruct (r_setting (cd_rule c)); [destruct (has_enc_slash (fx2 fx) (u_rawpath u)); [discriminate|]| |];
      inversion H; reflexivity. }
  rewrite (Hst _ Hin Erid) in H. inversion H; subst cs up. clear H. split.
  - rewrite Forall_map. eapply Forall_impl; [|exact Pc]. intros [n v] (Wv & Lv & Gv & Pv). simpl in *.
    exists v. split; [assumption|]. apply (capture_decoding fx NoDecode v Wv); [|assumption].
    unfold lc_ok in Lv. destruct (fx2 fx); [left; reflexivity | right]. simpl in Lv. apply negb_true_iff in Lv. exact Lv.
  - intro Hb. destruct (Hb _ Hin ltac:(first [reflexivity | assumption])) as [h ->]. simpl. eexists. split; [reflexivity|].
    unfold create_url_q; simpl. split; [exact Er|]. unfold wire_path; simpl. rewrite Er, Eu. simpl.
    destruct (wfenc_unescape p W) as [pa Hpa]. rewrite (unescape_or_empty_some _ _ Hpa).
    apply escaped_path_valid; assumption.
Qed.

(** `on`: everything, the encoded slash included, is decoded in the captured
    values, and the upstream path is built from the decoded path *)
Theorem on_decodes fx rules dflt host q p rid cs up :
  p <> "*" ->
  guard_F4 p = false ->
  (fx2 fx = true \/ contains "%2f" p = false) ->
  (fx5 fx = true \/ guard_F5 p = false) ->
  (forall r, In r rules -> r_id r = rid -> r_setting r = On) ->
  serve fx rules dflt host p q = Accepted rid false cs up ->
  Forall (fun kv => exists v, piece_of p v /\ snd kv = unescape_or_empty v) cs /\
  ((forall r, In r rules -> r_id r = rid -> exists h, r_backend r = Some {| b_host := h; b_rw := None |}) ->
   exists u', up = Some u' /\ u_rawpath u' = "" /\ u_path u' = unescape_or_empty p /\
              enc_slash (wire_path u') = false).
Proof.
  intros Hstar G4 G2 G5 Hst. unfold serve, serve_view. destruct (view host p q) as [u|] eqn:V; [|discriminate].
  assert (Ev : valid_encoded p = true) by (unfold guard_F4 in G4; apply negb_false_iff in G4; exact G4).
  destruct (view_wf _ _ _ _ V Ev Hstar) as [W Eu].
  pose proof (view_rawpath_nonempty _ _ _ _ V) as Ne. pose proof (view_valid _ _ _ _ V Ev) as Er. rewrite Er in Ne.
  assert (L : lc_ok (fx2 fx) p = true).
  { unfold lc_ok. destruct G2 as [->| ->]; [reflexivity | apply orb_true_r]. }
  destruct (find_rule fx rules u) as [c|] eqn:F.
  2:{ destruct dflt; [|discriminate]. unfold execute. destruct (has_enc_slash (fx2 fx) (u_rawpath u)); discriminate. }
  pose proof (find_rule_in _ _ _ _ F) as Hin.
  pose proof (find_rule_pieces (fx5 fx) fx rules (fx2 fx) u c p Er Ne W L G5 F) as Pc.
  unfold execute. intro H.
  assert (Erid : r_id (cd_rule c) = rid).
  { destruct (r_setting (cd_rule c)); [destruct (has_enc_slash (fx2 fx) (u_rawpath u)); [discriminate|]| |];
      inversion H; reflexivity. }
  rewrite (Hst _ Hin Erid) in H. inversion H; subst cs up. clear H. split.
  - rewrite Forall_map. eapply Forall_impl; [|exact Pc]. intros [n v] (Wv & Lv & Gv & Pv). simpl in *.
    exists v. split; [assumption | reflexivity].
  - intro Hb. destruct (Hb _ Hin ltac:(first [reflexivity | assumption])) as [h ->]. simpl. eexists. split; [reflexivity|].
    unfold create_url_q; simpl. rewrite Eu; simpl. splits; try reflexivity.
    unfold wire_path, escaped_path; simpl. destruct (String.eqb (unescape_or_empty p) "*"); [reflexivity|].
    apply escape_no_enc_slash.
Qed.

Definition w_rules_nd := [one_rule "nd" NoDecode [Lit "files"; CatchAll "rest"] []].
Definition w_rules_on := [one_rule "on" On [Lit "files"; CatchAll "rest"] []].

(* superseded by its successor in Part E/F (stated for the current tree); kept, not listed in Properties *)
Example nodecode_on_nonvacuous :
  serve pinned w_rules_nd false "h" "/files/a%2Fb/c%20d" "" =
    Accepted "nd" false [("rest", "a%2Fb/c d")]
      (Some {| u_scheme := "http"; u_host := "up"; u_path := "/files/a/b/c d"; u_rawpath := "/files/a%2Fb/c%20d"; u_query := "" |}) /\
  serve pinned w_rules_on false "h" "/files/a%2Fb/c%20d" "" =
    Accepted "on" false [("rest", "a/b/c d")]
      (Some {| u_scheme := "http"; u_host := "up"; u_path := "/files/a/b/c d"; u_rawpath := ""; u_query := "" |}).
Proof. split; vm_compute; reflexivity. Qed.

(** C08-F2 / C08-F5 under `no_decode`: the captured value is not "decoded except the slash" *)
Theorem F2_nodecode_refuted :
  contains "%2f" "/files/a%2fb" = true /\ guard_F5 "/files/a%2fb" = false /\
  serve pinned w_rules_nd false "h" "/files/a%2fb" "" =
    Accepted "nd" false [("rest", "a/b")]
      (Some {| u_scheme := "http"; u_host := "up"; u_path := "/files/a/b"; u_rawpath := "/files/a%2fb"; u_query := "" |}) /\
  decode_keep_slash "a%2fb" = "a%2Fb".
Proof. splits; vm_compute; reflexivity. Qed.

(* superseded by its successor in Part E/F (stated for the current tree); kept, not listed in Properties *)
Theorem F5_nodecode_refuted :
  contains "%2f" "/files/x$$$escaped-slash$$$y" = false /\ guard_F5 "/files/x$$$escaped-slash$$$y" = true /\
  (exists up, serve pinned w_rules_nd false "h" "/files/x$$$escaped-slash$$$y" "" = Accepted "nd" false [("rest", "x%2Fy")] up) /\
  decode_keep_slash "x$$$escaped-slash$$$y" = "x$$$escaped-slash$$$y".
Proof. splits; try (vm_compute; reflexivity). eexists. vm_compute. reflexivity. Qed.

(** ** the evaluator's executable equivalence covers [reenc] *)

Lemma norm_plain c r : Ascii.eqb c "%"%char = false -> norm (String c r) = String c (norm r).
Proof.
  intro H. destruct r as [|a [|b r']]; try reflexivity.
  change (norm (String c (String a (String b r'))))
    with (if Ascii.eqb c "%"%char && ishex a && ishex b
          then (if unreserved (hexbyte a b) then String (hexbyte a b) (norm r') else pct_triplet (hexbyte a b) (norm r'))
          else String c (norm (String a (String b r')))).
  rewrite H. reflexivity.
Qed.

Lemma norm_trip a b r : ishex a = true -> ishex b = true ->
  norm (String "%"%char (String a (String b r))) =
  if unreserved (hexbyte a b) then String (hexbyte a b) (norm r) else pct_triplet (hexbyte a b) (norm r).
Proof.
  intros Ha Hb.
  change (norm (String "%"%char (String a (String b r))))
    with (if Ascii.eqb "%"%char "%"%char && ishex a && ishex b
          then (if unreserved (hexbyte a b) then String (hexbyte a b) (norm r) else pct_triplet (hexbyte a b) (norm r))
          else String "%"%char (norm (String a (String b r)))).
  rewrite Ha, Hb. reflexivity.
Qed.

Lemma reenc_norm s s' : reenc s s' -> norm s = norm s'.
Proof.
  induction 1 as [|c s s' Hc _ IH|c a b s s' Hu Ha Hb Hv _ IH|c a b s s' Hu Ha Hb Hv _ IH
                  |a b a' b' s s' Ha Hb Ha' Hb' Hv _ IH].
  - reflexivity.
  - rewrite !norm_plain by assumption. rewrite IH. reflexivity.
  - rewrite norm_plain by (apply unreserved_not_pct; assumption). rewrite norm_trip by assumption.
    rewrite Hv, Hu, IH. reflexivity.
  - rewrite (norm_plain c) by (apply unreserved_not_pct; assumption). rewrite norm_trip by assumption.
    rewrite Hv, Hu, IH. reflexivity.
  - rewrite !norm_trip by assumption. rewrite Hv, IH. reflexivity.
Qed.

Theorem reenc_equiv_paths s s' : reenc s s' -> equiv_paths s s' = true.
Proof.
  intro R. unfold equiv_paths, wellformed.
  destruct (reenc_unescapable _ _ R) as [p Hp]. rewrite <- (reenc_unescape _ _ R), Hp.
  rewrite (reenc_norm _ _ R), String.eqb_refl. reflexivity.
Qed.

(** ** `off`: captured values are the decoded pieces *)

Definition ns_t (a b : ascii) : bool := negb (Ascii.eqb (hexbyte a b) "/"%char).

Lemma enc_slash_tok v : wfenc v -> enc_slash v = negb (tok_all (fun _ => true) ns_t v).
Proof.
  unfold enc_slash. induction 1 as [|c s Hc Hs IH|a b s Ha Hb Hs IH].
  - reflexivity.
  - rewrite !contains_pct_plain by assumption. rewrite tok_all_plain by assumption. exact IH.
  - rewrite !contains_esc_trip by assumption. rewrite tok_all_trip. unfold ns_t at 1.
    rewrite slash_triplet by assumption.
    destruct (Ascii.eqb "2"%char a && Ascii.eqb "F"%char b), (Ascii.eqb "2"%char a && Ascii.eqb "f"%char b);
      cbn [orb negb andb]; rewrite ?orb_true_r; try reflexivity; exact IH.
Qed.

Lemma pieces_tok fp ft p segs : fp "/"%char = true -> wfenc p -> tok_all fp ft p = true -> path_segs p = Some segs ->
  (forall s, In s segs -> tok_all fp ft s = true) /\
  (forall k, tok_all fp ft (join_with "/" (skipn k segs)) = true).
Proof.
  intros Hs W T Sp.
  assert (Ws : Forall wfenc segs).
  { pose proof (path_segs_reenc p p (wfenc_reenc p W)) as S. rewrite Sp in S. inversion S as [|? ? S2]; subst.
    clear -S2. induction S2 as [|a b l l' Hab _ IH]; [constructor|].
    constructor; [first [eapply reenc_wf_r; exact Hab | eapply reenc_wf_l; exact Hab] | exact IH]. }
  assert (Ts : Forall (fun s => tok_all fp ft s = true) segs).
  { unfold path_segs in Sp. destruct p as [|c r]; [discriminate|].
    destruct (Ascii.eqb c "/"%char) eqn:E; [|discriminate]. inversion Sp; subst.
    apply ascii_eqb_true in E. subst c. rewrite tok_all_plain in T by reflexivity.
    apply andb_true_iff in T as [_ T]. inversion W; subst.
    rewrite split_on_eq. destruct (tok_all_split1 fp ft r) as [T1 T2]; try assumption. constructor; assumption. }
  split.
  - intros s Hin. rewrite Forall_forall in Ts. auto.
  - intro k. apply tok_all_join; [assumption | apply Forall_skipn; assumption | apply Forall_skipn; assumption].
Qed.

Lemma find_rule_pieces_tok fp ft fx rules u c p : fp "/"%char = true -> u_rawpath u = p -> is_empty p = false ->
  wfenc p -> tok_all fp ft p = true ->
  find_rule fx rules u = Some c ->
  Forall (fun kv => tok_all fp ft (snd kv) = true) (cd_caps c).
Proof.
  intros Hs Er Ne W T. unfold find_rule, lookup_path. rewrite Er, Ne.
  destruct (path_segs p) as [segs|] eqn:Sp; [|discriminate]. rewrite dfs_fast_eq. intro H.
  destruct (pieces_tok fp ft p segs Hs W T Sp) as [P1 P2].
  apply (dfs_caps_inv _ (fun v => tok_all fp ft v = true) segs _ _ P1 P2) in H; [exact H|].
  apply Forall_forall. intros x Hx. apply in_cands_of in Hx as (r & t & _ & _ & ->). constructor.
Qed.

(** `off`: an accepted request has no encoded slash, and every captured value is a
    piece of the request path, decoded *)
Theorem off_captures_decoded fx rules dflt host q p rid cs up :
  p <> "*" ->
  guard_F4 p = false ->
  (fx2 fx = true \/ contains "%2f" p = false) ->
  (fx5 fx = true \/ guard_F5 p = false) ->
  (forall r, In r rules -> r_id r = rid -> r_setting r = Off) ->
  serve fx rules dflt host p q = Accepted rid false cs up ->
  enc_slash p = false /\
  Forall (fun kv => exists v, piece_of p v /\ snd kv = unescape_or_empty v) cs.
Proof.
  intros Hstar G4 G2 G5 Hst Hserve.
  assert (Es : enc_slash p = false).
  { destruct (enc_slash p) eqn:E; [|reflexivity].
    destruct (off_rejects_encoded_slash _ _ _ _ _ _ _ _ _ _ E G4 G2 Hserve) as (_ & r & Hr & Hid & Hne).
    elim Hne. apply Hst; assumption. }
  split; [exact Es|]. revert Hserve.
  unfold serve, serve_view. destruct (view host p q) as [u|] eqn:V; [|discriminate].
  assert (Ev : valid_encoded p = true) by (unfold guard_F4 in G4; apply negb_false_iff in G4; exact G4).
  destruct (view_wf _ _ _ _ V Ev Hstar) as [W Eu].
  pose proof (view_rawpath_nonempty _ _ _ _ V) as Ne. pose proof (view_valid _ _ _ _ V Ev) as Er. rewrite Er in Ne.
  assert (L : lc_ok (fx2 fx) p = true).
  { unfold lc_ok. destruct G2 as [->| ->]; [reflexivity | apply orb_true_r]. }
  destruct (find_rule fx rules u) as [c|] eqn:F.
  2:{ destruct dflt; [|discriminate]. unfold execute. destruct (has_enc_slash (fx2 fx) (u_rawpath u)); discriminate. }
  pose proof (find_rule_in _ _ _ _ F) as Hin.
  pose proof (find_rule_pieces (fx5 fx) fx rules (fx2 fx) u c p Er Ne W L G5 F) as Pc.
  assert (Tp : tok_all (fun _ => true) ns_t p = true).
  { rewrite enc_slash_tok in Es by assumption. apply negb_false_iff in Es. exact Es. }
  pose proof (find_rule_pieces_tok (fun _ => true) ns_t fx rules u c p eq_refl Er Ne W Tp F) as Pt.
  unfold execute. intro H.
  assert (Erid : r_id (cd_rule c) = rid).
  { destruct (r_setting (cd_rule c)); [destruct (has_enc_slash (fx2 fx) (u_rawpath u)); [discriminate|]| |];
      inversion H; reflexivity. }
  rewrite (Hst _ Hin Erid) in H. destruct (has_enc_slash (fx2 fx) (u_rawpath u)); [discriminate|].
  inversion H; subst cs up. clear H.
  rewrite Forall_map. rewrite Forall_forall in Pc, Pt. apply Forall_forall. intros [n v] Hx.
  destruct (Pc _ Hx) as (Wv & Lv & Gv & Pv). pose proof (Pt _ Hx) as Tv. simpl in *.
  exists v. split; [assumption|].
  change (decode_except_slash fx v) with (unescape_capture fx Off v).
  rewrite (capture_decoding fx Off v Wv); [| |assumption].
  - apply dks_no_slash; [assumption|]. rewrite enc_slash_tok by assumption. rewrite Tv. reflexivity.
  - unfold lc_ok in Lv. destruct (fx2 fx); [left; reflexivity | right]. simpl in Lv. apply negb_true_iff in Lv. exact Lv.
Qed.

(** a malformed escape never reaches heimdall *)
Theorem malformed_rejected fx rules dflt host q p : unescape p = None -> serve fx rules dflt host p q = BadRequest.
Proof.
  intro H. unfold serve, serve_view. rewrite view_eq.
  destruct (String.eqb p "*" && is_empty q) eqn:E.
  { apply andb_true_iff in E as [E _]. apply String.eqb_eq in E. subst p. discriminate. }
  destruct (negb (has_prefix "/" p) || has_bad_target_byte p); [reflexivity|]. rewrite H. reflexivity.
Qed.

(** * Part E — the tree as it is now: [fixed_F2] (fix: commit a779db8, C08-F2 repaired)

    The theorems above are parametric in [fx]; here they are instantiated for the
    current tree, where the guard of C08-F2 is not needed, and the remaining
    findings get their witnesses on the current tree. *)

Lemma fixed_F2_ci : fx2 fixed_F2 = true.
Proof. reflexivity. Qed.

Theorem reencoding_invariant_fixed rules dflt host q p p' :
  reenc p p' -> guard_F1 rules p p' = false -> guard_F3 rules = false ->
  decision_eq (serve fixed_F2 rules dflt host p q) (serve fixed_F2 rules dflt host p' q).
Proof. intros R G1 G3. apply reencoding_invariant; auto. Qed.

Theorem F1_fixed_refuted : exists rules p p',
  reenc p p' /\ guard_F1 rules p p' = true /\ guard_F3 rules = false /\
  ~ decision_eq (serve fixed_F2 rules false "h" p "") (serve fixed_F2 rules false "h" p' "").
Proof.
  exists w_rules_F1, "/api/admin", "/api/%61dmin". splits; try (vm_compute; reflexivity).
  - do 5 rk. re. do 4 rk. constructor.
  - vm_compute. intros (H & _). discriminate.
Qed.

Theorem F3_fixed_refuted : exists rules p p',
  reenc p p' /\ guard_F1 rules p p' = false /\ guard_F3 rules = true /\
  ~ decision_eq (serve fixed_F2 rules false "h" p "") (serve fixed_F2 rules false "h" p' "").
Proof.
  exists w_rules_F3, "/api/admin", "/api/%61dmin". splits; try (vm_compute; reflexivity).
  - do 5 rk. re. do 4 rk. constructor.
  - vm_compute. tauto.
Qed.

(** on the current tree the two spellings of the encoded slash are treated alike *)
Example F2_fixed_no_witness :
  serve fixed_F2 w_rules_F2 true "h" "/a%2Fb" "" = Precondition /\
  serve fixed_F2 w_rules_F2 true "h" "/a%2fb" "" = Precondition /\
  (exists up, serve fixed_F2 w_rules_nd false "h" "/files/a%2fb" "" = Accepted "nd" false [("rest", "a%2Fb")] up).
Proof. splits; try (vm_compute; reflexivity). eexists. vm_compute. reflexivity. Qed.

Example reencoding_invariant_fixed_nonvacuous :
  reenc "/api/users/j%2Fd" "/api/users/%6A%2f%64" /\
  guard_F1 w_rules_ok "/api/users/j%2Fd" "/api/users/%6A%2f%64" = false /\
  guard_F3 w_rules_ok = false /\
  exists up, serve fixed_F2 w_rules_ok false "h" "/api/users/%6A%2f%64" "" = Accepted "users" false [("id", "j%2Fd")] up.
Proof.
  splits; try (vm_compute; reflexivity).
  - do 11 rk. re. rt. re. constructor.
  - eexists. vm_compute. reflexivity.
Qed.

Theorem off_rejects_encoded_slash_fixed rules dflt host q p rid d cs up :
  enc_slash p = true -> guard_F4 p = false ->
  serve fixed_F2 rules dflt host p q = Accepted rid d cs up ->
  d = false /\ exists r, In r rules /\ r_id r = rid /\ r_setting r <> Off.
Proof. intros E G4. apply off_rejects_encoded_slash; auto. Qed.

Theorem off_answers_precondition_fixed rules host q p :
  enc_slash p = true -> guard_F4 p = false ->
  (forall r, In r rules -> r_setting r = Off) ->
  serve fixed_F2 rules true host p q = Precondition \/ serve fixed_F2 rules true host p q = BadRequest.
Proof. intros E G4. apply off_answers_precondition; auto. Qed.

Theorem F4_off_fixed_refuted : exists rules p rid cs up,
  enc_slash p = true /\ guard_F4 p = true /\
  (forall r, In r rules -> r_setting r = Off) /\
  serve fixed_F2 rules true "h" p "" = Accepted rid false cs up.
Proof.
  exists w_rules_F4, "/a%2Fb""". do 3 eexists. splits; try (vm_compute; reflexivity).
  intros r [<-|[]]. reflexivity.
Qed.

Theorem capture_decoding_fixed st v : wfenc v -> guard_F5 v = false ->
  unescape_capture fixed_F2 st v = match st with On => unescape_or_empty v | _ => decode_keep_slash v end.
Proof. intros W G5. apply capture_decoding; auto. Qed.

Theorem nodecode_keeps_fixed rules dflt host q p rid cs up :
  p <> "*" -> guard_F4 p = false -> guard_F5 p = false ->
  (forall r, In r rules -> r_id r = rid -> r_setting r = NoDecode) ->
  serve fixed_F2 rules dflt host p q = Accepted rid false cs up ->
  Forall (fun kv => exists v, piece_of p v /\ snd kv = decode_keep_slash v) cs /\
  ((forall r, In r rules -> r_id r = rid -> exists h, r_backend r = Some {| b_host := h; b_rw := None |}) ->
   exists u', up = Some u' /\ u_rawpath u' = p /\ wire_path u' = p).
Proof. intros S G4 G5. apply nodecode_keeps; auto. Qed.

Theorem on_decodes_fixed rules dflt host q p rid cs up :
  p <> "*" -> guard_F4 p = false -> guard_F5 p = false ->
  (forall r, In r rules -> r_id r = rid -> r_setting r = On) ->
  serve fixed_F2 rules dflt host p q = Accepted rid false cs up ->
  Forall (fun kv => exists v, piece_of p v /\ snd kv = unescape_or_empty v) cs /\
  ((forall r, In r rules -> r_id r = rid -> exists h, r_backend r = Some {| b_host := h; b_rw := None |}) ->
   exists u', up = Some u' /\ u_rawpath u' = "" /\ u_path u' = unescape_or_empty p /\
              enc_slash (wire_path u') = false).
Proof. intros S G4 G5. apply on_decodes; auto. Qed.

Theorem off_captures_decoded_fixed rules dflt host q p rid cs up :
  p <> "*" -> guard_F4 p = false -> guard_F5 p = false ->
  (forall r, In r rules -> r_id r = rid -> r_setting r = Off) ->
  serve fixed_F2 rules dflt host p q = Accepted rid false cs up ->
  enc_slash p = false /\
  Forall (fun kv => exists v, piece_of p v /\ snd kv = unescape_or_empty v) cs.
Proof. intros S G4 G5. apply off_captures_decoded; auto. Qed.

Example nodecode_on_fixed_nonvacuous :
  serve fixed_F2 w_rules_nd false "h" "/files/a%2fb/c%20d" "" =
    Accepted "nd" false [("rest", "a%2Fb/c d")]
      (Some {| u_scheme := "http"; u_host := "up"; u_path := "/files/a/b/c d"; u_rawpath := "/files/a%2fb/c%20d"; u_query := "" |}) /\
  serve fixed_F2 w_rules_on false "h" "/files/a%2fb/c%20d" "" =
    Accepted "on" false [("rest", "a/b/c d")]
      (Some {| u_scheme := "http"; u_host := "up"; u_path := "/files/a/b/c d"; u_rawpath := ""; u_query := "" |}).
Proof. split; vm_compute; reflexivity. Qed.

Theorem F5_nodecode_fixed_refuted :
  guard_F5 "/files/x$$$escaped-slash$$$y" = true /\
  (exists up, serve fixed_F2 w_rules_nd false "h" "/files/x$$$escaped-slash$$$y" "" = Accepted "nd" false [("rest", "x%2Fy")] up) /\
  decode_keep_slash "x$$$escaped-slash$$$y" = "x$$$escaped-slash$$$y".
Proof. splits; try (vm_compute; reflexivity). eexists. vm_compute. reflexivity. Qed.

(** * Part F — the tree as it is now: [repaired] (fix: commits a779db8 C08-F2, 72ba5d4 C08-F3) *)

Theorem reencoding_invariant_repaired rules dflt host q p p' :
  reenc p p' -> guard_F1 rules p p' = false ->
  decision_eq (serve repaired rules dflt host p q) (serve repaired rules dflt host p' q).
Proof. intros R G1. apply reencoding_invariant; auto. Qed.

Theorem F1_repaired_refuted : exists rules p p',
  reenc p p' /\ guard_F1 rules p p' = true /\
  ~ decision_eq (serve repaired rules false "h" p "") (serve repaired rules false "h" p' "").
Proof.
  exists w_rules_F1, "/api/admin", "/api/%61dmin". splits; try (vm_compute; reflexivity).
  - do 5 rk. re. do 4 rk. constructor.
  - vm_compute. intros (H & _). discriminate.
Qed.

(** C08-F3 on the tree before 72ba5d4 *)
Theorem F3_pinned_refuted : exists rules p p',
  reenc p p' /\ guard_F1 rules p p' = false /\ guard_F3 rules = true /\
  ~ decision_eq (serve fixed_F2 rules false "h" p "") (serve fixed_F2 rules false "h" p' "").
Proof. exact F3_fixed_refuted. Qed.

(** an `off` rule with path_params, the parameter spelled with escapes in the request *)
Example reencoding_invariant_repaired_nonvacuous :
  reenc "/api/admin" "/api/%61dmi%6e" /\
  guard_F1 w_rules_F3 "/api/admin" "/api/%61dmi%6e" = false /\
  guard_F3 w_rules_F3 = true /\
  (exists up, serve repaired w_rules_F3 false "h" "/api/%61dmi%6e" "" = Accepted "pp" false [("p1", "admin")] up) /\
  reenc "/api/users/j%2Fd" "/api/users/%6A%2f%64" /\
  guard_F1 w_rules_ok "/api/users/j%2Fd" "/api/users/%6A%2f%64" = false /\
  exists up, serve repaired w_rules_ok false "h" "/api/users/%6A%2f%64" "" = Accepted "users" false [("id", "j%2Fd")] up.
Proof.
  splits; try (vm_compute; reflexivity).
  - do 5 rk. re. do 3 rk. re. constructor.
  - eexists. vm_compute. reflexivity.
  - do 11 rk. re. rt. re. constructor.
  - eexists. vm_compute. reflexivity.
Qed.

Theorem off_rejects_encoded_slash_repaired rules dflt host q p rid d cs up :
  enc_slash p = true -> guard_F4 p = false ->
  serve repaired rules dflt host p q = Accepted rid d cs up ->
  d = false /\ exists r, In r rules /\ r_id r = rid /\ r_setting r <> Off.
Proof. intros E G4. apply off_rejects_encoded_slash; auto. Qed.

Theorem off_answers_precondition_repaired rules host q p :
  enc_slash p = true -> guard_F4 p = false ->
  (forall r, In r rules -> r_setting r = Off) ->
  serve repaired rules true host p q = Precondition \/ serve repaired rules true host p q = BadRequest.
Proof. intros E G4. apply off_answers_precondition; auto. Qed.

Theorem F4_off_repaired_refuted : exists rules p rid cs up,
  enc_slash p = true /\ guard_F4 p = true /\
  (forall r, In r rules -> r_setting r = Off) /\
  serve repaired rules true "h" p "" = Accepted rid false cs up.
Proof.
  exists w_rules_F4, "/a%2Fb""". do 3 eexists. splits; try (vm_compute; reflexivity).
  intros r [<-|[]]. reflexivity.
Qed.

Theorem capture_decoding_repaired st v : wfenc v ->
  unescape_capture repaired st v = match st with On => unescape_or_empty v | _ => decode_keep_slash v end.
Proof. intros W. apply capture_decoding; auto. Qed.

Theorem nodecode_keeps_repaired rules dflt host q p rid cs up :
  p <> "*" -> guard_F4 p = false ->
  (forall r, In r rules -> r_id r = rid -> r_setting r = NoDecode) ->
  serve repaired rules dflt host p q = Accepted rid false cs up ->
  Forall (fun kv => exists v, piece_of p v /\ snd kv = decode_keep_slash v) cs /\
  ((forall r, In r rules -> r_id r = rid -> exists h, r_backend r = Some {| b_host := h; b_rw := None |}) ->
   exists u', up = Some u' /\ u_rawpath u' = p /\ wire_path u' = p).
Proof. intros S G4. apply nodecode_keeps; auto. Qed.

Theorem on_decodes_repaired rules dflt host q p rid cs up :
  p <> "*" -> guard_F4 p = false ->
  (forall r, In r rules -> r_id r = rid -> r_setting r = On) ->
  serve repaired rules dflt host p q = Accepted rid false cs up ->
  Forall (fun kv => exists v, piece_of p v /\ snd kv = unescape_or_empty v) cs /\
  ((forall r, In r rules -> r_id r = rid -> exists h, r_backend r = Some {| b_host := h; b_rw := None |}) ->
   exists u', up = Some u' /\ u_rawpath u' = "" /\ u_path u' = unescape_or_empty p /\
              enc_slash (wire_path u') = false).
Proof. intros S G4. apply on_decodes; auto. Qed.

Theorem off_captures_decoded_repaired rules dflt host q p rid cs up :
  p <> "*" -> guard_F4 p = false ->
  (forall r, In r rules -> r_id r = rid -> r_setting r = Off) ->
  serve repaired rules dflt host p q = Accepted rid false cs up ->
  enc_slash p = false /\
  Forall (fun kv => exists v, piece_of p v /\ snd kv = unescape_or_empty v) cs.
Proof. intros S G4. apply off_captures_decoded; auto. Qed.

Example nodecode_on_repaired_nonvacuous :
  serve repaired w_rules_nd false "h" "/files/a%2fb/c%20d" "" =
    Accepted "nd" false [("rest", "a%2Fb/c d")]
      (Some {| u_scheme := "http"; u_host := "up"; u_path := "/files/a/b/c d"; u_rawpath := "/files/a%2fb/c%20d"; u_query := "" |}) /\
  serve repaired w_rules_on false "h" "/files/a%2fb/c%20d" "" =
    Accepted "on" false [("rest", "a/b/c d")]
      (Some {| u_scheme := "http"; u_host := "up"; u_path := "/files/a/b/c d"; u_rawpath := ""; u_query := "" |}).
Proof. split; vm_compute; reflexivity. Qed.

(** C08-F5 on the tree before 6d0a3af: the place-holder text in the request came out as %2F *)
Theorem F5_nodecode_pinned_refuted :
  guard_F5 "/files/x$$$escaped-slash$$$y" = true /\
  (exists up, serve before_F5 w_rules_nd false "h" "/files/x$$$escaped-slash$$$y" "" = Accepted "nd" false [("rest", "x%2Fy")] up) /\
  decode_keep_slash "x$$$escaped-slash$$$y" = "x$$$escaped-slash$$$y".
Proof. splits; try (vm_compute; reflexivity). eexists. vm_compute. reflexivity. Qed.

(** … and on the current tree it is an ordinary value *)
Example F5_repaired_no_witness :
  exists up, serve repaired w_rules_nd false "h" "/files/x$$$escaped-slash$$$y/a%2fb" "" =
             Accepted "nd" false [("rest", "x$$$escaped-slash$$$y/a%2Fb")] up.
Proof. eexists. vm_compute. reflexivity. Qed.

(** * Part G — the Envoy entry point *)

Theorem off_rejects_encoded_slash_envoy fx rules dflt host q p rid d cs up :
  enc_slash p = true ->
  (fx2 fx = true \/ contains "%2f" p = false) ->
  serve_envoy fx rules dflt host p q = Accepted rid d cs up ->
  d = false /\ exists r, In r rules /\ r_id r = rid /\ r_setting r <> Off.
Proof.
  intros Es G2. unfold serve_envoy, serve_view. set (u := view_envoy host p q).
  assert (L : lc_ok (fx2 fx) p = true).
  { unfold lc_ok. destruct G2 as [->| ->]; [reflexivity | apply orb_true_r]. }
  assert (Hs : has_enc_slash (fx2 fx) (u_rawpath u) = true) by (simpl; rewrite has_enc_slash_lc; assumption).
  destruct (find_rule fx rules u) as [c|] eqn:F.
  - unfold execute. destruct (r_setting (cd_rule c)) eqn:Est.
    + rewrite Hs. discriminate.
    + intro H; inversion H; subst. split; [reflexivity|]. exists (cd_rule c).
      splits; [eapply find_rule_in; eassumption | reflexivity | congruence].
    + intro H; inversion H; subst. split; [reflexivity|]. exists (cd_rule c).
      splits; [eapply find_rule_in; eassumption | reflexivity | congruence].
  - destruct dflt; [|discriminate]. unfold execute. rewrite Hs. discriminate.
Qed.

Theorem reencoding_invariant_envoy_repaired rules dflt host q p p' :
  reenc p p' -> guard_F1 rules p p' = false ->
  decision_eq (serve_envoy repaired rules dflt host p q) (serve_envoy repaired rules dflt host p' q).
Proof. intros R G1. apply reencoding_invariant_envoy; auto. Qed.

Theorem off_rejects_encoded_slash_envoy_repaired rules dflt host q p rid d cs up :
  enc_slash p = true ->
  serve_envoy repaired rules dflt host p q = Accepted rid d cs up ->
  d = false /\ exists r, In r rules /\ r_id r = rid /\ r_setting r <> Off.
Proof. intros E. apply off_rejects_encoded_slash_envoy; auto. Qed.

(** the witness of C08-F4 is rejected when it arrives through Envoy *)
Example F4_envoy_no_witness :
  serve_envoy repaired w_rules_F4 true "h" "/a%2Fb""" "" = Precondition.
Proof. vm_compute. reflexivity. Qed.

(** … but C08-F4 still shows at the upstream side under `no_decode`: net/url does
    not accept the raw path of the upstream URL and writes the re-encoded decoded
    path into the request line *)
Example F4_envoy_upstream_witness :
  guard_F4 "/files/a%2Fb^" = true /\
  exists u, serve_envoy repaired w_rules_nd false "h" "/files/a%2Fb^" "" = Accepted "nd" false [("rest", "a%2Fb^")] (Some u) /\
            u_rawpath u = "/files/a%2Fb^" /\ wire_path u = "/files/a/b%5E".
Proof. split; [reflexivity|]. eexists. splits; vm_compute; reflexivity. Qed.

(** * Part H — which route, which captures (position by position), and the answer

    The candidate the lookup returns belongs to a path expression that matches the
    path AS IT IS SPELLED ([rmatch]), and its captures are the segments at the
    wildcards' positions ([route_caps]). *)

(** a path expression after it consumed the segments [pre]: what is left of it and
    what it captured so far *)
Fixpoint advance (pat : list seg) (pre : list string) {struct pre} : option (list seg * caps) :=
  match pre with
  | [] => Some (pat, [])
  | s :: r =>
    match pat with
    | Lit l :: p => if String.eqb l s then advance p r else None
    | Wild n :: p => if is_empty s then None
                     else match advance p r with Some (p', cs) => Some (p', (n, s) :: cs) | None => None end
    | _ => None
    end
  end.

Lemma advance_snoc s : forall pre pat,
  advance pat (pre ++ [s]) =
  match advance pat pre with
  | Some (Lit l :: p, cs) => if String.eqb l s then Some (p, cs) else None
  | Some (Wild n :: p, cs) => if is_empty s then None else Some (p, (cs ++ [(n, s)])%list)
  | _ => None
  end.
Proof.
  induction pre as [|x pre IH]; intro pat.
  - destruct pat as [|[l|n|n] p]; cbn [app advance]; try reflexivity.
  - destruct pat as [|[l|n|n] p]; cbn [app advance]; try reflexivity.
    + destruct (String.eqb l x); [apply IH | reflexivity].
    + destruct (is_empty x); [reflexivity|]. rewrite IH.
      destruct (advance p pre) as [[[|[l'|n'|n'] p'] cs]|]; try reflexivity.
      * destruct (String.eqb l' s); reflexivity.
      * destruct (is_empty s); reflexivity.
Qed.

Lemma advance_done : forall pre pat cs, advance pat pre = Some ([], cs) ->
  rmatch pat pre = true /\ route_caps pat pre = Some cs.
Proof.
  induction pre as [|x pre IH]; intros pat cs H.
  - simpl in H. inversion H; subst. split; reflexivity.
  - simpl in H. destruct pat as [|[l|n|n] p]; try discriminate.
    + destruct (String.eqb l x) eqn:E; [|discriminate]. destruct (IH _ _ H) as [A B].
      cbn [rmatch route_caps]. rewrite E, A. auto.
    + destruct (is_empty x) eqn:E; [discriminate|].
      destruct (advance p pre) as [[p' cs']|] eqn:Ea; [|discriminate]. inversion H; subst.
      destruct (IH _ _ Ea) as [A B]. cbn [rmatch route_caps]. rewrite E, A, B. auto.
Qed.

Lemma advance_catch_all n : forall pre pat cs rem, advance pat pre = Some ([CatchAll n], cs) ->
  rem <> [] -> is_empty (join_with "/" rem) = false ->
  rmatch pat (pre ++ rem)%list = true /\ route_caps pat (pre ++ rem)%list = Some ((cs ++ [(n, join_with "/" rem)])%list).
Proof.
  induction pre as [|x pre IH]; intros pat cs rem H Hr Hj.
  - simpl in H. inversion H; subst. destruct rem as [|y r]; [congruence|]. simpl app.
    cbn [rmatch route_caps]. rewrite Hj. auto.
  - simpl in H. destruct pat as [|[l|m|m] p]; try discriminate.
    + destruct (String.eqb l x) eqn:E; [|discriminate]. destruct (IH _ _ _ H Hr Hj) as [A B].
      simpl app. cbn [rmatch route_caps]. rewrite E, A. auto.
    + destruct (is_empty x) eqn:E; [discriminate|].
      destruct (advance p pre) as [[p' cs']|] eqn:Ea; [|discriminate]. inversion H; subst.
      destruct (IH _ _ _ Ea Hr Hj) as [A B]. simpl app. cbn [rmatch route_caps]. rewrite E, A, B. auto.
Qed.

Lemma in_filter_map {A B} (f : A -> option B) l y : In y (filter_map f l) -> exists x, In x l /\ f x = Some y.
Proof.
  induction l as [|x l IH]; simpl; [contradiction|]. destruct (f x) as [z|] eqn:E.
  - intros [<-|H]; [exists x; auto | destruct (IH H) as (x0 & ? & ?); exists x0; auto].
  - intro H. destruct (IH H) as (x0 & ? & ?). exists x0; auto.
Qed.

Definition adv_inv (pre : list string) (x : cand) : Prop :=
  advance (rt_pat (cd_route x)) pre = Some (cd_pat x, cd_caps x).

Lemma dfs_adv ok : forall rem pre cs c,
  (forall x, In x cs -> adv_inv pre x) -> dfs ok cs rem = Some c ->
  rmatch (rt_pat (cd_route c)) (pre ++ rem)%list = true /\
  route_caps (rt_pat (cd_route c)) (pre ++ rem)%list = Some (cd_caps c).
Proof.
  induction rem as [|s r IH]; intros pre cs c Hcs.
  - simpl. unfold first_ok. intro H. apply find_some in H as [H _]. apply in_filter_map in H as (x & Hx & Ex).
    unfold at_end in Ex. destruct (cd_pat x) eqn:Ep; [|discriminate]. inversion Ex; subst c.
    rewrite app_nil_r. apply advance_done. pose proof (Hcs x Hx) as A. unfold adv_inv in A. rewrite Ep in A. exact A.
  - cbn [dfs].
    assert (SL : forall y, In y (filter_map (step_lit s) cs) -> adv_inv (pre ++ [s])%list y).
    { intros y Hy. apply in_filter_map in Hy as (x & Hx & Ex). pose proof (Hcs x Hx) as A. unfold adv_inv in *.
      unfold step_lit in Ex. destruct (cd_pat x) as [|[l|n|n] p] eqn:Ep; try discriminate.
      destruct (String.eqb l s) eqn:El; [|discriminate]. inversion Ex; subst y; simpl.
      rewrite advance_snoc, A, El. reflexivity. }
    assert (SW : is_empty s = false -> forall y, In y (filter_map (step_wild s) cs) -> adv_inv (pre ++ [s])%list y).
    { intros Ne y Hy. apply in_filter_map in Hy as (x & Hx & Ex). pose proof (Hcs x Hx) as A. unfold adv_inv in *.
      unfold step_wild in Ex. destruct (cd_pat x) as [|[l|n|n] p] eqn:Ep; try discriminate.
      inversion Ex; subst y; simpl. rewrite advance_snoc, A, Ne. reflexivity. }
    replace (pre ++ s :: r)%list with ((pre ++ [s]) ++ r)%list by (rewrite <- app_assoc; reflexivity).
    destruct (dfs ok (filter_map (step_lit s) cs) r) eqn:E1.
    { intro H; inversion H; subst. eapply IH; eassumption. }
    destruct (is_empty s) eqn:Ne.
    + destruct (is_empty (join_with "/" (s :: r))) eqn:Nj; [discriminate|].
      unfold first_ok. intro H. apply find_some in H as [H _]. apply in_filter_map in H as (x & Hx & Ex).
      unfold step_catch_all in Ex. destruct (cd_pat x) as [|[l|n|n] [|? p]] eqn:Ep; try discriminate.
      inversion Ex; subst c; simpl. rewrite <- app_assoc. simpl app.
      apply advance_catch_all; [|discriminate|assumption]. pose proof (Hcs x Hx) as A. unfold adv_inv in A. rewrite Ep in A. exact A.
    + destruct (dfs ok (filter_map (step_wild s) cs) r) eqn:E2.
      { intro H; inversion H; subst. eapply IH; [apply SW; reflexivity | eassumption]. }
      destruct (is_empty (join_with "/" (s :: r))) eqn:Nj; [discriminate|].
      unfold first_ok. intro H. apply find_some in H as [H _]. apply in_filter_map in H as (x & Hx & Ex).
      unfold step_catch_all in Ex. destruct (cd_pat x) as [|[l|n|n] [|? p]] eqn:Ep; try discriminate.
      inversion Ex; subst c; simpl. rewrite <- app_assoc. simpl app.
      apply advance_catch_all; [|discriminate|assumption]. pose proof (Hcs x Hx) as A. unfold adv_inv in A. rewrite Ep in A. exact A.
Qed.

(** FindRule returns a rule one of whose path expressions matches the looked-up
    path as it is spelled; the captures are the segments at its wildcards *)
Theorem find_rule_route fx rules u c p : u_rawpath u = p -> is_empty p = false ->
  find_rule fx rules u = Some c ->
  In (cd_rule c) rules /\ In (cd_route c) (r_routes (cd_rule c)) /\
  rmatch (rt_pat (cd_route c)) (segs_of p) = true /\
  route_caps (rt_pat (cd_route c)) (segs_of p) = Some (cd_caps c).
Proof.
  intros Er Ne F. pose proof (find_rule_in _ _ _ _ F) as Hin. revert F.
  unfold find_rule, lookup_path, segs_of. rewrite Er, Ne.
  destruct (path_segs p) as [segs|] eqn:Sp; [|discriminate]. rewrite dfs_fast_eq. intro H.
  assert (Hr : In (cd_route c) (r_routes (cd_rule c))).
  { apply (dfs_rule_inv _ (fun r t => In t (r_routes r)) _ _ _ (cands_of_Forall _ rules (fun r t _ Ht => Ht)) H). }
  destruct (dfs_adv (cand_ok fx p) segs [] (cands_of rules) c) as [A B]; [|exact H|].
  - intros x Hx. apply in_cands_of in Hx as (r & t & _ & _ & ->). reflexivity.
  - simpl in A, B. auto.
Qed.

Lemma wire_path_nodecode m b host p q :
  wfenc p -> valid_encoded p = true -> is_empty p = false ->
  wfenc (expected_wire b p) -> valid_encoded (expected_wire b p) = true ->
  wire_path (create_url_q m b (mk_view host p q)) = expected_wire b p.
Proof.
  intros W V Ne We Ve. destruct (wfenc_unescape p W) as [pa Hpa].
  assert (E0 : escaped_path (unescape_or_empty p) p = p).
  { rewrite (unescape_or_empty_some _ _ Hpa). apply escaped_path_valid; assumption. }
  unfold create_url_q, expected_wire in *. destruct (b_rw b) as [rw|].
  - unfold rewrite_q, wire_path; simpl. rewrite E0.
    set (e := transform_path rw p) in *. destruct (wfenc_unescape e We) as [pe Hpe].
    rewrite (unescape_or_empty_some _ _ Hpe).
    assert (R : (if String.eqb pe e then (if is_empty p then p else e) else e) = e).
    { rewrite Ne. destruct (String.eqb pe e); reflexivity. }
    rewrite R. apply escaped_path_valid; assumption.
  - unfold wire_path; simpl. exact E0.
Qed.

(** ** what an accepted request looks like (any entry point: the view is [mk_view]) *)

Theorem accepted_view fx rules dflt host q p rid cs up :
  is_empty p = false -> wfenc p ->
  (fx2 fx = true \/ contains "%2f" p = false) ->
  (fx5 fx = true \/ guard_F5 p = false) ->
  serve_view fx rules dflt (mk_view host p q) = Accepted rid false cs up ->
  exists r t raw,
    In r rules /\ r_id r = rid /\ In t (r_routes r) /\
    rmatch (rt_pat t) (segs_of p) = true /\
    route_caps (rt_pat t) (segs_of p) = Some raw /\
    cs = map (fun kv => (fst kv, spec_capture (r_setting r) (snd kv))) raw /\
    (r_setting r = Off -> enc_slash p = false) /\
    (r_setting r = NoDecode -> forall b, r_backend r = Some b ->
       wfenc (expected_wire b p) -> valid_encoded (expected_wire b p) = true -> valid_encoded p = true ->
       exists u', up = Some u' /\ wire_path u' = expected_wire b p).
Proof.
  intros Ne W G2 G5. unfold serve_view. set (u := mk_view host p q).
  assert (Er : u_rawpath u = p) by reflexivity.
  assert (L : lc_ok (fx2 fx) p = true).
  { unfold lc_ok. destruct G2 as [->| ->]; [reflexivity | apply orb_true_r]. }
  destruct (find_rule fx rules u) as [c|] eqn:F.
  2:{ destruct dflt; [|discriminate]. unfold execute. destruct (has_enc_slash (fx2 fx) (u_rawpath u)); discriminate. }
  destruct (find_rule_route fx rules u c p Er Ne F) as (Hin & Hrt & Hm & Hc).
  pose proof (find_rule_pieces (fx5 fx) fx rules (fx2 fx) u c p Er Ne W L G5 F) as Pc.
  unfold execute. intro H.
  exists (cd_rule c), (cd_route c), (cd_caps c).
  assert (Off_case : r_setting (cd_rule c) = Off -> enc_slash p = false).
  { intro Es. rewrite Es in H. destruct (has_enc_slash (fx2 fx) (u_rawpath u)) eqn:Hs; [discriminate|].
    simpl in Hs. rewrite has_enc_slash_lc in Hs by assumption. exact Hs. }
  assert (Hcs : cs = map (fun kv => (fst kv, unescape_capture fx (r_setting (cd_rule c)) (snd kv))) (cd_caps c) /\
                r_id (cd_rule c) = rid /\
                up = option_map (fun b => create_url_q {| qf1 := fxq fx; qf6 := fxq6 fx |} b
                       (match r_setting (cd_rule c) with
                        | On => {| u_scheme := u_scheme u; u_host := u_host u; u_path := u_path u;
                                   u_rawpath := EmptyString; u_query := u_query u |}
                        | _ => u end)) (r_backend (cd_rule c))).
  { destruct (r_setting (cd_rule c)); [destruct (has_enc_slash (fx2 fx) (u_rawpath u)); [discriminate|]| |];
      inversion H; auto. }
  destruct Hcs as (Ecs & Erid & Eup). splits; auto.
  - rewrite Ecs. apply map_ext_in. intros [n v] Hx. rewrite Forall_forall in Pc.
    destruct (Pc _ Hx) as (Wv & Lv & Gv & Pv). simpl in *. f_equal.
    assert (G2v : fx2 fx = true \/ contains "%2f" v = false).
    { unfold lc_ok in Lv. destruct (fx2 fx); [left; reflexivity | right]. simpl in Lv. apply negb_true_iff in Lv. exact Lv. }
    rewrite (capture_decoding fx _ v Wv G2v Gv). destruct (r_setting (cd_rule c)) eqn:Es; try reflexivity.
    simpl. apply dks_no_slash; [assumption|].
    assert (Tp : tok_all (fun _ => true) ns_t p = true).
    { pose proof (Off_case eq_refl) as E. rewrite enc_slash_tok in E by assumption. apply negb_false_iff in E. exact E. }
    pose proof (find_rule_pieces_tok (fun _ => true) ns_t fx rules u c p eq_refl Er Ne W Tp F) as Pt.
    rewrite Forall_forall in Pt. pose proof (Pt _ Hx) as Tv. simpl in Tv.
    rewrite enc_slash_tok by assumption. rewrite Tv. reflexivity.
  - intros Es b Hb We Ve Vp. rewrite Es, Hb in Eup. simpl in Eup. eexists. split; [exact Eup|].
    apply wire_path_nodecode; assumption.
Qed.

(** the lookup finds something whenever a path expression without path_params matches the path as spelled *)
Lemma in_filter_map_intro {A B} (f : A -> option B) l x y : In x l -> f x = Some y -> In y (filter_map f l).
Proof.
  induction l as [|z l IH]; simpl; [contradiction|]. intros [->|H] E.
  - rewrite E. left; reflexivity.
  - destruct (f z); [right|]; auto.
Qed.

Lemma find_exists {A} (f : A -> bool) l x : In x l -> f x = true -> find f l <> None.
Proof.
  induction l as [|z l IH]; simpl; [contradiction|]. intros [->|H] E.
  - rewrite E. discriminate.
  - destruct (f z); [discriminate | auto].
Qed.

Lemma dfs_complete ok : (forall c, rt_params (cd_route c) = [] -> ok c = true) ->
  forall segs cs c, In c cs -> rmatch (cd_pat c) segs = true -> rt_params (cd_route c) = [] ->
  dfs ok cs segs <> None.
Proof.
  intro Hok. induction segs as [|s r IH]; intros cs c Hin Hm Hp.
  - simpl. unfold first_ok. destruct (cd_pat c) as [|[l|n|n] [|? p]] eqn:Ep; try discriminate.
    apply (find_exists ok _ c); [|apply Hok; assumption].
    apply (in_filter_map_intro at_end cs c c Hin). unfold at_end. rewrite Ep. reflexivity.
  - cbn [dfs]. destruct (cd_pat c) as [|[l|n|n] p] eqn:Ep; try discriminate.
    + cbn [rmatch] in Hm. apply andb_true_iff in Hm as [M1 M2].
      set (c' := {| cd_rule := cd_rule c; cd_route := cd_route c; cd_pat := p; cd_caps := cd_caps c |}).
      assert (H : dfs ok (filter_map (step_lit s) cs) r <> None).
      { apply (IH _ c'); [|exact M2|exact Hp]. apply (in_filter_map_intro _ cs c c' Hin).
        unfold step_lit. rewrite Ep, M1. reflexivity. }
      destruct (dfs ok (filter_map (step_lit s) cs) r); [discriminate | congruence].
    + cbn [rmatch] in Hm. apply andb_true_iff in Hm as [M1 M2]. apply negb_true_iff in M1.
      destruct (dfs ok (filter_map (step_lit s) cs) r); [discriminate|]. rewrite M1.
      set (c' := {| cd_rule := cd_rule c; cd_route := cd_route c; cd_pat := p; cd_caps := (cd_caps c ++ [(n, s)])%list |}).
      assert (H : dfs ok (filter_map (step_wild s) cs) r <> None).
      { apply (IH _ c'); [|exact M2|exact Hp]. apply (in_filter_map_intro _ cs c c' Hin).
        unfold step_wild. rewrite Ep. reflexivity. }
      destruct (dfs ok (filter_map (step_wild s) cs) r); [discriminate | congruence].
    + destruct p as [|? p]; [|discriminate]. cbn [rmatch] in Hm. apply negb_true_iff in Hm.
      destruct (dfs ok (filter_map (step_lit s) cs) r); [discriminate|].
      destruct (if is_empty s then None else dfs ok (filter_map (step_wild s) cs) r); [discriminate|].
      rewrite Hm. unfold first_ok.
      set (c' := {| cd_rule := cd_rule c; cd_route := cd_route c; cd_pat := [];
                    cd_caps := (cd_caps c ++ [(n, join_with "/" (s :: r))])%list |}).
      apply (find_exists ok _ c'); [|apply Hok; exact Hp].
      apply (in_filter_map_intro _ cs c c' Hin). unfold step_catch_all. rewrite Ep. reflexivity.
Qed.

(** the precondition answer: if every path expression that matches the path as it is
    spelled belongs to an `off` rule, a path with an encoded slash is answered with
    the precondition error — or with "no rule" when nothing accepts it and no default
    rule is configured *)
Theorem precondition_view fx rules dflt host q p :
  has_prefix "/" p = true -> enc_slash p = true ->
  (fx2 fx = true \/ contains "%2f" p = false) ->
  (forall r t, In r rules -> In t (r_routes r) -> rmatch (rt_pat t) (segs_of p) = true -> r_setting r = Off) ->
  serve_view fx rules dflt (mk_view host p q) = Precondition \/
  (dflt = false /\ serve_view fx rules dflt (mk_view host p q) = NoRule /\
   forall r t, In r rules -> In t (r_routes r) -> rmatch (rt_pat t) (segs_of p) = true -> rt_params t <> []).
Proof.
  intros Hp Es G2 Hoff. unfold serve_view. set (u := mk_view host p q).
  assert (Ne : is_empty p = false) by (destruct p; [discriminate | reflexivity]).
  assert (Er : u_rawpath u = p) by reflexivity.
  assert (L : lc_ok (fx2 fx) p = true).
  { unfold lc_ok. destruct G2 as [->| ->]; [reflexivity | apply orb_true_r]. }
  assert (Hs : has_enc_slash (fx2 fx) (u_rawpath u) = true) by (simpl; rewrite has_enc_slash_lc; assumption).
  destruct (find_rule fx rules u) as [c|] eqn:F.
  - destruct (find_rule_route fx rules u c p Er Ne F) as (Hin & Hrt & Hm & Hc).
    rewrite (Hoff _ _ Hin Hrt Hm). unfold execute. rewrite Hs. left; reflexivity.
  - destruct dflt; [left; unfold execute; rewrite Hs; reflexivity | right]. splits; auto.
    intros r t Hr Ht Hm Hnil. revert F. unfold find_rule, lookup_path. rewrite Er, Ne.
    unfold segs_of in Hm. destruct (path_segs p) as [segs|] eqn:Sp.
    + rewrite dfs_fast_eq.
      assert (Hok : forall c, rt_params (cd_route c) = [] -> cand_ok fx p c = true).
      { intros c Hc. unfold cand_ok, route_ok. rewrite Hc. reflexivity. }
      apply (dfs_complete _ Hok segs (cands_of rules)
        {| cd_rule := r; cd_route := t; cd_pat := rt_pat t; cd_caps := [] |}); auto.
      unfold cands_of. apply in_flat_map. exists r. split; [assumption|]. apply in_map_iff. exists t. auto.
    + destruct p as [|c0 p0]; [discriminate|]. rewrite has_prefix_cons in Hp. apply andb_true_iff in Hp as [Hp _].
      apply ascii_eqb_true in Hp. subst c0. discriminate.
Qed.

(** ** the three entry points produce [mk_view] *)

Lemma view_http_mk host p q u : view host p q = Some u -> valid_encoded p = true -> p <> "*" ->
  wfenc p /\ is_empty p = false /\ u = mk_view host p q.
Proof.
  intros V Ev Hs. destruct (view_wf _ _ _ _ V Ev Hs) as [W Eu].
  pose proof (view_rawpath_nonempty _ _ _ _ V) as Ne. rewrite (view_valid _ _ _ _ V Ev) in Ne. auto.
Qed.

Lemma view_envoy_mk host p q : view_envoy host p q = mk_view host p q.
Proof. reflexivity. Qed.

Lemma view_xfu_mk f6 host own p q u : view_xfu f6 host own p q = Some u ->
  wfenc p -> valid_encoded p = true -> has_prefix "/" p = true ->
  is_empty p = false /\ u = mk_view host p q.
Proof.
  intros V W Ev Hp. unfold view_xfu in V. destruct (has_ctl p || has_ctl q); [discriminate|].
  destruct (wfenc_unescape p W) as [pa Hpa].
  destruct (set_path p) as [[pa' rp]|] eqn:Hs; [|apply set_path_none in Hs; congruence].
  inversion V; subst u. unfold view_of.
  rewrite (set_path_escaped _ _ _ Hs) by (eapply unescape_keeps_slash; [eassumption | eapply set_path_unescape; eassumption]).
  rewrite Ev. split; [|reflexivity]. destruct p; [discriminate | reflexivity].
Qed.

(** ** entry-level statements for the tree as it is now *)

Theorem accepted_http rules dflt host q p rid cs up :
  p <> "*" -> guard_F4 p = false ->
  serve repaired rules dflt host p q = Accepted rid false cs up ->
  accepted_spec rules p rid cs up.
Proof.
  intros Hs G4. unfold serve. destruct (view host p q) as [u|] eqn:V; [|discriminate].
  assert (Ev : valid_encoded p = true) by (unfold guard_F4 in G4; apply negb_false_iff in G4; exact G4).
  destruct (view_http_mk _ _ _ _ V Ev Hs) as (W & Ne & ->). apply accepted_view; auto.
Qed.

Theorem accepted_envoy rules dflt host q p rid cs up :
  is_empty p = false -> wfenc p ->
  serve_envoy repaired rules dflt host p q = Accepted rid false cs up ->
  accepted_spec rules p rid cs up.
Proof. intros Ne W. unfold serve_envoy. rewrite view_envoy_mk. apply accepted_view; auto. Qed.

Theorem accepted_xfu rules dflt host own q p rid cs up :
  guard_F6 p = false -> guard_F4 p = false -> has_prefix "/" p = true ->
  serve_xfu repaired rules dflt host own p q = Accepted rid false cs up ->
  accepted_spec rules p rid cs up.
Proof.
  intros G6 G4 Hp. unfold serve_xfu. destruct (view_xfu (fx6 repaired) host own p q) as [u|] eqn:V; [|discriminate].
  assert (Ev : valid_encoded p = true) by (unfold guard_F4 in G4; apply negb_false_iff in G4; exact G4).
  assert (W : wfenc p).
  { unfold guard_F6, wellformed in G6. apply negb_false_iff in G6. destruct (unescape p) eqn:E; [|discriminate].
    eapply wfenc_of_unescape; eassumption. }
  destruct (view_xfu_mk _ _ _ _ _ _ V W Ev Hp) as (Ne & ->). apply accepted_view; auto.
Qed.

Lemma view_prefix host p q u : view host p q = Some u -> p <> "*" -> has_prefix "/" p = true.
Proof.
  rewrite view_eq. destruct (String.eqb p "*" && is_empty q) eqn:E.
  { apply andb_true_iff in E as [E _]. apply String.eqb_eq in E. congruence. }
  destruct (has_prefix "/" p); [reflexivity|]. simpl. discriminate.
Qed.

Theorem precondition_http rules dflt host q p :
  p <> "*" -> guard_F4 p = false -> enc_slash p = true ->
  (forall r t, In r rules -> In t (r_routes r) -> rmatch (rt_pat t) (segs_of p) = true -> r_setting r = Off) ->
  serve repaired rules dflt host p q = Precondition \/ serve repaired rules dflt host p q = BadRequest \/
  (dflt = false /\ serve repaired rules dflt host p q = NoRule /\
   forall r t, In r rules -> In t (r_routes r) -> rmatch (rt_pat t) (segs_of p) = true -> rt_params t <> []).
Proof.
  intros Hs G4 Es Hoff. unfold serve. destruct (view host p q) as [u|] eqn:V; [|auto].
  assert (Ev : valid_encoded p = true) by (unfold guard_F4 in G4; apply negb_false_iff in G4; exact G4).
  pose proof (view_prefix _ _ _ _ V Hs) as Hp.
  destruct (view_http_mk _ _ _ _ V Ev Hs) as (W & Ne & ->).
  destruct (precondition_view repaired rules dflt host q p Hp Es (or_introl eq_refl) Hoff) as [H|H]; auto.
Qed.

Theorem precondition_envoy rules dflt host q p :
  has_prefix "/" p = true -> enc_slash p = true ->
  (forall r t, In r rules -> In t (r_routes r) -> rmatch (rt_pat t) (segs_of p) = true -> r_setting r = Off) ->
  serve_envoy repaired rules dflt host p q = Precondition \/
  (dflt = false /\ serve_envoy repaired rules dflt host p q = NoRule /\
   forall r t, In r rules -> In t (r_routes r) -> rmatch (rt_pat t) (segs_of p) = true -> rt_params t <> []).
Proof. intros Hp Es Hoff. unfold serve_envoy. rewrite view_envoy_mk. apply precondition_view; auto. Qed.

(** the three answers are reached: precondition error, "no rule" (an `off` rule with
    path_params, no default rule), and an accepted request through X-Forwarded-Uri *)
Example precondition_nonvacuous :
  serve repaired w_rules_F2 false "h" "/a%2Fb" "" = Precondition /\
  serve repaired w_rules_F3 false "h" "/api/a%2Fb" "" = NoRule /\
  serve repaired w_rules_F3 true "h" "/api/a%2Fb" "" = Precondition /\
  exists up, serve_xfu repaired w_rules_nd false "h" "/zz-own" "/files/a%2fb/c%20d" "x=1" =
             Accepted "nd" false [("rest", "a%2Fb/c d")] up.
Proof. splits; try (vm_compute; reflexivity). eexists. vm_compute. reflexivity. Qed.

(** *** X-Forwarded-Uri *)

Lemma ctl_facts_b : forall c, implb (unreserved c || Ascii.eqb c "%"%char) (negb (ctl_byte c)) = true.
Proof. by_ascii. Qed.

Lemma has_ctl_cons c r : has_ctl (String c r) = ctl_byte c || has_ctl r.
Proof. reflexivity. Qed.

Lemma unreserved_not_ctl c : unreserved c = true -> ctl_byte c = false.
Proof. intro H. pose proof (ctl_facts_b c) as B. rewrite H in B. simpl in B. apply negb_true_iff in B. exact B. Qed.

Lemma has_ctl_trip a b r : ishex a = true -> ishex b = true ->
  has_ctl (String "%"%char (String a (String b r))) = has_ctl r.
Proof.
  intros Ha Hb. rewrite !has_ctl_cons.
  rewrite (unreserved_not_ctl a) by (apply ishex_unreserved; assumption).
  rewrite (unreserved_not_ctl b) by (apply ishex_unreserved; assumption). reflexivity.
Qed.

Lemma reenc_has_ctl p p' : reenc p p' -> has_ctl p = has_ctl p'.
Proof.
  induction 1 as [|c s s' Hc _ IH|c a b s s' Hu Ha Hb Hv _ IH|c a b s s' Hu Ha Hb Hv _ IH
                  |a b a' b' s s' Ha Hb Ha' Hb' Hv _ IH].
  - reflexivity.
  - rewrite !has_ctl_cons, IH. reflexivity.
  - rewrite has_ctl_trip by assumption. rewrite has_ctl_cons, (unreserved_not_ctl c Hu). exact IH.
  - rewrite has_ctl_trip by assumption. rewrite has_ctl_cons, (unreserved_not_ctl c Hu). exact IH.
  - rewrite !has_ctl_trip by assumption. exact IH.
Qed.

(** normal form of [view_xfu] on a well-formed value that starts with '/' *)
Lemma view_xfu_eq f6 host own p q : wfenc p -> has_prefix "/" p = true ->
  view_xfu f6 host own p q =
  if has_ctl p || has_ctl q then None
  else Some (mk_view host (if valid_encoded p then p else escape MPath (unescape_or_empty p))
                     q).
Proof.
  intros W Hp. unfold view_xfu. destruct (has_ctl p || has_ctl q); [reflexivity|].
  destruct (wfenc_unescape p W) as [pa Hpa].
  destruct (set_path p) as [[pa' rp]|] eqn:Hs; [|apply set_path_none in Hs; congruence].
  unfold view_of.
  rewrite (set_path_escaped _ _ _ Hs) by (eapply unescape_keeps_slash; [eassumption | eapply set_path_unescape; eassumption]).
  rewrite (set_path_unescape _ _ _ Hs) in Hpa. inversion Hpa; subst pa'.
  rewrite (unescape_or_empty_some _ _ (set_path_unescape _ _ _ Hs)). reflexivity.
Qed.

Theorem reencoding_invariant_xfu fx rules dflt host own q p p' :
  reenc p p' -> has_prefix "/" p = true ->
  guard_F1 rules p p' = false ->
  (fx2 fx = true \/ guard_F2 p p' = false) ->
  (fx3 fx = true \/ guard_F3 rules = false) ->
  decision_eq (serve_xfu fx rules dflt host own p q) (serve_xfu fx rules dflt host own p' q).
Proof.
  intros R Hp G1 G2 G3. unfold serve_xfu.
  assert (Hp' : has_prefix "/" p' = true) by (rewrite <- (reenc_first_byte "/"%char _ _ R) by reflexivity; exact Hp).
  rewrite (view_xfu_eq _ _ _ p q (reenc_wf_l _ _ R) Hp), (view_xfu_eq _ _ _ p' q (reenc_wf_r _ _ R) Hp').
  rewrite <- (reenc_has_ctl _ _ R). destruct (has_ctl p || has_ctl q); [exact I|].
  rewrite <- (reenc_valid_encoded _ _ R), <- (reenc_unescape_or_empty _ _ R).
  destruct (valid_encoded p).
  - eapply serve_view_rel; try eassumption; try reflexivity.
    + apply mk_view_rel; assumption.
    + destruct p; [discriminate | reflexivity].
  - apply decision_eq_refl.
Qed.

Theorem off_rejects_encoded_slash_xfu rules dflt host own q p rid d cs up :
  enc_slash p = true -> guard_F6 p = false -> guard_F4 p = false -> has_prefix "/" p = true ->
  serve_xfu repaired rules dflt host own p q = Accepted rid d cs up ->
  d = false /\ exists r, In r rules /\ r_id r = rid /\ r_setting r <> Off.
Proof.
  intros Es G6 G4 Hp. unfold serve_xfu.
  assert (W : wfenc p).
  { unfold guard_F6, wellformed in G6. apply negb_false_iff in G6. destruct (unescape p) eqn:E; [|discriminate].
    eapply wfenc_of_unescape; eassumption. }
  rewrite (view_xfu_eq _ _ _ p q W Hp). destruct (has_ctl p || has_ctl q); [discriminate|].
  unfold guard_F4 in G4. apply negb_false_iff in G4. rewrite G4.
  apply (off_rejects_encoded_slash_envoy repaired rules dflt host _ p rid d cs up Es (or_introl eq_refl)).
Qed.

Theorem reencoding_invariant_xfu_repaired rules dflt host own q p p' :
  reenc p p' -> has_prefix "/" p = true -> guard_F1 rules p p' = false ->
  decision_eq (serve_xfu repaired rules dflt host own p q) (serve_xfu repaired rules dflt host own p' q).
Proof. intros R Hp G1. apply reencoding_invariant_xfu; auto. Qed.

(** C08-F6 on the tree before d3f6cd7: a forwarded target that did not parse was replaced by the proxy's own target *)
Theorem F6_pinned_refuted :
  enc_slash "/a%2Fb%zz" = true /\ guard_F6 "/a%2Fb%zz" = true /\ guard_F4 "/a%2Fb%zz" = false /\
  serve_xfu before_F6 [] true "h" "/zz-own" "/a%2Fb%zz" "" = Accepted "default" true [] None /\
  serve_xfu repaired [] true "h" "/zz-own" "/a%2Fb%zz" "" = Precondition.
Proof. splits; vm_compute; reflexivity. Qed.

(** on the current tree a forwarded target that does not parse is looked up as it is: the
    `off` clause needs no guard for it *)
Theorem off_rejects_encoded_slash_xfu_any rules dflt host own q p rid d cs up :
  enc_slash p = true -> (guard_F6 p = false -> guard_F4 p = false) -> has_prefix "/" p = true ->
  serve_xfu repaired rules dflt host own p q = Accepted rid d cs up ->
  d = false /\ exists r, In r rules /\ r_id r = rid /\ r_setting r <> Off.
Proof.
  intros Es G Hp. destruct (guard_F6 p) eqn:G6.
  - unfold serve_xfu, view_xfu. destruct (has_ctl p || has_ctl q); [discriminate|].
    unfold guard_F6, wellformed in G6. apply negb_true_iff in G6.
    destruct (unescape p) eqn:Eu; [discriminate|]. apply set_path_none in Eu. rewrite Eu. simpl.
    apply (off_rejects_encoded_slash_envoy repaired rules dflt host q p rid d cs up Es (or_introl eq_refl)).
  - apply off_rejects_encoded_slash_xfu; auto.
Qed.

Theorem capture_decoding_repaired_nd st v : wfenc v -> st <> On ->
  unescape_capture repaired st v = decode_keep_slash v.
Proof. intros W Hs. rewrite (capture_decoding_repaired st v W). destruct st; congruence. Qed.
