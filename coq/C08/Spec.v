(** C08 — specification vocabulary (definitions only; proofs are in C08/Proofs.v).

    Written from the property text, independently of the model functions: what
    an encoded slash is, what "decoded except the encoded slash" means, what is
    compared between a request and its re-encodings, and the conditions on the
    INPUT that characterise the recorded findings (the guards). *)
From HV Require Import Base.Prelude Base.GoUrl C08.Model.

Local Open Scope string_scope.

(** well-formed percent-encoding: every '%' starts an escape *)
Inductive wfenc : string -> Prop :=
| wf_nil : wfenc ""
| wf_plain c s : Ascii.eqb c "%"%char = false -> wfenc s -> wfenc (String c s)
| wf_trip a b s : ishex a = true -> ishex b = true -> wfenc s ->
                  wfenc (String "%"%char (String a (String b s))).

(** the encoded slash in either spelling *)
Definition enc_slash (p : string) : bool := contains "%2F" p || contains "%2f" p.

(** the specification of `no_decode`: everything is decoded except the encoded
    slash, which stays encoded (written %2F) *)
Fixpoint decode_keep_slash (s : string) : string :=
  match s with
  | "" => ""
  | String c r =>
    if Ascii.eqb c "%"%char then
      match r with
      | String a (String b r') =>
        if Ascii.eqb (hexbyte a b) "/"%char then "%2F" ++ decode_keep_slash r'
        else String (hexbyte a b) (decode_keep_slash r')
      | _ => String c (decode_keep_slash r)
      end
    else String c (decode_keep_slash r)
  end.

(** what the property compares: same kind of answer, and for an accepted request
    the same rule and the same captured values *)
Definition decision_eq (a b : outcome) : Prop :=
  match a, b with
  | BadRequest, BadRequest | NoRule, NoRule | Precondition, Precondition => True
  | Accepted r d c _, Accepted r' d' c' _ => r = r' /\ d = d' /\ c = c'
  | _, _ => False
  end.

Definition same_decision (a b : outcome) : bool :=
  match a, b with
  | BadRequest, BadRequest | NoRule, NoRule | Precondition, Precondition => true
  | Accepted r1 d1 c1 _, Accepted r2 d2 c2 _ =>
    String.eqb r1 r2 && Bool.eqb d1 d2 && list_eqb cap_eqb (sort_caps c1) (sort_caps c2)
  | _, _ => false
  end.

(** a piece of a path: one of its segments, or the rest of it from some segment on *)
Definition piece_of (p v : string) : Prop :=
  exists segs, path_segs p = Some segs /\ (In v segs \/ exists k, v = join_with "/" (skipn k segs)).

(** the pieces of a path, as a list (for the evaluator) *)
Definition pieces (p : string) : list string :=
  match path_segs p with
  | Some segs => segs ++ map (fun k => join_with "/" (skipn k segs)) (seq 0 (S (length segs)))
  | None => []
  end.

(** * equivalent spellings, executably (for the evaluator)

    RFC 3986 §6.2.2 normal form: escapes of unreserved octets decoded, the other
    escapes written with upper-case hex digits.  Two well-formed paths are
    equivalent re-encodings of each other when their normal forms are equal
    ([reenc p p' -> equiv_paths p p' = true] is proved in C08/Proofs.v). *)
Fixpoint norm (s : string) : string :=
  match s with
  | EmptyString => EmptyString
  | String c r =>
    match r with
    | String a (String b r') =>
      if Ascii.eqb c "%"%char && ishex a && ishex b then
        let v := hexbyte a b in
        if unreserved v then String v (norm r') else pct_triplet v (norm r')
      else String c (norm r)
    | _ => String c (norm r)
    end
  end.

Definition wellformed (s : string) : bool := match unescape s with Some _ => true | None => false end.

Definition equiv_paths (a b : string) : bool :=
  wellformed a && wellformed b && String.eqb (norm a) (norm b).

(** * guards of the findings *)

(** C08-F1: the lookup compares literal segments of the path expressions with
    the still-encoded segments of the request.  [lit_agree] says that, position
    by position, every literal segment of a path expression compares alike with
    the two spellings. *)
Fixpoint lit_agree (pat : list seg) (segs segs' : list string) : bool :=
  match pat, segs, segs' with
  | Lit l :: p, s :: r, s' :: r' => Bool.eqb (String.eqb l s) (String.eqb l s') && lit_agree p r r'
  | Wild _ :: p, _ :: r, _ :: r' => lit_agree p r r'
  | _, _, _ => true
  end.

Definition segs_of (p : string) : list string :=
  match path_segs p with Some l => l | None => [] end.

(** C08-F1: some literal segment of a path expression compares differently with
    the two spellings of the request path *)
Definition guard_F1 (rules : list rule) (p p' : string) : bool :=
  existsb (fun r => existsb (fun t => negb (lit_agree (rt_pat t) (segs_of p) (segs_of p'))) (r_routes r)) rules.

(** C08-F2: a lower-case %2f *)
Definition guard_F2 (p p' : string) : bool := contains "%2f" p || contains "%2f" p'.

(** C08-F3: a rule with `off` and path_params *)
Definition guard_F3 (rules : list rule) : bool :=
  existsb (fun r => setting_eqb (r_setting r) Off &&
                    existsb (fun t => negb (is_nil (rt_params t))) (r_routes r)) rules.

(** C08-F4: a byte net/url does not accept in an encoded path *)
Definition guard_F4 (p : string) : bool := negb (valid_encoded p).

(** C08-F5: a '$' in the decoded value (it may complete the place-holder) *)
Definition guard_F5 (v : string) : bool := mem_ascii "$"%char (unescape_or_empty v).
