(** C08 — specification vocabulary (definitions only; proofs are in C08/Proofs.v).

    Written from the property text, independently of the model functions: what
    an encoded slash is, what "decoded except the encoded slash" means, what is
    compared between a request and its re-encodings, and the conditions on the
    INPUT that characterise the recorded findings (the guards). *)
From HV Require Import Base.Prelude Base.GoUrl C08.Model.

Local Open Scope string_scope.

(** well-formed percent-encoding: every '%' starts an escape *)
Inductive wfenc : string -> Prop :=
| wf_nil : wfenc ""
| wf_plain c s : Ascii.eqb c "%"%char = false -> wfenc s -> wfenc (String c s)
| wf_trip a b s : ishex a = true -> ishex b = true -> wfenc s ->
                  wfenc (String "%"%char (String a (String b s))).

(** the encoded slash in either spelling *)
Definition enc_slash (p : string) : bool := contains "%2F" p || contains "%2f" p.

(** the specification of `no_decode`: everything is decoded except the encoded
    slash, which stays encoded (written %2F) *)
Fixpoint decode_keep_slash (s : string) : string :=
  match s with
  | "" => ""
  | String c r =>
    if Ascii.eqb c "%"%char then
      match r with
      | String a (String b r') =>
        if Ascii.eqb (hexbyte a b) "/"%char then "%2F" ++ decode_keep_slash r'
        else String (hexbyte a b) (decode_keep_slash r')
      | _ => String c (decode_keep_slash r)
      end
    else String c (decode_keep_slash r)
  end.

(** what the property compares: same kind of answer, and for an accepted request
    the same rule and the same captured values *)
Definition decision_eq (a b : outcome) : Prop :=
  match a, b with
  | BadRequest, BadRequest | NoRule, NoRule | Precondition, Precondition => True
  | Accepted r d c _, Accepted r' d' c' _ => r = r' /\ d = d' /\ c = c'
  | _, _ => False
  end.

Definition same_decision (a b : outcome) : bool :=
  match a, b with
  | BadRequest, BadRequest | NoRule, NoRule | Precondition, Precondition => true
  | Accepted r1 d1 c1 _, Accepted r2 d2 c2 _ =>
    String.eqb r1 r2 && Bool.eqb d1 d2 && list_eqb cap_eqb (sort_caps c1) (sort_caps c2)
  | _, _ => false
  end.

(** a piece of a path: one of its segments, or the rest of it from some segment on *)
Definition piece_of (p v : string) : Prop :=
  exists segs, path_segs p = Some segs /\ (In v segs \/ exists k, v = join_with "/" (skipn k segs)).

(** the pieces of a path, as a list (for the evaluator) *)
Definition pieces (p : string) : list string :=
  match path_segs p with
  | Some segs => segs ++ map (fun k => join_with "/" (skipn k segs)) (seq 0 (S (length segs)))
  | None => []
  end.

(** * equivalent spellings, executably (for the evaluator)

    RFC 3986 §6.2.2 normal form: escapes of unreserved octets decoded, the other
    escapes written with upper-case hex digits.  Two well-formed paths are
    equivalent re-encodings of each other when their normal forms are equal
    ([reenc p p' -> equiv_paths p p' = true] is proved in C08/Proofs.v). *)
Fixpoint norm (s : string) : string :=
  match s with
  | EmptyString => EmptyString
  | String c r =>
    match r with
    | String a (String b r') =>
      if Ascii.eqb c "%"%char && ishex a && ishex b then
        let v := hexbyte a b in
        if unreserved v then String v (norm r') else pct_triplet v (norm r')
      else String c (norm r)
    | _ => String c (norm r)
    end
  end.

Definition wellformed (s : string) : bool := match unescape s with Some _ => true | None => false end.

Definition equiv_paths (a b : string) : bool :=
  wellformed a && wellformed b && String.eqb (norm a) (norm b).

(** the raw values a path expression captures from the segments of a path, position
    by position (literals are not compared here): a wildcard takes the segment at
    its position, a free wildcard the rest of the path *)
Fixpoint route_caps (pat : list seg) (segs : list string) : option caps :=
  match pat, segs with
  | [], [] => Some []
  | Lit _ :: p, _ :: r => route_caps p r
  | Wild n :: p, s :: r => option_map (cons (n, s)) (route_caps p r)
  | [CatchAll n], _ :: _ => Some [(n, join_with "/" segs)]
  | _, _ => None
  end.

(** what a captured raw value must look like in the pipeline, per setting *)
Definition spec_capture (st : setting) (v : string) : string :=
  match st with NoDecode => decode_keep_slash v | _ => unescape_or_empty v end.

(** * guards of the findings *)

(** C08-F1: the lookup compares literal segments of the path expressions with
    the still-encoded segments of the request.  [rmatch pat segs]: the path
    expression matches the segments as they are spelled (literals byte for byte,
    a wildcard takes one non-empty segment, a free wildcard the non-empty rest). *)
Fixpoint rmatch (pat : list seg) (segs : list string) : bool :=
  match pat, segs with
  | [], [] => true
  | Lit l :: p, s :: r => String.eqb l s && rmatch p r
  | Wild _ :: p, s :: r => negb (is_empty s) && rmatch p r
  | [CatchAll _], _ :: _ => negb (is_empty (join_with "/" segs))
  | _, _ => false
  end.

Definition segs_of (p : string) : list string :=
  match path_segs p with Some l => l | None => [] end.

(** C08-F1: some path expression matches one spelling of the request path and not the other *)
Definition guard_F1 (rules : list rule) (p p' : string) : bool :=
  existsb (fun r => existsb (fun t => negb (Bool.eqb (rmatch (rt_pat t) (segs_of p)) (rmatch (rt_pat t) (segs_of p'))))
                            (r_routes r)) rules.

(** C08-F2: a lower-case %2f *)
Definition guard_F2 (p p' : string) : bool := contains "%2f" p || contains "%2f" p'.

(** C08-F3: a rule with `off` and path_params *)
Definition guard_F3 (rules : list rule) : bool :=
  existsb (fun r => setting_eqb (r_setting r) Off &&
                    existsb (fun t => negb (is_nil (rt_params t))) (r_routes r)) rules.

(** C08-F4: a byte net/url does not accept in an encoded path *)
Definition guard_F4 (p : string) : bool := negb (valid_encoded p).

(** C08-F5: a '$' in the decoded value (it may complete the place-holder) *)
Definition guard_F5 (v : string) : bool := mem_ascii "$"%char (unescape_or_empty v).

(** C08-F6: an X-Forwarded-Uri whose path does not parse (malformed escape) *)
Definition guard_F6 (p : string) : bool := negb (wellformed p).

(** * what an accepted request looks like (stated by [C08_accepted_request*]) *)

(** what [create_url_q] writes into the request line for a `no_decode` rule: the
    request path as it is, after the rule's prefix rewriting *)
Definition expected_wire (b : backend) (p : string) : string :=
  match b_rw b with Some rw => transform_path rw p | None => p end.

(** the accepted request was matched by a rule [r] with id [rid] through one of its path
    expressions [t] that matches the path as it is spelled; the captured values are the
    segments at [t]'s wildcards, decoded as the rule's setting says; `off` never accepts an
    encoded slash; `no_decode` sends upstream the path as it is after the prefix rewriting,
    whenever net/url writes that path unchanged (well-formed, valid as an encoded path) *)
Definition accepted_spec (rules : list rule) (p rid : string) (cs : caps) (up : option hurl) : Prop :=
  exists r t raw,
    In r rules /\ r_id r = rid /\ In t (r_routes r) /\
    rmatch (rt_pat t) (segs_of p) = true /\
    route_caps (rt_pat t) (segs_of p) = Some raw /\
    cs = map (fun kv => (fst kv, spec_capture (r_setting r) (snd kv))) raw /\
    (r_setting r = Off -> enc_slash p = false) /\
    (r_setting r = NoDecode -> forall b, r_backend r = Some b ->
       wfenc (expected_wire b p) -> valid_encoded (expected_wire b p) = true -> valid_encoded p = true ->
       exists u', up = Some u' /\ wire_path u' = expected_wire b p).
