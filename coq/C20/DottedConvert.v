(** C20 — env.go [convert] for EVERY well-formed name, the C20-F4 shape
    included: two or more name segments below a list index become one map
    entry with a dotted key.  Read through its dotted keys ([dview]) the
    converted value shows exactly what the specification says one variable
    contributes; it is well formed in the wider sense ([DT]); and its dotted
    keys sit exactly at the sites that the guard of C20-F4 enumerates
    ([f4_sites]). *)
From HV Require Import Base.Prelude C20.Model C20.Spec C20.Facts C20.MergeProofs C20.ConvertProofs
  C20.NodeAlg C20.TrieProofs C20.DottedBase.
From Coq Require Import Permutation.

(** the element that [convert] puts into the sparse slice *)
Definition elem_of (k' : list string) (u' : cfg) : cfg :=
  if key_is_empty k' then u' else Map [((k', None), u')].

Definition segs_ne (k : list string) : Prop := Forall (fun s => s <> EmptyString) k.

Lemma key_is_empty_false s r : s <> EmptyString -> key_is_empty (s :: r) = false.
Proof.
  intro N. destruct r; [|reflexivity]. simpl.
  destruct (String.eqb s EmptyString) eqn:E; [apply String.eqb_eq in E; contradiction | reflexivity].
Qed.

Lemma elem_expand k' u' : segs_ne k' -> expand (elem_of k' u') = expand (nest k' u').
Proof.
  intro H. unfold elem_of. destruct k' as [|s r]; [reflexivity|].
  apply Forall_cons_iff in H as [Hs _]. rewrite (key_is_empty_false s r Hs).
  rewrite expand_Map, expand_nest. cbn [map]. unfold xent. cbn [fst snd].
  unfold khd, ktl. cbn [fst tl].
  destruct r as [|s2 r']; [reflexivity|]. rewrite (nest_cons s (s2 :: r')) by discriminate. reflexivity.
Qed.

Lemma elem_dview k' u' q : segs_ne k' -> dview q (elem_of k' u') = dview q (nest k' u').
Proof. intro H. unfold dview. rewrite (elem_expand k' u' H). reflexivity. Qed.

Lemma elem_DT k' u' : segs_ne k' -> u' <> Nil -> DT u' -> DT (elem_of k' u') /\ elem_of k' u' <> Nil.
Proof.
  intros H N T. unfold elem_of. destruct k' as [|s r]; [simpl; auto|].
  apply Forall_cons_iff in H as [Hs _]. rewrite (key_is_empty_false s r Hs). split; [|discriminate].
  constructor.
  - simpl. constructor; [simpl; tauto | constructor].
  - constructor; [|constructor]. unfold dentry_ok, dkey_ok. simpl. splits; auto. discriminate.
Qed.

Lemma elem_DK k' u' pi s :
  segs_ne k' -> DK (elem_of k' u') pi s ->
  (pi = [] /\ 2 <= length k' /\ s = hd EmptyString k') \/ (exists pi', pi = map SK k' ++ pi' /\ DK u' pi' s).
Proof.
  intros H D. unfold elem_of in D. destruct k' as [|s0 r]; [right; exists pi; auto|].
  apply Forall_cons_iff in H as [Hs _]. rewrite (key_is_empty_false s0 r Hs) in D.
  apply DK_Map_inv in D as [(-> & k & v & Hin & Hl & ->) | (k & v & pi' & Hin & -> & Hd)].
  - destruct Hin as [Hin|[]]. inv Hin. left. auto.
  - destruct Hin as [Hin|[]]. inv Hin. right. exists pi'. auto.
Qed.

Lemma dview_nest_contrib P w u :
  (forall q, dview q u = contrib q (P, w)) ->
  forall k p, dview p (nest k u) = contrib p (map SK k ++ P, w).
Proof.
  intros H. induction k as [|s r IH]; intro p; [apply H|].
  destruct p as [|[s'|i] q].
  - unfold dview. rewrite expand_nest. rewrite view_nest_root by discriminate. reflexivity.
  - rewrite dview_nest_cons. simpl map. simpl app. rewrite contrib_cons. simpl seg_eqb.
    destruct (String.eqb s' s); [apply IH | reflexivity].
  - unfold dview. rewrite expand_nest. rewrite view_nest_SI by discriminate. simpl map. simpl app.
    rewrite contrib_cons. reflexivity.
Qed.

Lemma psegs_app a b : psegs (a ++ b) = psegs a ++ psegs b.
Proof. unfold psegs. apply map_app. Qed.

Lemma name_prefix_hd rest : name_prefix rest <> [] -> hd EmptyString rest = hd EmptyString (name_prefix rest).
Proof. destruct rest as [|p r]; simpl; [congruence|]. destruct (is_num p); simpl; congruence. Qed.

Lemma name_prefix_ne parts : Forall seg_ok parts -> segs_ne (name_prefix parts).
Proof.
  intro H. apply Forall_forall. intros s Hs. apply name_prefix_incl in Hs.
  rewrite Forall_forall in H. destruct (H _ Hs). assumption.
Qed.

(** what [convert] returns for a variable with scalar value [w], whatever the shape of its name *)
Lemma convert_specD w : forall parts pre,
  Forall seg_ok parts ->
  exists u, convert false parts (Leaf w) = Ok (name_prefix parts, u) /\
            u <> Nil /\ DT u /\ Plain u /\
            (forall q, dview q u = contrib q (psegs (rel parts), w)) /\
            (forall pi s, DK u pi s ->
               exists site, In site (f4_sites pre parts) /\
                            psegs pre ++ map SK (name_prefix parts) ++ pi = psegs (fst site) /\ s = snd site).
Proof.
  induction parts as [|p rest IH]; intros pre Hok.
  - exists (Leaf w). simpl. splits; auto; try discriminate; try constructor.
    + intro q. symmetry. apply contrib_nil_path.
    + intros pi s H. exfalso. eapply DK_Leaf; eauto.
  - apply Forall_cons_iff in Hok as [[Hne Hidx] Hok].
    destruct (IH (pre ++ [p]) Hok) as (u' & Hc & Hn & Ht & Hp & Hv & Hd). clear IH.
    simpl convert. rewrite Hc. destruct (is_num p) eqn:Enum.
    + (* an index: the remainder becomes one element of a sparse slice *)
      assert (Hb : (max_index <? atoi p)%N = false) by (apply N.ltb_ge; auto).
      rewrite Hb.
      set (n := N.to_nat (atoi p)).
      set (k' := name_prefix rest) in *.
      assert (Hk' : segs_ne k') by (apply name_prefix_ne; assumption).
      change (if key_is_empty k' then u' else Map [(k', None, u')]) with (elem_of k' u').
      assert (Hrel : rel (p :: rest) = p :: rest) by (unfold rel; simpl; rewrite Enum; reflexivity).
      assert (Hnp : name_prefix (p :: rest) = []) by (simpl; rewrite Enum; reflexivity).
      rewrite Hrel, Hnp. simpl psegs. unfold seg_of at 1. rewrite Enum. fold n.
      destruct (elem_DT k' u' Hk' Hn Ht) as [Te Ne].
      exists (Lst (repeat Nil n ++ [elem_of k' u'])). splits; auto; try discriminate.
      * constructor. apply Forall_app. split; [|constructor; [assumption | constructor]].
        apply Forall_forall. intros x Hx. apply repeat_spec in Hx. subst. constructor.
      * simpl. trivial.
      * intros [|[s'|i] q].
        -- rewrite dview_Lst_root, app_length, repeat_length. simpl. rewrite Nat.add_1_r. reflexivity.
        -- rewrite dview_Lst_SK, contrib_cons. reflexivity.
        -- rewrite dview_Lst_nth, nth_repeat_snoc, contrib_cons. simpl seg_eqb.
           destruct (Nat.eqb i n); [|apply dview_Nil].
           rewrite (elem_dview k' u' q Hk'). rewrite (psegs_split rest). fold k'.
           apply dview_nest_contrib. assumption.
      * intros pi s H. apply DK_Lst_inv in H as (i & pi' & -> & H).
        rewrite nth_repeat_snoc in H. destruct (Nat.eqb i n) eqn:Ei; [|exfalso; eapply DK_Nil; eauto].
        apply Nat.eqb_eq in Ei. subst i.
        assert (Ep : psegs (pre ++ [p]) = psegs pre ++ [SI n]).
        { rewrite psegs_app. simpl. unfold seg_of. rewrite Enum. reflexivity. }
        cbn [map app f4_sites]. rewrite Enum. fold k'.
        destruct (elem_DK k' u' pi' s Hk' H) as [(-> & Hl & ->) | (pi2 & -> & H2)].
        -- exists (pre ++ [p], hd EmptyString rest). splits.
           ++ apply in_or_app. left. apply Nat.leb_le in Hl. rewrite Hl. left. reflexivity.
           ++ simpl fst. rewrite Ep. reflexivity.
           ++ simpl snd. symmetry. apply name_prefix_hd. fold k'. destruct k'; simpl in Hl; [lia | discriminate].
        -- destruct (Hd pi2 s H2) as (site & Hin & E1 & E2).
           exists site. splits; auto.
           ++ apply in_or_app. right. assumption.
           ++ rewrite <- E1, Ep, <- app_assoc. reflexivity.
    + (* a name segment: it joins the key prefix *)
      exists u'.
      assert (Hrel : rel (p :: rest) = rel rest) by (unfold rel; simpl; rewrite Enum; reflexivity).
      assert (Hnp : name_prefix (p :: rest) = p :: name_prefix rest) by (simpl; rewrite Enum; reflexivity).
      rewrite Hrel, Hnp. splits; auto.
      intros pi s H. destruct (Hd pi s H) as (site & Hin & E1 & E2).
      exists site. splits; auto.
      * cbn [f4_sites]. rewrite Enum. simpl. assumption.
      * rewrite <- E1. rewrite psegs_app. simpl. unfold seg_of. rewrite Enum. rewrite <- app_assoc. reflexivity.
Qed.
